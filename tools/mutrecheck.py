#!/usr/bin/env python3
"""Re-evaluates the survivors of a mutation campaign (mutcampaign/results-*.jsonl) with the current checker.
usage: mutrecheck.py mutcampaign/results-seed1.jsonl [-j 6] [--list]"""
import json, subprocess, os, tempfile, shutil, sys, concurrent.futures as cf
ENV = dict(os.environ, GOFLAGS='-mod=mod', GOPROXY='off', GOSUMDB='off', GOTOOLCHAIN='local')
ENV.pop('GOWORK', None)
path = sys.argv[1]
jobs = int(sys.argv[sys.argv.index('-j') + 1]) if '-j' in sys.argv else 6
recs = [json.loads(l) for l in open(path)]
surv = [r for r in recs if r.get('status') == 'ok' and r['tests'] == 'survived']
def run(r):
    d = tempfile.mkdtemp(prefix='wc-mr.', dir='/tmp')
    try:
        subprocess.run(['rsync', '-a', '--exclude', '.git', '/repo/', d + '/'], check=True)
        a = subprocess.run(['/verif/bin/mutgen', '-dir', d, '-pkg', r['pkg'], '-apply', str(r['site'])], env=ENV, capture_output=True, text=True)
        if a.stdout.strip() != r['mutation']:
            return r, None
        w = subprocess.run(['/verif/bin/wirecheck', '-repo', d, '-property', 'all', '-evidence', d + '/.ev', '-known', '/verif/known_findings.json'], env=ENV, capture_output=True, text=True)
        rules = sorted({l.split()[1] for l in w.stdout.splitlines() if l.startswith('  VIOLATION') or l.startswith('  UNDECIDED')})
        return r, rules
    finally:
        shutil.rmtree(d, ignore_errors=True)
rep = unrep = stale = 0
un = []
with cf.ThreadPoolExecutor(jobs) as ex:
    for r, rules in ex.map(run, surv):
        if rules is None:
            stale += 1
        elif rules:
            rep += 1
        else:
            unrep += 1
            un.append(r['mutation'])
print('%s: %d survivors, reported now %d, not reported %d, site list changed %d' % (path, len(surv), rep, unrep, stale))
if '--list' in sys.argv:
    for m in sorted(un):
        print('  ', m[:160])
