#!/bin/bash
# usage: show_alarms.sh <id> : prints patch summary and alarms
d=/tmp/seed-out/$1
[ -d $d ] || d=/verif/seeded/neutral/$1
/verif/tools/try_patch.sh $d/patch.diff all | grep '^  VIOLATION\|^  UNDECIDED' | sort -u | cut -c1-${2:-330}
