#!/bin/bash
# usage: try_patch.sh <patch.diff> [property|all]
# Applies the patch to a scratch copy of /repo's working tree (outside /repo and
# /verif), runs wirecheck on the copy, prints the verdict, removes the copy.
set -u
P=$(readlink -f "$1"); PROP=${2:-all}
D=$(mktemp -d /tmp/wc-scratch.XXXXXX)
trap 'rm -rf "$D"' EXIT
rsync -a --exclude .git /repo/ "$D/"
if ! (cd "$D" && git init -q 2>/dev/null; git -C "$D" apply --whitespace=nowarn "$P" 2>/dev/null); then
  echo "PATCH-DOES-NOT-APPLY $P"; exit 3
fi
export GOFLAGS=-mod=mod GOPROXY=off GOSUMDB=off GOTOOLCHAIN=local; unset GOWORK
mkdir -p "$D/.ev"
/verif/bin/wirecheck -repo "$D" -property "$PROP" -evidence "$D/.ev" -known /verif/known_findings.json | grep -E "VIOLATION|UNDECIDED|cannot load" | sed "s#$D/##g"
exit 0
