#!/bin/bash
# usage: recut_auto.sh <dir-with-patch.diff>...  : tries a 3-way apply, then patch(1) with fuzz, on a fresh worktree of /repo HEAD;
# on success (and a successful build) replaces patch.diff (old kept as patch.orig.diff if none yet)
export GOFLAGS=-mod=mod GOPROXY=off GOSUMDB=off GOTOOLCHAIN=local; unset GOWORK
for S in "$@"; do
  S=$(readlink -f "$S"); W=/tmp/rc-$(basename $S)
  git -C /repo worktree remove --force $W >/dev/null 2>&1; rm -rf $W
  git -C /repo worktree add -q --detach $W HEAD || continue
  how=""
  if git -C $W apply --whitespace=nowarn "$S/patch.diff" 2>/dev/null; then how="as-is"
  elif git -C $W apply -3 --whitespace=nowarn "$S/patch.diff" >/dev/null 2>&1 && ! git -C $W diff --name-only --diff-filter=U | grep -q .; then how="3-way"
  else git -C $W reset -q --hard; git -C $W clean -fdq; if patch -d $W -p1 -s --no-backup-if-mismatch < "$S/patch.diff" >/dev/null 2>&1; then how="fuzz"; fi; fi
  if [ -n "$how" ] && (cd $W && go build ./... 2>/dev/null); then
    if [ "$how" != "as-is" ]; then [ -f "$S/patch.orig.diff" ] || cp "$S/patch.diff" "$S/patch.orig.diff"; git -C $W add -A -N . >/dev/null 2>&1; git -C $W diff HEAD > "$S/patch.diff"; fi
    echo "$(basename $S): $how"
  else echo "$(basename $S): MANUAL ($how)"; fi
  git -C /repo worktree remove --force $W >/dev/null 2>&1; rm -rf $W
done
