#!/bin/bash
# Runs the repository's pinned baseline suite (guard OFF: no build tags) and
# compares the passing set with /root/.vp/BASELINE.json's stable_pass list.
# usage: baseline.sh [repo-dir]
REPO=${1:-/repo}
export GOFLAGS=-mod=mod GOPROXY=off GOSUMDB=off GOTOOLCHAIN=local
unset GOWORK
out=$(mktemp)
(cd "$REPO" && go test -json -vet=off -count=1 -timeout ${BASELINE_TIMEOUT:-25m} ./... ) > "$out" 2>/dev/null
python3 - "$out" <<'PY'
import json,sys
passed=set()
for l in open(sys.argv[1]):
    try: e=json.loads(l)
    except Exception: continue
    if e.get('Action')=='pass' and e.get('Test'):
        passed.add(e['Package']+'::'+e['Test'])
want=set(json.load(open('/root/.vp/BASELINE.json'))['stable_pass'])
missing=sorted(want-passed)
print('baseline: %d/%d stable tests pass'%(len(want)-len(missing),len(want)))
for m in missing: print('  MISSING',m)
sys.exit(1 if missing else 0)
PY
rc=$?
rm -f "$out"
exit $rc
