#!/usr/bin/env python3
"""Intake of seeded breaking changes produced by sub-agents under /tmp/seed-out/<id>/ (patch.diff, demo/, NOTES.md):
first-run status with the rules as they stand, confirmation (tools/confirm_seed.sh), storage under seeded/<id>/ with
meta.json. usage: intake_seeds.py <round> <origin-note> <json: {id: needs-to-manifest}>"""
import json, os, shutil, subprocess, sys
rnd, origin, needs = sys.argv[1], sys.argv[2], json.loads(sys.argv[3])
for sid, need in needs.items():
    src = '/tmp/seed-out/' + sid
    prop = sid.split('-')[0]
    if not os.path.exists(src + '/patch.diff'):
        print(sid, 'no patch'); continue
    own = subprocess.run(['/verif/tools/try_patch.sh', src + '/patch.diff', prop], capture_output=True, text=True).stdout
    allp = subprocess.run(['/verif/tools/try_patch.sh', src + '/patch.diff', 'all'], capture_output=True, text=True).stdout
    own_rules = sorted({l.split()[1] for l in own.splitlines() if l.startswith('  VIOLATION') or l.startswith('  UNDECIDED')})
    props = sorted({l.split('property=')[1].split()[0] for l in allp.splitlines() if l.startswith('VIOLATION property=')})
    first = 'detected' if own_rules else ('other property only (%s)' % ','.join(props) if props else 'missed')
    conf = subprocess.run(['/verif/tools/confirm_seed.sh', src], capture_output=True, text=True).stdout.strip().splitlines()
    result = conf[-1] if conf else ''
    ok = 'demo-clean=PASS' in result and 'demo-patched=FAIL' in result and '96/96' in result
    print(sid, '| first run:', first, '|', result[:200])
    if not ok:
        print('   NOT CONFIRMED — not stored'); continue
    dst = '/verif/seeded/' + sid
    if os.path.exists(dst): shutil.rmtree(dst)
    os.makedirs(dst)
    shutil.copy(src + '/patch.diff', dst + '/patch.diff')
    if os.path.exists(src + '/NOTES.md'): shutil.copy(src + '/NOTES.md', dst + '/NOTES.md')
    if os.path.isdir(src + '/demo'): shutil.copytree(src + '/demo', dst + '/demo', ignore=shutil.ignore_patterns('wirebin*', '*.exe'))
    rules = result.split('rules=[')[1].split(']')[0].split(',') if 'rules=[' in result else []
    rprops = result.split('props=[')[1].split(']')[0].split(',') if 'props=[' in result else []
    meta = {"id": sid, "round": int(rnd), "property_broken": prop, "origin": origin, "needs_to_manifest": need,
            "first_run": {"own_property": first, "note": "status with the rule set as it stood before this seed was looked at"},
            "confirmed": {"command": "/verif/tools/confirm_seed.sh /verif/seeded/" + sid,
                          "what_was_run": "scratch worktree of /repo HEAD: demonstration test without the patch (pass), git apply patch.diff, go build ./..., demonstration test with the patch (fail), pinned 96-test baseline with the patch (96/96), wirecheck -property all on the patched tree",
                          "result": result},
            "detected_by_rules": [r for r in rules if r], "properties_reporting_violation": [p for p in rprops if p],
            "detected_under_own_property": prop in rprops}
    json.dump(meta, open(dst + '/meta.json', 'w'), indent=1)
