#!/bin/bash
# usage: rebase_patch.sh <dir-with-patch.diff>
# Re-bases a stored patch onto /repo HEAD with a 3-way apply (the patch's blob
# ids exist in /repo's object database because it was cut from a worktree of it).
# On success patch.diff is replaced and the old one kept as patch.orig.diff.
set -u
S=$(readlink -f "$1"); W=/tmp/rb-$(basename $S)
git -C /repo worktree remove --force $W >/dev/null 2>&1; rm -rf $W
git -C /repo worktree add -q --detach $W HEAD || exit 2
trap 'git -C /repo worktree remove --force $W >/dev/null 2>&1; rm -rf $W' EXIT
if git -C $W apply --whitespace=nowarn "$S/patch.diff" 2>/dev/null; then echo "$(basename $S): applies as is"; exit 0; fi
if git -C $W apply -3 --whitespace=nowarn "$S/patch.diff" >/tmp/rb.log 2>&1 && ! git -C $W diff --name-only --diff-filter=U | grep -q .; then
  git -C $W add -A -N . >/dev/null 2>&1
  [ -f "$S/patch.orig.diff" ] || cp "$S/patch.diff" "$S/patch.orig.diff"
  git -C $W diff HEAD > "$S/patch.diff"
  export GOFLAGS=-mod=mod GOPROXY=off GOSUMDB=off GOTOOLCHAIN=local; unset GOWORK
  if (cd $W && go build ./... 2>/dev/null); then echo "$(basename $S): rebased (3-way), builds"; else echo "$(basename $S): rebased (3-way) but DOES NOT BUILD"; fi
  exit 0
fi
echo "$(basename $S): CONFLICT"; git -C $W diff --name-only --diff-filter=U | head -3; exit 1
