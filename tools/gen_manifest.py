#!/usr/bin/env python3
"""Regenerates /verif/MANIFEST.json from the table below and the rule list of
the built wirecheck binary. Run after changing which properties are claimed."""
import json, subprocess, sys

CLAIMS = json.load(open('/verif/tools/claims.json'))

checks = []
na = []
for pid in ['C%02d' % i for i in range(1, 21)]:
    c = CLAIMS.get(pid)
    if not c or not c.get('claimed'):
        na.append({"property_id": pid, "reason": (c or {}).get('reason', 'no sound static rule built yet for this property in this commit')})
        continue
    checks.append({
        "property_id": pid,
        "quick_cmd": "/verif/check.sh %s quick" % pid,
        "thorough_cmd": "/verif/check.sh %s thorough" % pid,
        "evidence_file": "/verif/evidence/%s.json" % pid,
        "replay_cmd_template": "/verif/bin/wirecheck -replay {path}",
        "engine": "wirecheck",
        "level_claimed": {"category": "other", "text": c['text'], "design_ref": "DESIGN.md §4 " + pid},
        "level_note": c['note'],
        "technique": c['technique'],
    })

m = {
    "version": 1,
    "setup_cmd": "cd /verif/checker && GOFLAGS=-mod=mod GOPROXY=off GOSUMDB=off GOTOOLCHAIN=local go build -o /verif/bin/wirecheck .",
    "hooks": {
        "guard": "verif",
        "enable": "none needed: every check is a static analysis of /repo's source tree; no hook or instrumentation exists in /repo (build tag 'verif' is reserved and unused)",
        "baseline_off_cmd": "/verif/tools/baseline.sh /repo",
        "source_commits": [],
        "add_only": True,
    },
    "engines": [{
        "name": "wirecheck",
        "path": "/verif/checker",
        "serves_properties": [c['property_id'] for c in checks],
        "kind_free_text": "bespoke static analyser for google/wire over go/packages typed syntax trees: branch-outcome (dominating guard) analysis, structural value equality through single-assignment locals, decision tables per return, emission-template analysis, exhaustiveness tables computed from types, in-module reachability; obligations keyed rule@construct; fail-closed on missing anchors",
    }],
    "checks": checks,
    "notes": "All claims are level 'other': each check decides named structural necessary conditions of its property (DESIGN.md §4, S-clauses) on every run from /repo's current source; the behavioural remainder (B lines in DESIGN.md) is not decided. Known findings: /verif/known_findings.json.",
    "not_applicable": na,
}
json.dump(m, open('/verif/MANIFEST.json', 'w'), indent=1)
print("claimed:", [c['property_id'] for c in checks], "not_applicable:", [n['property_id'] for n in na])
