#!/usr/bin/env python3
import json, sys, glob, jsonschema
ok = True
try:
    jsonschema.validate(json.load(open('/verif/MANIFEST.json')), json.load(open('/root/.vp/MANIFEST.schema.json')))
    print('MANIFEST valid')
except Exception as e:
    ok = False; print('MANIFEST INVALID', e)
es = json.load(open('/root/.vp/EVIDENCE.schema.json'))
for f in sorted(glob.glob('/verif/evidence/C*.json')):
    try:
        jsonschema.validate(json.load(open(f)), es)
    except Exception as e:
        ok = False; print('EVIDENCE INVALID', f, str(e)[:300])
print('evidence files:', len(glob.glob('/verif/evidence/C*.json')))
sys.exit(0 if ok else 1)
