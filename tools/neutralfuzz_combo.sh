#!/bin/bash
# usage: neutralfuzz_combo.sh <seed> [k=4] [base]
# Stacks k randomly chosen behaviour-preserving rewrites (tools/neutralfuzz) on one scratch copy of /repo
# (each applied to every function of both analysed packages), builds it, optionally runs the pinned
# baseline, and requires wirecheck to stay silent.
export GOFLAGS=-mod=mod GOPROXY=off GOSUMDB=off GOTOOLCHAIN=local; unset GOWORK
S=$1; K=${2:-4}; B=${3:-}
D=$(mktemp -d /tmp/wc-nfc.XXXXXX); [ -n "$KEEP" ] && echo "kept $D" || trap 'rm -rf "$D"' EXIT
rsync -a --exclude .git /repo/ "$D/"
TS=$(python3 -c "
import random,sys
r=random.Random(int(sys.argv[1]))
T='rename invert swapeq negform demorgan parens constextract hoistcond guard2else switch2if retlocal varform reorder splitinit mergeinit hoistarg ret2else splitand lencmp incr boolret predfunc rangeidx elsenest swapand kvorder caseorder renamefile extractblock countloop flag2counter labelcontinue joinvar'.split()
print(' '.join(r.sample(T,int(sys.argv[2]))))" "$S" "$K")
applied=""
for t in $TS; do
  for p in ./internal/wire ./cmd/wire; do
    cp -r "$D" "$D.bak"
    out=$(/verif/bin/neutralfuzz -dir "$D" -pkg "$p" -func '*' -t "$t" 2>&1)
    if [ $? -ne 0 ] || ! (cd "$D" && go build ./... 2>/dev/null); then
      # a rewrite that does not compose with the earlier ones is skipped (the fuzzer's limitation, not the checker's)
      rm -rf "$D"; mv "$D.bak" "$D"; applied="$applied ($t:$p skipped)"
    else
      rm -rf "$D.bak"; applied="$applied $t:${p##*/}=${out%% *}"
    fi
  done
done
if [ -n "$B" ]; then b=$(/verif/tools/baseline.sh "$D" | head -1); case "$b" in *"96/96"*) ;; *) echo "combo seed=$S:$applied: BASELINE-CHANGED $b"; exit 2;; esac; fi
mkdir -p "$D/.ev"
al=$(/verif/bin/wirecheck -repo "$D" -property all -evidence "$D/.ev" -known /verif/known_findings.json | grep -E '^  (VIOLATION|UNDECIDED)|cannot load' | awk '{print $2" "$3" "$4" "$5" "$6}' | sort -u | tr '\n' ';')
echo "combo seed=$S:$applied: ${al:-silent}"
[ -z "$al" ]
