#!/bin/bash
# every stored breaking seed must be detected under its own property; every neutral patch must be silent (or be a documented alarm)
cd /verif
for d in seeded/C*; do s=$(basename $d); p=${s%-*}; out=$(./tools/try_patch.sh $d/patch.diff $p 2>&1 | grep -c "^VIOLATION property"); [ "$out" = 0 ] && echo "MISSED $s"; done
for d in seeded/neutral/*; do s=$(basename $d); out=$(./tools/try_patch.sh $d/patch.diff all 2>&1 | grep -v "^VIOLATION property" | grep -o "VIOLATION [A-Z0-9.a-z]* @[^ ]*\|PATCH-DOES-NOT-APPLY" | sort -u | tr '\n' ';'); if [ -n "$out" ]; then if grep -q '"observed": "alarm"' $d/meta.json 2>/dev/null; then echo "documented $s: $out"; else echo "ALARM $s: $out"; fi; fi; done
echo done
