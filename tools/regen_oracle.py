#!/usr/bin/env python3
"""Regenerates checker/emit_oracle.go from the traces of the CURRENT /repo tree.
Only to be used after REVIEWING the printed diff: the oracle is the reviewed
model of the generated code, not a snapshot."""
import re, subprocess
d=subprocess.run(['/verif/bin/wirecheck','-dump-emit'],capture_output=True,text=True).stdout
blocks=re.split(r'^## ', d, flags=re.M)[1:]
want=["injectorGen.p","injectPass","injectorGen.funcProviderCall","injectorGen.structProviderCall","injectorGen.valueExpr","injectorGen.fieldExpr","gen.frame","copyNonInjectorDecls"]
src=open('/verif/checker/emit_oracle.go').read()
head=src[:src.index('var emitOracle')]
out=[head,'var emitOracle = map[string]string{\n']
for b in blocks:
    name=b.split(' ',1)[0]
    if name not in want: continue
    body=b.split('\n',2)[1]
    assert '`' not in body
    out.append('\t"%s": `%s`,\n\n'%(name,body))
out.append('}\n')
open('/verif/checker/emit_oracle.go','w').write(''.join(out))
