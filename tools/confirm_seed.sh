#!/bin/bash
# usage: confirm_seed.sh <seed-dir containing patch.diff and demo/> [outfile]
# Confirms, in a scratch worktree of /repo HEAD (outside /repo and /verif), that
#  (1) the patch applies and builds, (2) the pinned baseline still passes with it,
#  (3) the demonstration test passes without the patch and fails with it,
#  (4) which wirecheck rules fire. Removes the worktree afterwards.
set -u
S=$(readlink -f "$1"); ID=$(basename "$S")
export GOFLAGS=-mod=mod GOPROXY=off GOSUMDB=off GOTOOLCHAIN=local; unset GOWORK
W=/tmp/cs-$ID
git -C /repo worktree remove --force "$W" >/dev/null 2>&1; rm -rf "$W"
git -C /repo worktree add -q --detach "$W" HEAD || { echo "$ID WORKTREE-FAIL"; exit 2; }
trap 'git -C /repo worktree remove --force "$W" >/dev/null 2>&1; rm -rf "$W"' EXIT
res="$ID"
# place demo tests
tests=""
for f in "$S"/demo/*_test.go; do
  [ -f "$f" ] || continue
  pk=$(grep -m1 '^package ' "$f" | awk '{print $2}')
  if [ "$pk" = main ]; then d=cmd/wire; else d=internal/wire; fi
  cp "$f" "$W/$d/"
  names=$(grep -o '^func Test[A-Za-z0-9_]*' "$f" | sed 's/func //' | paste -sd'|')
  tests="$tests $d:$names"
done
[ -z "$tests" ] && { echo "$ID NO-DEMO-TEST"; exit 2; }
run_demo() {
  local ok=0
  for t in $tests; do
    d=${t%%:*}; n=${t#*:}
    (cd "$W" && go test -vet=off -count=1 -run "^($n)\$" ./$d >/tmp/cs-$ID.$1.log 2>&1) || ok=1
  done
  return $ok
}
if run_demo clean; then res="$res demo-clean=PASS"; else res="$res demo-clean=FAIL"; fi
if ! git -C "$W" apply --whitespace=nowarn "$S/patch.diff" 2>/dev/null; then
  if ! git -C "$W" apply -3 --whitespace=nowarn "$S/patch.diff" 2>/dev/null; then echo "$res PATCH-DOES-NOT-APPLY"; exit 3; fi
fi
if (cd "$W" && go build ./... 2>/dev/null); then res="$res build=OK"; else echo "$res build=FAIL"; exit 3; fi
if run_demo patched; then res="$res demo-patched=PASS"; else res="$res demo-patched=FAIL"; fi
# baseline with the patch (demo files removed first)
for t in $tests; do d=${t%%:*}; rm -f "$W/$d"/c[0-9][0-9]*_test.go; done
for f in "$S"/demo/*_test.go; do pk=$(grep -m1 '^package ' "$f" | awk '{print $2}'); if [ "$pk" = main ]; then rm -f "$W/cmd/wire/$(basename $f)"; else rm -f "$W/internal/wire/$(basename $f)"; fi; done
b=$(/verif/tools/baseline.sh "$W" | head -1)
res="$res [$b]"
mkdir -p /tmp/cs-ev-$ID
fired=$(/verif/bin/wirecheck -repo "$W" -property all -evidence /tmp/cs-ev-$ID -known /verif/known_findings.json | grep -E '^  (VIOLATION|UNDECIDED)' | awk '{print $2}' | sort -u | paste -sd,)
props=$(/verif/bin/wirecheck -repo "$W" -property all -evidence /tmp/cs-ev-$ID -known /verif/known_findings.json | grep '^VIOLATION' | sed 's/.*property=\([A-Z0-9]*\).*/\1/' | paste -sd,)
rm -rf /tmp/cs-ev-$ID
echo "$res rules=[$fired] props=[$props]"
