#!/bin/bash
# usage: neutralfuzz_all.sh [base]
# Every behaviour-preserving rewrite of tools/neutralfuzz applied to every function of each analysed
# package (one variant per transform × package); each variant must leave wirecheck silent.
# With "base" each variant is also run through the pinned baseline suite (slow).
cd /verif || exit 2
export GOFLAGS=-mod=mod GOPROXY=off GOSUMDB=off GOTOOLCHAIN=local; unset GOWORK
if [ ! -x bin/neutralfuzz ] || [ -n "$(find tools/neutralfuzz -newer bin/neutralfuzz -name '*.go' | head -1)" ]; then
  (cd tools/neutralfuzz && go build -o ../../bin/neutralfuzz .) || exit 2
fi
T="rename invert swapeq negform demorgan parens constextract hoistcond guard2else switch2if if2switch retlocal varform reorder splitinit mergeinit hoistarg ret2else splitand lencmp incr boolret predfunc rangeidx elsenest swapand kvorder caseorder inlinelocal renamefile extractblock countloop flag2counter labelcontinue joinvar"
for t in $T; do for p in ./internal/wire ./cmd/wire; do echo "$t $p"; done; done |
  xargs -P 6 -L 1 sh -c './tools/neutralfuzz.sh $0 $1 "*" '"$1" | sort > /tmp/nf-all.$$
cat /tmp/nf-all.$$
bad=$(grep -vcE ': (silent|nothing to rewrite)$' /tmp/nf-all.$$)
tot=$(grep -cE ': silent$' /tmp/nf-all.$$)
rm -f /tmp/nf-all.$$
echo "neutralfuzz: $tot variants silent, $bad not"
[ "$bad" = 0 ]
