#!/bin/bash
# usage: neutralfuzz.sh <transform> <pkg> <func|*> [check-baseline]
# Applies the rewrite to a scratch copy of /repo, builds it, optionally runs the pinned baseline, runs wirecheck on it.
export GOFLAGS=-mod=mod GOPROXY=off GOSUMDB=off GOTOOLCHAIN=local; unset GOWORK
T=$1; P=$2; F=$3; B=${4:-}
D=$(mktemp -d /tmp/wc-nf.XXXXXX); trap 'rm -rf "$D"' EXIT
rsync -a --exclude .git /repo/ "$D/"
out=$(/verif/bin/neutralfuzz -dir "$D" -pkg "$P" -func "$F" -t "$T" 2>&1) || { echo "$T $P $F: REWRITE-FAILED $out"; exit 2; }
sites=${out%% *}
if [ "$sites" = 0 ]; then echo "$T $P $F: nothing to rewrite"; exit 0; fi
if ! (cd "$D" && go build ./... 2>/tmp/nf.err.$$); then echo "$T $P $F: DOES-NOT-BUILD $(head -2 /tmp/nf.err.$$ | tr '\n' ' ')"; rm -f /tmp/nf.err.$$; exit 2; fi
rm -f /tmp/nf.err.$$
if [ -n "$B" ]; then b=$(/verif/tools/baseline.sh "$D" | head -1); case "$b" in *"96/96"*) ;; *) echo "$T $P $F: BASELINE-CHANGED $b"; exit 2;; esac; fi
mkdir -p "$D/.ev"
al=$(/verif/bin/wirecheck -repo "$D" -property all -evidence "$D/.ev" -known /verif/known_findings.json | grep -E '^  (VIOLATION|UNDECIDED)' | awk '{print $2" "$3}' | sort -u | tr '\n' ';')
echo "$T $P $F ($sites sites): ${al:-silent}"
