#!/usr/bin/env python3
"""Every confirmed breaking seed (seeded/Cnn-x/patch.diff) refactored: the patch is applied to a scratch copy of
/repo, K behaviour-preserving rewrites (tools/neutralfuzz) are stacked on top, and the seed's own property must
still report a violation. Every neutral patch (seeded/neutral/*) refactored the same way must stay silent.
usage: seeds_under_fuzz.py [-j N] [--fuzz K] [--fuzzseed S] [-k substring]"""
import os, subprocess, sys, tempfile, shutil, argparse, concurrent.futures as cf, glob, random, zlib

ENV = dict(os.environ, GOFLAGS='-mod=mod', GOPROXY='off', GOSUMDB='off', GOTOOLCHAIN='local')
ENV.pop('GOWORK', None)
TRANSFORMS = 'rename invert swapeq negform demorgan parens constextract hoistcond guard2else switch2if retlocal varform reorder splitinit mergeinit hoistarg ret2else splitand lencmp incr boolret predfunc rangeidx elsenest swapand kvorder caseorder renamefile extractblock countloop flag2counter labelcontinue joinvar'.split()

def run(job):
    name, patch, prop, neutral, K, S = job
    d = tempfile.mkdtemp(prefix='wc-sf.', dir='/tmp')
    try:
        subprocess.run(['rsync', '-a', '--exclude', '.git', '/repo/', d + '/'], check=True)
        pr = subprocess.run(['git', 'apply', '--whitespace=nowarn', patch], cwd=d, capture_output=True, text=True)
        if pr.returncode != 0:
            return (name, 'PATCH-DOES-NOT-APPLY', pr.stderr[-200:])
        if subprocess.run(['go', 'build', './...'], cwd=d, env=ENV, capture_output=True).returncode != 0:
            return (name, 'NOCOMPILE', '')
        rnd = random.Random(zlib.crc32(name.encode()) + S)
        applied = []
        for t in rnd.sample(TRANSFORMS, K):
            for pk in ('./internal/wire', './cmd/wire'):
                bak = d + '.bak'
                shutil.rmtree(bak, ignore_errors=True)
                shutil.copytree(d, bak, symlinks=True)
                fz = subprocess.run(['/verif/bin/neutralfuzz', '-dir', d, '-pkg', pk, '-func', '*', '-t', t], env=ENV, capture_output=True, text=True)
                ok = fz.returncode == 0 and subprocess.run(['go', 'build', './...'], cwd=d, env=ENV, capture_output=True).returncode == 0
                if not ok:
                    shutil.rmtree(d, ignore_errors=True)
                    os.rename(bak, d)
                else:
                    shutil.rmtree(bak, ignore_errors=True)
                    applied.append(t)
        r = subprocess.run(['/verif/bin/wirecheck', '-repo', d, '-property', 'all' if neutral else prop, '-evidence', os.path.join(d, '.ev'), '-known', '/verif/known_findings.json'],
                           env=ENV, capture_output=True, text=True)
        lines = [l.strip().replace(d + '/', '') for l in r.stdout.splitlines() if l.startswith('  VIOLATION') or l.startswith('  UNDECIDED') or 'cannot load' in l]
        tag = ' [after ' + ','.join(sorted(set(applied))) + ']'
        if neutral:
            return (name, 'OK' if not lines else 'FALSE-ALARM', '; '.join(l[:160] for l in lines[:4]) + tag)
        return (name, 'OK' if lines else 'MISSED', (lines[0][:160] if lines else '') + tag)
    finally:
        shutil.rmtree(d, ignore_errors=True)
        shutil.rmtree(d + '.bak', ignore_errors=True)

def main():
    ap = argparse.ArgumentParser()
    ap.add_argument('-j', type=int, default=10)
    ap.add_argument('--fuzz', type=int, default=4)
    ap.add_argument('--fuzzseed', type=int, default=0)
    ap.add_argument('-k', default='')
    a = ap.parse_args()
    jobs = []
    for dd in sorted(glob.glob('/verif/seeded/C*')):
        nm = os.path.basename(dd)
        jobs.append((nm, dd + '/patch.diff', nm.split('-')[0], False, a.fuzz, a.fuzzseed))
    for dd in sorted(glob.glob('/verif/seeded/neutral/*')):
        documented = False
        try:
            import json
            documented = json.load(open(dd + '/meta.json')).get('observed') == 'alarm'
        except Exception:
            pass
        if os.path.exists(dd + '/patch.diff') and not documented:  # recorded restructurings (DESIGN §10.2 round 5) alarm with or without rewrites
            jobs.append(('neutral/' + os.path.basename(dd), dd + '/patch.diff', 'all', True, a.fuzz, a.fuzzseed))
    jobs = [j for j in jobs if a.k in j[0]]
    bad = 0
    with cf.ThreadPoolExecutor(a.j) as ex:
        for name, st, info in ex.map(run, jobs):
            if st != 'OK':
                bad += 1
                print('%-20s %-14s %s' % (st, name, info[:600]))
    print('%d patches refactored (%d rewrites each), %d decided as before, %d not' % (len(jobs), a.fuzz, len(jobs) - bad, bad))
    sys.exit(1 if bad else 0)
main()
