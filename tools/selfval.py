#!/usr/bin/env python3
"""Thorough tier, part 2: self-validation of the rules serving one property.
Runs the mutant catalogue entries and the confirmed seeds for the property on
scratch copies of /repo's CURRENT tree and merges the outcome into the
evidence file wirecheck just wrote. Results are recorded; they do not change
the verdict on /repo (a rule that misses its catalogue is reported loudly)."""
import json, os, subprocess, sys, glob, tempfile, shutil, concurrent.futures as cf
prop = sys.argv[1]
ENV = dict(os.environ, GOFLAGS='-mod=mod', GOPROXY='off', GOSUMDB='off', GOTOOLCHAIN='local'); ENV.pop('GOWORK', None)
out = tempfile.mktemp(prefix='selfval-', suffix='.json', dir='/tmp')
subprocess.run(['python3', '/verif/tools/run_mutants.py', '-k', prop, '-j', '12', '--json', out], stdout=subprocess.DEVNULL)
mut = json.load(open(out)) if os.path.exists(out) else []
if os.path.exists(out): os.remove(out)
out2 = tempfile.mktemp(prefix='selfval-', suffix='.json', dir='/tmp')
subprocess.run(['python3', '/verif/tools/run_mutants.py', '-k', 'neutral', '-j', '12', '--json', out2], stdout=subprocess.DEVNULL)
neu = json.load(open(out2)) if os.path.exists(out2) else []
if os.path.exists(out2): os.remove(out2)

def seed(d):
    sid = os.path.basename(d)
    w = tempfile.mkdtemp(prefix='wc-seed.', dir='/tmp')
    try:
        subprocess.run(['rsync', '-a', '--exclude', '.git', '/repo/', w + '/'], check=True)
        subprocess.run(['git', 'init', '-q'], cwd=w)
        a = subprocess.run(['git', 'apply', '--whitespace=nowarn', d + '/patch.diff'], cwd=w, capture_output=True)
        if a.returncode != 0:
            a = subprocess.run(['patch', '-p1', '-s', '-i', d + '/patch.diff'], cwd=w, capture_output=True)
            if a.returncode != 0:
                return {'seed': sid, 'status': 'SKIP', 'info': 'patch no longer applies to the current tree'}
        if subprocess.run(['go', 'build', './...'], cwd=w, env=ENV, capture_output=True).returncode != 0:
            return {'seed': sid, 'status': 'NOCOMPILE'}
        r = subprocess.run(['/verif/bin/wirecheck', '-repo', w, '-property', prop, '-evidence', w + '/.ev', '-known', '/verif/known_findings.json'], env=ENV, capture_output=True, text=True)
        rules = sorted({l.split()[1] for l in r.stdout.splitlines() if l.startswith('  VIOLATION') or l.startswith('  UNDECIDED')})
        return {'seed': sid, 'status': 'DETECTED' if rules else 'MISSED', 'rules': rules}
    finally:
        shutil.rmtree(w, ignore_errors=True)

seeds = []
dirs = []
for d in sorted(glob.glob('/verif/seeded/*')):
    try:
        meta = json.load(open(d + '/meta.json'))
    except Exception:
        continue
    if prop in meta.get('properties_reporting_violation', []) or meta.get('property_broken') == prop:
        dirs.append(d)
with cf.ThreadPoolExecutor(8) as ex:
    seeds = list(ex.map(seed, dirs))
# behaviour-preserving refactorings produced independently: must stay silent for this property
def neutral(d):
    sid = os.path.basename(d)
    w = tempfile.mkdtemp(prefix='wc-neu.', dir='/tmp')
    try:
        subprocess.run(['rsync', '-a', '--exclude', '.git', '/repo/', w + '/'], check=True)
        subprocess.run(['git', 'init', '-q'], cwd=w)
        if subprocess.run(['git', 'apply', '--whitespace=nowarn', d + '/patch.diff'], cwd=w, capture_output=True).returncode != 0:
            return {'variant': sid, 'status': 'SKIP'}
        r = subprocess.run(['/verif/bin/wirecheck', '-repo', w, '-property', prop, '-evidence', w + '/.ev', '-known', '/verif/known_findings.json'], env=ENV, capture_output=True, text=True)
        rules = sorted({l.split()[1] for l in r.stdout.splitlines() if l.startswith('  VIOLATION') or l.startswith('  UNDECIDED')})
        if rules:
            # restructurings that are recorded as beyond the normal forms (meta.json: observed=alarm) are listed apart
            try:
                meta = json.load(open(d + '/meta.json'))
            except Exception:
                meta = {}
            if meta.get('observed') == 'alarm' and set(rules) <= set(meta.get('rules_alarming', [])):
                return {'variant': sid, 'status': 'DOCUMENTED-ALARM', 'rules': rules}
        return {'variant': sid, 'status': 'SILENT' if not rules else 'ALARM', 'rules': rules}
    finally:
        shutil.rmtree(w, ignore_errors=True)
ndirs = [d for d in sorted(glob.glob('/verif/seeded/neutral/*')) if os.path.exists(d + '/patch.diff')]
with cf.ThreadPoolExecutor(8) as ex:
    neutrals = list(ex.map(neutral, ndirs))
# mechanical behaviour-preserving rewrites (tools/neutralfuzz), one whole-package variant per rewrite: silent for this property
TRANSFORMS = 'rename invert swapeq negform demorgan parens constextract hoistcond guard2else switch2if retlocal varform reorder splitinit mergeinit hoistarg ret2else splitand lencmp incr boolret predfunc rangeidx elsenest swapand kvorder caseorder renamefile extractblock countloop flag2counter labelcontinue joinvar'.split()
if not os.path.exists('/verif/bin/neutralfuzz') or any(os.path.getmtime(f) > os.path.getmtime('/verif/bin/neutralfuzz') for f in glob.glob('/verif/tools/neutralfuzz/*.go')):
    subprocess.run(['go', 'build', '-o', '/verif/bin/neutralfuzz', '.'], cwd='/verif/tools/neutralfuzz', env=ENV)
def rewrite(job):
    t, pk = job
    w = tempfile.mkdtemp(prefix='wc-nf.', dir='/tmp')
    try:
        subprocess.run(['rsync', '-a', '--exclude', '.git', '/repo/', w + '/'], check=True)
        fz = subprocess.run(['/verif/bin/neutralfuzz', '-dir', w, '-pkg', pk, '-func', '*', '-t', t], env=ENV, capture_output=True, text=True)
        if fz.returncode != 0 or fz.stdout.startswith('0 '):
            return {'rewrite': t, 'package': pk, 'status': 'NOTHING-TO-REWRITE'}
        if subprocess.run(['go', 'build', './...'], cwd=w, env=ENV, capture_output=True).returncode != 0:
            return {'rewrite': t, 'package': pk, 'status': 'NOCOMPILE'}
        r = subprocess.run(['/verif/bin/wirecheck', '-repo', w, '-property', prop, '-evidence', w + '/.ev', '-known', '/verif/known_findings.json'], env=ENV, capture_output=True, text=True)
        rules = sorted({l.split()[1] for l in r.stdout.splitlines() if l.startswith('  VIOLATION') or l.startswith('  UNDECIDED')})
        if 'cannot load' in r.stdout:
            rules.append('cannot-load')
        return {'rewrite': t, 'package': pk, 'sites': fz.stdout.split()[0], 'status': 'SILENT' if not rules else 'ALARM', 'rules': rules}
    finally:
        shutil.rmtree(w, ignore_errors=True)
with cf.ThreadPoolExecutor(8) as ex:
    rewrites = [x for x in ex.map(rewrite, [(t, pk) for t in TRANSFORMS for pk in ('./internal/wire', './cmd/wire')]) if x['status'] != 'NOTHING-TO-REWRITE']
# the property's mutants refactored: three stacked rewrites on top of each, same verdict required
out3 = tempfile.mktemp(prefix='selfval-', suffix='.json', dir='/tmp')
subprocess.run(['python3', '/verif/tools/run_mutants.py', '-k', prop, '-j', '12', '--fuzz', '3', '--json', out3], stdout=subprocess.DEVNULL)
mutf = [m for m in (json.load(open(out3)) if os.path.exists(out3) else []) if m.get('expect')]
if os.path.exists(out3): os.remove(out3)
ev_path = '/verif/evidence/%s.json' % prop
ev = json.load(open(ev_path))
own = [m for m in mut if m.get('expect')]
sv = {
    'mutants_run': len(own), 'mutants_detected_by_expected_rule': sum(1 for m in own if m['status'] == 'OK'),
    'mutants': [{'name': m['name'], 'expect': m['expect'], 'status': m['status'], 'report': (m.get('info') or '')[:200]} for m in own],
    'neutral_variants_run': len(neu), 'neutral_variants_silent': sum(1 for m in neu if m['status'] == 'OK'),
    'neutral_variants': [{'name': m['name'], 'status': m['status']} for m in neu],
    'seeded_changes_run': len(seeds), 'seeded_changes_detected': sum(1 for s in seeds if s['status'] == 'DETECTED'),
    'seeded_changes': seeds,
    'independent_refactorings_run': len(neutrals), 'independent_refactorings_silent': sum(1 for x in neutrals if x['status'] == 'SILENT'),
    'independent_refactorings_alarming': [x for x in neutrals if x['status'] == 'ALARM'],
    'independent_restructurings_beyond_the_normal_forms': [x for x in neutrals if x['status'] == 'DOCUMENTED-ALARM'],
    'mechanical_rewrites_run': len(rewrites), 'mechanical_rewrites_silent': sum(1 for x in rewrites if x['status'] == 'SILENT'),
    'mechanical_rewrites': [{'rewrite': x['rewrite'], 'package': x['package'], 'sites': x.get('sites'), 'status': x['status']} for x in rewrites],
    'mechanical_rewrites_alarming': [x for x in rewrites if x['status'] not in ('SILENT',)],
    'mutants_refactored_run': len(mutf), 'mutants_refactored_detected': sum(1 for m in mutf if m['status'] == 'OK'),
    'mutants_refactored_missed': [m['name'] for m in mutf if m['status'] not in ('OK', 'SKIP')],
    'note': 'self-validation on scratch copies of the current /repo tree; does not change the verdict on /repo',
}
ev['coverage']['self_validation'] = sv
json.dump(ev, open(ev_path, 'w'), indent=1)
bad = [m['name'] for m in own if m['status'] not in ('OK', 'SKIP')] + [m['name'] for m in neu if m['status'] not in ('OK', 'SKIP')] + [s['seed'] for s in seeds if s['status'] == 'MISSED']
bad += [x['variant'] for x in neutrals if x['status'] == 'ALARM'] + [x['rewrite'] + ':' + x['package'] for x in rewrites if x['status'] != 'SILENT'] + [m['name'] + '(refactored)' for m in mutf if m['status'] not in ('OK', 'SKIP')]
print('SELF-VALIDATION property=%s mutants %d/%d detected, neutral %d/%d silent, seeds %d/%d detected, independent refactorings %d/%d silent, mechanical rewrites %d/%d silent, refactored mutants %d/%d detected%s' % (
    prop, sv['mutants_detected_by_expected_rule'], sv['mutants_run'], sv['neutral_variants_silent'], sv['neutral_variants_run'],
    sv['seeded_changes_detected'], sv['seeded_changes_run'], sv['independent_refactorings_silent'], sv['independent_refactorings_run'],
    sv['mechanical_rewrites_silent'], sv['mechanical_rewrites_run'], sv['mutants_refactored_detected'], sv['mutants_refactored_run'], ('; ATTENTION: ' + ', '.join(bad)) if bad else ''))
