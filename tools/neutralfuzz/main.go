// neutralfuzz applies one kind of behaviour-preserving rewrite to one function
// (or to every function of a file) of a scratch copy of the repository. It is
// used to fuzz the checker for false alarms: every variant it writes has, by
// construction, the behaviour of the original, so any report on it is wrong.
//
// usage: neutralfuzz -dir <scratch repo> -pkg ./internal/wire -func <name|*> -t <transform>
// transforms: rename, invert, swapeq, negform, demorgan, parens, constextract, hoistcond,
// guard2else, switch2if, if2switch, retlocal, varform, reorder, splitinit, mergeinit, hoistarg,
// ret2else, splitand, lencmp, incr, boolret, predfunc, rangeidx,
// elsenest, swapand, kvorder, caseorder, inlinelocal, renamefile, extractblock, countloop
package main

import (
	"bytes"
	"flag"
	"fmt"
	"go/ast"
	"go/format"
	"go/parser"
	"go/token"
	"go/types"
	"os"
	"path/filepath"
	"reflect"
	"strconv"
	"strings"

	"golang.org/x/tools/go/ast/astutil"
	"golang.org/x/tools/go/packages"
)

func main() {
	dir := flag.String("dir", "", "repository copy to rewrite in place")
	pkgPat := flag.String("pkg", "./internal/wire", "package pattern")
	fn := flag.String("func", "*", "function name (Type.Method for methods) or *")
	tr := flag.String("t", "rename", "transform")
	list := flag.Bool("list", false, "list function names and exit")
	flag.Parse()
	cfg := &packages.Config{Mode: packages.LoadSyntax, Dir: *dir, Tests: false}
	pkgs, err := packages.Load(cfg, *pkgPat)
	if err != nil || len(pkgs) != 1 || len(pkgs[0].Errors) > 0 {
		fmt.Fprintln(os.Stderr, "load:", err, pkgs)
		os.Exit(2)
	}
	p := pkgs[0]
	changed := map[*ast.File]bool{}
	n := 0
	if *tr == "renamefile" {
		// every source file of the package gets a new name (the order of files in the package changes)
		for _, f := range p.Syntax {
			name := p.Fset.File(f.Pos()).Name()
			dir, base := filepath.Split(name)
			if strings.HasSuffix(base, "_test.go") {
				continue
			}
			if err := os.Rename(name, dir+"zz_"+strings.TrimSuffix(base, ".go")+"_moved.go"); err != nil {
				fmt.Fprintln(os.Stderr, err)
				os.Exit(2)
			}
			n++
		}
		fmt.Printf("%d sites rewritten\n", n)
		return
	}
	if *tr == "reorder" {
		// reverse the order of the function declarations of every file (text chunks, comments travel with their declaration)
		for _, f := range p.Syntax {
			tf := p.Fset.File(f.Pos())
			src, err := os.ReadFile(tf.Name())
			if err != nil {
				fmt.Fprintln(os.Stderr, err)
				os.Exit(2)
			}
			type chunk struct{ lo, hi int }
			var fns []chunk
			for _, d := range f.Decls {
				fd, ok := d.(*ast.FuncDecl)
				if !ok {
					continue
				}
				lo := fd.Pos()
				if fd.Doc != nil {
					lo = fd.Doc.Pos()
				}
				fns = append(fns, chunk{tf.Offset(lo), tf.Offset(fd.End())})
			}
			if len(fns) < 2 {
				continue
			}
			var out []byte
			prev := 0
			for i, c := range fns {
				out = append(out, src[prev:c.lo]...)
				r := fns[len(fns)-1-i]
				out = append(out, src[r.lo:r.hi]...)
				prev = c.hi
			}
			out = append(out, src[prev:]...)
			if err := os.WriteFile(tf.Name(), out, 0o644); err != nil {
				fmt.Fprintln(os.Stderr, err)
				os.Exit(2)
			}
			n += len(fns)
		}
		fmt.Printf("%d sites rewritten\n", n)
		return
	}
	for _, f := range p.Syntax {
		for _, d := range f.Decls {
			fd, ok := d.(*ast.FuncDecl)
			if !ok || fd.Body == nil {
				continue
			}
			name := fd.Name.Name
			if fd.Recv != nil && len(fd.Recv.List) == 1 {
				t := fd.Recv.List[0].Type
				if s, ok := t.(*ast.StarExpr); ok {
					t = s.X
				}
				if id, ok := t.(*ast.Ident); ok {
					name = id.Name + "." + name
				}
			}
			if *list {
				fmt.Println(name)
				continue
			}
			if *fn != "*" && *fn != name {
				continue
			}
			k := apply(p, f, fd, *tr)
			if k > 0 {
				changed[f] = true
				n += k
			}
		}
	}
	if *list {
		return
	}
	for f := range changed {
		var buf bytes.Buffer
		if err := format.Node(&buf, p.Fset, f); err != nil {
			fmt.Fprintln(os.Stderr, "print:", err)
			os.Exit(2)
		}
		if err := os.WriteFile(p.Fset.File(f.Pos()).Name(), buf.Bytes(), 0o644); err != nil {
			fmt.Fprintln(os.Stderr, err)
			os.Exit(2)
		}
	}
	fmt.Printf("%d sites rewritten\n", n)
}

func pure(e ast.Expr) bool {
	switch x := ast.Unparen(e).(type) {
	case *ast.Ident, *ast.BasicLit:
		return true
	case *ast.SelectorExpr:
		return pure(x.X)
	}
	return false
}

func not(e ast.Expr) ast.Expr {
	return &ast.UnaryExpr{Op: token.NOT, X: &ast.ParenExpr{X: e}}
}

var constN int

func apply(p *packages.Package, f *ast.File, fd *ast.FuncDecl, tr string) int {
	n := 0
	info := p.TypesInfo
	switch tr {
	case "rename":
		// every variable declared inside the function (parameters, results, locals) gets a suffix
		objs := map[types.Object]bool{}
		ast.Inspect(fd, func(nd ast.Node) bool {
			if id, ok := nd.(*ast.Ident); ok {
				if v, ok := info.Defs[id].(*types.Var); ok && !v.IsField() && id.Name != "_" && v.Pos() >= fd.Pos() && v.Pos() < fd.End() {
					objs[v] = true
				}
			}
			return true
		})
		// the implicit objects of type switches share the declaring identifier: rename it with them
		tsDecl := map[token.Pos]bool{}
		for nd, o := range info.Implicits {
			if _, ok := nd.(*ast.CaseClause); ok && o.Pos() >= fd.Pos() && o.Pos() < fd.End() {
				objs[o] = true
				tsDecl[o.Pos()] = true
			}
		}
		ast.Inspect(fd, func(nd ast.Node) bool {
			id, ok := nd.(*ast.Ident)
			if !ok {
				return true
			}
			o := info.Defs[id]
			if o == nil {
				o = info.Uses[id]
			}
			if (o != nil && objs[o]) || (o == nil && tsDecl[id.Pos()] && id.Name != "_") {
				id.Name += "_q"
				n++
			}
			return true
		})
	case "invert":
		ast.Inspect(fd.Body, func(nd ast.Node) bool {
			if is, ok := nd.(*ast.IfStmt); ok {
				if eb, ok := is.Else.(*ast.BlockStmt); ok {
					is.Cond = not(is.Cond)
					is.Body, is.Else = eb, is.Body
					n++
				}
			}
			return true
		})
	case "swapeq":
		ast.Inspect(fd.Body, func(nd ast.Node) bool {
			if be, ok := nd.(*ast.BinaryExpr); ok && (be.Op == token.EQL || be.Op == token.NEQ) && pure(be.X) && pure(be.Y) {
				be.X, be.Y = be.Y, be.X
				n++
			}
			return true
		})
	case "negform":
		astutil.Apply(fd.Body, func(c *astutil.Cursor) bool {
			if be, ok := c.Node().(*ast.BinaryExpr); ok && (be.Op == token.EQL || be.Op == token.NEQ) {
				if _, isCase := c.Parent().(*ast.CaseClause); isCase {
					return true
				}
				op := token.NEQ
				if be.Op == token.NEQ {
					op = token.EQL
				}
				c.Replace(not(&ast.BinaryExpr{X: be.X, Op: op, Y: be.Y}))
				n++
				return false
			}
			return true
		}, nil)
	case "demorgan":
		astutil.Apply(fd.Body, func(c *astutil.Cursor) bool {
			if be, ok := c.Node().(*ast.BinaryExpr); ok && (be.Op == token.LAND || be.Op == token.LOR) {
				op := token.LOR
				if be.Op == token.LOR {
					op = token.LAND
				}
				c.Replace(not(&ast.BinaryExpr{X: not(be.X), Op: op, Y: not(be.Y)}))
				n++
				return false
			}
			return true
		}, nil)
	case "parens":
		ast.Inspect(fd.Body, func(nd ast.Node) bool {
			switch x := nd.(type) {
			case *ast.CallExpr:
				if tv, ok := info.Types[x.Fun]; ok && tv.IsType() {
					return true
				}
				for i, a := range x.Args {
					if _, isP := a.(*ast.ParenExpr); !isP {
						if tv, ok := info.Types[a]; ok && tv.IsType() {
							continue // new(T), make(T): a type, leave it
						}
						x.Args[i] = &ast.ParenExpr{X: a}
						n++
					}
				}
			case *ast.IfStmt:
				x.Cond = &ast.ParenExpr{X: x.Cond}
				n++
			}
			return true
		})
	case "constextract":
		var decls []ast.Spec
		astutil.Apply(fd.Body, func(c *astutil.Cursor) bool {
			lit, ok := c.Node().(*ast.BasicLit)
			if !ok || lit.Kind != token.STRING {
				return true
			}
			if _, inTag := c.Parent().(*ast.Field); inTag {
				return true
			}
			if _, inImport := c.Parent().(*ast.ImportSpec); inImport {
				return true
			}
			constN++
			name := "kq" + strconv.Itoa(constN) + "_" + sanitize(fd.Name.Name)
			decls = append(decls, &ast.ValueSpec{Names: []*ast.Ident{ast.NewIdent(name)}, Values: []ast.Expr{&ast.BasicLit{Kind: token.STRING, Value: lit.Value}}})
			c.Replace(ast.NewIdent(name))
			n++
			return true
		}, nil)
		if len(decls) > 0 {
			f.Decls = append(f.Decls, &ast.GenDecl{Tok: token.CONST, Lparen: 1, Specs: decls, Rparen: 2})
		}
	case "hoistcond":
		k := 0
		astutil.Apply(fd.Body, func(c *astutil.Cursor) bool {
			is, ok := c.Node().(*ast.IfStmt)
			if !ok || is.Init != nil {
				return true
			}
			if _, inBlock := c.Parent().(*ast.BlockStmt); !inBlock || c.Index() < 0 {
				return true // else-if, case bodies …
			}
			k++
			name := "cq" + strconv.Itoa(k)
			c.InsertBefore(&ast.AssignStmt{Lhs: []ast.Expr{ast.NewIdent(name)}, Tok: token.DEFINE, Rhs: []ast.Expr{is.Cond}})
			is.Cond = ast.NewIdent(name)
			n++
			return true
		}, nil)
	case "guard2else":
		// inside a loop body:  if c { X; continue }; REST   →   if c { X } else { REST }
		ast.Inspect(fd.Body, func(nd ast.Node) bool {
			var body *ast.BlockStmt
			switch l := nd.(type) {
			case *ast.ForStmt:
				body = l.Body
			case *ast.RangeStmt:
				body = l.Body
			}
			if body == nil {
				return true
			}
			for i, st := range body.List {
				is, ok := st.(*ast.IfStmt)
				if !ok || is.Else != nil || len(is.Body.List) == 0 || i == len(body.List)-1 {
					continue
				}
				br, ok := is.Body.List[len(is.Body.List)-1].(*ast.BranchStmt)
				if !ok || br.Tok != token.CONTINUE || br.Label != nil {
					continue
				}
				rest := body.List[i+1:]
				// the rest must not declare anything used by a label/goto trick; plain statements only
				is.Body.List = is.Body.List[:len(is.Body.List)-1]
				is.Else = &ast.BlockStmt{List: append([]ast.Stmt{}, rest...)}
				body.List = body.List[:i+1]
				n++
				break
			}
			return true
		})
	case "switch2if":
		// tagless switch without init/fallthrough/break → if / else-if chain
		astutil.Apply(fd.Body, nil, func(c *astutil.Cursor) bool {
			sw, ok := c.Node().(*ast.SwitchStmt)
			if !ok || sw.Tag != nil || sw.Init != nil || len(sw.Body.List) == 0 {
				return true
			}
			if _, inBlock := c.Parent().(*ast.BlockStmt); !inBlock {
				return true
			}
			bad := false
			ast.Inspect(sw, func(m ast.Node) bool {
				if b, ok := m.(*ast.BranchStmt); ok && (b.Tok == token.FALLTHROUGH || b.Tok == token.BREAK) {
					bad = true
				}
				return true
			})
			var dflt *ast.CaseClause
			var cases []*ast.CaseClause
			for _, st := range sw.Body.List {
				cc := st.(*ast.CaseClause)
				if cc.List == nil {
					if st != sw.Body.List[len(sw.Body.List)-1] {
						bad = true // default not last: order would change
					}
					dflt = cc
					continue
				}
				cases = append(cases, cc)
			}
			if bad || len(cases) == 0 {
				return true
			}
			var head, cur *ast.IfStmt
			for _, cc := range cases {
				var cond ast.Expr = cc.List[0]
				for _, e := range cc.List[1:] {
					cond = &ast.BinaryExpr{X: cond, Op: token.LOR, Y: e}
				}
				is := &ast.IfStmt{If: cc.Pos(), Cond: cond, Body: &ast.BlockStmt{Lbrace: cc.Colon, List: cc.Body, Rbrace: cc.End()}}
				if head == nil {
					head = is
				} else {
					cur.Else = is
				}
				cur = is
			}
			if dflt != nil {
				cur.Else = &ast.BlockStmt{Lbrace: dflt.Colon, List: dflt.Body, Rbrace: dflt.End()}
			}
			c.Replace(head)
			n++
			return true
		})
	case "retlocal":
		// return f(x)  →  rq := f(x); return rq   (single-result functions)
		if fd.Type.Results == nil || len(fd.Type.Results.List) != 1 || len(fd.Type.Results.List[0].Names) > 1 {
			return 0
		}
		k := 0
		astutil.Apply(fd.Body, func(c *astutil.Cursor) bool {
			if _, isLit := c.Node().(*ast.FuncLit); isLit {
				return false
			}
			rt, ok := c.Node().(*ast.ReturnStmt)
			if !ok || len(rt.Results) != 1 {
				return true
			}
			if _, isCall := rt.Results[0].(*ast.CallExpr); !isCall {
				return true
			}
			if _, inBlock := c.Parent().(*ast.BlockStmt); !inBlock || c.Index() < 0 {
				return true
			}
			k++
			name := "rq" + strconv.Itoa(k)
			c.InsertBefore(&ast.AssignStmt{Lhs: []ast.Expr{ast.NewIdent(name)}, Tok: token.DEFINE, Rhs: []ast.Expr{rt.Results[0]}})
			rt.Results[0] = ast.NewIdent(name)
			n++
			return true
		}, nil)
	case "varform":
		// x := v  →  var x = v   (single-variable short declarations at block level)
		astutil.Apply(fd.Body, func(c *astutil.Cursor) bool {
			as, ok := c.Node().(*ast.AssignStmt)
			if !ok || as.Tok != token.DEFINE || len(as.Lhs) != 1 || len(as.Rhs) != 1 {
				return true
			}
			if _, inBlock := c.Parent().(*ast.BlockStmt); !inBlock {
				return true
			}
			id, ok := as.Lhs[0].(*ast.Ident)
			if !ok || id.Name == "_" {
				return true
			}
			c.Replace(&ast.DeclStmt{Decl: &ast.GenDecl{Tok: token.VAR, Specs: []ast.Spec{&ast.ValueSpec{Names: []*ast.Ident{id}, Values: as.Rhs}}}})
			n++
			return true
		}, nil)
	case "if2switch":
		// if / else-if chain (no init) → tagless switch; only where no break occurs inside
		astutil.Apply(fd.Body, func(c *astutil.Cursor) bool {
			is, ok := c.Node().(*ast.IfStmt)
			if !ok || is.Init != nil {
				return true
			}
			if _, inBlock := c.Parent().(*ast.BlockStmt); !inBlock {
				return true
			}
			if _, chained := is.Else.(*ast.IfStmt); !chained {
				return true
			}
			bad := false
			ast.Inspect(is, func(m ast.Node) bool {
				if b, ok := m.(*ast.BranchStmt); ok && b.Tok == token.BREAK {
					bad = true
				}
				return true
			})
			var clauses []ast.Stmt
			var cur ast.Stmt = is
			for cur != nil {
				switch x := cur.(type) {
				case *ast.IfStmt:
					if x.Init != nil {
						bad = true
					}
					clauses = append(clauses, &ast.CaseClause{List: []ast.Expr{x.Cond}, Body: x.Body.List})
					cur = x.Else
				case *ast.BlockStmt:
					clauses = append(clauses, &ast.CaseClause{Body: x.List})
					cur = nil
				}
			}
			if bad {
				return true
			}
			c.Replace(&ast.SwitchStmt{Body: &ast.BlockStmt{List: clauses}})
			n++
			return false
		}, nil)
	case "splitinit":
		// if x := f(); c {…}  →  x := f(); if c {…}   when x's name is declared once in the function
		names := map[string]int{}
		ast.Inspect(fd, func(m ast.Node) bool {
			if id, ok := m.(*ast.Ident); ok && info.Defs[id] != nil {
				names[id.Name]++
			}
			return true
		})
		astutil.Apply(fd.Body, func(c *astutil.Cursor) bool {
			is, ok := c.Node().(*ast.IfStmt)
			if !ok || is.Init == nil {
				return true
			}
			if _, inBlock := c.Parent().(*ast.BlockStmt); !inBlock || c.Index() < 0 {
				return true
			}
			as, ok := is.Init.(*ast.AssignStmt)
			if !ok || as.Tok != token.DEFINE {
				return true
			}
			for _, l := range as.Lhs {
				id, ok := l.(*ast.Ident)
				if !ok || (id.Name != "_" && names[id.Name] != 1) {
					return true
				}
			}
			c.InsertBefore(as)
			is.Init = nil
			n++
			return true
		}, nil)
	case "mergeinit":
		// x := f(); if c(x) {…}  →  if x := f(); c(x) {…}   when x is used only inside the if statement
		astutil.Apply(fd.Body, func(c *astutil.Cursor) bool {
			blk, ok := c.Node().(*ast.BlockStmt)
			if !ok {
				return true
			}
			var out []ast.Stmt
			for i := 0; i < len(blk.List); i++ {
				as, ok := blk.List[i].(*ast.AssignStmt)
				if ok && as.Tok == token.DEFINE && i+1 < len(blk.List) {
					if is, ok := blk.List[i+1].(*ast.IfStmt); ok && is.Init == nil {
						own := map[types.Object]bool{}
						allNew := true
						for _, l := range as.Lhs {
							id, ok := l.(*ast.Ident)
							if !ok {
								allNew = false
								break
							}
							if id.Name == "_" {
								continue
							}
							if info.Defs[id] == nil {
								allNew = false
								break
							}
							own[info.Defs[id]] = true
						}
						outside := false
						if allNew {
							for id, o := range info.Uses {
								if own[o] && !(id.Pos() >= is.Pos() && id.End() <= is.End()) {
									outside = true
								}
							}
						}
						if allNew && !outside && len(own) > 0 {
							is.Init = as
							n++
							continue
						}
					}
				}
				out = append(out, blk.List[i])
			}
			blk.List = out
			return true
		}, nil)
	case "hoistarg":
		// f(g(x), …) as a statement or the right-hand side of an assignment → t := g(x); f(t, …)  (first argument only)
		k := 0
		astutil.Apply(fd.Body, func(c *astutil.Cursor) bool {
			if _, isLit := c.Node().(*ast.FuncLit); isLit {
				return false
			}
			var call *ast.CallExpr
			switch st := c.Node().(type) {
			case *ast.ExprStmt:
				call, _ = st.X.(*ast.CallExpr)
			case *ast.AssignStmt:
				if len(st.Rhs) == 1 {
					call, _ = st.Rhs[0].(*ast.CallExpr)
				}
			}
			if call == nil || len(call.Args) == 0 || call.Ellipsis.IsValid() {
				return true
			}
			if _, inBlock := c.Parent().(*ast.BlockStmt); !inBlock || c.Index() < 0 {
				return true
			}
			if !pure(call.Fun) {
				return true
			}
			inner, ok := call.Args[0].(*ast.CallExpr)
			if !ok {
				return true
			}
			tv, ok := info.Types[inner]
			if !ok || tv.IsType() || tv.Type == nil {
				return true
			}
			if _, isTuple := tv.Type.(*types.Tuple); isTuple {
				return true
			}
			if ftv, ok := info.Types[inner.Fun]; ok && ftv.IsType() {
				return true // conversion
			}
			if b, ok := tv.Type.(*types.Basic); ok && b.Info()&types.IsUntyped != 0 {
				return true
			}
			k++
			name := "hq" + strconv.Itoa(k)
			c.InsertBefore(&ast.AssignStmt{Lhs: []ast.Expr{ast.NewIdent(name)}, Tok: token.DEFINE, Rhs: []ast.Expr{inner}})
			call.Args[0] = ast.NewIdent(name)
			n++
			return true
		}, nil)
	case "ret2else":
		// function body:  …; if c {…; return}; REST   →   …; if c {…; return} else {REST}
		list := fd.Body.List
		for i, st := range list {
			is, ok := st.(*ast.IfStmt)
			if !ok || is.Else != nil || len(is.Body.List) == 0 || i == len(list)-1 {
				continue
			}
			if _, isRet := is.Body.List[len(is.Body.List)-1].(*ast.ReturnStmt); !isRet {
				continue
			}
			hasLabel := false
			for _, r := range list[i+1:] {
				if _, ok := r.(*ast.LabeledStmt); ok {
					hasLabel = true
				}
			}
			if hasLabel {
				continue
			}
			// Go requires a terminating statement at the end of a function with results: if/else with both arms returning qualifies
			is.Else = &ast.BlockStmt{List: append([]ast.Stmt{}, list[i+1:]...)}
			fd.Body.List = list[:i+1]
			n++
			break
		}
	case "splitand":
		// if a && b {X} (no else, no init) → if a { if b {X} }
		ast.Inspect(fd.Body, func(nd ast.Node) bool {
			is, ok := nd.(*ast.IfStmt)
			if !ok || is.Else != nil || is.Init != nil {
				return true
			}
			be, ok := is.Cond.(*ast.BinaryExpr)
			if !ok || be.Op != token.LAND {
				return true
			}
			inner := &ast.IfStmt{Cond: be.Y, Body: is.Body}
			is.Cond = be.X
			is.Body = &ast.BlockStmt{List: []ast.Stmt{inner}}
			n++
			return true
		})
	case "lencmp":
		// len(x) == 0 → len(x) < 1;  len(x) > 0 → len(x) != 0;  len(x) != 0 → len(x) >= 1;  s == "" → len(s) == 0;  s != "" → len(s) > 0
		astutil.Apply(fd.Body, func(c *astutil.Cursor) bool {
			be, ok := c.Node().(*ast.BinaryExpr)
			if !ok {
				return true
			}
			isLen := func(e ast.Expr) bool {
				cl, ok := e.(*ast.CallExpr)
				if !ok {
					return false
				}
				id, ok := cl.Fun.(*ast.Ident)
				return ok && id.Name == "len" && info.Uses[id] != nil && info.Uses[id].Pkg() == nil
			}
			lit := func(e ast.Expr, v string) bool {
				b, ok := e.(*ast.BasicLit)
				return ok && b.Value == v
			}
			switch {
			case isLen(be.X) && lit(be.Y, "0") && be.Op == token.EQL:
				be.Op, be.Y = token.LSS, &ast.BasicLit{Kind: token.INT, Value: "1"}
				n++
			case isLen(be.X) && lit(be.Y, "0") && be.Op == token.GTR:
				be.Op = token.NEQ
				n++
			case isLen(be.X) && lit(be.Y, "0") && be.Op == token.NEQ:
				be.Op, be.Y = token.GEQ, &ast.BasicLit{Kind: token.INT, Value: "1"}
				n++
			case lit(be.Y, `""`) && (be.Op == token.EQL || be.Op == token.NEQ) && pure(be.X):
				if _, isCase := c.Parent().(*ast.CaseClause); isCase {
					return true
				}
				be.X = &ast.CallExpr{Fun: ast.NewIdent("len"), Args: []ast.Expr{be.X}}
				be.Y = &ast.BasicLit{Kind: token.INT, Value: "0"}
				if be.Op == token.NEQ {
					be.Op = token.GTR
				}
				n++
			}
			return true
		}, nil)
	case "incr":
		// i++ → i += 1 ;  x += y → x = x + y (pure x)
		astutil.Apply(fd.Body, func(c *astutil.Cursor) bool {
			switch st := c.Node().(type) {
			case *ast.IncDecStmt:
				if _, inFor := c.Parent().(*ast.ForStmt); inFor {
					return true
				}
				op := token.ADD_ASSIGN
				if st.Tok == token.DEC {
					op = token.SUB_ASSIGN
				}
				c.Replace(&ast.AssignStmt{Lhs: []ast.Expr{st.X}, Tok: op, Rhs: []ast.Expr{&ast.BasicLit{Kind: token.INT, Value: "1"}}})
				n++
			case *ast.AssignStmt:
				if st.Tok == token.ADD_ASSIGN && len(st.Lhs) == 1 && pure(st.Lhs[0]) {
					st.Tok = token.ASSIGN
					st.Rhs[0] = &ast.BinaryExpr{X: st.Lhs[0], Op: token.ADD, Y: &ast.ParenExpr{X: st.Rhs[0]}}
					n++
				}
			}
			return true
		}, nil)
	case "boolret":
		// return c (bool, not a literal) → if c {return true}; return false
		if fd.Type.Results == nil || len(fd.Type.Results.List) != 1 || len(fd.Type.Results.List[0].Names) > 1 {
			return 0
		}
		if id, ok := fd.Type.Results.List[0].Type.(*ast.Ident); !ok || id.Name != "bool" {
			return 0
		}
		astutil.Apply(fd.Body, func(c *astutil.Cursor) bool {
			if _, isLit := c.Node().(*ast.FuncLit); isLit {
				return false
			}
			rt, ok := c.Node().(*ast.ReturnStmt)
			if !ok || len(rt.Results) != 1 {
				return true
			}
			if id, ok := rt.Results[0].(*ast.Ident); ok && (id.Name == "true" || id.Name == "false") {
				return true
			}
			if _, inBlock := c.Parent().(*ast.BlockStmt); !inBlock || c.Index() < 0 {
				return true
			}
			c.InsertBefore(&ast.IfStmt{Cond: rt.Results[0], Body: &ast.BlockStmt{List: []ast.Stmt{&ast.ReturnStmt{Results: []ast.Expr{ast.NewIdent("true")}}}}})
			rt.Results[0] = ast.NewIdent("false")
			n++
			return true
		}, nil)
	case "predfunc":
		// if <compound condition over locals> {…} → if nfPredN(locals…) {…} with a new package-level predicate
		imported := map[string]bool{}
		for _, im := range f.Imports {
			pth, _ := strconv.Unquote(im.Path.Value)
			if im.Name == nil {
				imported[pth] = true
			}
		}
		okType := true
		qual := func(q *types.Package) string {
			if q == p.Types {
				return ""
			}
			if !imported[q.Path()] {
				okType = false
			}
			return q.Name()
		}
		ast.Inspect(fd.Body, func(nd ast.Node) bool {
			if _, isLit := nd.(*ast.FuncLit); isLit {
				return false
			}
			is, ok := nd.(*ast.IfStmt)
			if !ok {
				return true
			}
			be, ok := is.Cond.(*ast.BinaryExpr)
			if !ok || (be.Op != token.LAND && be.Op != token.LOR) {
				return true
			}
			// free local variables of the condition
			var order []*types.Var
			seen := map[*types.Var]bool{}
			bad := false
			ast.Inspect(is.Cond, func(m ast.Node) bool {
				if _, isLit := m.(*ast.FuncLit); isLit {
					bad = true
					return false
				}
				id, ok := m.(*ast.Ident)
				if !ok {
					return true
				}
				v, ok := info.Uses[id].(*types.Var)
				if !ok || v.IsField() || v.Parent() == p.Types.Scope() || v.Pkg() != p.Types {
					return true
				}
				if !seen[v] {
					seen[v] = true
					order = append(order, v)
				}
				return true
			})
			if bad || len(order) == 0 {
				return true
			}
			okType = true
			var params, args []string
			for _, v := range order {
				params = append(params, v.Name()+" "+types.TypeString(v.Type(), qual))
				args = append(args, v.Name())
			}
			if !okType {
				return true
			}
			constN++
			name := "nfPred" + strconv.Itoa(constN)
			var buf bytes.Buffer
			format.Node(&buf, p.Fset, is.Cond)
			src := "package x\nfunc " + name + "(" + strings.Join(params, ", ") + ") bool {\n\treturn " + buf.String() + "\n}\n"
			pf, err := parser.ParseFile(token.NewFileSet(), "", src, 0)
			if err != nil {
				return true
			}
			nd2 := pf.Decls[0].(*ast.FuncDecl)
			stripPos(nd2)
			f.Decls = append(f.Decls, nd2)
			var ax []ast.Expr
			for _, a := range args {
				ax = append(ax, ast.NewIdent(a))
			}
			is.Cond = &ast.CallExpr{Fun: ast.NewIdent(name), Args: ax}
			n++
			return true
		})
	case "rangeidx":
		// for _, x := range xs {…} over a slice named by an identifier/selector → for i := range xs { x := xs[i]; … }
		k := 0
		ast.Inspect(fd.Body, func(nd ast.Node) bool {
			rs, ok := nd.(*ast.RangeStmt)
			if !ok || rs.Tok != token.DEFINE || rs.Value == nil || !pure(rs.X) {
				return true
			}
			if kid, ok := rs.Key.(*ast.Ident); !ok || kid.Name != "_" {
				return true
			}
			vid, ok := rs.Value.(*ast.Ident)
			if !ok || vid.Name == "_" {
				return true
			}
			if _, isSlice := info.TypeOf(rs.X).Underlying().(*types.Slice); !isSlice {
				return true
			}
			// the slice must not be reassigned inside the loop
			reassigned := false
			ast.Inspect(rs.Body, func(m ast.Node) bool {
				if as, ok := m.(*ast.AssignStmt); ok {
					for _, l := range as.Lhs {
						var b1, b2 bytes.Buffer
						format.Node(&b1, p.Fset, l)
						format.Node(&b2, p.Fset, rs.X)
						if b1.String() == b2.String() {
							reassigned = true
						}
					}
				}
				return true
			})
			if reassigned {
				return true
			}
			k++
			idx := ast.NewIdent("ri" + strconv.Itoa(k))
			rs.Key = idx
			rs.Value = nil
			def := &ast.AssignStmt{Lhs: []ast.Expr{vid}, Tok: token.DEFINE, Rhs: []ast.Expr{&ast.IndexExpr{X: rs.X, Index: ast.NewIdent(idx.Name)}}}
			rs.Body.List = append([]ast.Stmt{def}, rs.Body.List...)
			n++
			return true
		})
	case "extractblock":
		// the body of an if / for / range with at least two statements that neither leaves it (return, break, continue,
		// goto, defer) nor assigns a variable declared outside it becomes a new package-level function
		imported := map[string]bool{}
		for _, im := range f.Imports {
			pth, _ := strconv.Unquote(im.Path.Value)
			if im.Name == nil {
				imported[pth] = true
			}
		}
		okType := true
		qual := func(q *types.Package) string {
			if q == p.Types {
				return ""
			}
			if !imported[q.Path()] {
				okType = false
			}
			return q.Name()
		}
		var bodies []*ast.BlockStmt
		ast.Inspect(fd.Body, func(nd ast.Node) bool {
			switch x := nd.(type) {
			case *ast.FuncLit:
				return false
			case *ast.IfStmt:
				bodies = append(bodies, x.Body)
			case *ast.ForStmt:
				bodies = append(bodies, x.Body)
			case *ast.RangeStmt:
				bodies = append(bodies, x.Body)
			}
			return true
		})
		taken := map[*ast.BlockStmt]bool{}
		for _, b := range bodies {
			if len(b.List) < 2 {
				continue
			}
			nested := false
			for t := range taken {
				if t.Pos() <= b.Pos() && b.End() <= t.End() || b.Pos() <= t.Pos() && t.End() <= b.End() {
					nested = true
				}
			}
			if nested {
				continue
			}
			bad := false
			var order []*types.Var
			seen := map[*types.Var]bool{}
			inside := func(o types.Object) bool { return o.Pos() >= b.Pos() && o.Pos() < b.End() }
			ast.Inspect(b, func(m ast.Node) bool {
				switch x := m.(type) {
				case *ast.ReturnStmt, *ast.BranchStmt, *ast.DeferStmt, *ast.LabeledStmt, *ast.GoStmt, *ast.FuncLit:
					bad = true
				case *ast.AssignStmt:
					for _, l := range x.Lhs {
						root := l
						direct := true
						for {
							switch y := root.(type) {
							case *ast.SelectorExpr:
								root, direct = y.X, false
								continue
							case *ast.IndexExpr:
								root, direct = y.X, false
								continue
							case *ast.StarExpr:
								root, direct = y.X, false
								continue
							case *ast.ParenExpr:
								root = y.X
								continue
							}
							break
						}
						id, ok := root.(*ast.Ident)
						if !ok {
							bad = true
							continue
						}
						o := info.Uses[id]
						if o == nil {
							o = info.Defs[id]
						}
						if o == nil || id.Name == "_" {
							continue
						}
						if inside(o) {
							continue
						}
						if direct {
							bad = true // assigns an outer variable
							continue
						}
						switch o.Type().Underlying().(type) {
						case *types.Pointer, *types.Map, *types.Slice:
						default:
							bad = true // writes into an outer value
						}
					}
				case *ast.IncDecStmt:
					bad = true
				case *ast.UnaryExpr:
					if x.Op == token.AND {
						bad = true // address of something: may be an outer variable
					}
				case *ast.Ident:
					v, ok := info.Uses[x].(*types.Var)
					if !ok || v.IsField() || v.Pkg() != p.Types || v.Parent() == p.Types.Scope() || inside(v) {
						return true
					}
					if !seen[v] {
						seen[v] = true
						order = append(order, v)
					}
				}
				return true
			})
			if bad {
				continue
			}
			// the implicit object of a type switch clause cannot be passed by its declared name/type reliably: skip blocks using one
			for _, v := range order {
				if v.Name() == "" {
					bad = true
				}
			}
			for nd, o := range info.Implicits {
				if _, ok := nd.(*ast.CaseClause); ok {
					if tv, ok := o.(*types.Var); ok && seen[tv] {
						bad = true
					}
				}
			}
			if bad {
				continue
			}
			okType = true
			var params, args []string
			for _, v := range order {
				if mentionsLocalType(v.Type(), map[types.Type]bool{}) {
					okType = false
				}
				ts := types.TypeString(v.Type(), qual)
				params = append(params, v.Name()+" "+ts)
				args = append(args, v.Name())
			}
			if !okType {
				continue
			}
			constN++
			name := "nfBlock" + strconv.Itoa(constN)
			var buf bytes.Buffer
			buf.WriteString("package x\nfunc " + name + "(" + strings.Join(params, ", ") + ") {\n")
			for _, st := range b.List {
				format.Node(&buf, p.Fset, st)
				buf.WriteString("\n")
			}
			buf.WriteString("}\n")
			pf, err := parser.ParseFile(token.NewFileSet(), "", buf.String(), 0)
			if err != nil {
				continue
			}
			nd2 := pf.Decls[0].(*ast.FuncDecl)
			stripPosAll(nd2)
			f.Decls = append(f.Decls, nd2)
			var ax []ast.Expr
			for _, a := range args {
				ax = append(ax, ast.NewIdent(a))
			}
			b.List = []ast.Stmt{&ast.ExprStmt{X: &ast.CallExpr{Fun: ast.NewIdent(name), Args: ax}}}
			taken[b] = true
			n++
		}
	case "countloop":
		// for i, x := range xs {… x …}  →  for i := 0; i < len(xs); i++ {… xs[i] …}  (slice not modified in the loop, x only read)
		k := 0
		astutil.Apply(fd.Body, nil, func(c *astutil.Cursor) bool {
			rs, ok := c.Node().(*ast.RangeStmt)
			if !ok || rs.Tok != token.DEFINE || rs.Value == nil || !pure(rs.X) {
				return true
			}
			if _, isSlice := info.TypeOf(rs.X).Underlying().(*types.Slice); !isSlice {
				return true
			}
			vid, ok := rs.Value.(*ast.Ident)
			if !ok || vid.Name == "_" || info.Defs[vid] == nil {
				return true
			}
			var b0 bytes.Buffer
			format.Node(&b0, p.Fset, rs.X)
			root := b0.String()
			bad := false
			txt := func(e ast.Expr) string {
				var b bytes.Buffer
				format.Node(&b, p.Fset, e)
				return b.String()
			}
			ast.Inspect(rs.Body, func(m ast.Node) bool {
				switch x := m.(type) {
				case *ast.AssignStmt:
					for _, l := range x.Lhs {
						lt := txt(l)
						if lt == root || strings.HasPrefix(lt, root+"[") || lt == vid.Name || strings.HasPrefix(lt, vid.Name+".") {
							bad = true
						}
					}
				case *ast.IncDecStmt:
					bad = true
				case *ast.UnaryExpr:
					if x.Op == token.AND {
						bad = true
					}
				case *ast.FuncLit:
					bad = true
				case *ast.CallExpr:
					for _, a := range x.Args {
						if txt(a) == root {
							bad = true
						}
					}
					// a method call on the element may have a pointer receiver (address taken)
					if sel, ok := x.Fun.(*ast.SelectorExpr); ok {
						if id, ok := sel.X.(*ast.Ident); ok && info.Uses[id] == info.Defs[vid] {
							if s2, ok := info.Selections[sel]; ok && s2.Indirect() == false {
								if sig, ok := s2.Obj().Type().(*types.Signature); ok && sig.Recv() != nil {
									if _, isPtr := sig.Recv().Type().(*types.Pointer); isPtr {
										bad = true
									}
								}
							}
						}
					}
				}
				return true
			})
			if bad {
				return true
			}
			var idx *ast.Ident
			if kid, ok := rs.Key.(*ast.Ident); ok && kid.Name != "_" {
				idx = kid
			} else {
				k++
				idx = ast.NewIdent("ci" + strconv.Itoa(k))
			}
			astutil.Apply(rs.Body, func(c2 *astutil.Cursor) bool {
				if id, ok := c2.Node().(*ast.Ident); ok && info.Uses[id] == info.Defs[vid] {
					c2.Replace(&ast.IndexExpr{X: rs.X, Index: ast.NewIdent(idx.Name)})
				}
				return true
			}, nil)
			c.Replace(&ast.ForStmt{
				Init: &ast.AssignStmt{Lhs: []ast.Expr{ast.NewIdent(idx.Name)}, Tok: token.DEFINE, Rhs: []ast.Expr{&ast.BasicLit{Kind: token.INT, Value: "0"}}},
				Cond: &ast.BinaryExpr{X: ast.NewIdent(idx.Name), Op: token.LSS, Y: &ast.CallExpr{Fun: ast.NewIdent("len"), Args: []ast.Expr{rs.X}}},
				Post: &ast.IncDecStmt{X: ast.NewIdent(idx.Name), Tok: token.INC},
				Body: rs.Body,
			})
			n++
			return true
		})
	case "elsenest":
		// else if c {…}  →  else { if c {…} }
		ast.Inspect(fd.Body, func(nd ast.Node) bool {
			is, ok := nd.(*ast.IfStmt)
			if !ok {
				return true
			}
			if in, ok := is.Else.(*ast.IfStmt); ok {
				is.Else = &ast.BlockStmt{List: []ast.Stmt{in}}
				n++
			}
			return true
		})
	case "swapand":
		// a && b → b && a, a || b → b || a when both operands are comparisons of identifiers and literals only
		simple := func(e ast.Expr) bool {
			be, ok := ast.Unparen(e).(*ast.BinaryExpr)
			if !ok {
				return false
			}
			switch be.Op {
			case token.EQL, token.NEQ, token.LSS, token.GTR, token.LEQ, token.GEQ:
			default:
				return false
			}
			leaf := func(x ast.Expr) bool {
				switch y := ast.Unparen(x).(type) {
				case *ast.Ident:
					return y.Name != "nil"
				case *ast.BasicLit:
					return true
				}
				return false
			}
			return leaf(be.X) && leaf(be.Y)
		}
		ast.Inspect(fd.Body, func(nd ast.Node) bool {
			be, ok := nd.(*ast.BinaryExpr)
			if ok && (be.Op == token.LAND || be.Op == token.LOR) && simple(be.X) && simple(be.Y) {
				be.X, be.Y = be.Y, be.X
				n++
			}
			return true
		})
	case "kvorder":
		// T{A: a, B: b} → T{B: b, A: a} for struct literals whose values have no effects
		ast.Inspect(fd.Body, func(nd ast.Node) bool {
			cl, ok := nd.(*ast.CompositeLit)
			if !ok || len(cl.Elts) < 2 {
				return true
			}
			t := info.TypeOf(cl)
			if t == nil {
				return true
			}
			if _, isStruct := t.Underlying().(*types.Struct); !isStruct {
				return true
			}
			for _, e := range cl.Elts {
				kv, ok := e.(*ast.KeyValueExpr)
				if !ok {
					return true
				}
				effect := false
				ast.Inspect(kv.Value, func(m ast.Node) bool {
					switch m.(type) {
					case *ast.CallExpr, *ast.FuncLit, *ast.UnaryExpr:
						effect = true
					}
					return true
				})
				if effect {
					return true
				}
			}
			for i, j := 0, len(cl.Elts)-1; i < j; i, j = i+1, j-1 {
				cl.Elts[i], cl.Elts[j] = cl.Elts[j], cl.Elts[i]
			}
			n++
			return true
		})
	case "caseorder":
		// the clauses of a switch on a value with constant cases (and no fallthrough) in reverse order
		ast.Inspect(fd.Body, func(nd ast.Node) bool {
			sw, ok := nd.(*ast.SwitchStmt)
			if !ok || sw.Tag == nil || len(sw.Body.List) < 2 {
				return true
			}
			for _, st := range sw.Body.List {
				cc := st.(*ast.CaseClause)
				for _, e := range cc.List {
					if tv, ok := info.Types[e]; !ok || tv.Value == nil {
						return true
					}
				}
				for _, b := range cc.Body {
					if br, ok := b.(*ast.BranchStmt); ok && br.Tok == token.FALLTHROUGH {
						return true
					}
				}
			}
			l := sw.Body.List
			for i, j := 0, len(l)-1; i < j; i, j = i+1, j-1 {
				l[i], l[j] = l[j], l[i]
			}
			n++
			return true
		})
	case "inlinelocal":
		// x := <effect-free expression>; <statement using x once>  →  the statement with the expression in place
		uses := map[types.Object]int{}
		for _, o := range info.Uses {
			uses[o]++
		}
		astutil.Apply(fd.Body, func(c *astutil.Cursor) bool {
			blk, ok := c.Node().(*ast.BlockStmt)
			if !ok {
				return true
			}
			var out []ast.Stmt
			for i := 0; i < len(blk.List); i++ {
				as, ok := blk.List[i].(*ast.AssignStmt)
				if ok && as.Tok == token.DEFINE && len(as.Lhs) == 1 && len(as.Rhs) == 1 && i+1 < len(blk.List) && pure(as.Rhs[0]) {
					lhs, _ := as.Lhs[0].(*ast.Ident)
					if _, isLit := as.Rhs[0].(*ast.BasicLit); !isLit && lhs != nil && info.Defs[lhs] != nil && uses[info.Defs[lhs]] == 1 {
						// the single use must be in the next statement, outside closures and loops
						var at *ast.Ident
						inside := false
						switch nx := blk.List[i+1].(type) {
						case *ast.ExprStmt, *ast.AssignStmt, *ast.ReturnStmt:
							ast.Inspect(nx, func(m ast.Node) bool {
								if _, isLit := m.(*ast.FuncLit); isLit {
									return false
								}
								if id, ok := m.(*ast.Ident); ok && info.Uses[id] == info.Defs[lhs] {
									at = id
								}
								return true
							})
							inside = at != nil
						}
						if inside {
							done := false
							astutil.Apply(blk.List[i+1], func(c2 *astutil.Cursor) bool {
								if c2.Node() == ast.Node(at) && !done {
									if _, isAssignLhs := c2.Parent().(*ast.AssignStmt); isAssignLhs && c2.Name() == "Lhs" {
										return true
									}
									c2.Replace(as.Rhs[0])
									done = true
								}
								return true
							}, nil)
							if done {
								n++
								continue
							}
						}
					}
				}
				out = append(out, blk.List[i])
			}
			blk.List = out
			return true
		}, nil)
	case "flag2counter":
		// ok := true; … ok = false …; if ok / !ok   →   n := 0; … n++ …; if n == 0 / n > 0
		uses := map[types.Object]int{}
		for _, o := range info.Uses {
			uses[o]++
		}
		ast.Inspect(fd.Body, func(nd ast.Node) bool {
			def, ok := nd.(*ast.AssignStmt)
			if !ok || def.Tok != token.DEFINE || len(def.Lhs) != 1 || len(def.Rhs) != 1 {
				return true
			}
			lhs, ok := def.Lhs[0].(*ast.Ident)
			if !ok || info.Defs[lhs] == nil {
				return true
			}
			if id, ok := def.Rhs[0].(*ast.Ident); !ok || id.Name != "true" {
				return true
			}
			obj := info.Defs[lhs]
			var clears []*ast.AssignStmt
			var reads []*ast.Ident
			seen := 0
			okAll := true
			astutil.Apply(fd.Body, func(c *astutil.Cursor) bool {
				switch x := c.Node().(type) {
				case *ast.FuncLit:
					ast.Inspect(x, func(m ast.Node) bool {
						if id, ok := m.(*ast.Ident); ok && info.Uses[id] == obj {
							okAll = false
						}
						return true
					})
					return false
				case *ast.AssignStmt:
					if len(x.Lhs) == 1 && len(x.Rhs) == 1 && x.Tok == token.ASSIGN {
						if id, ok := x.Lhs[0].(*ast.Ident); ok && info.Uses[id] == obj {
							if v, ok := x.Rhs[0].(*ast.Ident); ok && v.Name == "false" {
								clears = append(clears, x)
								seen++
							} else {
								okAll = false
							}
							return false
						}
					}
				case *ast.Ident:
					if info.Uses[x] != obj {
						return true
					}
					// read positions: operand of !, &&, ||, or the whole condition of an if
					switch p := c.Parent().(type) {
					case *ast.UnaryExpr:
						if p.Op != token.NOT {
							okAll = false
						}
					case *ast.BinaryExpr:
						if p.Op != token.LAND && p.Op != token.LOR {
							okAll = false
						}
					case *ast.IfStmt:
						if c.Name() != "Cond" {
							okAll = false
						}
					case *ast.ParenExpr:
					default:
						okAll = false
					}
					reads = append(reads, x)
					seen++
				}
				return true
			}, nil)
			if !okAll || len(clears) == 0 || len(reads) == 0 || seen != uses[obj] {
				return true
			}
			def.Rhs[0] = &ast.BasicLit{Kind: token.INT, Value: "0"}
			astutil.Apply(fd.Body, func(c *astutil.Cursor) bool {
				switch x := c.Node().(type) {
				case *ast.AssignStmt:
					for _, cl := range clears {
						if cl == x {
							c.Replace(&ast.IncDecStmt{X: ast.NewIdent(lhs.Name), Tok: token.INC})
							return false
						}
					}
				case *ast.UnaryExpr:
					if id, ok := ast.Unparen(x.X).(*ast.Ident); ok && x.Op == token.NOT {
						for _, r := range reads {
							if r == id {
								c.Replace(&ast.ParenExpr{X: &ast.BinaryExpr{X: ast.NewIdent(lhs.Name), Op: token.GTR, Y: &ast.BasicLit{Kind: token.INT, Value: "0"}}})
								return false
							}
						}
					}
				case *ast.Ident:
					for _, r := range reads {
						if r == x {
							c.Replace(&ast.ParenExpr{X: &ast.BinaryExpr{X: ast.NewIdent(lhs.Name), Op: token.EQL, Y: &ast.BasicLit{Kind: token.INT, Value: "0"}}})
							return false
						}
					}
				}
				return true
			}, nil)
			n++
			return true
		})
	case "labelcontinue":
		// for … { …; found := false; for … { if c { found = true; break } }; if !found { REST } }
		//   →   L: for … { …; for … { if c { continue L } }; REST }
		uses := map[types.Object]int{}
		for _, o := range info.Uses {
			uses[o]++
		}
		astutil.Apply(fd.Body, func(c *astutil.Cursor) bool {
			var body *ast.BlockStmt
			switch l := c.Node().(type) {
			case *ast.ForStmt:
				body = l.Body
			case *ast.RangeStmt:
				body = l.Body
			default:
				return true
			}
			if _, labelled := c.Parent().(*ast.LabeledStmt); labelled {
				return true
			}
			k := len(body.List)
			if k < 3 {
				return true
			}
			def, ok := body.List[k-3].(*ast.AssignStmt)
			if !ok || def.Tok != token.DEFINE || len(def.Lhs) != 1 || len(def.Rhs) != 1 {
				return true
			}
			lhs, ok := def.Lhs[0].(*ast.Ident)
			if !ok || info.Defs[lhs] == nil || uses[info.Defs[lhs]] != 2 {
				return true
			}
			if id, ok := def.Rhs[0].(*ast.Ident); !ok || id.Name != "false" {
				return true
			}
			obj := info.Defs[lhs]
			var inner *ast.BlockStmt
			switch l := body.List[k-2].(type) {
			case *ast.ForStmt:
				inner = l.Body
			case *ast.RangeStmt:
				inner = l.Body
			default:
				return true
			}
			last, ok := body.List[k-1].(*ast.IfStmt)
			if !ok || last.Else != nil || last.Init != nil {
				return true
			}
			ue, ok := last.Cond.(*ast.UnaryExpr)
			if !ok || ue.Op != token.NOT {
				return true
			}
			if id, ok := ue.X.(*ast.Ident); !ok || info.Uses[id] != obj {
				return true
			}
			// the only other mention: `found = true; break` closing an if directly in the inner loop
			var hit *ast.IfStmt
			for _, s2 := range inner.List {
				is, ok := s2.(*ast.IfStmt)
				if !ok || is.Else != nil || len(is.Body.List) < 2 {
					continue
				}
				as, ok1 := is.Body.List[len(is.Body.List)-2].(*ast.AssignStmt)
				br, ok2 := is.Body.List[len(is.Body.List)-1].(*ast.BranchStmt)
				if !ok1 || !ok2 || br.Tok != token.BREAK || br.Label != nil || len(as.Lhs) != 1 || as.Tok != token.ASSIGN {
					continue
				}
				if id, ok := as.Lhs[0].(*ast.Ident); ok && info.Uses[id] == obj {
					if v, ok := as.Rhs[0].(*ast.Ident); ok && v.Name == "true" {
						hit = is
					}
				}
			}
			if hit == nil {
				return true
			}
			// REST must not declare what later iterations … (it is the end of the body: nothing follows)
			constN++
			label := fmt.Sprintf("next%d", constN)
			hit.Body.List = append(hit.Body.List[:len(hit.Body.List)-2], &ast.BranchStmt{Tok: token.CONTINUE, Label: ast.NewIdent(label)})
			nl := append([]ast.Stmt{}, body.List[:k-3]...)
			nl = append(nl, body.List[k-2])
			nl = append(nl, last.Body.List...)
			body.List = nl
			c.Replace(&ast.LabeledStmt{Label: ast.NewIdent(label), Stmt: c.Node().(ast.Stmt)})
			n++
			return false
		}, nil)
	case "joinvar":
		// if c {…; return A} else {…; return B} closing a block  →  var r T; if c {…; r = A} else {…; r = B}; return r
		if fd.Type.Results == nil || len(fd.Type.Results.List) != 1 || len(fd.Type.Results.List[0].Names) > 1 {
			break
		}
		if len(fd.Type.Results.List[0].Names) == 1 {
			break // named result: leave alone
		}
		rt := fd.Type.Results.List[0].Type
		astutil.Apply(fd.Body, func(c *astutil.Cursor) bool {
			if _, isLit := c.Node().(*ast.FuncLit); isLit {
				return false
			}
			blk, ok := c.Node().(*ast.BlockStmt)
			if !ok || len(blk.List) == 0 {
				return true
			}
			is, ok := blk.List[len(blk.List)-1].(*ast.IfStmt)
			if !ok {
				return true
			}
			eb, ok := is.Else.(*ast.BlockStmt)
			if !ok || len(is.Body.List) == 0 || len(eb.List) == 0 {
				return true
			}
			r1, ok1 := is.Body.List[len(is.Body.List)-1].(*ast.ReturnStmt)
			r2, ok2 := eb.List[len(eb.List)-1].(*ast.ReturnStmt)
			if !ok1 || !ok2 || len(r1.Results) != 1 || len(r2.Results) != 1 {
				return true
			}
			for _, r := range []ast.Expr{r1.Results[0], r2.Results[0]} {
				if tv, ok := info.Types[r]; !ok || tv.Type == nil {
					return true
				} else if _, isTuple := tv.Type.(*types.Tuple); isTuple {
					return true
				}
			}
			constN++
			name := fmt.Sprintf("res%d", constN)
			is.Body.List[len(is.Body.List)-1] = &ast.AssignStmt{Lhs: []ast.Expr{ast.NewIdent(name)}, Tok: token.ASSIGN, Rhs: []ast.Expr{r1.Results[0]}}
			eb.List[len(eb.List)-1] = &ast.AssignStmt{Lhs: []ast.Expr{ast.NewIdent(name)}, Tok: token.ASSIGN, Rhs: []ast.Expr{r2.Results[0]}}
			decl := &ast.DeclStmt{Decl: &ast.GenDecl{Tok: token.VAR, Specs: []ast.Spec{&ast.ValueSpec{Names: []*ast.Ident{ast.NewIdent(name)}, Type: rt}}}}
			blk.List = append(append(append([]ast.Stmt{}, blk.List[:len(blk.List)-1]...), decl, is), &ast.ReturnStmt{Results: []ast.Expr{ast.NewIdent(name)}})
			n++
			return false
		}, nil)
	default:
		fmt.Fprintln(os.Stderr, "unknown transform", tr)
		os.Exit(2)
	}
	return n
}

func sanitize(s string) string {
	return strings.Map(func(r rune) rune {
		if r == '.' {
			return '_'
		}
		return r
	}, s)
}

// stripPos clears the positions of a freshly parsed declaration so that the
// printer does not interleave it with the host file's comments.
func stripPos(n ast.Node) {
	ast.Inspect(n, func(m ast.Node) bool {
		switch x := m.(type) {
		case *ast.Ident:
			x.NamePos = 0
		case *ast.BasicLit:
			x.ValuePos = 0
		case *ast.FuncDecl:
			x.Type.Func = 0
		case *ast.BlockStmt:
			x.Lbrace, x.Rbrace = 0, 0
		case *ast.ReturnStmt:
			x.Return = 0
		case *ast.BinaryExpr:
			x.OpPos = 0
		case *ast.UnaryExpr:
			x.OpPos = 0
		case *ast.CallExpr:
			x.Lparen, x.Rparen = 0, 0
		case *ast.ParenExpr:
			x.Lparen, x.Rparen = 0, 0
		case *ast.FieldList:
			x.Opening, x.Closing = 0, 0
		case *ast.StarExpr:
			x.Star = 0
		case *ast.IndexExpr:
			x.Lbrack, x.Rbrack = 0, 0
		case *ast.ArrayType:
			x.Lbrack = 0
		case *ast.MapType:
			x.Map = 0
		case *ast.TypeAssertExpr:
			x.Lparen, x.Rparen = 0, 0
		case *ast.CompositeLit:
			x.Lbrace, x.Rbrace = 0, 0
		case *ast.InterfaceType:
			x.Interface = 0
		case *ast.FuncType:
			x.Func = 0
		case *ast.SliceExpr:
			x.Lbrack, x.Rbrack = 0, 0
		}
		return true
	})
}

// stripPosAll clears every position field of a freshly parsed declaration.
func stripPosAll(n ast.Node) {
	ast.Inspect(n, func(m ast.Node) bool {
		if m == nil {
			return true
		}
		v := reflect.ValueOf(m)
		if v.Kind() != reflect.Ptr || v.IsNil() {
			return true
		}
		e := v.Elem()
		if e.Kind() != reflect.Struct {
			return true
		}
		for i := 0; i < e.NumField(); i++ {
			fl := e.Field(i)
			if fl.Type() == reflect.TypeOf(token.Pos(0)) && fl.CanSet() {
				fl.SetInt(0)
			}
		}
		return true
	})
}

// mentionsLocalType: the type refers to a type declared inside a function (which a package-level signature cannot name).
func mentionsLocalType(t types.Type, seen map[types.Type]bool) bool {
	if t == nil || seen[t] {
		return false
	}
	seen[t] = true
	switch x := t.(type) {
	case *types.Named:
		o := x.Obj()
		if o.Pkg() != nil && o.Parent() != nil && o.Parent() != o.Pkg().Scope() {
			return true
		}
		if ta := x.TypeArgs(); ta != nil {
			for i := 0; i < ta.Len(); i++ {
				if mentionsLocalType(ta.At(i), seen) {
					return true
				}
			}
		}
		return false
	case *types.Pointer:
		return mentionsLocalType(x.Elem(), seen)
	case *types.Slice:
		return mentionsLocalType(x.Elem(), seen)
	case *types.Array:
		return mentionsLocalType(x.Elem(), seen)
	case *types.Chan:
		return mentionsLocalType(x.Elem(), seen)
	case *types.Map:
		return mentionsLocalType(x.Key(), seen) || mentionsLocalType(x.Elem(), seen)
	case *types.Signature:
		for _, tp := range []*types.Tuple{x.Params(), x.Results()} {
			for i := 0; i < tp.Len(); i++ {
				if mentionsLocalType(tp.At(i).Type(), seen) {
					return true
				}
			}
		}
	case *types.Struct:
		for i := 0; i < x.NumFields(); i++ {
			if mentionsLocalType(x.Field(i).Type(), seen) {
				return true
			}
		}
	}
	return false
}
