// neutralfuzz applies one kind of behaviour-preserving rewrite to one function
// (or to every function of a file) of a scratch copy of the repository. It is
// used to fuzz the checker for false alarms: every variant it writes has, by
// construction, the behaviour of the original, so any report on it is wrong.
//
// usage: neutralfuzz -dir <scratch repo> -pkg ./internal/wire -func <name|*> -t <transform>
// transforms: rename, invert, swapeq, negform, demorgan, parens, constextract, hoistcond
package main

import (
	"bytes"
	"flag"
	"fmt"
	"go/ast"
	"go/format"
	"go/token"
	"go/types"
	"os"
	"strconv"
	"strings"

	"golang.org/x/tools/go/ast/astutil"
	"golang.org/x/tools/go/packages"
)

func main() {
	dir := flag.String("dir", "", "repository copy to rewrite in place")
	pkgPat := flag.String("pkg", "./internal/wire", "package pattern")
	fn := flag.String("func", "*", "function name (Type.Method for methods) or *")
	tr := flag.String("t", "rename", "transform")
	list := flag.Bool("list", false, "list function names and exit")
	flag.Parse()
	cfg := &packages.Config{Mode: packages.LoadSyntax, Dir: *dir, Tests: false}
	pkgs, err := packages.Load(cfg, *pkgPat)
	if err != nil || len(pkgs) != 1 || len(pkgs[0].Errors) > 0 {
		fmt.Fprintln(os.Stderr, "load:", err, pkgs)
		os.Exit(2)
	}
	p := pkgs[0]
	changed := map[*ast.File]bool{}
	n := 0
	for _, f := range p.Syntax {
		for _, d := range f.Decls {
			fd, ok := d.(*ast.FuncDecl)
			if !ok || fd.Body == nil {
				continue
			}
			name := fd.Name.Name
			if fd.Recv != nil && len(fd.Recv.List) == 1 {
				t := fd.Recv.List[0].Type
				if s, ok := t.(*ast.StarExpr); ok {
					t = s.X
				}
				if id, ok := t.(*ast.Ident); ok {
					name = id.Name + "." + name
				}
			}
			if *list {
				fmt.Println(name)
				continue
			}
			if *fn != "*" && *fn != name {
				continue
			}
			k := apply(p, f, fd, *tr)
			if k > 0 {
				changed[f] = true
				n += k
			}
		}
	}
	if *list {
		return
	}
	for f := range changed {
		var buf bytes.Buffer
		if err := format.Node(&buf, p.Fset, f); err != nil {
			fmt.Fprintln(os.Stderr, "print:", err)
			os.Exit(2)
		}
		if err := os.WriteFile(p.Fset.File(f.Pos()).Name(), buf.Bytes(), 0o644); err != nil {
			fmt.Fprintln(os.Stderr, err)
			os.Exit(2)
		}
	}
	fmt.Printf("%d sites rewritten\n", n)
}

func pure(e ast.Expr) bool {
	switch x := ast.Unparen(e).(type) {
	case *ast.Ident, *ast.BasicLit:
		return true
	case *ast.SelectorExpr:
		return pure(x.X)
	}
	return false
}

func not(e ast.Expr) ast.Expr {
	return &ast.UnaryExpr{Op: token.NOT, X: &ast.ParenExpr{X: e}}
}

var constN int

func apply(p *packages.Package, f *ast.File, fd *ast.FuncDecl, tr string) int {
	n := 0
	info := p.TypesInfo
	switch tr {
	case "rename":
		// every variable declared inside the function (parameters, results, locals) gets a suffix
		objs := map[types.Object]bool{}
		ast.Inspect(fd, func(nd ast.Node) bool {
			if id, ok := nd.(*ast.Ident); ok {
				if v, ok := info.Defs[id].(*types.Var); ok && !v.IsField() && id.Name != "_" && v.Pos() >= fd.Pos() && v.Pos() < fd.End() {
					objs[v] = true
				}
			}
			return true
		})
		// the implicit objects of type switches share the declaring identifier: rename it with them
		tsDecl := map[token.Pos]bool{}
		for nd, o := range info.Implicits {
			if _, ok := nd.(*ast.CaseClause); ok && o.Pos() >= fd.Pos() && o.Pos() < fd.End() {
				objs[o] = true
				tsDecl[o.Pos()] = true
			}
		}
		ast.Inspect(fd, func(nd ast.Node) bool {
			id, ok := nd.(*ast.Ident)
			if !ok {
				return true
			}
			o := info.Defs[id]
			if o == nil {
				o = info.Uses[id]
			}
			if (o != nil && objs[o]) || (o == nil && tsDecl[id.Pos()] && id.Name != "_") {
				id.Name += "_q"
				n++
			}
			return true
		})
	case "invert":
		ast.Inspect(fd.Body, func(nd ast.Node) bool {
			if is, ok := nd.(*ast.IfStmt); ok {
				if eb, ok := is.Else.(*ast.BlockStmt); ok {
					is.Cond = not(is.Cond)
					is.Body, is.Else = eb, is.Body
					n++
				}
			}
			return true
		})
	case "swapeq":
		ast.Inspect(fd.Body, func(nd ast.Node) bool {
			if be, ok := nd.(*ast.BinaryExpr); ok && (be.Op == token.EQL || be.Op == token.NEQ) && pure(be.X) && pure(be.Y) {
				be.X, be.Y = be.Y, be.X
				n++
			}
			return true
		})
	case "negform":
		astutil.Apply(fd.Body, func(c *astutil.Cursor) bool {
			if be, ok := c.Node().(*ast.BinaryExpr); ok && (be.Op == token.EQL || be.Op == token.NEQ) {
				if _, isCase := c.Parent().(*ast.CaseClause); isCase {
					return true
				}
				op := token.NEQ
				if be.Op == token.NEQ {
					op = token.EQL
				}
				c.Replace(not(&ast.BinaryExpr{X: be.X, Op: op, Y: be.Y}))
				n++
				return false
			}
			return true
		}, nil)
	case "demorgan":
		astutil.Apply(fd.Body, func(c *astutil.Cursor) bool {
			if be, ok := c.Node().(*ast.BinaryExpr); ok && (be.Op == token.LAND || be.Op == token.LOR) {
				op := token.LOR
				if be.Op == token.LOR {
					op = token.LAND
				}
				c.Replace(not(&ast.BinaryExpr{X: not(be.X), Op: op, Y: not(be.Y)}))
				n++
				return false
			}
			return true
		}, nil)
	case "parens":
		ast.Inspect(fd.Body, func(nd ast.Node) bool {
			switch x := nd.(type) {
			case *ast.CallExpr:
				if tv, ok := info.Types[x.Fun]; ok && tv.IsType() {
					return true
				}
				for i, a := range x.Args {
					if _, isP := a.(*ast.ParenExpr); !isP {
						if tv, ok := info.Types[a]; ok && tv.IsType() {
							continue // new(T), make(T): a type, leave it
						}
						x.Args[i] = &ast.ParenExpr{X: a}
						n++
					}
				}
			case *ast.IfStmt:
				x.Cond = &ast.ParenExpr{X: x.Cond}
				n++
			}
			return true
		})
	case "constextract":
		var decls []ast.Spec
		astutil.Apply(fd.Body, func(c *astutil.Cursor) bool {
			lit, ok := c.Node().(*ast.BasicLit)
			if !ok || lit.Kind != token.STRING {
				return true
			}
			if _, inTag := c.Parent().(*ast.Field); inTag {
				return true
			}
			if _, inImport := c.Parent().(*ast.ImportSpec); inImport {
				return true
			}
			constN++
			name := "kq" + strconv.Itoa(constN) + "_" + sanitize(fd.Name.Name)
			decls = append(decls, &ast.ValueSpec{Names: []*ast.Ident{ast.NewIdent(name)}, Values: []ast.Expr{&ast.BasicLit{Kind: token.STRING, Value: lit.Value}}})
			c.Replace(ast.NewIdent(name))
			n++
			return true
		}, nil)
		if len(decls) > 0 {
			f.Decls = append(f.Decls, &ast.GenDecl{Tok: token.CONST, Lparen: 1, Specs: decls, Rparen: 2})
		}
	case "hoistcond":
		k := 0
		astutil.Apply(fd.Body, func(c *astutil.Cursor) bool {
			is, ok := c.Node().(*ast.IfStmt)
			if !ok || is.Init != nil {
				return true
			}
			if _, inBlock := c.Parent().(*ast.BlockStmt); !inBlock || c.Index() < 0 {
				return true // else-if, case bodies …
			}
			k++
			name := "cq" + strconv.Itoa(k)
			c.InsertBefore(&ast.AssignStmt{Lhs: []ast.Expr{ast.NewIdent(name)}, Tok: token.DEFINE, Rhs: []ast.Expr{is.Cond}})
			is.Cond = ast.NewIdent(name)
			n++
			return true
		}, nil)
	default:
		fmt.Fprintln(os.Stderr, "unknown transform", tr)
		os.Exit(2)
	}
	return n
}

func sanitize(s string) string {
	return strings.Map(func(r rune) rune {
		if r == '.' {
			return '_'
		}
		return r
	}, s)
}
