// mutgen enumerates single-site mechanical mutations of the non-test sources
// of a package of a scratch copy of the repository and applies one of them.
// Together with tools/mutcampaign.py it measures, on mutants that the pinned
// test suite does not kill, how many the checker reports.
//
// usage: mutgen -dir <scratch repo> -pkg ./internal/wire -count
//        mutgen -dir <scratch repo> -pkg ./internal/wire -apply <k>   (prints a one-line description)
package main

import (
	"bytes"
	"flag"
	"fmt"
	"go/ast"
	"go/format"
	"go/token"
	"go/types"
	"os"
	"sort"
	"strings"

	"golang.org/x/tools/go/ast/astutil"
	"golang.org/x/tools/go/packages"
)

type site struct {
	file *ast.File
	desc string
	do   func()
}

func main() {
	dir := flag.String("dir", "", "repository copy")
	pkgPat := flag.String("pkg", "./internal/wire", "package pattern")
	count := flag.Bool("count", false, "print the number of sites")
	apply := flag.Int("apply", -1, "apply site k")
	flag.Parse()
	cfg := &packages.Config{Mode: packages.LoadSyntax, Dir: *dir, Tests: false}
	pkgs, err := packages.Load(cfg, *pkgPat)
	if err != nil || len(pkgs) != 1 || len(pkgs[0].Errors) > 0 {
		fmt.Fprintln(os.Stderr, "load:", err)
		os.Exit(2)
	}
	p := pkgs[0]
	info := p.TypesInfo
	files := append([]*ast.File{}, p.Syntax...)
	sort.Slice(files, func(i, j int) bool { return p.Fset.File(files[i].Pos()).Name() < p.Fset.File(files[j].Pos()).Name() })
	var sites []site
	pos := func(n ast.Node) string {
		pp := p.Fset.Position(n.Pos())
		return fmt.Sprintf("%s:%d", strings.TrimPrefix(pp.Filename, *dir+"/"), pp.Line)
	}
	txt := func(n ast.Node) string {
		var b bytes.Buffer
		format.Node(&b, p.Fset, n)
		s := b.String()
		if i := strings.IndexByte(s, '\n'); i >= 0 {
			s = s[:i] + " …"
		}
		if len(s) > 70 {
			s = s[:70] + "…"
		}
		return s
	}
	for _, f := range files {
		f := f
		var fn string
		astutil.Apply(f, func(c *astutil.Cursor) bool {
			if fd, ok := c.Node().(*ast.FuncDecl); ok {
				fn = fd.Name.Name
			}
			switch x := c.Node().(type) {
			case *ast.IfStmt:
				x0 := x
				sites = append(sites, site{f, fmt.Sprintf("%s %s: negate condition `%s`", pos(x), fn, txt(x.Cond)), func() {
					x0.Cond = &ast.UnaryExpr{Op: token.NOT, X: &ast.ParenExpr{X: x0.Cond}}
				}})
			case *ast.BinaryExpr:
				x0 := x
				repl := map[token.Token]token.Token{token.EQL: token.NEQ, token.NEQ: token.EQL, token.LSS: token.LEQ, token.LEQ: token.LSS, token.GTR: token.GEQ, token.GEQ: token.GTR, token.LAND: token.LOR, token.LOR: token.LAND, token.ADD: token.SUB, token.SUB: token.ADD}
				if to, ok := repl[x.Op]; ok {
					if x.Op == token.ADD {
						if t := info.TypeOf(x); t != nil {
							if b, ok := t.Underlying().(*types.Basic); ok && b.Info()&types.IsString != 0 {
								break
							}
						}
					}
					sites = append(sites, site{f, fmt.Sprintf("%s %s: `%s`: %s → %s", pos(x), fn, txt(x), x.Op, to), func() { x0.Op = to }})
				}
			case *ast.UnaryExpr:
				if x.Op == token.NOT {
					x0 := x
					cur := c
					_ = cur
					sites = append(sites, site{f, fmt.Sprintf("%s %s: drop `!` of `%s`", pos(x), fn, txt(x)), func() { x0.Op = token.ADD; x0.X = &ast.ParenExpr{X: x0.X}; markDropNot[x0] = true }})
				}
			case *ast.Ident:
				if (x.Name == "true" || x.Name == "false") && info.Uses[x] != nil && info.Uses[x].Pkg() == nil {
					if _, isKV := c.Parent().(*ast.KeyValueExpr); isKV && c.Name() == "Key" {
						break
					}
					x0 := x
					to := "true"
					if x.Name == "true" {
						to = "false"
					}
					sites = append(sites, site{f, fmt.Sprintf("%s %s: %s → %s", pos(x), fn, x.Name, to), func() { x0.Name = to }})
				}
			case *ast.BasicLit:
				if x.Kind == token.INT && (x.Value == "0" || x.Value == "1" || x.Value == "2") {
					if _, isIdx := c.Parent().(*ast.IndexExpr); isIdx || true {
						x0 := x
						to := map[string]string{"0": "1", "1": "0", "2": "1"}[x.Value]
						sites = append(sites, site{f, fmt.Sprintf("%s %s: literal %s → %s", pos(x), fn, x.Value, to), func() { x0.Value = to }})
					}
				}
			case *ast.BlockStmt:
				for i, st := range x.List {
					i, st, blk := i, st, x
					drop := false
					switch s := st.(type) {
					case *ast.ExprStmt:
						drop = true
					case *ast.AssignStmt:
						drop = s.Tok != token.DEFINE
					case *ast.IncDecStmt:
						drop = true
					case *ast.BranchStmt:
						drop = s.Label == nil && (s.Tok == token.CONTINUE || s.Tok == token.BREAK)
					}
					if drop {
						sites = append(sites, site{f, fmt.Sprintf("%s %s: drop statement `%s`", pos(st), fn, txt(st)), func() {
							blk.List = append(append([]ast.Stmt{}, blk.List[:i]...), blk.List[i+1:]...)
						}})
					}
				}
			case *ast.CallExpr:
				// swap two adjacent arguments of identical type
				for i := 0; i+1 < len(x.Args); i++ {
					a, b := info.TypeOf(x.Args[i]), info.TypeOf(x.Args[i+1])
					if a != nil && b != nil && types.Identical(a, b) && !x.Ellipsis.IsValid() {
						if tv, ok := info.Types[x.Fun]; ok && tv.IsBuiltin() {
							continue
						}
						i, x0 := i, x
						sites = append(sites, site{f, fmt.Sprintf("%s %s: swap arguments %d,%d of `%s`", pos(x), fn, i, i+1, txt(x)), func() {
							x0.Args[i], x0.Args[i+1] = x0.Args[i+1], x0.Args[i]
						}})
					}
				}
			}
			return true
		}, nil)
	}
	if *count {
		fmt.Println(len(sites))
		return
	}
	if *apply < 0 || *apply >= len(sites) {
		fmt.Fprintln(os.Stderr, "no such site")
		os.Exit(2)
	}
	s := sites[*apply]
	s.do()
	// a dropped `!` was marked by turning it into unary +( … ), which does not type-check for bools: unwrap it
	astutil.Apply(s.file, func(c *astutil.Cursor) bool {
		if u, ok := c.Node().(*ast.UnaryExpr); ok && markDropNot[u] {
			c.Replace(u.X)
		}
		return true
	}, nil)
	var buf bytes.Buffer
	if err := format.Node(&buf, p.Fset, s.file); err != nil {
		fmt.Fprintln(os.Stderr, "print:", err)
		os.Exit(2)
	}
	if err := os.WriteFile(p.Fset.File(s.file.Pos()).Name(), buf.Bytes(), 0o644); err != nil {
		fmt.Fprintln(os.Stderr, err)
		os.Exit(2)
	}
	fmt.Println(s.desc)
}

var markDropNot = map[*ast.UnaryExpr]bool{}
