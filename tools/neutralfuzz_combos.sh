#!/bin/bash
# usage: neutralfuzz_combos.sh <from> <to> [k=6] [jobs=8]
# Runs neutralfuzz_combo.sh for every seed in [from,to]; prints the variants that were not silent and a summary line.
cd /verif || exit 2
F=$1; T=$2; K=${3:-6}; J=${4:-8}
out=$(for s in $(seq $F $T); do echo $s; done | xargs -P $J -I{} ./tools/neutralfuzz_combo.sh {} $K 2>&1)
echo "$out" | grep -v ": silent$" | sed 's/^\(combo seed=[0-9]*\):.*: \([^:]*:[^:]*\)$/\1 \2/' | cut -c1-700
tot=$(echo "$out" | grep -c "^combo seed=")
ok=$(echo "$out" | grep -c ": silent$")
echo "neutralfuzz combos $F..$T (depth $K): $ok of $tot silent"
[ "$ok" = "$tot" ]
