#!/usr/bin/env python3
"""Self-validation catalogue (DESIGN.md §7): each mutant is a small semantic
edit of /repo's CURRENT source that still compiles; the named rule must fire.
Neutral variants (expect == "") must stay silent. Scratch copies live under
/tmp, one per mutant, removed immediately.
usage: run_mutants.py [-k substring] [-j N] [--json out]"""
import json, os, subprocess, sys, tempfile, shutil, argparse, concurrent.futures as cf, glob

ENV = dict(os.environ, GOFLAGS='-mod=mod', GOPROXY='off', GOSUMDB='off', GOTOOLCHAIN='local')
ENV.pop('GOWORK', None)

def load():
    out = []
    for f in sorted(glob.glob('/verif/mutants/*.json')):
        for m in json.load(open(f)):
            out.append(m)
    return out

def run(m):
    d = tempfile.mkdtemp(prefix='wc-mut.', dir='/tmp')
    try:
        subprocess.run(['rsync', '-a', '--exclude', '.git', '/repo/', d + '/'], check=True)
        if m.get('revert_patch'):
            # the mutant is the tree with one repair taken out again
            pr = subprocess.run(['patch', '-R', '-p1', '-s', '--no-backup-if-mismatch', '-d', d, '-i', os.path.join('/verif/mutants', m['revert_patch'])], capture_output=True, text=True)
            if pr.returncode != 0:
                return (m, 'SKIP', 'repair patch no longer reverts cleanly: ' + (pr.stdout + pr.stderr)[-200:])
        for e in m.get('edits', []):
            p = os.path.join(d, e['file'])
            s = open(p).read()
            if e.get('all'):
                if s.count(e['old']) < 1:
                    return (m, 'SKIP', 'text does not occur in %s' % e['file'])
            elif s.count(e['old']) != 1:
                return (m, 'SKIP', 'anchor text occurs %d times in %s' % (s.count(e['old']), e['file']))
            s = s.replace(e['old'], e['new'])
            open(p, 'w').write(s)
        b = subprocess.run(['go', 'build', './...'], cwd=d, env=ENV, capture_output=True, text=True)
        if b.returncode != 0:
            return (m, 'NOCOMPILE', b.stderr[-400:])
        if FUZZ:
            # the mutant refactored: K behaviour-preserving rewrites (tools/neutralfuzz) stacked on top of it; a
            # rewrite that does not apply or does not build on this tree is skipped
            import random, zlib
            rnd = random.Random(zlib.crc32(m['name'].encode()) + FUZZSEED)
            applied = []
            for t in rnd.sample(TRANSFORMS, FUZZ):
                for pk in ('./internal/wire', './cmd/wire'):
                    bak = d + '.bak'
                    shutil.rmtree(bak, ignore_errors=True)
                    shutil.copytree(d, bak, symlinks=True)
                    fz = subprocess.run(['/verif/bin/neutralfuzz', '-dir', d, '-pkg', pk, '-func', '*', '-t', t], env=ENV, capture_output=True, text=True)
                    okb = fz.returncode == 0 and subprocess.run(['go', 'build', './...'], cwd=d, env=ENV, capture_output=True).returncode == 0
                    if not okb:
                        shutil.rmtree(d, ignore_errors=True)
                        os.rename(bak, d)
                    else:
                        shutil.rmtree(bak, ignore_errors=True)
                        applied.append(t)
            m = dict(m, fuzz=sorted(set(applied)))
        ev = os.path.join(d, '.ev')
        r = subprocess.run(['/verif/bin/wirecheck', '-repo', d, '-property', m.get('property', 'all'), '-evidence', ev, '-known', '/verif/known_findings.json'],
                           env=ENV, capture_output=True, text=True)
        lines = [l.strip().replace(d + '/', '') for l in r.stdout.splitlines() if l.startswith('  VIOLATION') or l.startswith('  UNDECIDED')]
        want = m.get('expect', '')
        if want == '':
            return (m, 'OK' if not lines and r.returncode == 0 else 'FALSE-ALARM', '\n'.join(lines[:6]))
        hit = [l for l in lines if (' ' + want + ' ') in l or (' ' + want + '@') in l or l.split()[1].startswith(want)]
        if hit:
            return (m, 'OK', hit[0][:220])
        return (m, 'MISSED', '\n'.join(lines[:4]) or 'no violation reported')
    finally:
        shutil.rmtree(d, ignore_errors=True)

FUZZ = 0
FUZZSEED = 0
TRANSFORMS = 'rename invert swapeq negform demorgan parens constextract hoistcond guard2else switch2if retlocal varform reorder splitinit mergeinit hoistarg ret2else splitand lencmp incr boolret predfunc rangeidx elsenest swapand kvorder caseorder renamefile extractblock countloop flag2counter labelcontinue joinvar'.split()

def main():
    global FUZZ, FUZZSEED
    ap = argparse.ArgumentParser()
    ap.add_argument('--fuzz', type=int, default=0, help='stack this many behaviour-preserving rewrites on every mutant before checking it')
    ap.add_argument('--fuzzseed', type=int, default=0)
    ap.add_argument('-k', default='')
    ap.add_argument('-j', type=int, default=12)
    ap.add_argument('--json', default='')
    a = ap.parse_args()
    FUZZ, FUZZSEED = a.fuzz, a.fuzzseed
    ms = [m for m in load() if a.k in m['name'] or a.k in m.get('property', '')]
    res = []
    with cf.ThreadPoolExecutor(a.j) as ex:
        for m, st, info in ex.map(run, ms):
            res.append({'name': m['name'], 'property': m.get('property'), 'expect': m.get('expect', ''), 'status': st, 'info': info})
            print('%-11s %-6s %-44s %s%s' % (st, m.get('property', ''), m['name'], info.splitlines()[0][:150] if info else '', (' [after ' + ','.join(m['fuzz']) + ']') if m.get('fuzz') else ''))
    bad = [r for r in res if r['status'] not in ('OK',)]
    print('%d mutants, %d ok, %d not ok' % (len(res), len(res) - len(bad), len(bad)))
    if a.json:
        json.dump(res, open(a.json, 'w'), indent=1)
    sys.exit(1 if bad else 0)
main()
