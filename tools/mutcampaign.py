#!/usr/bin/env python3
"""Mechanical mutation campaign (DESIGN §10.4). Samples single-site mutations of /repo's current sources
(tools/mutgen: negated conditions, flipped comparison/logical operators, dropped statements, flipped boolean and
small integer literals, swapped same-typed arguments, dropped negations), keeps those that still build, runs the
pinned baseline suite on each (killed / survived), and runs wirecheck -property all on every one.
The interesting population is the SURVIVORS — changes the tests do not notice: how many does the checker report?
usage: mutcampaign.py -n 600 [-seed 1] [-j 10] [-o mutcampaign/results.jsonl]"""
import argparse, json, os, random, shutil, subprocess, sys, tempfile, concurrent.futures as cf

ENV = dict(os.environ, GOFLAGS='-mod=mod', GOPROXY='off', GOSUMDB='off', GOTOOLCHAIN='local')
ENV.pop('GOWORK', None)
PKGS = ['./internal/wire', './cmd/wire']

def count(pkg):
    d = tempfile.mkdtemp(prefix='wc-mc.', dir='/tmp')
    try:
        subprocess.run(['rsync', '-a', '--exclude', '.git', '/repo/', d + '/'], check=True)
        r = subprocess.run(['/verif/bin/mutgen', '-dir', d, '-pkg', pkg, '-count'], env=ENV, capture_output=True, text=True)
        return int(r.stdout.strip())
    finally:
        shutil.rmtree(d, ignore_errors=True)

def run(job):
    pkg, k = job
    d = tempfile.mkdtemp(prefix='wc-mc.', dir='/tmp')
    rec = {'pkg': pkg, 'site': k}
    try:
        subprocess.run(['rsync', '-a', '--exclude', '.git', '/repo/', d + '/'], check=True)
        r = subprocess.run(['/verif/bin/mutgen', '-dir', d, '-pkg', pkg, '-apply', str(k)], env=ENV, capture_output=True, text=True)
        if r.returncode != 0:
            rec['status'] = 'apply-failed'
            return rec
        rec['mutation'] = r.stdout.strip()
        if subprocess.run(['go', 'build', './...'], cwd=d, env=ENV, capture_output=True).returncode != 0:
            rec['status'] = 'does-not-build'
            return rec
        if subprocess.run(['go', 'vet', './internal/wire', './cmd/wire'], cwd=d, env=ENV, capture_output=True).returncode != 0:
            rec['vet'] = 'complains'
        try:
            b = subprocess.run(['/verif/tools/baseline.sh', d], env=dict(ENV, BASELINE_TIMEOUT='4m'), capture_output=True, text=True, timeout=420)
            rec['tests'] = 'survived' if b.returncode == 0 else 'killed'
        except subprocess.TimeoutExpired:
            rec['tests'] = 'killed'
            rec['note'] = 'suite did not finish (endless loop)'
        try:
            w = subprocess.run([os.environ.get('WIRECHECK_BIN', '/verif/bin/wirecheck'), '-repo', d, '-property', 'all', '-evidence', os.path.join(d, '.ev'), '-known', '/verif/known_findings.json'], env=ENV, capture_output=True, text=True, timeout=300)
        except subprocess.TimeoutExpired:
            rec['status'] = 'checker-timeout'
            return rec
        rules = sorted({l.split()[1] for l in w.stdout.splitlines() if l.startswith('  VIOLATION') or l.startswith('  UNDECIDED')})
        props = sorted({l.split('property=')[1].split()[0] for l in w.stdout.splitlines() if l.startswith('VIOLATION property=')})
        if 'cannot load' in w.stdout:
            rules.append('cannot-load')
        rec['rules'] = rules
        rec['properties'] = props
        rec['status'] = 'ok'
        return rec
    finally:
        shutil.rmtree(d, ignore_errors=True)

def main():
    ap = argparse.ArgumentParser()
    ap.add_argument('-n', type=int, default=300)
    ap.add_argument('-seed', type=int, default=1)
    ap.add_argument('-j', type=int, default=8)
    ap.add_argument('-o', default='/verif/mutcampaign/results.jsonl')
    a = ap.parse_args()
    jobs = []
    for pkg in PKGS:
        jobs += [(pkg, k) for k in range(count(pkg))]
    rnd = random.Random(a.seed)
    rnd.shuffle(jobs)
    jobs = jobs[:a.n]
    os.makedirs(os.path.dirname(a.o), exist_ok=True)
    done = 0
    with open(a.o, 'w') as out, cf.ThreadPoolExecutor(a.j) as ex:
        for rec in ex.map(run, jobs):
            out.write(json.dumps(rec) + '\n')
            out.flush()
            done += 1
            if done % 25 == 0:
                print(done, 'done', file=sys.stderr)
    recs = [json.loads(l) for l in open(a.o)]
    ok = [r for r in recs if r.get('status') == 'ok']
    surv = [r for r in ok if r['tests'] == 'survived']
    killed = [r for r in ok if r['tests'] == 'killed']
    print('sampled %d, built %d, killed by the pinned suite %d, survived %d' % (len(recs), len(ok), len(killed), len(surv)))
    print('reported by wirecheck: %d of %d survivors, %d of %d killed' % (sum(1 for r in surv if r['rules']), len(surv), sum(1 for r in killed if r['rules']), len(killed)))
main()
