#!/bin/bash
# usage: check.sh <property-id> <quick|thorough>
# Rebuilds wirecheck when its sources are newer than the binary, then analyses
# /repo's current working tree. No hooks are needed: the analysis reads source.
# thorough = quick rules + build matrix (in wirecheck) + self-validation of the
# rules on scratch copies of the current tree (mutant catalogue, neutral
# variants, confirmed seeded changes), recorded in the evidence.
cd /verif || exit 2
export GOFLAGS=-mod=mod GOPROXY=off GOSUMDB=off GOTOOLCHAIN=local
unset GOWORK
if [ ! -x bin/wirecheck ] || [ -n "$(find checker -newer bin/wirecheck \( -name '*.go' -o -name go.mod \) | head -1)" ]; then
  mkdir -p bin
  (cd checker && go build -o ../bin/wirecheck .) || { echo "wirecheck: build failed"; exit 2; }
fi
TIER="${2:-${VERIF_TIER:-quick}}"
bin/wirecheck -property "$1" -tier "$TIER" -repo /repo -evidence /verif/evidence -known /verif/known_findings.json
rc=$?
if [ "$TIER" = thorough ] && [ -f "/verif/evidence/$1.json" ]; then
  python3 tools/selfval.py "$1"
fi
exit $rc
