#!/bin/bash
# usage: check.sh <property-id> <quick|thorough>
# Rebuilds wirecheck when its sources are newer than the binary, then analyses
# /repo's current working tree. No hooks are needed: the analysis reads source.
cd /verif || exit 2
export GOFLAGS=-mod=mod GOPROXY=off GOSUMDB=off GOTOOLCHAIN=local
unset GOWORK
if [ ! -x bin/wirecheck ] || [ -n "$(find checker -newer bin/wirecheck \( -name '*.go' -o -name go.mod \) | head -1)" ]; then
  mkdir -p bin
  (cd checker && go build -o ../bin/wirecheck .) || { echo "wirecheck: build failed"; exit 2; }
fi
exec bin/wirecheck -property "$1" -tier "${2:-quick}" -repo /repo -evidence /verif/evidence -known /verif/known_findings.json
