package main

import (
	"fmt"
	"go/ast"
	"go/token"
	"go/types"
	"os"
	"sort"
	"strings"

	"golang.org/x/tools/go/packages"
)

const (
	modPath  = "github.com/google/wire"
	pathRoot = modPath
	pathW    = modPath + "/internal/wire"
	pathCmd  = modPath + "/cmd/wire"
)

// Ctx is the resolved program under analysis: the three packages of module
// github.com/google/wire, type-checked from /repo's current working tree.
type Ctx struct {
	Repo string
	Tier string
	Fset *token.FileSet
	Pkgs []*packages.Package
	Root *packages.Package
	W    *packages.Package
	Cmd  *packages.Package

	funcs map[string]*FuncInfo // key: pkgpath + "::" + name
	all   []*FuncInfo

	// helpers extracted from a single call site are analysed as part of their
	// caller: linked maps that call expression to the callee, and the callee's
	// declaration gets the call expression as its parent (see link).
	linked   map[*ast.CallExpr]*FuncInfo
	linkedTo map[*FuncInfo]*ast.CallExpr
	// successRet: for a linked helper with several results whose last result
	// says whether it succeeded (bool true / nil error), the one return
	// statement that reports success.
	successRet map[*ast.CallExpr]*ast.ReturnStmt
	// failureRet: for a linked helper whose last result is an error and that
	// has exactly one return with a non-nil error, that return.
	failureRet map[*ast.CallExpr]*ast.ReturnStmt
	// searchRet: for a linked helper with a single int result that returns a
	// position when it finds something and the constant -1 otherwise, the one
	// return that reports a find.
	searchRet map[*ast.CallExpr]*ast.ReturnStmt
	requested map[string]bool
	idx       map[*packages.Package]*pkgIndex

	Renamed []string // renamed functions recognised by signature
	// load configuration (for evidence)
	LoadEnv   []string
	LoadFlags []string
	FileSet   map[string][]string
}

// loadCtx loads the module with the given extra environment / build flags.
func loadCtx(repo, tier string, extraEnv []string, buildFlags []string) (*Ctx, error) {
	env := append(os.Environ(),
		"GOFLAGS=-mod=mod", "GOPROXY=off", "GOSUMDB=off", "GOTOOLCHAIN=local", "GOWORK=off")
	env = append(env, extraEnv...)
	cfg := &packages.Config{
		Mode:       packages.LoadAllSyntax,
		Dir:        repo,
		Env:        env,
		Tests:      false,
		BuildFlags: buildFlags,
	}
	pkgs, err := packages.Load(cfg, "./...")
	if err != nil {
		return nil, fmt.Errorf("packages.Load: %v", err)
	}
	c := &Ctx{Repo: repo, Tier: tier, funcs: map[string]*FuncInfo{}, LoadEnv: extraEnv, LoadFlags: buildFlags, FileSet: map[string][]string{},
		linked: map[*ast.CallExpr]*FuncInfo{}, linkedTo: map[*FuncInfo]*ast.CallExpr{}, successRet: map[*ast.CallExpr]*ast.ReturnStmt{}, failureRet: map[*ast.CallExpr]*ast.ReturnStmt{}, searchRet: map[*ast.CallExpr]*ast.ReturnStmt{}, requested: map[string]bool{}, idx: map[*packages.Package]*pkgIndex{}}
	for _, p := range pkgs {
		if len(p.Errors) > 0 {
			return nil, fmt.Errorf("package %s has errors: %v", p.PkgPath, p.Errors[0])
		}
		if p.IllTyped {
			return nil, fmt.Errorf("package %s is ill-typed", p.PkgPath)
		}
		switch p.PkgPath {
		case pathRoot:
			c.Root = p
		case pathW:
			c.W = p
		case pathCmd:
			c.Cmd = p
		default:
			return nil, fmt.Errorf("unexpected package %s in module", p.PkgPath)
		}
		c.Fset = p.Fset
		for _, f := range p.CompiledGoFiles {
			c.FileSet[p.PkgPath] = append(c.FileSet[p.PkgPath], strings.TrimPrefix(f, repo+"/"))
		}
	}
	c.Pkgs = pkgs
	if c.Root == nil || c.W == nil || c.Cmd == nil {
		return nil, fmt.Errorf("expected packages %s, %s, %s; loaded %d packages", pathRoot, pathW, pathCmd, len(pkgs))
	}
	notes, err := canonicalise(map[string]*packages.Package{pathRoot: c.Root, pathW: c.W, pathCmd: c.Cmd})
	if err != nil {
		return nil, err
	}
	c.Renamed = notes
	inotes, err := inlineTrivial(map[string]*packages.Package{pathRoot: c.Root, pathW: c.W, pathCmd: c.Cmd})
	if err != nil {
		return nil, err
	}
	c.Renamed = append(c.Renamed, inotes...)
	snotes, err := specialise(map[string]*packages.Package{pathRoot: c.Root, pathW: c.W, pathCmd: c.Cmd})
	if err != nil {
		return nil, err
	}
	c.Renamed = append(c.Renamed, snotes...)
	k, nnotes, err := normaliseSyntax(map[string]*packages.Package{pathRoot: c.Root, pathW: c.W, pathCmd: c.Cmd})
	c.Renamed = append(c.Renamed, nnotes...)
	if err != nil {
		return nil, err
	} else if k > 0 {
		c.Renamed = append(c.Renamed, fmt.Sprintf("%d conditions brought into negation normal form / constant-on-the-right form", k))
	}
	for _, p := range []*packages.Package{c.Root, c.W, c.Cmd} {
		indexOrder(p.Syntax)
	}
	for _, p := range []*packages.Package{c.Root, c.W, c.Cmd} {
		for _, f := range p.Syntax {
			for _, d := range f.Decls {
				fd, ok := d.(*ast.FuncDecl)
				if !ok {
					continue
				}
				obj, _ := p.TypesInfo.Defs[fd.Name].(*types.Func)
				if obj == nil {
					continue
				}
				if c.idx[p] == nil {
					c.idx[p] = &pkgIndex{parent: map[ast.Node]ast.Node{}, defs: map[*types.Var][]defSite{}, results: map[*types.Var]bool{}}
				}
				fi := newFuncInfo(c, p, fd, obj)
				c.funcs[p.PkgPath+"::"+fi.Name] = fi
				c.all = append(c.all, fi)
			}
		}
	}
	sort.Slice(c.all, func(i, j int) bool { return c.all[i].Key() < c.all[j].Key() })
	return c, nil
}

// Fn returns the function named name ("solve", "gen.inject",
// "injectorGen.funcProviderCall") in package p, or nil.
func (c *Ctx) Fn(p *packages.Package, name string) *FuncInfo {
	c.requested[p.PkgPath+"::"+name] = true
	return c.funcs[p.PkgPath+"::"+name]
}

// link makes helpers that have exactly one call site in their own package,
// are never used as values, are not recursive and are not requested by name
// by any rule transparent to the analyses: the callee's declaration is given
// the call expression as parent (so dominating conditions, enclosing loops
// and "within" relations continue into the caller) and each parameter is
// treated as defined by the corresponding argument expression.
func (c *Ctx) link(anchors map[string]bool) {
	type site struct {
		from *FuncInfo
		call *ast.CallExpr
	}
	calls := map[*types.Func][]site{}
	valueRefs := map[*types.Func]int{}
	for _, fi := range c.all {
		ast.Inspect(fi.Decl, func(n ast.Node) bool {
			id, ok := n.(*ast.Ident)
			if !ok {
				return true
			}
			f, ok := fi.Info.Uses[id].(*types.Func)
			if !ok || c.FnOf(f) == nil {
				return true
			}
			// is this identifier the function operand of a call?
			var fun ast.Expr = id
			par := fi.parent[id]
			if sel, ok := par.(*ast.SelectorExpr); ok && sel.Sel == id {
				fun = sel
				par = fi.parent[sel]
			}
			for {
				if pe, ok := par.(*ast.ParenExpr); ok {
					fun = pe
					par = fi.parent[pe]
					continue
				}
				break
			}
			if call, ok := par.(*ast.CallExpr); ok && call.Fun == fun {
				calls[f] = append(calls[f], site{fi, call})
			} else {
				valueRefs[f]++
			}
			return true
		})
	}
	for _, h := range append([]*FuncInfo{}, c.all...) {
		ss := calls[h.Obj]
		if len(ss) != 1 || valueRefs[h.Obj] > 0 || anchors[h.Key()] || h.Obj.Exported() {
			continue
		}
		s := ss[0]
		if s.from == h || s.from.Pkg != h.Pkg || h.Decl.Body == nil {
			continue
		}
		// no cycles through links
		cyc := false
		for p := s.from; p != nil; {
			if p == h {
				cyc = true
				break
			}
			cl := c.linkedTo[p]
			if cl == nil {
				break
			}
			p = c.enclosingFunc(p.Pkg, cl)
		}
		if cyc {
			continue
		}
		sig := h.Obj.Type().(*types.Signature)
		if sig.Variadic() {
			continue
		}
		c.linked[s.call] = h
		c.linkedTo[h] = s.call
		// a linked helper is analysed through its caller: drop it from the iteration set
		for i, x := range c.all {
			if x == h {
				c.all = append(append([]*FuncInfo{}, c.all[:i]...), c.all[i+1:]...)
				break
			}
		}
		h.parent[h.Decl] = s.call
		// bind parameters to arguments
		i := 0
		for _, f := range h.Decl.Type.Params.List {
			for _, nm := range f.Names {
				if v, ok := h.Info.Defs[nm].(*types.Var); ok && i < len(s.call.Args) {
					if ds := h.defs[v]; len(ds) == 1 && ds[0].kind == "param" {
						h.defs[v] = []defSite{{node: ds[0].node, rhs: s.call.Args[i], idx: -1, kind: "param"}}
					}
				}
				i++
			}
		}
		// results: `a, b, ok := h(x)` where h has exactly one return that reports success —
		// a and b are then defined by that return's operands, and a passed test of ok
		// carries the conditions under which that return is reached (Guards)
		if sig.Results().Len() == 1 && types.TypeString(sig.Results().At(0).Type(), nil) == "int" {
			var found *ast.ReturnStmt
			okS, misses := true, 0
			for _, rt := range h.returnsOf() {
				if len(rt.Results) != 1 {
					okS = false
					break
				}
				if k, isC := h.constInt(rt.Results[0]); isC {
					if k != -1 {
						okS = false
					}
					misses++
					continue
				}
				if found != nil {
					okS = false
				}
				found = rt
			}
			if okS && found != nil && misses > 0 {
				c.searchRet[s.call] = found
			}
		}
		if nres := sig.Results().Len(); nres >= 1 && isErrorType(sig.Results().At(nres-1).Type()) {
			if F := uniqueFailureReturn(h, nres); F != nil {
				c.failureRet[s.call] = F
			}
		}
		// a helper that merely forwards a multi-value call (`return f(…)`): the caller's variables are
		// the results of that inner call
		if nres := sig.Results().Len(); nres >= 2 {
			if rets := h.returnsOf(); len(rets) == 1 && len(rets[0].Results) == 1 {
				if inner, ok := ast.Unparen(rets[0].Results[0]).(*ast.CallExpr); ok {
					if as, ok := s.from.parent[s.call].(*ast.AssignStmt); ok && len(as.Rhs) == 1 && len(as.Lhs) == nres {
						for i := 0; i < nres; i++ {
							v := s.from.varOf(as.Lhs[i])
							if v == nil {
								continue
							}
							ds := s.from.defs[v]
							for j := range ds {
								if ds[j].rhs == ast.Expr(s.call) && ds[j].idx == i {
									ds[j].rhs = inner
								}
							}
						}
					}
				}
			}
		}
		if nres := sig.Results().Len(); nres >= 2 {
			if as, ok := s.from.parent[s.call].(*ast.AssignStmt); ok && len(as.Rhs) == 1 && len(as.Lhs) == nres {
				if S := uniqueSuccessReturn(h, nres); S != nil {
					c.successRet[s.call] = S
					for i := 0; i < nres-1; i++ {
						v := s.from.varOf(as.Lhs[i])
						if v == nil {
							continue
						}
						ds := s.from.defs[v]
						for j := range ds {
							if ds[j].rhs == ast.Expr(s.call) && ds[j].idx == i {
								ds[j].rhs, ds[j].idx = S.Results[i], -1
							}
						}
					}
				}
			}
		}
		if h.Decl.Recv != nil && len(h.Decl.Recv.List) == 1 && len(h.Decl.Recv.List[0].Names) == 1 {
			if v, ok := h.Info.Defs[h.Decl.Recv.List[0].Names[0]].(*types.Var); ok {
				if rx := recvOf(s.call); rx != nil && len(h.defs[v]) == 0 {
					h.defs[v] = []defSite{{node: h.Decl.Recv.List[0], rhs: rx, idx: -1, kind: "param"}}
				}
			}
		}
	}
}

// enclosingFunc returns the declared function containing node n.
func (c *Ctx) enclosingFunc(p *packages.Package, n ast.Node) *FuncInfo {
	idx := c.idx[p]
	for q := n; q != nil; q = idx.parent[q] {
		if fd, ok := q.(*ast.FuncDecl); ok {
			if obj, ok := p.TypesInfo.Defs[fd.Name].(*types.Func); ok {
				return c.FnOf(obj)
			}
		}
	}
	return nil
}

// FnOf returns the FuncInfo for a *types.Func declared in the module, or nil.
func (c *Ctx) FnOf(f *types.Func) *FuncInfo {
	if f == nil || f.Pkg() == nil {
		return nil
	}
	return c.funcs[f.Pkg().Path()+"::"+funcName(f)]
}

func (c *Ctx) Pos(p token.Pos) string {
	if !p.IsValid() {
		return "-"
	}
	pp := c.Fset.Position(p)
	return fmt.Sprintf("%s:%d", strings.TrimPrefix(pp.Filename, c.Repo+"/"), pp.Line)
}

// funcAlias maps a function object whose declared name differs from the name
// the rules know it by (a renamed helper, recognised by its unique signature —
// see resolveRenames) to that canonical name.
var funcAlias = map[*types.Func]string{}

// sigKey renders a function's receiver type and parameter/result types without names.
func sigKey(f *types.Func) string {
	sig := f.Type().(*types.Signature)
	q := func(p *types.Package) string { return p.Path() }
	var sb strings.Builder
	if sig.Recv() != nil {
		sb.WriteString("(" + types.TypeString(sig.Recv().Type(), q) + ") ")
	}
	sb.WriteString("(")
	for i := 0; i < sig.Params().Len(); i++ {
		if i > 0 {
			sb.WriteString(", ")
		}
		if sig.Variadic() && i == sig.Params().Len()-1 {
			sb.WriteString("...")
		}
		sb.WriteString(types.TypeString(sig.Params().At(i).Type(), q))
	}
	sb.WriteString(") (")
	for i := 0; i < sig.Results().Len(); i++ {
		if i > 0 {
			sb.WriteString(", ")
		}
		sb.WriteString(types.TypeString(sig.Results().At(i).Type(), q))
	}
	sb.WriteString(")")
	return sb.String()
}

// resolveRenames recognises functions of the pinned tree that were merely
// renamed: a known function name that no longer exists is matched to the one
// function of the same package with the same receiver and signature whose own
// name is not known, provided that signature was unique in the pinned tree.
func (c *Ctx) resolveRenames() []string {
	var notes []string
	known := map[string]bool{}
	sigCount := map[string]int{}
	for _, a := range anchorSigs {
		known[a[0]+"::"+a[1]] = true
		sigCount[a[0]+"|"+a[2]]++
	}
	for _, a := range anchorSigs {
		key := a[0] + "::" + a[1]
		if c.funcs[key] != nil || sigCount[a[0]+"|"+a[2]] != 1 {
			continue
		}
		var cands []*FuncInfo
		for _, fi := range c.all {
			if fi.Pkg.PkgPath == a[0] && !known[fi.Key()] && sigKey(fi.Obj) == a[2] {
				cands = append(cands, fi)
			}
		}
		if len(cands) != 1 {
			continue
		}
		fi := cands[0]
		notes = append(notes, fi.Name+" is treated as the renamed "+a[1]+" (same unique signature)")
		funcAlias[fi.Obj] = a[1]
		delete(c.funcs, fi.Key())
		fi.Name = a[1]
		c.funcs[key] = fi
	}
	return notes
}

// funcName renders "name" for package functions and "Recv.name" for methods
// (pointer-ness of the receiver dropped).
func funcName(f *types.Func) string {
	if a, ok := funcAlias[f]; ok {
		return a
	}
	sig, _ := f.Type().(*types.Signature)
	if sig != nil && sig.Recv() != nil {
		t := sig.Recv().Type()
		if p, ok := t.(*types.Pointer); ok {
			t = p.Elem()
		}
		if n, ok := t.(*types.Named); ok {
			return n.Obj().Name() + "." + f.Name()
		}
	}
	return f.Name()
}

// lookupType finds a named type declared in package p.
func lookupType(p *packages.Package, name string) *types.Named {
	o := p.Types.Scope().Lookup(name)
	if o == nil {
		return nil
	}
	n, _ := o.Type().(*types.Named)
	return n
}

// structField returns the field object named f of named struct type n.
func structField(n *types.Named, f string) *types.Var {
	if n == nil {
		return nil
	}
	st, ok := n.Underlying().(*types.Struct)
	if !ok {
		return nil
	}
	for i := 0; i < st.NumFields(); i++ {
		if st.Field(i).Name() == f {
			return st.Field(i)
		}
	}
	return nil
}

// importedPkg returns the *types.Package with the given path from the import
// closure of p.
func importedPkg(p *packages.Package, path string) *types.Package {
	seen := map[string]bool{}
	var walk func(q *packages.Package) *types.Package
	walk = func(q *packages.Package) *types.Package {
		if seen[q.PkgPath] {
			return nil
		}
		seen[q.PkgPath] = true
		if q.PkgPath == path {
			return q.Types
		}
		for _, im := range q.Imports {
			if r := walk(im); r != nil {
				return r
			}
		}
		return nil
	}
	return walk(p)
}

func (c *Ctx) linkedNames() []string {
	var out []string
	for h, call := range c.linkedTo {
		if from := c.enclosingFunc(h.Pkg, call); from != nil {
			out = append(out, h.Name+" → "+from.Name)
		}
	}
	sort.Strings(out)
	return out
}

// uniqueSuccessReturn returns the single return statement of h whose last
// operand reports success (the literal true, or nil for an error), provided
// every other return reports failure explicitly (false / a non-nil error
// expression). Otherwise nil.
func uniqueSuccessReturn(h *FuncInfo, nres int) *ast.ReturnStmt {
	var succ *ast.ReturnStmt
	for _, r := range h.returnsOf() {
		if len(r.Results) != nres {
			return nil
		}
		last := ast.Unparen(r.Results[nres-1])
		id, isId := last.(*ast.Ident)
		switch {
		case isId && (id.Name == "true" || id.Name == "nil") && h.Info.Uses[id] != nil && h.Info.Uses[id].Pkg() == nil:
			if succ != nil {
				return nil
			}
			succ = r
		case isId && id.Name == "false" && h.Info.Uses[id] != nil && h.Info.Uses[id].Pkg() == nil:
		case !isId && isErrorType(h.Info.TypeOf(last)):
			// a constructed error
		default:
			if _, isCall := last.(*ast.CallExpr); isCall && isErrorType(h.Info.TypeOf(last)) {
				continue
			}
			return nil
		}
	}
	return succ
}

// uniqueFailureReturn returns the single return statement of h whose last
// operand is a non-nil error, provided every other return has a literal nil
// there. Otherwise nil.
func uniqueFailureReturn(h *FuncInfo, nres int) *ast.ReturnStmt {
	var fail *ast.ReturnStmt
	for _, r := range h.returnsOf() {
		if len(r.Results) != nres {
			return nil
		}
		if h.isNilIdent(r.Results[nres-1]) {
			continue
		}
		if fail != nil {
			return nil
		}
		fail = r
	}
	return fail
}
