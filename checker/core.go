package main

import (
	"fmt"
	"go/ast"
	"go/token"
	"go/types"
	"os"
	"sort"
	"strings"

	"golang.org/x/tools/go/packages"
)

const (
	modPath  = "github.com/google/wire"
	pathRoot = modPath
	pathW    = modPath + "/internal/wire"
	pathCmd  = modPath + "/cmd/wire"
)

// Ctx is the resolved program under analysis: the three packages of module
// github.com/google/wire, type-checked from /repo's current working tree.
type Ctx struct {
	Repo string
	Tier string
	Fset *token.FileSet
	Pkgs []*packages.Package
	Root *packages.Package
	W    *packages.Package
	Cmd  *packages.Package

	funcs map[string]*FuncInfo // key: pkgpath + "::" + name
	all   []*FuncInfo

	// load configuration (for evidence)
	LoadEnv   []string
	LoadFlags []string
	FileSet   map[string][]string
}

// loadCtx loads the module with the given extra environment / build flags.
func loadCtx(repo, tier string, extraEnv []string, buildFlags []string) (*Ctx, error) {
	env := append(os.Environ(),
		"GOFLAGS=-mod=mod", "GOPROXY=off", "GOSUMDB=off", "GOTOOLCHAIN=local", "GOWORK=off")
	env = append(env, extraEnv...)
	cfg := &packages.Config{
		Mode:       packages.LoadAllSyntax,
		Dir:        repo,
		Env:        env,
		Tests:      false,
		BuildFlags: buildFlags,
	}
	pkgs, err := packages.Load(cfg, "./...")
	if err != nil {
		return nil, fmt.Errorf("packages.Load: %v", err)
	}
	c := &Ctx{Repo: repo, Tier: tier, funcs: map[string]*FuncInfo{}, LoadEnv: extraEnv, LoadFlags: buildFlags, FileSet: map[string][]string{}}
	for _, p := range pkgs {
		if len(p.Errors) > 0 {
			return nil, fmt.Errorf("package %s has errors: %v", p.PkgPath, p.Errors[0])
		}
		if p.IllTyped {
			return nil, fmt.Errorf("package %s is ill-typed", p.PkgPath)
		}
		switch p.PkgPath {
		case pathRoot:
			c.Root = p
		case pathW:
			c.W = p
		case pathCmd:
			c.Cmd = p
		default:
			return nil, fmt.Errorf("unexpected package %s in module", p.PkgPath)
		}
		c.Fset = p.Fset
		for _, f := range p.CompiledGoFiles {
			c.FileSet[p.PkgPath] = append(c.FileSet[p.PkgPath], strings.TrimPrefix(f, repo+"/"))
		}
	}
	c.Pkgs = pkgs
	if c.Root == nil || c.W == nil || c.Cmd == nil {
		return nil, fmt.Errorf("expected packages %s, %s, %s; loaded %d packages", pathRoot, pathW, pathCmd, len(pkgs))
	}
	for _, p := range []*packages.Package{c.Root, c.W, c.Cmd} {
		for _, f := range p.Syntax {
			for _, d := range f.Decls {
				fd, ok := d.(*ast.FuncDecl)
				if !ok {
					continue
				}
				obj, _ := p.TypesInfo.Defs[fd.Name].(*types.Func)
				if obj == nil {
					continue
				}
				fi := newFuncInfo(p, fd, obj)
				c.funcs[p.PkgPath+"::"+fi.Name] = fi
				c.all = append(c.all, fi)
			}
		}
	}
	sort.Slice(c.all, func(i, j int) bool { return c.all[i].Key() < c.all[j].Key() })
	return c, nil
}

// Fn returns the function named name ("solve", "gen.inject",
// "injectorGen.funcProviderCall") in package p, or nil.
func (c *Ctx) Fn(p *packages.Package, name string) *FuncInfo {
	return c.funcs[p.PkgPath+"::"+name]
}

// FnOf returns the FuncInfo for a *types.Func declared in the module, or nil.
func (c *Ctx) FnOf(f *types.Func) *FuncInfo {
	if f == nil || f.Pkg() == nil {
		return nil
	}
	return c.funcs[f.Pkg().Path()+"::"+funcName(f)]
}

func (c *Ctx) Pos(p token.Pos) string {
	if !p.IsValid() {
		return "-"
	}
	pp := c.Fset.Position(p)
	return fmt.Sprintf("%s:%d", strings.TrimPrefix(pp.Filename, c.Repo+"/"), pp.Line)
}

// funcName renders "name" for package functions and "Recv.name" for methods
// (pointer-ness of the receiver dropped).
func funcName(f *types.Func) string {
	sig, _ := f.Type().(*types.Signature)
	if sig != nil && sig.Recv() != nil {
		t := sig.Recv().Type()
		if p, ok := t.(*types.Pointer); ok {
			t = p.Elem()
		}
		if n, ok := t.(*types.Named); ok {
			return n.Obj().Name() + "." + f.Name()
		}
	}
	return f.Name()
}

// lookupType finds a named type declared in package p.
func lookupType(p *packages.Package, name string) *types.Named {
	o := p.Types.Scope().Lookup(name)
	if o == nil {
		return nil
	}
	n, _ := o.Type().(*types.Named)
	return n
}

// structField returns the field object named f of named struct type n.
func structField(n *types.Named, f string) *types.Var {
	if n == nil {
		return nil
	}
	st, ok := n.Underlying().(*types.Struct)
	if !ok {
		return nil
	}
	for i := 0; i < st.NumFields(); i++ {
		if st.Field(i).Name() == f {
			return st.Field(i)
		}
	}
	return nil
}

// importedPkg returns the *types.Package with the given path from the import
// closure of p.
func importedPkg(p *packages.Package, path string) *types.Package {
	seen := map[string]bool{}
	var walk func(q *packages.Package) *types.Package
	walk = func(q *packages.Package) *types.Package {
		if seen[q.PkgPath] {
			return nil
		}
		seen[q.PkgPath] = true
		if q.PkgPath == path {
			return q.Types
		}
		for _, im := range q.Imports {
			if r := walk(im); r != nil {
				return r
			}
		}
		return nil
	}
	return walk(p)
}
