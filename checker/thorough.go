package main

import (
	"fmt"
	"sort"
	"strings"
)

// thoroughExtras re-loads the module under the build matrix
// {linux/amd64, linux/386, windows/amd64, darwin/arm64} × {no tags, wireinject},
// records which files each configuration selects and re-runs the property's
// rules wherever the selection differs from the default configuration, so
// build-tagged code cannot hide from the analysis.
func thoroughExtras(c *Ctx, pr *propResult, findings []Finding) {
	type cfg struct {
		goos, goarch string
		tags         string
	}
	var matrix []cfg
	for _, p := range [][2]string{{"linux", "amd64"}, {"linux", "386"}, {"windows", "amd64"}, {"darwin", "arm64"}} {
		for _, t := range []string{"", "wireinject"} {
			matrix = append(matrix, cfg{p[0], p[1], t})
		}
	}
	render := func(fs map[string][]string) string {
		var ks []string
		for k := range fs {
			ks = append(ks, k)
		}
		sort.Strings(ks)
		var sb strings.Builder
		for _, k := range ks {
			v := append([]string{}, fs[k]...)
			sort.Strings(v)
			sb.WriteString(k + ":" + strings.Join(v, ",") + ";")
		}
		return sb.String()
	}
	base := render(c.FileSet)
	var rows []map[string]interface{}
	for _, m := range matrix {
		name := m.goos + "/" + m.goarch
		if m.tags != "" {
			name += " -tags=" + m.tags
		}
		var flags []string
		if m.tags != "" {
			flags = []string{"-tags=" + m.tags}
		}
		c2, err := loadCtx(c.Repo, c.Tier, []string{"GOOS=" + m.goos, "GOARCH=" + m.goarch, "CGO_ENABLED=0"}, flags)
		row := map[string]interface{}{"config": name}
		if err != nil {
			row["result"] = "load failed: " + err.Error()
			pr.violations = append(pr.violations, Ob{Rule: "MATRIX", Key: "load:" + name, Pos: "-", Status: stUndecided, Detail: err.Error()})
			rows = append(rows, row)
			continue
		}
		c2.link(c.requested)
		same := render(c2.FileSet) == base
		row["same_file_set_as_default"] = same
		nfiles := 0
		for _, v := range c2.FileSet {
			nfiles += len(v)
		}
		row["files"] = nfiles
		if same {
			row["result"] = "identical file selection; default-configuration verdict applies"
		} else {
			p2 := runProperty(c2, pr.prop, findings)
			row["result"] = fmt.Sprintf("different file selection; rules re-run: %d violations", len(p2.violations))
			row["file_set"] = c2.FileSet
			for _, v := range p2.violations {
				v.Detail = "[" + name + "] " + v.Detail
				pr.violations = append(pr.violations, v)
			}
		}
		rows = append(rows, row)
	}
	pr.extra["build_matrix"] = rows
}
