package main

func thoroughExtras(c *Ctx, pr *propResult, findings []Finding) {}
