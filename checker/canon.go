package main

import (
	"bytes"
	"fmt"
	"go/ast"
	"go/constant"
	"go/importer"
	"go/parser"
	"go/printer"
	"go/token"
	"go/types"
	"os"
	"sort"
	"strconv"
	"strings"

	"golang.org/x/tools/go/ast/astutil"
	"golang.org/x/tools/go/packages"
)

// Canonicalising pre-pass. The rules name functions, struct types and fields of
// the subject (they are the anchors of the analysis). A pure rename of such a
// declaration must not make a rule fail, so before any rule runs the loaded
// program is compared with the declaration tables of the pinned tree
// (anchors_table.go): a known name that has disappeared is matched to the one
// declaration that has the same shape (struct: same field list; field: same
// position and type in its struct; function: same receiver and signature) and
// an unknown name. All identifiers referring to a matched declaration are then
// renamed back in the syntax trees and the module's packages are type-checked
// again. Rules therefore always see the canonical names; what was recognised
// is reported in the evidence. Anything ambiguous is left alone (and the rules
// fail closed with "anchor missing").

type renameNote struct {
	kind, from, to string
}

func canonicalise(pkgs map[string]*packages.Package) ([]string, error) {
	var notes []string
	rename := map[types.Object]string{}
	typeSub := map[string]string{} // "pkg.NewType" → "pkg.OldType" for type strings
	q := func(p *types.Package) string { return p.Path() }
	subst := func(s string) string {
		for n, o := range typeSub {
			s = strings.ReplaceAll(s, n, o)
		}
		return s
	}

	// 1. struct types, by field-name list
	for _, st := range pinnedStructs {
		p := pkgs[st.pkg]
		if p == nil || p.Types.Scope().Lookup(st.name) != nil {
			continue
		}
		known := map[string]bool{}
		for _, o := range pinnedStructs {
			if o.pkg == st.pkg {
				known[o.name] = true
			}
		}
		var cands []*types.TypeName
		for _, nm := range p.Types.Scope().Names() {
			tn, ok := p.Types.Scope().Lookup(nm).(*types.TypeName)
			if !ok || known[nm] {
				continue
			}
			s, ok := tn.Type().Underlying().(*types.Struct)
			if !ok || s.NumFields() != len(st.fields) {
				continue
			}
			same := true
			for i := 0; i < s.NumFields(); i++ {
				if s.Field(i).Name() != st.fields[i][0] {
					same = false
				}
			}
			if same {
				cands = append(cands, tn)
			}
		}
		if len(cands) == 1 {
			rename[cands[0]] = st.name
			typeSub[st.pkg+"."+cands[0].Name()] = st.pkg + "." + st.name
			notes = append(notes, fmt.Sprintf("type %s is the renamed %s (same field list)", cands[0].Name(), st.name))
		}
	}
	// 2. fields, by position and type within their struct
	for _, st := range pinnedStructs {
		p := pkgs[st.pkg]
		if p == nil {
			continue
		}
		var tn *types.TypeName
		if o, ok := p.Types.Scope().Lookup(st.name).(*types.TypeName); ok {
			tn = o
		} else {
			for o, to := range rename {
				if t, ok := o.(*types.TypeName); ok && to == st.name && t.Pkg().Path() == st.pkg {
					tn = t
				}
			}
		}
		if tn == nil {
			continue
		}
		s, ok := tn.Type().Underlying().(*types.Struct)
		if !ok || s.NumFields() != len(st.fields) {
			continue
		}
		// all positions must keep their type; then differing names are renames
		okShape := true
		for i := 0; i < s.NumFields(); i++ {
			if subst(types.TypeString(s.Field(i).Type(), q)) != st.fields[i][1] {
				okShape = false
			}
		}
		if !okShape {
			continue
		}
		have := map[string]bool{}
		for i := 0; i < s.NumFields(); i++ {
			have[s.Field(i).Name()] = true
		}
		for i := 0; i < s.NumFields(); i++ {
			if f := s.Field(i); f.Name() != st.fields[i][0] && !have[st.fields[i][0]] {
				rename[f] = st.fields[i][0]
				notes = append(notes, fmt.Sprintf("field %s.%s is the renamed %s (same position and type)", st.name, f.Name(), st.fields[i][0]))
			}
		}
	}
	// 3. functions, by receiver and signature
	known := map[string]bool{}
	sigCount := map[string]int{}
	for _, a := range anchorSigs {
		known[a[0]+"::"+a[1]] = true
		sigCount[a[0]+"|"+a[2]]++
	}
	type fn struct {
		obj  *types.Func
		name string
	}
	funcsOf := func(p *packages.Package) []fn {
		var out []fn
		for _, f := range p.Syntax {
			for _, d := range f.Decls {
				if fd, ok := d.(*ast.FuncDecl); ok {
					if obj, ok := p.TypesInfo.Defs[fd.Name].(*types.Func); ok {
						out = append(out, fn{obj, funcName(obj)})
					}
				}
			}
		}
		return out
	}
	canonName := func(f fn) string {
		// receiver type may itself have been renamed
		n := f.name
		for nw, old := range typeSub {
			nwS, oldS := nw[strings.LastIndex(nw, ".")+1:], old[strings.LastIndex(old, ".")+1:]
			if strings.HasPrefix(n, nwS+".") {
				n = oldS + n[len(nwS):]
			}
		}
		return n
	}
	for _, a := range anchorSigs {
		p := pkgs[a[0]]
		if p == nil || sigCount[a[0]+"|"+a[2]] != 1 {
			continue
		}
		present := false
		var cands []fn
		for _, f := range funcsOf(p) {
			cn := canonName(f)
			if cn == a[1] {
				present = true
			}
			if !known[a[0]+"::"+cn] && subst(sigKey(f.obj)) == a[2] {
				cands = append(cands, f)
			}
		}
		if present || len(cands) != 1 {
			continue
		}
		short := a[1][strings.LastIndex(a[1], ".")+1:]
		rename[cands[0].obj] = short
		notes = append(notes, fmt.Sprintf("func %s is the renamed %s (same unique signature)", cands[0].name, a[1]))
	}
	if len(rename) == 0 {
		return nil, nil
	}
	// rename identifiers in place
	for _, p := range pkgs {
		for _, f := range p.Syntax {
			ast.Inspect(f, func(n ast.Node) bool {
				id, ok := n.(*ast.Ident)
				if !ok {
					return true
				}
				obj := p.TypesInfo.Uses[id]
				if obj == nil {
					obj = p.TypesInfo.Defs[id]
				}
				if obj == nil {
					return true
				}
				if to, ok := rename[obj]; ok {
					id.Name = to
				}
				return true
			})
		}
	}
	if err := recheck(pkgs); err != nil {
		return nil, err
	}
	sort.Strings(notes)
	return notes, nil
}

type importerFunc func(path string) (*types.Package, error)

func (f importerFunc) Import(path string) (*types.Package, error) { return f(path) }

type pinnedStruct struct {
	pkg, name string
	fields    [][2]string // name, type string
}

// dumpStructs prints the struct table of the loaded module.
func dumpStructs(pkgs []*packages.Package) {
	q := func(p *types.Package) string { return p.Path() }
	for _, p := range pkgs {
		var names []string
		for _, nm := range p.Types.Scope().Names() {
			names = append(names, nm)
		}
		sort.Strings(names)
		for _, nm := range names {
			tn, ok := p.Types.Scope().Lookup(nm).(*types.TypeName)
			if !ok {
				continue
			}
			s, ok := tn.Type().Underlying().(*types.Struct)
			if !ok || s.NumFields() == 0 {
				continue
			}
			fmt.Printf("\t{%q, %q, [][2]string{", p.PkgPath, nm)
			for i := 0; i < s.NumFields(); i++ {
				fmt.Printf("{%q, %q}, ", s.Field(i).Name(), types.TypeString(s.Field(i).Type(), q))
			}
			fmt.Printf("}},\n")
		}
	}
}

// recheck type-checks the module's packages again (after their syntax trees
// were edited by a normalising pre-pass), in dependency order.
func recheck(pkgs map[string]*packages.Package) error {
	// type-check the module's packages again, in dependency order
	order := []string{pathRoot, pathW, pathCmd}
	checked := map[string]*types.Package{}
	ext := map[string]*types.Package{}
	var collect func(p *packages.Package)
	seen := map[string]bool{}
	collect = func(p *packages.Package) {
		if seen[p.PkgPath] {
			return
		}
		seen[p.PkgPath] = true
		if p.Types != nil {
			ext[p.PkgPath] = p.Types
		}
		for _, im := range p.Imports {
			collect(im)
		}
	}
	for _, p := range pkgs {
		collect(p)
	}
	imp := importerFunc(func(path string) (*types.Package, error) {
		if t, ok := checked[path]; ok {
			return t, nil
		}
		if t, ok := ext[path]; ok {
			return t, nil
		}
		return importer.Default().Import(path)
	})
	for _, path := range order {
		p := pkgs[path]
		if p == nil {
			continue
		}
		info := &types.Info{
			Types: map[ast.Expr]types.TypeAndValue{}, Defs: map[*ast.Ident]types.Object{}, Uses: map[*ast.Ident]types.Object{},
			Implicits: map[ast.Node]types.Object{}, Selections: map[*ast.SelectorExpr]*types.Selection{}, Scopes: map[ast.Node]*types.Scope{},
			Instances: map[*ast.Ident]types.Instance{},
		}
		// nodes copied in by a pre-pass carry positions outside the package's files; go/types looks up the
		// file of a position (for its language version) and panics when there is none: the last file catches all
		if k := len(p.Syntax); k > 0 {
			p.Syntax[k-1].FileStart, p.Syntax[k-1].FileEnd = 1, token.Pos(1<<62)
		}
		conf := types.Config{Importer: imp, GoVersion: p.Types.GoVersion()}
		tp, err := conf.Check(path, p.Fset, p.Syntax, info)
		if err != nil {
			if dbg := os.Getenv("WIRECHECK_DEBUG_DIR"); dbg != "" {
				for i, f := range p.Syntax {
					var buf bytes.Buffer
					printer.Fprint(&buf, token.NewFileSet(), f)
					os.WriteFile(fmt.Sprintf("%s/recheck_%s_%d.go.txt", dbg, p.Types.Name(), i), buf.Bytes(), 0o644)
				}
			}
			return fmt.Errorf("re-checking %s after a normalising pre-pass: %v", path, err)
		}
		checked[path] = tp
		p.Types, p.TypesInfo = tp, info
	}
	return nil
}

// Specialising pre-pass. A refactoring that extracts a helper used from two
// or three places must not hide from the rules what each caller does. Helpers
// with ONE call site are already analysed as part of their caller (Ctx.link).
// A function that the pinned tree does not know (so no rule names it), is
// unexported, is never used as a value, is not recursive and has 2–4 call
// sites is therefore duplicated once per additional call site (the copies are
// parsed from the printed declaration, appended to the same file and the call
// sites redirected), after which every copy has one call site and is linked.
// Pure normalisation: the program analysed has the same behaviour.
func specialise(pkgs map[string]*packages.Package) ([]string, error) {
	known := map[string]bool{}
	for _, a := range anchorSigs {
		known[a[0]+"::"+a[1]] = true
	}
	var notes []string
	for _, path := range []string{pathRoot, pathW, pathCmd} {
		p := pkgs[path]
		if p == nil {
			continue
		}
		type cand struct {
			decl *ast.FuncDecl
			file *ast.File
			obj  *types.Func
		}
		var cands []cand
		for _, f := range p.Syntax {
			for _, d := range f.Decls {
				fd, ok := d.(*ast.FuncDecl)
				if !ok || fd.Recv != nil || fd.Body == nil || fd.Type.TypeParams != nil {
					continue
				}
				obj, _ := p.TypesInfo.Defs[fd.Name].(*types.Func)
				if obj == nil || obj.Exported() || known[path+"::"+obj.Name()] || obj.Name() == "main" || obj.Name() == "init" {
					continue
				}
				cands = append(cands, cand{fd, f, obj})
			}
		}
		for _, cd := range cands {
			var sites []*ast.Ident
			values, recursive := 0, false
			for _, f := range p.Syntax {
				var stack []ast.Node
				ast.Inspect(f, func(n ast.Node) bool {
					if n == nil {
						stack = stack[:len(stack)-1]
						return true
					}
					stack = append(stack, n)
					id, ok := n.(*ast.Ident)
					if !ok || p.TypesInfo.Uses[id] != types.Object(cd.obj) {
						return true
					}
					// operand of a call?
					k := len(stack) - 2
					var fun ast.Node = id
					for k >= 0 {
						if pe, ok := stack[k].(*ast.ParenExpr); ok {
							fun = pe
							k--
							continue
						}
						break
					}
					if call, ok := stack[k].(*ast.CallExpr); ok && call.Fun == fun {
						sites = append(sites, id)
					} else {
						values++
					}
					for _, anc := range stack {
						if anc == ast.Node(cd.decl) {
							recursive = true
						}
					}
					return true
				})
			}
			if values > 0 || recursive || len(sites) < 2 || len(sites) > 4 {
				continue
			}
			orig := cd.decl.Name.Name
			for k := 1; k < len(sites); k++ {
				name := fmt.Sprintf("%s__s%d", orig, k+1)
				cd.decl.Name.Name = name
				var buf bytes.Buffer
				buf.WriteString("package " + p.Types.Name() + "\n\n")
				err := printer.Fprint(&buf, p.Fset, &ast.FuncDecl{Name: cd.decl.Name, Type: cd.decl.Type, Body: cd.decl.Body})
				cd.decl.Name.Name = orig
				if err != nil {
					return nil, fmt.Errorf("printing %s: %v", orig, err)
				}
				nf, err := parser.ParseFile(p.Fset, fmt.Sprintf("%s/specialised_%s.go", p.Fset.Position(cd.decl.Pos()).Filename, name), buf.Bytes(), 0)
				if err != nil {
					return nil, fmt.Errorf("re-parsing the copy of %s: %v", orig, err)
				}
				for _, d := range nf.Decls {
					if fd, ok := d.(*ast.FuncDecl); ok {
						cd.file.Decls = append(cd.file.Decls, fd)
					}
				}
				sites[k].Name = name
			}
			notes = append(notes, fmt.Sprintf("helper %s (not in the pinned tree, %d call sites) analysed once per call site", orig, len(sites)))
		}
	}
	if len(notes) == 0 {
		return nil, nil
	}
	if err := recheck(pkgs); err != nil {
		return nil, err
	}
	sort.Strings(notes)
	return notes, nil
}

// Negation normal form pre-pass. The subject's syntax is rewritten, before any
// rule looks at it, so that equivalent spellings of a condition are one tree:
// negations are pushed inwards (!(a == b) is a != b, !(a < b) is a >= b,
// !(a || b) is !a && !b, !!a is a) and a comparison has its constant operand
// (literal, nil, named constant) on the right. The rewritten packages are
// type-checked again. The program keeps its behaviour: these are identities of
// Go's boolean and comparison operators on the (side-effect free or not)
// operands, evaluated in the same order.
func normaliseSyntax(pkgs map[string]*packages.Package) (int, []string, error) {
	total := 0
	var notes []string
	for iter := 0; iter < 40; iter++ {
		n := normaliseOnce(pkgs)
		if n > 0 {
			if err := recheck(pkgs); err != nil {
				return total, notes, err
			}
		}
		// a helper that a normal form has just reduced to one line is substituted now
		in, err := inlineTrivial(pkgs)
		if err != nil {
			return total, notes, err
		}
		notes = append(notes, in...)
		// an extracted procedure with one call site goes back where it was called (one per package and round)
		iv, err := inlineCalls(pkgs)
		if err != nil {
			return total, notes, err
		}
		notes = append(notes, iv...)
		if n == 0 && len(in) == 0 && len(iv) == 0 {
			break
		}
		total += n
	}
	return total, notes, nil
}

func normaliseOnce(pkgs map[string]*packages.Package) int {
	n := 0
	for _, path := range []string{pathRoot, pathW, pathCmd} {
		p := pkgs[path]
		if p == nil {
			continue
		}
		info := p.TypesInfo
		isConst := func(e ast.Expr) bool {
			e = ast.Unparen(e)
			if tv, ok := info.Types[e]; ok && (tv.Value != nil || tv.IsNil()) {
				return true
			}
			if id, ok := e.(*ast.Ident); ok && (id.Name == "nil" || id.Name == "true" || id.Name == "false") {
				return info.Uses[id] == nil || info.Uses[id].Pkg() == nil
			}
			return false
		}
		// a call (possibly negated) of a function the pinned tree does not know: a candidate for being analysed in place
		knownFn := map[string]bool{}
		for _, a := range anchorSigs {
			knownFn[a[0]+"::"+a[1]] = true
		}
		var extractedPred func(e ast.Expr) bool
		extractedPred = func(e ast.Expr) bool {
			switch x := e.(type) {
			case *ast.ParenExpr:
				return extractedPred(x.X)
			case *ast.UnaryExpr:
				return x.Op == token.NOT && extractedPred(x.X)
			case *ast.CallExpr:
				id, ok := x.Fun.(*ast.Ident)
				if !ok {
					return false
				}
				fn, ok := info.Uses[id].(*types.Func)
				return ok && fn.Pkg() == p.Types && !fn.Exported() && !knownFn[path+"::"+fn.Name()] && fn.Type().(*types.Signature).Recv() == nil
			}
			return false
		}
		anyExtracted := func(ds []ast.Expr) bool {
			for _, d := range ds {
				if extractedPred(d) {
					return true
				}
			}
			return false
		}
		flip := map[token.Token]token.Token{token.EQL: token.NEQ, token.NEQ: token.EQL, token.LSS: token.GEQ, token.GEQ: token.LSS, token.GTR: token.LEQ, token.LEQ: token.GTR}
		mirror := map[token.Token]token.Token{token.EQL: token.EQL, token.NEQ: token.NEQ, token.LSS: token.GTR, token.GTR: token.LSS, token.LEQ: token.GEQ, token.GEQ: token.LEQ}
		var neg func(e ast.Expr) ast.Expr
		neg = func(e ast.Expr) ast.Expr {
			in := ast.Unparen(e)
			switch x := in.(type) {
			case *ast.UnaryExpr:
				if x.Op == token.NOT {
					n++
					return x.X // !!a
				}
			case *ast.BinaryExpr:
				if op, ok := flip[x.Op]; ok {
					n++
					return &ast.BinaryExpr{X: x.X, OpPos: x.OpPos, Op: op, Y: x.Y}
				}
				switch x.Op {
				case token.LAND:
					n++
					return &ast.ParenExpr{Lparen: x.Pos(), X: &ast.BinaryExpr{X: neg(x.X), OpPos: x.OpPos, Op: token.LOR, Y: neg(x.Y)}, Rparen: x.End()}
				case token.LOR:
					n++
					return &ast.BinaryExpr{X: neg(x.X), OpPos: x.OpPos, Op: token.LAND, Y: neg(x.Y)}
				}
			}
			return &ast.UnaryExpr{OpPos: e.Pos(), Op: token.NOT, X: e}
		}
		// uses of each local, to recognise a condition hoisted into a single-use local
		useCount := map[types.Object]int{}
		for id, o := range info.Uses {
			_ = id
			useCount[o]++
		}
		for _, f := range p.Syntax {
			// (a) parentheses carry no information in a syntax tree
			astutil.Apply(f, nil, func(c *astutil.Cursor) bool {
				if pe, ok := c.Node().(*ast.ParenExpr); ok {
					if _, isType := c.Parent().(*ast.Field); !isType {
						c.Replace(pe.X)
						n++
					}
				}
				return true
			})
			// (b) a named string constant of the module is its value
			astutil.Apply(f, func(c *astutil.Cursor) bool {
				id, ok := c.Node().(*ast.Ident)
				if !ok {
					return true
				}
				k, ok := info.Uses[id].(*types.Const)
				if !ok || k.Pkg() == nil || k.Val().Kind() != constant.String {
					return true
				}
				if pp := k.Pkg().Path(); pp != pathRoot && pp != pathW && pp != pathCmd {
					return true
				}
				if b, isB := k.Type().Underlying().(*types.Basic); !isB || b.Kind() != types.UntypedString && b.Kind() != types.String {
					return true
				}
				if _, isSel := c.Parent().(*ast.SelectorExpr); isSel {
					return true
				}
				c.Replace(&ast.BasicLit{ValuePos: id.Pos(), Kind: token.STRING, Value: strconv.Quote(constant.StringVal(k.Val()))})
				n++
				return true
			}, nil)
			// (d) `var x = v` in a block is `x := v`
			astutil.Apply(f, func(c *astutil.Cursor) bool {
				ds, ok := c.Node().(*ast.DeclStmt)
				if !ok {
					return true
				}
				if _, inBlock := c.Parent().(*ast.BlockStmt); !inBlock {
					return true
				}
				gd := ds.Decl.(*ast.GenDecl)
				if gd.Tok != token.VAR || len(gd.Specs) != 1 {
					return true
				}
				vs := gd.Specs[0].(*ast.ValueSpec)
				if vs.Type != nil || len(vs.Names) != 1 || len(vs.Values) != 1 || vs.Names[0].Name == "_" {
					return true
				}
				c.Replace(&ast.AssignStmt{Lhs: []ast.Expr{vs.Names[0]}, TokPos: vs.Names[0].End(), Tok: token.DEFINE, Rhs: vs.Values})
				n++
				return true
			}, nil)
			// (v) a join variable: `var v T` (or `v := pure`), an if/else whose arms end in `v = e`, then one
			// terminating statement reading v once — the statement is sunk into the arms with the arm's value
			// (the declared value where an arm assigns nothing), which is how the two-exit form reads
			astutil.Apply(f, func(c *astutil.Cursor) bool {
				blk, ok := c.Node().(*ast.BlockStmt)
				if !ok {
					return true
				}
				for i := 0; i+2 < len(blk.List); i++ {
					var name *ast.Ident
					var e0 ast.Expr
					switch d := blk.List[i].(type) {
					case *ast.DeclStmt:
						gd := d.Decl.(*ast.GenDecl)
						if gd.Tok == token.VAR && len(gd.Specs) == 1 {
							if vs := gd.Specs[0].(*ast.ValueSpec); len(vs.Names) == 1 && len(vs.Values) == 0 {
								name = vs.Names[0]
							}
						}
					case *ast.AssignStmt:
						if d.Tok == token.DEFINE && len(d.Lhs) == 1 && len(d.Rhs) == 1 && (isConst(d.Rhs[0]) || pureExpr(d.Rhs[0])) {
							if _, isCall := d.Rhs[0].(*ast.CallExpr); !isCall {
								name, _ = d.Lhs[0].(*ast.Ident)
								e0 = d.Rhs[0]
							}
						}
					}
					if name == nil || name.Name == "_" || info.Defs[name] == nil {
						continue
					}
					obj := info.Defs[name]
					is, ok := blk.List[i+1].(*ast.IfStmt)
					if !ok {
						continue
					}
					thenB := is.Body
					elseB, ok := is.Else.(*ast.BlockStmt)
					if !ok {
						continue
					}
					tail := blk.List[i+2]
					if !stmtTerminates(tail) {
						continue
					}
					if _, isBranch := tail.(*ast.BranchStmt); isBranch {
						continue
					}
					mentions := func(n ast.Node) int {
						k := 0
						ast.Inspect(n, func(m ast.Node) bool {
							if id, ok := m.(*ast.Ident); ok && info.Uses[id] == obj {
								k++
							}
							return true
						})
						return k
					}
					if mentions(tail) != 1 {
						continue
					}
					// names the tail reads must mean the same inside the arms
					tailNames := map[string]bool{}
					ast.Inspect(tail, func(m ast.Node) bool {
						if id, ok := m.(*ast.Ident); ok {
							tailNames[id.Name] = true
						}
						return true
					})
					clash := false
					for _, arm := range []*ast.BlockStmt{thenB, elseB} {
						for nm := range declaredIn(arm) {
							if tailNames[nm] {
								clash = true
							}
						}
					}
					if is.Init != nil {
						if as, ok := is.Init.(*ast.AssignStmt); ok && as.Tok == token.DEFINE {
							for _, l := range as.Lhs {
								if id, ok := l.(*ast.Ident); ok && tailNames[id.Name] {
									clash = true
								}
							}
						} else {
							clash = true
						}
					}
					if clash {
						continue
					}
					type armPlan struct {
						blk  *ast.BlockStmt
						rhs  ast.Expr // nil: the declared value
						drop bool     // the arm's last statement is the assignment
						skip bool     // the arm leaves on its own
					}
					var plans []armPlan
					okArms, assigns := true, 0
					for _, arm := range []*ast.BlockStmt{thenB, elseB} {
						pl := armPlan{blk: arm}
						if terminates(arm) && mentions(arm) == 0 {
							pl.skip = true
						} else if n := len(arm.List); n > 0 {
							if as, ok := arm.List[n-1].(*ast.AssignStmt); ok && as.Tok == token.ASSIGN && len(as.Lhs) == 1 && len(as.Rhs) == 1 {
								if id, ok := as.Lhs[0].(*ast.Ident); ok && info.Uses[id] == obj && mentions(arm) == 1 {
									if tv, ok := info.Types[as.Rhs[0]]; ok {
										if _, isTuple := tv.Type.(*types.Tuple); !isTuple {
											pl.rhs, pl.drop = as.Rhs[0], true
											assigns++
										}
									}
								}
							}
						}
						if !pl.skip && !pl.drop {
							if mentions(arm) != 0 || e0 == nil {
								okArms = false
							}
						}
						plans = append(plans, pl)
					}
					if !okArms || assigns == 0 || useCount[obj] != assigns+1 {
						continue
					}
					// build the arms' tails first; nothing is changed unless all of them can be built
					var tails []ast.Stmt
					failed := false
					for _, pl := range plans {
						if pl.skip {
							tails = append(tails, nil)
							continue
						}
						cp, err := copyStmts([]ast.Stmt{tail}, tail.Pos())
						if err != nil || len(cp) != 1 {
							failed = true
							break
						}
						val := pl.rhs
						if val == nil {
							ev, err := copyStmts([]ast.Stmt{&ast.AssignStmt{Lhs: []ast.Expr{ast.NewIdent("_")}, Tok: token.ASSIGN, Rhs: []ast.Expr{e0}}}, tail.Pos())
							if err != nil || len(ev) != 1 {
								failed = true
								break
							}
							val = ev[0].(*ast.AssignStmt).Rhs[0]
						}
						done := 0
						st := astutil.Apply(cp[0], func(cc *astutil.Cursor) bool {
							if id, ok := cc.Node().(*ast.Ident); ok && id.Name == name.Name {
								if _, isSel := cc.Parent().(*ast.SelectorExpr); isSel && cc.Name() == "Sel" {
									return true
								}
								if _, isKV := cc.Parent().(*ast.KeyValueExpr); isKV && cc.Name() == "Key" {
									return true
								}
								cc.Replace(val)
								done++
								return false
							}
							return true
						}, nil)
						if done != 1 {
							failed = true
							break
						}
						tails = append(tails, st.(ast.Stmt))
					}
					if failed {
						continue
					}
					for k, pl := range plans {
						if pl.skip {
							continue
						}
						if pl.drop {
							pl.blk.List = pl.blk.List[:len(pl.blk.List)-1]
						}
						pl.blk.List = append(pl.blk.List, tails[k])
					}
					blk.List = append(append(append([]ast.Stmt{}, blk.List[:i]...), is), blk.List[i+3:]...)
					n++
					return true
				}
				return true
			}, nil)
			// (w) `L: for … { A; for … { if c { …; continue L } }; REST }` is the found-flag form
			// `for … { A; found := false; for … { if c { …; found = true; break } }; if !found { REST } }`
			astutil.Apply(f, func(c *astutil.Cursor) bool {
				ls, ok := c.Node().(*ast.LabeledStmt)
				if !ok {
					return true
				}
				body := loopBody(ls.Stmt)
				if body == nil {
					return true
				}
				var refs []*ast.BranchStmt
				ast.Inspect(ls.Stmt, func(m ast.Node) bool {
					if b, ok := m.(*ast.BranchStmt); ok && b.Label != nil && b.Label.Name == ls.Label.Name {
						refs = append(refs, b)
					}
					return true
				})
				if len(refs) != 1 || refs[0].Tok != token.CONTINUE {
					return true
				}
				for j, st := range body.List {
					inner := loopBody(st)
					if inner == nil {
						continue
					}
					for _, s2 := range inner.List {
						is, ok := s2.(*ast.IfStmt)
						if !ok || is.Else != nil || len(is.Body.List) == 0 || is.Body.List[len(is.Body.List)-1] != ast.Stmt(refs[0]) {
							continue
						}
						flag := "found_" + ls.Label.Name
						if declaredIn(body)[flag] {
							return true
						}
						at := refs[0].Pos()
						rest := append([]ast.Stmt{}, body.List[j+1:]...)
						is.Body.List[len(is.Body.List)-1] = &ast.AssignStmt{Lhs: []ast.Expr{&ast.Ident{NamePos: at, Name: flag}}, TokPos: at, Tok: token.ASSIGN, Rhs: []ast.Expr{&ast.Ident{NamePos: at, Name: "true"}}}
						is.Body.List = append(is.Body.List, &ast.BranchStmt{TokPos: at, Tok: token.BREAK})
						nl := append([]ast.Stmt{}, body.List[:j]...)
						nl = append(nl, &ast.AssignStmt{Lhs: []ast.Expr{&ast.Ident{NamePos: st.Pos(), Name: flag}}, TokPos: st.Pos(), Tok: token.DEFINE, Rhs: []ast.Expr{&ast.Ident{NamePos: st.Pos(), Name: "false"}}}, st)
						if len(rest) > 0 {
							nl = append(nl, &ast.IfStmt{If: rest[0].Pos(), Cond: &ast.UnaryExpr{OpPos: rest[0].Pos(), Op: token.NOT, X: &ast.Ident{NamePos: rest[0].Pos(), Name: flag}}, Body: &ast.BlockStmt{Lbrace: rest[0].Pos(), List: rest, Rbrace: body.Rbrace}})
						} else {
							nl = append(nl, &ast.AssignStmt{Lhs: []ast.Expr{ast.NewIdent("_")}, Tok: token.ASSIGN, Rhs: []ast.Expr{&ast.Ident{NamePos: body.Rbrace, Name: flag}}})
						}
						body.List = nl
						c.Replace(ls.Stmt)
						n++
						return true
					}
				}
				return true
			}, nil)
			// (x) a counter that is only ever incremented and only ever compared with zero is a flag:
			// `n := 0; … n++ …; if n > 0 {…}` is `ok := true; … ok = false …; if !ok {…}`
			for _, decl := range f.Decls {
				fd, ok := decl.(*ast.FuncDecl)
				if !ok || fd.Body == nil {
					continue
				}
				type counter struct {
					def   *ast.AssignStmt
					incs  []ast.Stmt
					tests map[*ast.BinaryExpr]bool // → the counter is zero when the test holds
					bad   bool
					seen  int
				}
				cs := map[types.Object]*counter{}
				ast.Inspect(fd.Body, func(m ast.Node) bool {
					if as, ok := m.(*ast.AssignStmt); ok && as.Tok == token.DEFINE && len(as.Lhs) == 1 && len(as.Rhs) == 1 {
						if id, ok := as.Lhs[0].(*ast.Ident); ok && info.Defs[id] != nil {
							if lit, ok := as.Rhs[0].(*ast.BasicLit); ok && lit.Kind == token.INT && lit.Value == "0" {
								if b, ok := info.Defs[id].Type().Underlying().(*types.Basic); ok && b.Info()&types.IsInteger != 0 {
									cs[info.Defs[id]] = &counter{def: as, tests: map[*ast.BinaryExpr]bool{}}
								}
							}
						}
					}
					return true
				})
				if len(cs) == 0 {
					continue
				}
				isCtr := func(e ast.Expr) *counter {
					if id, ok := e.(*ast.Ident); ok {
						return cs[info.Uses[id]]
					}
					return nil
				}
				ast.Inspect(fd.Body, func(m ast.Node) bool {
					switch x := m.(type) {
					case *ast.IncDecStmt:
						if k := isCtr(x.X); k != nil {
							if x.Tok == token.INC {
								k.incs = append(k.incs, x)
								k.seen++
							} else {
								k.bad = true
							}
							return false
						}
					case *ast.AssignStmt:
						if len(x.Lhs) == 1 {
							if k := isCtr(x.Lhs[0]); k != nil {
								if tv, ok := info.Types[x.Rhs[0]]; x.Tok == token.ADD_ASSIGN && ok && tv.Value != nil && constant.Sign(tv.Value) > 0 {
									k.incs = append(k.incs, x)
									k.seen++
								} else {
									k.bad = true
								}
								return false
							}
						}
					case *ast.BinaryExpr:
						k, other, op := isCtr(x.X), x.Y, x.Op
						if k == nil {
							if k = isCtr(x.Y); k != nil {
								other, op = x.X, mirror[x.Op]
							}
						}
						if k == nil {
							return true
						}
						lit, ok := other.(*ast.BasicLit)
						if !ok || lit.Kind != token.INT {
							k.bad = true
							return false
						}
						switch {
						case lit.Value == "0" && (op == token.GTR || op == token.NEQ), lit.Value == "1" && op == token.GEQ:
							k.tests[x] = false
						case lit.Value == "0" && (op == token.EQL || op == token.LEQ), lit.Value == "1" && op == token.LSS:
							k.tests[x] = true
						default:
							k.bad = true
						}
						k.seen++
						return false
					}
					return true
				})
				for obj, k := range cs {
					if k.bad || len(k.incs) == 0 || len(k.tests) == 0 || k.seen != useCount[obj] {
						continue
					}
					name := k.def.Lhs[0].(*ast.Ident).Name
					k.def.Rhs[0] = &ast.Ident{NamePos: k.def.Rhs[0].Pos(), Name: "true"}
					astutil.Apply(fd.Body, func(c *astutil.Cursor) bool {
						switch x := c.Node().(type) {
						case *ast.IncDecStmt, *ast.AssignStmt:
							for _, inc := range k.incs {
								if inc == x.(ast.Stmt) {
									c.Replace(&ast.AssignStmt{Lhs: []ast.Expr{&ast.Ident{NamePos: x.Pos(), Name: name}}, TokPos: x.Pos(), Tok: token.ASSIGN, Rhs: []ast.Expr{&ast.Ident{NamePos: x.Pos(), Name: "false"}}})
									return false
								}
							}
						case *ast.BinaryExpr:
							if zero, ok := k.tests[x]; ok {
								var e ast.Expr = &ast.Ident{NamePos: x.Pos(), Name: name}
								if !zero {
									e = &ast.UnaryExpr{OpPos: x.Pos(), Op: token.NOT, X: e}
								}
								c.Replace(e)
								return false
							}
						}
						return true
					}, nil)
					n++
				}
			}
			// (c0) `if c := cond; c {…}` with c used nowhere else is `if cond {…}`
			ast.Inspect(f, func(nd ast.Node) bool {
				is, ok := nd.(*ast.IfStmt)
				if !ok || is.Init == nil {
					return true
				}
				as, ok := is.Init.(*ast.AssignStmt)
				if !ok || as.Tok != token.DEFINE || len(as.Lhs) != 1 || len(as.Rhs) != 1 {
					return true
				}
				lhs, ok := as.Lhs[0].(*ast.Ident)
				if !ok || info.Defs[lhs] == nil || useCount[info.Defs[lhs]] != 1 {
					return true
				}
				cid, wrap := condIdent(is.Cond)
				if cid == nil || info.Uses[cid] != info.Defs[lhs] {
					return true
				}
				if b, isB := info.Defs[lhs].Type().Underlying().(*types.Basic); !isB || b.Info()&types.IsBoolean == 0 {
					return true
				}
				is.Init, is.Cond = nil, wrap(as.Rhs[0])
				n++
				return true
			})
			// (c) `c := cond; if c {…}` with c used nowhere else is `if cond {…}`
			astutil.Apply(f, func(c *astutil.Cursor) bool {
				blk, ok := c.Node().(*ast.BlockStmt)
				if !ok {
					return true
				}
				var out []ast.Stmt
				for i := 0; i < len(blk.List); i++ {
					as, ok := blk.List[i].(*ast.AssignStmt)
					if ok && as.Tok == token.DEFINE && len(as.Lhs) == 1 && len(as.Rhs) == 1 && i+1 < len(blk.List) {
						if is, ok := blk.List[i+1].(*ast.IfStmt); ok && is.Init == nil {
							if lhs, ok := as.Lhs[0].(*ast.Ident); ok {
								if cid, wrap := condIdent(is.Cond); cid != nil && info.Defs[lhs] != nil && info.Uses[cid] == info.Defs[lhs] && useCount[info.Defs[lhs]] == 1 {
									if b, isB := info.Defs[lhs].Type().Underlying().(*types.Basic); isB && b.Info()&types.IsBoolean != 0 {
										is.Cond = wrap(as.Rhs[0])
										n++
										continue // drop the definition
									}
								}
							}
						}
					}
					if ok && as.Tok == token.DEFINE && len(as.Lhs) == 1 && len(as.Rhs) == 1 && i+1 < len(blk.List) {
						// `v := call; return v` with v used nowhere else is `return call`
						if rt, ok := blk.List[i+1].(*ast.ReturnStmt); ok && len(rt.Results) == 1 {
							if lhs, ok := as.Lhs[0].(*ast.Ident); ok {
								if rid, ok := rt.Results[0].(*ast.Ident); ok && info.Defs[lhs] != nil && info.Uses[rid] == info.Defs[lhs] && useCount[info.Defs[lhs]] == 1 {
									if _, isCall := as.Rhs[0].(*ast.CallExpr); isCall {
										if tv, ok := info.Types[as.Rhs[0]]; ok && !tv.IsType() {
											if _, isTuple := tv.Type.(*types.Tuple); !isTuple {
												rt.Results[0] = as.Rhs[0]
												n++
												continue
											}
										}
									}
								}
							}
						}
					}
					out = append(out, blk.List[i])
				}
				blk.List = out
				return true
			}, nil)
			// (e) a tagless switch whose arms leave it only by falling out of it is an if / else-if chain
			astutil.Apply(f, nil, func(c *astutil.Cursor) bool {
				sw, ok := c.Node().(*ast.SwitchStmt)
				if !ok || sw.Tag != nil || sw.Init != nil || len(sw.Body.List) == 0 {
					return true
				}
				if _, inBlock := c.Parent().(*ast.BlockStmt); !inBlock {
					return true
				}
				bad := false
				ast.Inspect(sw, func(m ast.Node) bool {
					if b, ok := m.(*ast.BranchStmt); ok && (b.Tok == token.FALLTHROUGH || b.Tok == token.BREAK) {
						bad = true
					}
					return true
				})
				var dflt *ast.CaseClause
				var cases []*ast.CaseClause
				for _, st := range sw.Body.List {
					cc := st.(*ast.CaseClause)
					if cc.List == nil {
						if st != sw.Body.List[len(sw.Body.List)-1] {
							bad = true
						}
						dflt = cc
						continue
					}
					cases = append(cases, cc)
				}
				if bad || len(cases) == 0 {
					return true
				}
				var head, cur *ast.IfStmt
				for _, cc := range cases {
					var cond ast.Expr = cc.List[0]
					for _, e := range cc.List[1:] {
						cond = &ast.BinaryExpr{X: cond, OpPos: e.Pos() - 1, Op: token.LOR, Y: e}
					}
					is := &ast.IfStmt{If: cc.Pos(), Cond: cond, Body: &ast.BlockStmt{Lbrace: cc.Colon, List: cc.Body, Rbrace: cc.End()}}
					if head == nil {
						head = is
					} else {
						cur.Else = is
					}
					cur = is
				}
				if dflt != nil {
					cur.Else = &ast.BlockStmt{Lbrace: dflt.Colon, List: dflt.Body, Rbrace: dflt.End()}
				}
				c.Replace(head)
				n++
				return true
			})
			// (l) an if/else on an equality or a negation is written on the inequality / the plain operand:
			// `if x == y {A} else {B}` is `if x != y {B} else {A}`
			ast.Inspect(f, func(nd ast.Node) bool {
				is, ok := nd.(*ast.IfStmt)
				if !ok {
					return true
				}
				el, ok := is.Else.(*ast.BlockStmt)
				if !ok {
					return true
				}
				swap := false
				switch x := is.Cond.(type) {
				case *ast.BinaryExpr:
					swap = x.Op == token.EQL
				case *ast.UnaryExpr:
					swap = x.Op == token.NOT
				}
				if !swap {
					return true
				}
				is.Cond = neg(is.Cond)
				is.Body, is.Else = el, is.Body
				n++
				return true
			})
			// (f) at the end of a block, `if c {X} else {REST}` where X leaves the block is `if c {X}; REST`;
			// at the end of a loop body X is made to leave it (continue)
			astutil.Apply(f, nil, func(c *astutil.Cursor) bool {
				body, ok := c.Node().(*ast.BlockStmt)
				if !ok {
					return true
				}
				isLoopBody := false
				switch l := c.Parent().(type) {
				case *ast.ForStmt:
					isLoopBody = l.Body == body
				case *ast.RangeStmt:
					isLoopBody = l.Body == body
				}
				for len(body.List) > 0 {
					is, ok := body.List[len(body.List)-1].(*ast.IfStmt)
					if !ok {
						break
					}
					el, ok := is.Else.(*ast.BlockStmt)
					if !ok {
						break
					}
					if !isLoopBody && !terminates(is.Body) {
						break
					}
					clash := false
					if is.Init != nil {
						// the rest must not see what the if statement's init declares
						own := map[types.Object]bool{}
						ast.Inspect(is.Init, func(m ast.Node) bool {
							if id, ok := m.(*ast.Ident); ok && info.Defs[id] != nil {
								own[info.Defs[id]] = true
							}
							return true
						})
						ast.Inspect(el, func(m ast.Node) bool {
							if id, ok := m.(*ast.Ident); ok && own[info.Uses[id]] {
								clash = true
							}
							return true
						})
					}
					sc := info.Scopes[body]
					if sc == nil {
						if ft, ok := c.Parent().(*ast.FuncDecl); ok {
							sc = info.Scopes[ft.Type]
						} else if fl, ok := c.Parent().(*ast.FuncLit); ok {
							sc = info.Scopes[fl.Type]
						}
					}
					for _, st := range el.List {
						if as, ok := st.(*ast.AssignStmt); ok && as.Tok == token.DEFINE && defineClashes(as, sc, info, body) {
							clash = true
						}
						if ds, ok := st.(*ast.DeclStmt); ok && declClashes(ds, sc, body) {
							clash = true
						}
					}
					if clash {
						break
					}
					if !terminates(is.Body) {
						is.Body.List = append(is.Body.List, &ast.BranchStmt{TokPos: is.Body.Rbrace, Tok: token.CONTINUE})
					}
					is.Else = nil
					body.List = append(body.List, el.List...)
					n++
				}
				return true
			})
			// (r) a plain block statement `{ … }` whose declarations neither clash with its surrounding block's nor
			// capture a name that later statements of that block use dissolves into it
			astutil.Apply(f, nil, func(c *astutil.Cursor) bool {
				outer, ok := c.Node().(*ast.BlockStmt)
				if !ok {
					return true
				}
				for i := 0; i < len(outer.List); i++ {
					in, ok := outer.List[i].(*ast.BlockStmt)
					if !ok {
						continue
					}
					names := declaredIn(in)
					if len(names) > 0 {
						has := declaredIn(&ast.BlockStmt{List: append(append([]ast.Stmt{}, outer.List[:i]...), outer.List[i+1:]...)})
						clash := false
						for nm := range names {
							if has[nm] {
								clash = true
							}
						}
						if sc := info.Scopes[outer]; sc != nil {
							for nm := range names {
								if sc.Lookup(nm) != nil {
									clash = true
								}
							}
						}
						for _, later := range outer.List[i+1:] {
							ast.Inspect(later, func(m ast.Node) bool {
								if id, ok := m.(*ast.Ident); ok && names[id.Name] {
									clash = true
								}
								return true
							})
						}
						if clash {
							continue
						}
					}
					nl := append([]ast.Stmt{}, outer.List[:i]...)
					nl = append(nl, in.List...)
					nl = append(nl, outer.List[i+1:]...)
					outer.List = nl
					n++
					i--
				}
				return true
			})
			// (q) `else { if c {…} }` is `else if c {…}`
			ast.Inspect(f, func(nd ast.Node) bool {
				is, ok := nd.(*ast.IfStmt)
				if !ok {
					return true
				}
				if el, ok := is.Else.(*ast.BlockStmt); ok && len(el.List) == 1 {
					if in, ok := el.List[0].(*ast.IfStmt); ok {
						is.Else = in
						n++
					}
				}
				return true
			})
			// (o) the clauses of a switch on a value whose cases are all constants (and never fall through) are
			// disjoint: they are kept in the order of their first constant, default last
			ast.Inspect(f, func(nd ast.Node) bool {
				sw, ok := nd.(*ast.SwitchStmt)
				if !ok || sw.Tag == nil || len(sw.Body.List) < 2 {
					return true
				}
				keys := map[ast.Stmt]string{}
				for _, st := range sw.Body.List {
					cc := st.(*ast.CaseClause)
					for _, b := range cc.Body {
						if br, ok := b.(*ast.BranchStmt); ok && br.Tok == token.FALLTHROUGH {
							return true
						}
					}
					if cc.List == nil {
						keys[st] = "\xff"
						continue
					}
					var ks []string
					for _, e := range cc.List {
						tv, ok := info.Types[e]
						if !ok || tv.Value == nil {
							return true
						}
						ks = append(ks, tv.Value.ExactString())
					}
					sort.Strings(ks)
					keys[st] = ks[0]
				}
				sorted := append([]ast.Stmt{}, sw.Body.List...)
				sort.SliceStable(sorted, func(i, j int) bool { return keys[sorted[i]] < keys[sorted[j]] })
				for i := range sorted {
					if sorted[i] != sw.Body.List[i] {
						sw.Body.List = sorted
						n++
						break
					}
				}
				return true
			})
			// (n) `x = x + y` is `x += y`; `x += 1` is `x++`
			astutil.Apply(f, nil, func(c *astutil.Cursor) bool {
				as, ok := c.Node().(*ast.AssignStmt)
				if !ok || len(as.Lhs) != 1 || len(as.Rhs) != 1 {
					return true
				}
				lhs, ok := as.Lhs[0].(*ast.Ident)
				if !ok {
					return true
				}
				if as.Tok == token.ASSIGN {
					be, ok := as.Rhs[0].(*ast.BinaryExpr)
					if !ok {
						return true
					}
					x, ok := be.X.(*ast.Ident)
					if !ok || x.Name != lhs.Name || info.Uses[x] == nil || info.Uses[x] != info.Uses[lhs] {
						return true
					}
					op, ok := map[token.Token]token.Token{token.ADD: token.ADD_ASSIGN, token.SUB: token.SUB_ASSIGN, token.MUL: token.MUL_ASSIGN, token.OR: token.OR_ASSIGN, token.AND: token.AND_ASSIGN}[be.Op]
					if !ok {
						return true
					}
					as.Tok, as.Rhs[0] = op, be.Y
					n++
				}
				if as.Tok == token.ADD_ASSIGN || as.Tok == token.SUB_ASSIGN {
					if lit, ok := as.Rhs[0].(*ast.BasicLit); ok && lit.Kind == token.INT && lit.Value == "1" {
						if _, inFor := c.Parent().(*ast.ForStmt); inFor {
							return true
						}
						tok := token.INC
						if as.Tok == token.SUB_ASSIGN {
							tok = token.DEC
						}
						c.Replace(&ast.IncDecStmt{X: as.Lhs[0], TokPos: as.TokPos, Tok: tok})
						n++
					}
				}
				return true
			})
			// (m) a plain continue as the last statement of a loop body does nothing
			ast.Inspect(f, func(nd ast.Node) bool {
				var body *ast.BlockStmt
				switch l := nd.(type) {
				case *ast.ForStmt:
					body = l.Body
				case *ast.RangeStmt:
					body = l.Body
				}
				if body != nil && len(body.List) > 0 && isPlainContinue(body.List[len(body.List)-1]) {
					body.List = body.List[:len(body.List)-1]
					n++
				}
				return true
			})
			// (k) of two ways to write an early exit — `if c {A; leave}; B; leave` and `if !c {B; leave}; A; leave` —
			// the one whose guarded arm is the smaller is the normal form (at the end of a loop body the
			// leaving statement may be the implicit continue)
			astutil.Apply(f, nil, func(c *astutil.Cursor) bool {
				body, ok := c.Node().(*ast.BlockStmt)
				if !ok {
					return true
				}
				isLoopBody := false
				switch l := c.Parent().(type) {
				case *ast.ForStmt:
					isLoopBody = l.Body == body
				case *ast.RangeStmt:
					isLoopBody = l.Body == body
				}
				for i := 0; i < len(body.List); i++ {
					is, ok := body.List[i].(*ast.IfStmt)
					if !ok || is.Else != nil || !terminates(is.Body) {
						continue
					}
					rest := body.List[i+1:]
					restLeaves := len(rest) > 0 && stmtTerminates(rest[len(rest)-1])
					if !restLeaves && !(isLoopBody && isPlainContinue(is.Body.List[len(is.Body.List)-1])) {
						continue // (the implicit continue counts only when the guarded arm continues too)
					}
					size := func(list []ast.Stmt) int {
						k := 0
						for _, st := range list {
							if isLoopBody && isPlainContinue(st) {
								continue
							}
							ast.Inspect(st, func(ast.Node) bool { k++; return true })
						}
						return k
					}
					if size(is.Body.List) <= size(rest) {
						continue
					}
					bad := false
					needInit := false // the guarded arm uses what the init declares: the init has to move in front
					for _, st := range rest {
						if _, ok := st.(*ast.LabeledStmt); ok {
							bad = true
						}
					}
					if is.Init != nil {
						own := map[types.Object]bool{}
						ast.Inspect(is.Init, func(m ast.Node) bool {
							if id, ok := m.(*ast.Ident); ok && info.Defs[id] != nil {
								own[info.Defs[id]] = true
							}
							return true
						})
						ast.Inspect(is.Body, func(m ast.Node) bool {
							if id, ok := m.(*ast.Ident); ok && own[info.Uses[id]] {
								needInit = true
							}
							return true
						})
					}
					sc := info.Scopes[body]
					if sc == nil {
						if ft, ok := c.Parent().(*ast.FuncDecl); ok {
							sc = info.Scopes[ft.Type]
						} else if fl, ok := c.Parent().(*ast.FuncLit); ok {
							sc = info.Scopes[fl.Type]
						}
					}
					for _, st := range is.Body.List {
						if as, ok := st.(*ast.AssignStmt); ok && as.Tok == token.DEFINE && defineClashes(as, sc, info, body) {
							bad = true
						}
						if ds, ok := st.(*ast.DeclStmt); ok && declClashes(ds, sc, body) {
							bad = true
						}
					}
					if needInit {
						as, isDef := is.Init.(*ast.AssignStmt)
						if !isDef || as.Tok != token.DEFINE || defineClashes(as, sc, info, body) {
							bad = true
						}
					}
					if bad {
						continue
					}
					a := is.Body.List
					if needInit {
						pre := append([]ast.Stmt{}, body.List[:i]...)
						pre = append(pre, is.Init)
						is.Init = nil
						body.List = append(pre, body.List[i:]...)
						i++
					}
					if isLoopBody && isPlainContinue(a[len(a)-1]) {
						a = a[:len(a)-1]
					}
					guarded := append([]ast.Stmt{}, rest...)
					if !restLeaves {
						guarded = append(guarded, &ast.BranchStmt{TokPos: is.Body.Rbrace, Tok: token.CONTINUE})
					}
					is.Cond = neg(is.Cond)
					is.Body = &ast.BlockStmt{Lbrace: is.Body.Lbrace, List: guarded, Rbrace: is.Body.Rbrace}
					body.List = append(body.List[:i+1:i+1], a...)
					n++
					break
				}
				return true
			})
			// (g) `if a { if b {X} }` is `if a && b {X}`
			astutil.Apply(f, nil, func(c *astutil.Cursor) bool {
				is, ok := c.Node().(*ast.IfStmt)
				if !ok || is.Else != nil || len(is.Body.List) != 1 {
					return true
				}
				in, ok := is.Body.List[0].(*ast.IfStmt)
				if !ok || in.Else != nil || in.Init != nil {
					return true
				}
				is.Cond = &ast.BinaryExpr{X: is.Cond, OpPos: in.Pos(), Op: token.LAND, Y: in.Cond}
				is.Body = in.Body
				n++
				return true
			})
			// (h) emptiness tests have one spelling: len(x) == 0 / len(x) > 0, and s == "" / s != "" for strings
			astutil.Apply(f, nil, func(c *astutil.Cursor) bool {
				be, ok := c.Node().(*ast.BinaryExpr)
				if !ok {
					return true
				}
				cl, ok := be.X.(*ast.CallExpr)
				if !ok || len(cl.Args) != 1 {
					return true
				}
				if id, ok := cl.Fun.(*ast.Ident); !ok || id.Name != "len" || info.Uses[id] == nil || info.Uses[id].Pkg() != nil {
					return true
				}
				lit, ok := be.Y.(*ast.BasicLit)
				if !ok || lit.Kind != token.INT {
					return true
				}
				empty, decided := false, false
				switch {
				case lit.Value == "0" && (be.Op == token.EQL || be.Op == token.LEQ), lit.Value == "1" && be.Op == token.LSS:
					empty, decided = true, true
				case lit.Value == "0" && (be.Op == token.NEQ || be.Op == token.GTR), lit.Value == "1" && be.Op == token.GEQ:
					empty, decided = false, true
				}
				if !decided {
					return true
				}
				isString := false
				if t := info.TypeOf(cl.Args[0]); t != nil {
					if b, ok := t.Underlying().(*types.Basic); ok && b.Info()&types.IsString != 0 {
						isString = true
					}
				}
				if isString {
					op := token.NEQ
					if empty {
						op = token.EQL
					}
					c.Replace(&ast.BinaryExpr{X: cl.Args[0], OpPos: be.OpPos, Op: op, Y: &ast.BasicLit{ValuePos: lit.ValuePos, Kind: token.STRING, Value: `""`}})
					n++
					return true
				}
				wantOp, wantLit := token.GTR, "0"
				if empty {
					wantOp = token.EQL
				}
				if be.Op != wantOp || lit.Value != wantLit {
					be.Op, lit.Value = wantOp, wantLit
					n++
				}
				return true
			})
			// (s) around a call of an extracted predicate, `||` is sequence: `if a || h(x) || b {return V}` is
			// `if a {return V}; if h(x) {return V}; if b {return V}`, and `return a || h(x) || b` is the same
			// with `true` and a final `return b` — so that the predicate's call becomes a guard or a tail call
			astutil.Apply(f, nil, func(c *astutil.Cursor) bool {
				body, ok := c.Node().(*ast.BlockStmt)
				if !ok {
					return true
				}
				simple := func(rt *ast.ReturnStmt) bool {
					for _, e := range rt.Results {
						switch e.(type) {
						case *ast.Ident, *ast.BasicLit:
						default:
							return false
						}
					}
					return true
				}
				var out []ast.Stmt
				changed := false
				for _, st := range body.List {
					switch x := st.(type) {
					case *ast.IfStmt:
						ds := disjuncts(x.Cond)
						if x.Init == nil && x.Else == nil && len(ds) > 1 && len(x.Body.List) == 1 && anyExtracted(ds) {
							if rt, ok := x.Body.List[0].(*ast.ReturnStmt); ok && simple(rt) {
								for _, d := range ds {
									out = append(out, &ast.IfStmt{If: x.If, Cond: d, Body: &ast.BlockStmt{Lbrace: x.Body.Lbrace, List: []ast.Stmt{&ast.ReturnStmt{Return: rt.Return, Results: append([]ast.Expr{}, rt.Results...)}}, Rbrace: x.Body.Rbrace}})
								}
								changed = true
								n++
								continue
							}
						}
					case *ast.ReturnStmt:
						if len(x.Results) == 1 {
							ds := disjuncts(x.Results[0])
							if len(ds) > 1 && anyExtracted(ds) {
								if t := info.TypeOf(x.Results[0]); t != nil && isBoolType(t) {
									for _, d := range ds[:len(ds)-1] {
										out = append(out, &ast.IfStmt{If: x.Return, Cond: d, Body: &ast.BlockStmt{Lbrace: x.Return, List: []ast.Stmt{&ast.ReturnStmt{Return: x.Return, Results: []ast.Expr{&ast.Ident{NamePos: x.Return, Name: "true"}}}}, Rbrace: x.Return}})
									}
									out = append(out, &ast.ReturnStmt{Return: x.Return, Results: []ast.Expr{ds[len(ds)-1]}})
									changed = true
									n++
									continue
								}
							}
						}
					}
					out = append(out, st)
				}
				if changed {
					body.List = out
				}
				return true
			})
			// (i) `if c {return true}; return E` is `return c || E`; `if c {return false}; return E` is `return !c && E`
			astutil.Apply(f, nil, func(c *astutil.Cursor) bool {
				body, ok := c.Node().(*ast.BlockStmt)
				if !ok {
					return true
				}
				boolLit := func(e ast.Expr) (bool, bool) {
					id, ok := e.(*ast.Ident)
					if !ok || (id.Name != "true" && id.Name != "false") {
						return false, false
					}
					if o := info.Uses[id]; o != nil && o.Pkg() != nil {
						return false, false
					}
					return id.Name == "true", true
				}
				for len(body.List) >= 2 {
					rt, ok := body.List[len(body.List)-1].(*ast.ReturnStmt)
					if !ok || len(rt.Results) != 1 {
						break
					}
					is, ok := body.List[len(body.List)-2].(*ast.IfStmt)
					if !ok || is.Else != nil || len(is.Body.List) != 1 {
						break
					}
					if anyExtracted(disjuncts(is.Cond)) {
						break // stays a guard: the predicate is analysed in place (pass s, inlineCalls)
					}
					if is.Init != nil {
						// the init moves in front when what it declares is new to the block
						as, isDef := is.Init.(*ast.AssignStmt)
						sc := info.Scopes[body]
						if sc == nil {
							if ft, ok := c.Parent().(*ast.FuncDecl); ok {
								sc = info.Scopes[ft.Type]
							}
						}
						if !isDef || as.Tok != token.DEFINE || sc == nil {
							break
						}
						if defineClashes(as, sc, info, body) {
							break
						}
					}
					irt, ok := is.Body.List[0].(*ast.ReturnStmt)
					if !ok || len(irt.Results) != 1 {
						break
					}
					v, isLit := boolLit(irt.Results[0])
					if !isLit {
						break
					}
					if t := info.TypeOf(rt.Results[0]); t == nil {
						if _, ok := boolLit(rt.Results[0]); !ok {
							if _, isBin := rt.Results[0].(*ast.BinaryExpr); !isBin {
								if _, isNot := rt.Results[0].(*ast.UnaryExpr); !isNot {
									break
								}
							}
						}
					} else if b, ok := t.Underlying().(*types.Basic); !ok || b.Info()&types.IsBoolean == 0 {
						break
					}
					rest := rt.Results[0]
					rv, restLit := boolLit(rest)
					var e ast.Expr
					switch {
					case v && restLit && !rv:
						e = is.Cond // if c {return true}; return false
					case !v && restLit && rv:
						e = &ast.UnaryExpr{OpPos: is.Cond.Pos(), Op: token.NOT, X: is.Cond}
					case v && restLit && rv, !v && restLit && !rv:
						e = nil // both arms the same constant: the condition is still evaluated; leave alone
					case v:
						e = &ast.BinaryExpr{X: is.Cond, OpPos: is.Cond.End(), Op: token.LOR, Y: rest}
					default:
						e = &ast.BinaryExpr{X: &ast.UnaryExpr{OpPos: is.Cond.Pos(), Op: token.NOT, X: is.Cond}, OpPos: is.Cond.End(), Op: token.LAND, Y: rest}
					}
					if e == nil {
						break
					}
					rt.Results[0] = e
					if is.Init != nil {
						body.List = append(body.List[:len(body.List)-2], is.Init, rt)
					} else {
						body.List = append(body.List[:len(body.List)-2], rt)
					}
					n++
				}
				return true
			})
			// (t) `for i := 0; i < len(xs); i++ {…}` over a slice the loop neither assigns nor indexes for writing,
			// with an index it does not assign, is `for i := range xs {…}`
			astutil.Apply(f, nil, func(c *astutil.Cursor) bool {
				fs, ok := c.Node().(*ast.ForStmt)
				if !ok || fs.Init == nil || fs.Cond == nil || fs.Post == nil {
					return true
				}
				init, ok := fs.Init.(*ast.AssignStmt)
				if !ok || init.Tok != token.DEFINE || len(init.Lhs) != 1 || len(init.Rhs) != 1 {
					return true
				}
				iv, ok := init.Lhs[0].(*ast.Ident)
				if lit, isLit := init.Rhs[0].(*ast.BasicLit); !ok || !isLit || lit.Value != "0" || info.Defs[iv] == nil {
					return true
				}
				post, ok := fs.Post.(*ast.IncDecStmt)
				if !ok || post.Tok != token.INC {
					return true
				}
				if pid, ok := post.X.(*ast.Ident); !ok || info.Uses[pid] != info.Defs[iv] {
					return true
				}
				cond, ok := fs.Cond.(*ast.BinaryExpr)
				if !ok || cond.Op != token.LSS {
					return true
				}
				if cid, ok := cond.X.(*ast.Ident); !ok || info.Uses[cid] != info.Defs[iv] {
					return true
				}
				ln, ok := cond.Y.(*ast.CallExpr)
				if !ok || len(ln.Args) != 1 || !pureExpr(ln.Args[0]) {
					return true
				}
				if lid, ok := ln.Fun.(*ast.Ident); !ok || lid.Name != "len" || info.Uses[lid] == nil || info.Uses[lid].Pkg() != nil {
					return true
				}
				xs := ln.Args[0]
				if t := info.TypeOf(xs); t == nil {
					return true
				} else if _, isSlice := t.Underlying().(*types.Slice); !isSlice {
					return true
				}
				root := exprText(xs)
				bad := false
				ast.Inspect(fs.Body, func(m ast.Node) bool {
					switch x := m.(type) {
					case *ast.AssignStmt:
						for _, l := range x.Lhs {
							lt := exprText(l)
							if lt == root || strings.HasPrefix(lt, root+"[") || lt == iv.Name {
								bad = true
							}
						}
					case *ast.IncDecStmt:
						lt := exprText(x.X)
						if lt == root || strings.HasPrefix(lt, root+"[") || lt == iv.Name {
							bad = true
						}
					case *ast.UnaryExpr:
						if x.Op == token.AND {
							if lt := exprText(x.X); lt == iv.Name || lt == root || strings.HasPrefix(lt, root+"[") {
								bad = true
							}
						}
					case *ast.CallExpr:
						// a call handed the slice itself may change its elements: only reads of elements are allowed
						for _, a := range x.Args {
							if exprText(a) == root {
								if id, ok := x.Fun.(*ast.Ident); !ok || id.Name != "len" {
									bad = true
								}
							}
						}
					case *ast.FuncLit:
						bad = true // a closure may capture the per-loop index variable
					}
					return true
				})
				if bad {
					return true
				}
				c.Replace(&ast.RangeStmt{For: fs.For, Key: iv, TokPos: init.TokPos, Tok: token.DEFINE, X: xs, Body: fs.Body})
				n++
				return true
			})
			// (j) `for i := range xs { x := xs[i]; … }` is `for i, x := range xs { … }` (xs a slice that the loop does not assign)
			astutil.Apply(f, nil, func(c *astutil.Cursor) bool {
				rs, ok := c.Node().(*ast.RangeStmt)
				if !ok || rs.Tok != token.DEFINE || rs.Value != nil || rs.Key == nil || len(rs.Body.List) == 0 {
					return true
				}
				kid, ok := rs.Key.(*ast.Ident)
				if !ok || kid.Name == "_" || info.Defs[kid] == nil {
					return true
				}
				t := info.TypeOf(rs.X)
				if t == nil {
					return true
				}
				if _, isSlice := t.Underlying().(*types.Slice); !isSlice || !pureExpr(rs.X) {
					return true
				}
				as, ok := rs.Body.List[0].(*ast.AssignStmt)
				var holder *ast.IfStmt // `for i := range xs { if x := xs[i]; … {…}; … }`: the element is taken in the init of the first statement
				if !ok {
					if is, isIf := rs.Body.List[0].(*ast.IfStmt); isIf && is.Init != nil {
						if as, ok = is.Init.(*ast.AssignStmt); ok {
							holder = is
							if len(as.Lhs) == 1 {
								if id, isId := as.Lhs[0].(*ast.Ident); isId && declaredIn(rs.Body)[id.Name] {
									ok = false // the name means something else later in the body
								}
							}
						}
					}
				}
				if !ok || as.Tok != token.DEFINE || len(as.Lhs) != 1 || len(as.Rhs) != 1 {
					return true
				}
				vid, ok := as.Lhs[0].(*ast.Ident)
				if !ok || vid.Name == "_" {
					return true
				}
				ix, ok := as.Rhs[0].(*ast.IndexExpr)
				if !ok || exprText(ix.X) != exprText(rs.X) {
					return true
				}
				iid, ok := ix.Index.(*ast.Ident)
				if !ok || info.Uses[iid] != info.Defs[kid] {
					return true
				}
				root := exprText(rs.X)
				written := false
				ast.Inspect(rs.Body, func(m ast.Node) bool {
					switch x := m.(type) {
					case *ast.AssignStmt:
						for _, l := range x.Lhs {
							if lt := exprText(l); lt == root || strings.HasPrefix(lt, root+"[") {
								written = true
							}
						}
					case *ast.IncDecStmt:
						if lt := exprText(x.X); lt == root || strings.HasPrefix(lt, root+"[") {
							written = true
						}
					}
					return true
				})
				if written {
					return true
				}
				rs.Value = vid
				if holder != nil {
					holder.Init = nil
				} else {
					rs.Body.List = rs.Body.List[1:]
				}
				if useCount[info.Defs[kid]] == 1 {
					kid.Name = "_"
				}
				n++
				return true
			})
			// (u) `for i := range xs {… xs[i] …}` reading the element (never writing it, never taking its address) is
			// `for i, e := range xs {… e …}`
			astutil.Apply(f, nil, func(c *astutil.Cursor) bool {
				rs, ok := c.Node().(*ast.RangeStmt)
				if !ok || rs.Tok != token.DEFINE || rs.Value != nil || rs.Key == nil || !pureExpr(rs.X) {
					return true
				}
				kid, ok := rs.Key.(*ast.Ident)
				if !ok || kid.Name == "_" || info.Defs[kid] == nil {
					return true
				}
				t := info.TypeOf(rs.X)
				if t == nil {
					return true
				}
				if _, isSlice := t.Underlying().(*types.Slice); !isSlice {
					return true
				}
				root := exprText(rs.X)
				elem := root + "[" + kid.Name + "]"
				var reads []*ast.IndexExpr
				bad := false
				astutil.Apply(rs.Body, func(c2 *astutil.Cursor) bool {
					switch x := c2.Node().(type) {
					case *ast.AssignStmt:
						for _, l := range x.Lhs {
							lt := exprText(l)
							if lt == root || strings.HasPrefix(lt, root+"[") || lt == kid.Name {
								bad = true
							}
						}
					case *ast.IncDecStmt:
						lt := exprText(x.X)
						if lt == root || strings.HasPrefix(lt, root+"[") || lt == kid.Name {
							bad = true
						}
					case *ast.UnaryExpr:
						if x.Op == token.AND && strings.HasPrefix(exprText(x.X), root) {
							bad = true
						}
					case *ast.CallExpr:
						for _, a := range x.Args {
							if exprText(a) == root {
								if id, ok := x.Fun.(*ast.Ident); !ok || id.Name != "len" {
									bad = true
								}
							}
						}
					case *ast.FuncLit:
						bad = true
					case *ast.IndexExpr:
						if exprText(x) == elem {
							if id, ok := x.Index.(*ast.Ident); ok && info.Uses[id] == info.Defs[kid] {
								reads = append(reads, x)
								return false
							}
						}
					}
					return true
				}, nil)
				if bad || len(reads) == 0 {
					return true
				}
				// a fresh name for the element
				used := map[string]bool{}
				ast.Inspect(rs.Body, func(m ast.Node) bool {
					if id, ok := m.(*ast.Ident); ok {
						used[id.Name] = true
					}
					return true
				})
				name := ""
				for k := 0; k < 100 && name == ""; k++ {
					cand := "elem" + strconv.Itoa(k)
					if k == 0 {
						cand = "elem"
					}
					if used[cand] {
						continue
					}
					if sc := info.Scopes[rs]; sc != nil {
						if _, o := sc.LookupParent(cand, rs.Body.Pos()); o != nil {
							continue
						}
					}
					name = cand
				}
				if name == "" {
					return true
				}
				isRead := map[*ast.IndexExpr]bool{}
				for _, x := range reads {
					isRead[x] = true
				}
				astutil.Apply(rs.Body, func(c2 *astutil.Cursor) bool {
					if ix, ok := c2.Node().(*ast.IndexExpr); ok && isRead[ix] {
						c2.Replace(&ast.Ident{NamePos: ix.Pos(), Name: name})
						return false
					}
					return true
				}, nil)
				rs.Value = &ast.Ident{NamePos: rs.X.Pos(), Name: name}
				// is the index still used?
				still := false
				ast.Inspect(rs.Body, func(m ast.Node) bool {
					if id, ok := m.(*ast.Ident); ok && info.Uses[id] == info.Defs[kid] {
						still = true
					}
					return true
				})
				if !still {
					kid.Name = "_"
				}
				n++
				return true
			})
			astutil.Apply(f, nil, func(c *astutil.Cursor) bool {
				switch x := c.Node().(type) {
				case *ast.UnaryExpr:
					if x.Op != token.NOT {
						return true
					}
					switch ast.Unparen(x.X).(type) {
					case *ast.UnaryExpr, *ast.BinaryExpr:
						r := neg(x.X)
						if u, ok := r.(*ast.UnaryExpr); ok && u.Op == token.NOT && u.X == x.X {
							return true // nothing to push
						}
						c.Replace(r)
					}
				case *ast.BinaryExpr:
					if op, ok := mirror[x.Op]; ok && isConst(x.X) && !isConst(x.Y) {
						x.X, x.Y, x.Op = x.Y, x.X, op
						n++
					}
				}
				return true
			})
		}
	}
	return n
}

// pureExpr: identifiers and field selections of them.
func pureExpr(e ast.Expr) bool {
	switch x := e.(type) {
	case *ast.Ident:
		return true
	case *ast.SelectorExpr:
		return pureExpr(x.X)
	}
	return false
}

func exprText(e ast.Expr) string {
	var b bytes.Buffer
	printer.Fprint(&b, token.NewFileSet(), e)
	return b.String()
}

// declClashes: a declaration statement moved into the scope would redeclare one of its names.
func declClashes(ds *ast.DeclStmt, sc *types.Scope, body *ast.BlockStmt) bool {
	gd, ok := ds.Decl.(*ast.GenDecl)
	if !ok || sc == nil {
		return true
	}
	now := declaredIn(body)
	for _, sp := range gd.Specs {
		switch x := sp.(type) {
		case *ast.ValueSpec:
			for _, nm := range x.Names {
				if nm.Name != "_" && (sc.Lookup(nm.Name) != nil || now[nm.Name]) {
					return true
				}
			}
		case *ast.TypeSpec:
			if sc.Lookup(x.Name.Name) != nil || now[x.Name.Name] {
				return true
			}
		default:
			return true
		}
	}
	return false
}

func isPlainContinue(st ast.Stmt) bool {
	b, ok := st.(*ast.BranchStmt)
	return ok && b.Tok == token.CONTINUE && b.Label == nil
}

// defineClashes: moved into the scope, the short variable declaration would not
// compile or would mean something else. A name the scope already has is fine
// when the declaration still introduces another name and the existing
// variable has the same type (the declaration then assigns to it, as the
// same statement written there would).
func defineClashes(as *ast.AssignStmt, sc *types.Scope, info *types.Info, body *ast.BlockStmt) bool {
	if sc == nil {
		return true
	}
	now := declaredIn(body)
	fresh := 0
	for _, l := range as.Lhs {
		id, ok := l.(*ast.Ident)
		if !ok {
			return true
		}
		if id.Name == "_" {
			continue
		}
		old := sc.Lookup(id.Name)
		if old == nil && now[id.Name] {
			return true // declared by a statement that an earlier rewrite of this pass moved here: not in the recorded scope yet
		}
		if old == nil {
			fresh++
			continue
		}
		def := info.Defs[id]
		if def == nil {
			// already an assignment to an outer variable: it must be this one
			if info.Uses[id] != old {
				return true
			}
			continue
		}
		if _, isVar := old.(*types.Var); !isVar || !types.Identical(def.Type(), old.Type()) {
			return true
		}
	}
	return fresh == 0
}

// declaredIn: the names the block's own statements declare as the tree stands
// now (the recorded scopes describe the tree before this pass's rewrites).
func declaredIn(body *ast.BlockStmt) map[string]bool {
	out := map[string]bool{}
	if body == nil {
		return out
	}
	for _, st := range body.List {
		switch x := st.(type) {
		case *ast.AssignStmt:
			if x.Tok == token.DEFINE {
				for _, l := range x.Lhs {
					if id, ok := l.(*ast.Ident); ok {
						out[id.Name] = true
					}
				}
			}
		case *ast.DeclStmt:
			if gd, ok := x.Decl.(*ast.GenDecl); ok {
				for _, sp := range gd.Specs {
					switch y := sp.(type) {
					case *ast.ValueSpec:
						for _, nm := range y.Names {
							out[nm.Name] = true
						}
					case *ast.TypeSpec:
						out[y.Name.Name] = true
					}
				}
			}
		}
	}
	return out
}

// condIdent: the condition is an identifier, possibly under negations; wrap
// rebuilds the same negations around a replacement.
func condIdent(e ast.Expr) (*ast.Ident, func(ast.Expr) ast.Expr) {
	nots := 0
	for {
		if p, ok := e.(*ast.ParenExpr); ok {
			e = p.X
			continue
		}
		if u, ok := e.(*ast.UnaryExpr); ok && u.Op == token.NOT {
			nots++
			e = u.X
			continue
		}
		break
	}
	id, ok := e.(*ast.Ident)
	if !ok {
		return nil, nil
	}
	return id, func(r ast.Expr) ast.Expr {
		for i := 0; i < nots; i++ {
			r = &ast.UnaryExpr{OpPos: r.Pos(), Op: token.NOT, X: r}
		}
		return r
	}
}
