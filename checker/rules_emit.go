package main

import (
	"go/ast"
	"go/token"
	"go/types"
	"regexp"
	"sort"
	"strings"
)

var emitterFuncs = []string{"injectorGen.p", "gen.p", "injectPass", "injectorGen.funcProviderCall", "injectorGen.structProviderCall", "injectorGen.valueExpr", "injectorGen.fieldExpr", "gen.inject", "gen.frame", "generateInjectors", "copyNonInjectorDecls", "gen.writeAST"}

// bodyEmitters write the body of an injector function.
var bodyEmitters = []string{"injectPass", "injectorGen.funcProviderCall", "injectorGen.structProviderCall", "injectorGen.valueExpr", "injectorGen.fieldExpr"}

type traceInfo struct {
	fi     *FuncInfo
	nodes  []emNode
	text   string
	sites  int
	issues []string
}

func traceOf(c *Ctx, r *R, name string) *traceInfo {
	fi := r.Need(c.Fn(c.W, name), name)
	if fi == nil {
		return nil
	}
	e := newEmitter(c, fi)
	ns := e.run()
	return &traceInfo{fi: fi, nodes: ns, text: renderTrace(ns), sites: e.sites, issues: e.issues}
}

// modelCheck compares the extracted emission trace with the reviewed model.
func modelCheck(c *Ctx, r *R, name string) *traceInfo {
	t := traceOf(c, r, name)
	if t == nil {
		return nil
	}
	for _, is := range t.issues {
		if name == "injectorGen.p" || name == "gen.p" {
			continue // the primitives forward a format parameter by design
		}
		r.Undecided("model:"+name+"/shape", t.fi.Decl.Pos(), "%s", is)
	}
	want, ok := emitOracle[name]
	if !ok {
		r.Bad("model:"+name, t.fi.Decl.Pos(), "no reviewed model for this emitter")
		return t
	}
	if t.text == want {
		r.Ok("model:"+name, t.fi.Decl.Pos(), "emission trace equals the reviewed model (%d emit sites, %d tokens)", t.sites, len(strings.Fields(t.text)))
		return t
	}
	g, w := strings.Fields(t.text), strings.Fields(want)
	i := 0
	for i < len(g) && i < len(w) && g[i] == w[i] {
		i++
	}
	ctx := func(s []string) string {
		lo, hi := i-6, i+8
		if lo < 0 {
			lo = 0
		}
		if hi > len(s) {
			hi = len(s)
		}
		return strings.Join(s[lo:hi], " ")
	}
	r.Bad("model:"+name, t.fi.Decl.Pos(), "emitted code differs from the reviewed model at token %d: got «… %s …» want «… %s …»", i, ctx(g), ctx(w))
	return t
}

var identRe = regexp.MustCompile(`^[A-Za-z_][A-Za-z0-9_]*$`)

func init() {
	register("C03.R1", "model of the provider-call emitter: err/cleanup bound iff the call has them; error branch iff hasErr, in the order test → earlier cleanups (reverse, bounded by the count taken before this call's own cleanup is recorded) → return zero value of the injector's result, nil cleanup iff declared, the chosen error variable",
		func(c *Ctx, r *R) {
			t := modelCheck(c, r, "injectorGen.funcProviderCall")
			if t == nil {
				return
			}
			// focused obligations read from the extracted trace (independent of the stored model)
			var snapIdx, appIdx = -1, -1
			idx := 0
			var errBranch *emAlt
			walkTrace(t.nodes, nil, func(n emNode, ctx []string) {
				idx++
				switch n := n.(type) {
				case *emEff:
					if strings.HasPrefix(n.desc, "SNAP") && strings.Contains(n.desc, "=len(recv.cleanupNames)") && snapIdx < 0 {
						snapIdx = idx
					}
					if strings.HasPrefix(n.desc, "APPEND recv.cleanupNames<-") {
						appIdx = idx
					}
				case *emAlt:
					if n.cond == "$1.hasErr" && len(ctx) == 0 {
						if s := renderTrace(n.then); strings.HasPrefix(s, "if ") {
							errBranch = n
						}
					}
				}
			})
			r.Check(snapIdx > 0 && appIdx > snapIdx, "unwind/count-before-own-cleanup", t.fi.Decl.Pos(), "the number of earlier cleanups is read before this call's cleanup name is appended")
			if errBranch == nil {
				r.Bad("error-branch", t.fi.Decl.Pos(), "no `if <err> != nil {` block emitted under c.hasErr")
				return
			}
			r.Check(len(errBranch.els) == 0, "error-branch/iff-hasErr", t.fi.Decl.Pos(), "nothing is emitted in its place when the call cannot fail")
			s := renderTrace(errBranch.then)
			re := regexp.MustCompile(`^if ⟨recv\.errVar⟩ != nil \{ ¶ LOOP\[for (i\d+):=\((SNAP\d+)-1\); i\d+>=0; i\d+--\]\{ ⟨recv\.cleanupNames\[(i\d+)\]⟩ \( \) ¶ \} return ⟨zeroValue\(\$2\.out,recv\.g\.qualifyPkg\)⟩ ALT\[\$2\.cleanup\]\{ , nil \}\{ \} , ⟨recv\.errVar⟩ ¶ \} ¶$`)
			m := re.FindStringSubmatch(s)
			r.Check(m != nil && m[1] == m[3], "error-branch/shape", t.fi.Decl.Pos(), "test(errVar) → cleanups SNAP-1…0 descending → return zero(injector result)[, nil iff cleanup declared], errVar — got: %s", s)
		})

	register("C03.R7", "no cross-call state: code emitted inside an injector body contains no assignment other than := ; package-level variables are only emitted in the value block",
		func(c *Ctx, r *R) {
			n := 0
			for _, name := range bodyEmitters {
				t := traceOf(c, r, name)
				if t == nil {
					continue
				}
				bad := false
				walkTrace(t.nodes, nil, func(nd emNode, _ []string) {
					if tk, ok := nd.(*emTok); ok {
						for _, x := range tk.toks {
							n++
							if x == "=" || x == "+=" || x == "var" || x == "go" || x == "defer" {
								bad = true
								r.Bad(name+"/token:"+x, t.fi.Decl.Pos(), "emitted body token %q can create state that outlives or precedes the call", x)
							}
						}
					}
				})
				if !bad {
					r.Ok(name+"/only-short-declarations", t.fi.Decl.Pos(), "only := introduces variables in emitted injector bodies")
				}
			}
			r.Floor("tokens emitted by body emitters", n, 60)
		})

	register("C14.R1", "no free identifiers in templates: every identifier token in a constant format string is a Go keyword or nil/error/_ ; every other name arrives through a formatted argument",
		func(c *Ctx, r *R) {
			allowed := map[string]bool{"nil": true, "error": true, "_": true}
			n := 0
			for _, name := range emitterFuncs {
				t := traceOf(c, r, name)
				if t == nil {
					continue
				}
				walkTrace(t.nodes, nil, func(nd emNode, _ []string) {
					tk, ok := nd.(*emTok)
					if !ok {
						return
					}
					for _, x := range tk.toks {
						if !identRe.MatchString(x) {
							continue
						}
						n++
						if token.Lookup(x).IsKeyword() || allowed[x] {
							continue
						}
						r.Bad(strings.TrimPrefix(name, "injectorGen.")+"/literal-identifier:"+x, t.fi.Decl.Pos(), "template emits the identifier %q literally: it can capture or be captured by a user identifier", x)
					}
				})
			}
			r.Floor("identifier tokens in templates", n, 15)
			if n > 0 && len(r.Obs) == 1 {
				r.Ok("templates/identifiers", 0, "all %d identifier tokens are keywords or nil/error/_", n)
			}
		})

	register("C01.R4", "model of the injector emitter: name, one parameter per template parameter (variadic last parameter as ...Elem iff the template is variadic and it is the last), result list decided by exactly (cleanup, err), one local per planned step before the kind dispatch, the returned value, the cleanup closure and `, nil` iff declared",
		func(c *Ctx, r *R) {
			t := modelCheck(c, r, "injectPass")
			if t == nil {
				return
			}
			s := t.text
			r.Check(strings.Contains(s, "⟨$5.paramNames[i1]⟩ ALT[$1.Variadic()]{ ALT[(i1==($1.Params().Len()-1))]{ ... ⟨types.TypeString($1.Params().At(i1).Type().(*types.Slice).Elem(),$5.g.qualifyPkg)⟩ }{ ⟨types.TypeString($1.Params().At(i1).Type(),$5.g.qualifyPkg)⟩ } }{ ⟨types.TypeString($1.Params().At(i1).Type(),$5.g.qualifyPkg)⟩ }"),
				"variadic-last-only", t.fi.Decl.Pos(), "`...Elem` is printed exactly for the last parameter of a variadic template")
			r.Check(strings.Contains(s, "return ALT[(len($2)>0)]{ ⟨$5.localNames[(len($2)-1)]⟩ }{ ⟨$5.paramNames[$3.For(funcOutput($1)#0.out).Arg().Index]⟩ }"),
				"returned-value", t.fi.Decl.Pos(), "returns the last step's local, or the argument that provides the result when there is no step")
			// one name per parameter iteration and per step iteration, unconditionally
			pApp, lApp := 0, 0
			walkTrace(t.nodes, nil, func(n emNode, ctx []string) {
				if ef, ok := n.(*emEff); ok {
					if strings.HasPrefix(ef.desc, "APPEND $5.paramNames<-") {
						pApp++
						r.Check(len(ctx) == 1 && strings.HasPrefix(ctx[0], "LOOP[for i1:=0; i1<$1.Params().Len(); i1++]"), "paramNames/one-per-parameter", t.fi.Decl.Pos(), "a name is recorded for every parameter, in order")
					}
					if strings.HasPrefix(ef.desc, "APPEND $5.localNames<-") {
						lApp++
						r.Check(len(ctx) == 1 && strings.HasPrefix(ctx[0], "LOOP[range $2 as"), "localNames/one-per-step", t.fi.Decl.Pos(), "a local name is recorded for every planned step, before the kind dispatch")
					}
				}
			})
			r.Check(pApp == 1 && lApp == 1, "name-tables/single-writers", t.fi.Decl.Pos(), "exactly one append site each for paramNames and localNames")
		})

	register("C04.R1", "aggregated cleanup closure: under injectSig.cleanup and only there, after all steps were emitted, `func() {` cleanups len-1…0 descending `}`",
		func(c *Ctx, r *R) {
			t := traceOf(c, r, "injectPass")
			if t == nil {
				return
			}
			var alt *emAlt
			callsLoopSeen, order := false, false
			for _, n := range t.nodes {
				switch n := n.(type) {
				case *emLoop:
					if strings.HasPrefix(n.shape, "range $2 as") {
						callsLoopSeen = true
					}
				case *emAlt:
					if n.cond == "funcOutput($1)#0.cleanup" {
						alt = n
						order = callsLoopSeen
					}
				}
			}
			if alt == nil {
				r.Bad("closure", t.fi.Decl.Pos(), "no top-level emission conditioned on exactly injectSig.cleanup")
				return
			}
			r.Check(order, "closure/after-all-steps", t.fi.Decl.Pos(), "the closure is emitted after the loop over the planned steps (so every recorded cleanup is included)")
			r.Check(len(alt.els) == 0, "closure/iff-declared", t.fi.Decl.Pos(), "nothing is emitted in its place when no cleanup is declared")
			s := renderTrace(alt.then)
			re := regexp.MustCompile(`^, func \( \) \{ ¶ LOOP\[for (i\d+):=\(len\(\$5\.cleanupNames\)-1\); i\d+>=0; i\d+--\]\{ ⟨\$5\.cleanupNames\[(i\d+)\]⟩ \( \) ¶ \} \}$`)
			m := re.FindStringSubmatch(s)
			r.Check(m != nil && m[1] == m[2], "closure/shape", t.fi.Decl.Pos(), "`, func() {` + every recorded cleanup from last to first + `}` (non-nil even when empty) — got: %s", s)
		})

	register("C04.R2", "single writer in acquisition order: the only store to injectorGen.cleanupNames in the module is a one-element append at the tail in the provider-call emitter, executed exactly when the call has a cleanup",
		func(c *Ctx, r *R) {
			ig := lookupType(c.W, "injectorGen")
			fld := structField(ig, "cleanupNames")
			if fld == nil {
				r.Bad("anchor:injectorGen.cleanupNames", 0, "field not found")
				return
			}
			writes, others := 0, 0
			for _, fi := range c.all {
				fi.inspect(fi.Decl.Body, func(nd ast.Node) bool {
					switch n := nd.(type) {
					case *ast.AssignStmt:
						for i, l := range n.Lhs {
							tgt := ast.Unparen(l)
							if ix, ok := tgt.(*ast.IndexExpr); ok {
								tgt = ix.X
								if fi.selField(tgt) == fld {
									writes++
									r.Bad("element-write:"+fi.Name, n.Pos(), "an element of cleanupNames is overwritten")
								}
								continue
							}
							f := fi.selField(tgt)
							if f == nil {
								continue
							}
							if f.Name() == "paramNames" || f.Name() == "localNames" {
								others++
							}
							if f != fld {
								continue
							}
							writes++
							r.Need(fi, fi.Name)
							ap := fi.isBuiltin(n.Rhs[i], "append")
							okA := ap != nil && len(ap.Args) == 2 && fi.selField(ap.Args[0]) == fld && !ap.Ellipsis.IsValid()
							r.Check(okA, "write:"+fi.Name+"/tail-append", n.Pos(), "one name is appended at the tail (acquisition order)")
							gs := fi.Guards(n)
							okG := len(gs) == 1 && !gs[0].Neg && fi.selField(gs[0].Expr) != nil && fi.selField(gs[0].Expr).Name() == "hasCleanup" && !fi.inNestedLoopOrLit(n, fi.Decl.Body)
							r.Check(okG, "write:"+fi.Name+"/iff-hasCleanup", n.Pos(), "executed exactly when the call has a cleanup, once per emitted call")
							r.Check(fi.Name == "injectorGen.funcProviderCall", "write:"+fi.Name+"/site", n.Pos(), "the writer is the provider-call emitter")
						}
					case *ast.CompositeLit:
						if isNamed(derefType(fi.Info.TypeOf(n)), pathW, "injectorGen") {
							for _, el := range n.Elts {
								if kv, ok := el.(*ast.KeyValueExpr); ok && kv.Key.(*ast.Ident).Name == "cleanupNames" {
									writes++
									r.Bad("literal:"+fi.Name, kv.Pos(), "an injectorGen is created with a pre-filled cleanup table")
								}
							}
						}
					}
					return true
				})
			}
			r.Floor("writers of cleanupNames", writes, 1)
			r.Check(writes == 1, "single-writer", 0, "exactly one store to cleanupNames exists (%d found)", writes)
			r.Control("name-table append detector (paramNames/localNames)", others >= 2, 0)
		})

	register("C04.R4", "nothing runs early: a cleanup call is emitted only in a provider call's error branch and in the returned closure",
		func(c *Ctx, r *R) {
			n := 0
			for _, name := range emitterFuncs {
				t := traceOf(c, r, name)
				if t == nil {
					continue
				}
				walkTrace(t.nodes, nil, func(nd emNode, ctx []string) {
					tk, ok := nd.(*emTok)
					if !ok {
						return
					}
					for i, x := range tk.toks {
						if !strings.Contains(x, "cleanupNames[") && !strings.Contains(x, "cleanupNames)") {
							continue
						}
						if !(i+2 < len(tk.toks) && tk.toks[i+1] == "(" && tk.toks[i+2] == ")") {
							continue
						}
						n++
						where := strings.Join(ctx, " > ")
						okCtx := (name == "injectorGen.funcProviderCall" && len(ctx) == 2 && ctx[0] == "ALT+[$1.hasErr]" && strings.HasPrefix(ctx[1], "LOOP[for ")) ||
							(name == "injectPass" && len(ctx) == 2 && ctx[0] == "ALT+[funcOutput($1)#0.cleanup]" && strings.HasPrefix(ctx[1], "LOOP[for "))
						r.Check(okCtx, "cleanup-call@"+name+"#"+itoa(n), t.fi.Decl.Pos(), "cleanup call emitted in context: %s", where)
					}
				})
			}
			r.Floor("emitted cleanup-call sites", n, 2)
			r.Check(n == 2, "cleanup-call/count", 0, "exactly two emission sites call a cleanup (%d found)", n)
		})

	register("C02.R4", "decode agrees with encode: every emitted argument looked up from a step's args reads paramNames[x] on the x<len(paramNames) side and localNames[x-len(paramNames)] on the other; struct fields pair fieldNames[i] with args[i]",
		func(c *Ctx, r *R) {
			n := 0
			for _, name := range []string{"injectorGen.funcProviderCall", "injectorGen.structProviderCall", "injectorGen.fieldExpr"} {
				t := traceOf(c, r, name)
				if t == nil {
					continue
				}
				found := 0
				walkTrace(t.nodes, nil, func(nd emNode, ctx []string) {
					a, ok := nd.(*emAlt)
					if !ok {
						return
					}
					m := regexp.MustCompile(`^\((.+)<len\(recv\.paramNames\)\)$`).FindStringSubmatch(a.cond)
					if m == nil {
						return
					}
					x := m[1]
					found++
					n++
					th, el := renderTrace(a.then), renderTrace(a.els)
					okT := strings.HasPrefix(th, "⟨recv.paramNames["+x+"]⟩")
					okE := strings.HasPrefix(el, "⟨recv.localNames[("+x+"-len(recv.paramNames))]⟩")
					rest := strings.TrimPrefix(th, "⟨recv.paramNames["+x+"]⟩") == strings.TrimPrefix(el, "⟨recv.localNames[("+x+"-len(recv.paramNames))]⟩")
					r.Check(okT && okE && rest, name+"/decode", t.fi.Decl.Pos(), "position %s is decoded as a parameter below len(paramNames) and as local %s-len(paramNames) otherwise, with identical surrounding text", x, x)
					// x is an element of the step's args
					isArg := x == "$1.args[0]"
					for _, cx := range ctx {
						if strings.HasPrefix(cx, "LOOP[range $1.args as ") && strings.HasSuffix(cx, ","+x+"]") {
							isArg = true
						}
					}
					r.Check(isArg, name+"/decode-source", t.fi.Decl.Pos(), "the decoded position is an element of the step's args")
				})
				r.Check(found == 1, name+"/decode-sites", t.fi.Decl.Pos(), "one decode site (%d found)", found)
				// no other read of the name tables by an args-derived index
				walkTrace(t.nodes, nil, func(nd emNode, ctx []string) {
					tk, ok := nd.(*emTok)
					if !ok {
						return
					}
					for _, x := range tk.toks {
						if (strings.Contains(x, "recv.paramNames[") || strings.Contains(x, "recv.localNames[")) && len(ctx) > 0 {
							inDecode := false
							for _, cx := range ctx {
								if strings.Contains(cx, "<len(recv.paramNames))]") {
									inDecode = true
								}
							}
							r.Check(inDecode, name+"/table-read-guarded:"+x, t.fi.Decl.Pos(), "name-table read sits under the decode test")
						}
					}
				})
			}
			r.Floor("decode sites", n, 3)
			// struct literal pairs fieldNames[i] with args[i]
			if t := traceOf(c, r, "injectorGen.structProviderCall"); t != nil {
				ok := regexp.MustCompile(`LOOP\[range \$1\.args as (k\d+),(v\d+)\]\{ ⟨\$1\.fieldNames\[(k\d+)\]⟩ : ALT\[\((v\d+)<len`).FindStringSubmatch(t.text)
				r.Check(ok != nil && ok[1] == ok[3] && ok[2] == ok[4], "struct/field-arg-pairing", t.fi.Decl.Pos(), "field name i is paired with argument i in a keyed literal")
			}
		})

	register("C12.R4", "model of the struct-literal and field-selector emitters: & iff the requested type is a pointer / the pointer form of the field; keyed literal of exactly the selected fields; <parent>.<field>",
		func(c *Ctx, r *R) {
			modelCheck(c, r, "injectorGen.structProviderCall")
			modelCheck(c, r, "injectorGen.fieldExpr")
		})

	register("C13.R4", "a value is evaluated once, at package level: the in-function emission is `local := <holder>`; holders are registered once per expression node and written only in the package-level var block; user syntax is printed only by writeAST from that block and from the declaration copier",
		func(c *Ctx, r *R) {
			modelCheck(c, r, "injectorGen.valueExpr")
			t := traceOf(c, r, "gen.inject")
			if t == nil {
				return
			}
			// var block
			re := regexp.MustCompile(`ALT\[\(len\((m\d+)\)>0\)\]\{ var \( ¶ LOOP\[range (m\d+) as k1,v1\]\{ ⟨v1\.name⟩ = «CALL recv\.writeAST\(v1\.typeInfo,v1\.expr\)» ¶ \} \) ¶ ¶ \}\{ \}`)
			m := re.FindStringSubmatch(t.text)
			r.Check(m != nil && m[1] == m[2], "var-block", t.fi.Decl.Pos(), "pending value holders are emitted as `var ( name = <expr> … )` at package level")
			// registration: under values[expr]=="" only, with the holder name also queued
			reg := regexp.MustCompile(`ALT\[\(recv\.values\[(.+?)\.valueExpr\]==""\)\]\{ «DEF (n\d+)=typeVariableName\((.+?)\.valueTypeInfo\.TypeOf\((.+?)\.valueExpr\),"",func\{\(\("_wire"\+export\(fp0\)\)\+"Value"\)\},recv\.nameInFileScope\)» «SET recv\.values\[(.+?)\.valueExpr\]=(n\d+)» «LOCAL (m\d+)=append\((m\d+),wire\.pendingVar\{name:(n\d+),expr:(.+?)\.valueExpr,typeInfo:(.+?)\.valueTypeInfo\}\)» \}\{ \}`)
			g := reg.FindStringSubmatch(t.text)
			okReg := g != nil && g[1] == g[3] && g[1] == g[4] && g[1] == g[5] && g[2] == g[6] && g[2] == g[9] && g[1] == g[10] && g[1] == g[11] && m != nil && g[7] == m[1]
			r.Check(okReg, "holder-registered-once", t.fi.Decl.Pos(), "a holder name is invented (file-scope disambiguation), stored under the expression node and queued exactly when none exists yet")
			// writeAST callers
			callers := map[string]int{}
			for _, fi := range c.all {
				callers[fi.Name] += len(fi.callsTo(pathW + ".gen.writeAST"))
			}
			okC := callers["gen.inject"] == 1 && callers["copyNonInjectorDecls"] == 1
			for k, v := range callers {
				if v > 0 && k != "gen.inject" && k != "copyNonInjectorDecls" {
					okC = false
				}
			}
			r.Check(okC, "writeAST-callers", 0, "user syntax is printed from exactly two places: the package-level value block and the declaration copier")
			// g.values has no other writer
			w := 0
			for _, fi := range c.all {
				fi.inspect(fi.Decl.Body, func(nd ast.Node) bool {
					if as, ok := nd.(*ast.AssignStmt); ok {
						for _, l := range as.Lhs {
							if ix, ok := ast.Unparen(l).(*ast.IndexExpr); ok {
								if f := fi.selField(ix.X); f != nil && f.Name() == "values" && isNamed(derefType(fi.Info.TypeOf(ix.X.(*ast.SelectorExpr).X)), pathW, "gen") {
									w++
								}
							}
						}
					}
					return true
				})
			}
			r.Check(w == 1, "values-single-writer", 0, "exactly one store into gen.values (%d found)", w)
		})

	register("C01.R3", "two-pass emission: a discarding pass (collecting imports) dominates the real pass with the same inputs and a fresh generator state; the injector-level print primitive writes nothing iff discard",
		func(c *Ctx, r *R) {
			modelCheck(c, r, "injectorGen.p")
			t := traceOf(c, r, "gen.inject")
			if t == nil {
				return
			}
			re := regexp.MustCompile(`«CALL injectPass\((.*?),&wire\.injectorGen\{g:recv,errVar:(.*?),discard:(true|false)\}\)»`)
			ms := re.FindAllStringSubmatch(t.text, -1)
			if len(ms) != 2 {
				r.Bad("passes", t.fi.Decl.Pos(), "expected two injectPass calls with fresh injectorGen literals, found %d", len(ms))
				return
			}
			r.Check(ms[0][3] == "true" && ms[1][3] == "false", "passes/order", t.fi.Decl.Pos(), "the discarding pass runs first, the emitting pass second")
			r.Check(ms[0][1] == ms[1][1], "passes/same-inputs", t.fi.Decl.Pos(), "both passes receive the same name, signature, calls, set and doc")
			r.Check(ms[0][2] == ms[1][2] && ms[0][2] == `disambiguate("err",recv.nameInFileScope)`, "passes/same-errVar", t.fi.Decl.Pos(), "both passes compute the error variable identically (file-scope disambiguation of err)")
			// both run unconditionally once the error checks have passed: their only context is the
			// no-error side of tests on funcOutput / solve / the per-call checks
			top := 0
			walkTrace(t.nodes, nil, func(n emNode, ctx []string) {
				ef, ok := n.(*emEff)
				if !ok || !strings.HasPrefix(ef.desc, "CALL injectPass(") {
					return
				}
				okCtx := true
				for _, cx := range ctx {
					// the no-error side of `err != nil` / `len(errs) > 0`, in either orientation
					errTest := strings.Contains(cx, "funcOutput(") || strings.Contains(cx, "solve(") || strings.Contains(cx, "checkCalls(")
					noErrSide := (strings.HasPrefix(cx, "ALT-[") && !strings.Contains(cx, "==nil)]")) || (strings.HasPrefix(cx, "ALT+[") && strings.Contains(cx, "==nil)]"))
					if !(errTest && noErrSide) {
						okCtx = false
					}
				}
				if okCtx {
					top++
				}
			})
			r.Check(top == 2, "passes/unconditional", t.fi.Decl.Pos(), "both passes run unconditionally once the checks have passed")
			// writeAST / other direct writers inside the passes honour discard: body emitters use only ig.p
			for _, name := range bodyEmitters {
				fi := c.Fn(c.W, name)
				if fi == nil {
					continue
				}
				direct := 0
				for _, cl := range fi.callsDeep(fi.Decl.Body) {
					n := fi.calleeName(cl)
					if n == pathW+".gen.p" || n == pathW+".gen.writeAST" || n == "fmt.Fprintf" || strings.HasPrefix(n, "bytes.Buffer.Write") {
						direct++
					}
				}
				r.Check(direct == 0, name+"/writes-through-ig.p", fi.Decl.Pos(), "the pass emitters write only through the discard-aware primitive")
			}
		})

	register("C01.R6", "model of the file framing: generated-code comment, go:generate line, the !wireinject constraint before the package clause, the package's own name, sorted import blocks before the body",
		func(c *Ctx, r *R) {
			modelCheck(c, r, "gen.frame")
		})

	register("C01.R2", "qualifier discipline: every type or zero value printed into generated code is rendered with the generator's import qualifier (qualifyPkg), every package-level object name through qualifiedID; unqualified TypeString is used only for diagnostics",
		func(c *Ctx, r *R) {
			qualified, bare := 0, 0
			for _, fi := range c.all {
				if fi.Pkg != c.W {
					continue
				}
				for _, cl := range fi.callsDeep(fi.Decl.Body) {
					n := fi.calleeName(cl)
					if n != fnTypeString && n != pathW+".zeroValue" {
						continue
					}
					q := cl.Args[1]
					isNil := fi.isNilIdent(q)
					// does the result reach an emit primitive?
					reaches := false
					for p := fi.parent[ast.Node(cl)]; p != nil; p = fi.parent[p] {
						if pc, ok := p.(*ast.CallExpr); ok && (emitPrims[fi.calleeName(pc)] || (fi.calleeName(pc) == "fmt.Fprintf" && isNamed(derefType(fi.Info.TypeOf(pc.Args[0])), "bytes", "Buffer"))) {
							reaches = true
						}
						if _, ok := p.(ast.Stmt); ok {
							if as, ok := p.(*ast.AssignStmt); ok && len(as.Lhs) == 1 {
								if v := fi.varOf(as.Lhs[0]); v != nil {
									for _, u := range fi.usesOf(v) {
										for q2 := fi.parent[ast.Node(u)]; q2 != nil; q2 = fi.parent[q2] {
											if pc, ok := q2.(*ast.CallExpr); ok && emitPrims[fi.calleeName(pc)] {
												reaches = true
											}
										}
									}
								}
							}
							break
						}
					}
					if fi.Name == "zeroValue" {
						// inside zeroValue the qualifier parameter must be forwarded
						v := fi.varOf(q)
						qualified++
						r.Check(v != nil && fi.isParam(v), "zeroValue/forwards-qualifier", cl.Pos(), "composite zero values are printed with the caller's qualifier")
						continue
					}
					if !reaches {
						if isNil {
							bare++
						}
						continue
					}
					qualified++
					r.Need(fi, fi.Name)
					sel, _ := ast.Unparen(q).(*ast.SelectorExpr)
					okQ := sel != nil && sel.Sel.Name == "qualifyPkg" && isNamed(derefType(fi.Info.TypeOf(sel.X)), pathW, "gen")
					r.Check(okQ, fi.Name+"/"+n[strings.LastIndex(n, ".")+1:]+"#"+itoa(qualified), cl.Pos(), "printed into generated code with the generator's qualifyPkg")
				}
			}
			r.Floor("type/zero-value printers reaching generated code", qualified, 5)
			r.Control("unqualified TypeString detector (diagnostics)", bare >= 15, 0)
			// qualifyPkg forwards to qualifyImport(pkg.Name(), pkg.Path()); qualifiedID prefixes through qualifyImport
			if qp := r.Need(c.Fn(c.W, "gen.qualifyPkg"), "gen.qualifyPkg"); qp != nil {
				s := ""
				for _, ret := range qp.returnsOf() {
					s = newEmitter(c, qp).sym(ret.Results[0])
				}
				r.Check(s == "recv.qualifyImport($0.Name(),$0.Path())", "qualifyPkg/definition", qp.Decl.Pos(), "qualifyPkg(pkg) = qualifyImport(pkg.Name(), pkg.Path()) (%s)", s)
			}
			if qi := r.Need(c.Fn(c.W, "gen.qualifiedID"), "gen.qualifiedID"); qi != nil {
				e := newEmitter(c, qi)
				var rs []string
				for _, ret := range qi.returnsOf() {
					rs = append(rs, e.sym(ret.Results[0]))
				}
				sort.Strings(rs)
				okD := len(rs) == 2 && rs[0] == "$2" && rs[1] == `((recv.qualifyImport($0,$1)+".")+$2)`
				r.Check(okD, "qualifiedID/definition", qi.Decl.Pos(), "qualifiedID = sym when the import qualifier is empty, else qualifier.sym (%v)", rs)
			}
		})
}

var _ = types.Universe

// spineToks returns the tokens emitted unconditionally once the early-exit
// guards have passed: top-level tokens, descending into the non-exit arm of
// an ALT whose other arm is empty because it was an early return.
func spineToks(ns []emNode) []string {
	var out []string
	for _, n := range ns {
		switch x := n.(type) {
		case *emTok:
			out = append(out, x.toks...)
		case *emAlt:
			if len(x.then) == 0 && strings.Contains(x.cond, "Len()==0") {
				out = append(out, spineToks(x.els)...)
			}
		}
	}
	return out
}
