package main

import (
	"fmt"
	"go/ast"
	"go/parser"
	"go/token"
	"go/types"
	"sort"

	"golang.org/x/tools/go/ast/astutil"
	"golang.org/x/tools/go/packages"
)

// Inlining pre-pass. A condition (or any expression) moved into a new
// one-line function — `func isX(a, b T) bool { return a == nil || b.f }` — is
// the same program; the rules must see what the caller tests. A function that
// the pinned tree does not know, is unexported, has no receiver, is never used
// as a value, is not recursive, and whose body is a single `return expr` with
// one result is therefore substituted at every call site whose arguments are
// side-effect free (identifiers, field selections, literals), when every name
// the expression mentions means the same thing at the call site. When all its
// call sites were replaced the declaration is dropped.
func inlineTrivial(pkgs map[string]*packages.Package) ([]string, error) {
	known := map[string]bool{}
	for _, a := range anchorSigs {
		known[a[0]+"::"+a[1]] = true
	}
	var notes []string
	for _, path := range []string{pathRoot, pathW, pathCmd} {
		p := pkgs[path]
		if p == nil {
			continue
		}
		info := p.TypesInfo
		type cand struct {
			decl   *ast.FuncDecl
			file   *ast.File
			obj    *types.Func
			expr   ast.Expr
			params []*types.Var
		}
		var cands []*cand
		byObj := map[types.Object]*cand{}
		for _, f := range p.Syntax {
			for _, d := range f.Decls {
				fd, ok := d.(*ast.FuncDecl)
				if !ok || fd.Recv != nil || fd.Body == nil || fd.Type.TypeParams != nil || len(fd.Body.List) != 1 {
					continue
				}
				obj, _ := info.Defs[fd.Name].(*types.Func)
				if obj == nil || obj.Exported() || known[path+"::"+obj.Name()] || obj.Name() == "main" || obj.Name() == "init" {
					continue
				}
				sig := obj.Type().(*types.Signature)
				if sig.Results().Len() != 1 || sig.Variadic() {
					continue
				}
				rt, ok := fd.Body.List[0].(*ast.ReturnStmt)
				if !ok || len(rt.Results) != 1 {
					continue
				}
				hasLit := false
				ast.Inspect(rt.Results[0], func(n ast.Node) bool {
					if _, ok := n.(*ast.FuncLit); ok {
						hasLit = true
					}
					return true
				})
				if hasLit {
					continue
				}
				if et := info.TypeOf(rt.Results[0]); et == nil || !types.Identical(types.Default(et), sig.Results().At(0).Type()) {
					continue // the return converts
				}
				cd := &cand{decl: fd, file: f, obj: obj, expr: rt.Results[0]}
				for i := 0; i < sig.Params().Len(); i++ {
					cd.params = append(cd.params, sig.Params().At(i))
				}
				cands = append(cands, cd)
				byObj[obj] = cd
			}
		}
		if len(cands) == 0 {
			continue
		}
		// uses of each candidate: call sites and others
		type site struct {
			call *ast.CallExpr
			pos  token.Pos
		}
		sites := map[*cand][]site{}
		blocked := map[*cand]bool{}
		for _, f := range p.Syntax {
			var stack []ast.Node
			ast.Inspect(f, func(n ast.Node) bool {
				if n == nil {
					stack = stack[:len(stack)-1]
					return true
				}
				stack = append(stack, n)
				id, ok := n.(*ast.Ident)
				if !ok {
					return true
				}
				cd := byObj[info.Uses[id]]
				if cd == nil {
					return true
				}
				k := len(stack) - 2
				var fun ast.Node = id
				for k >= 0 {
					if pe, ok := stack[k].(*ast.ParenExpr); ok {
						fun = pe
						k--
						continue
					}
					break
				}
				call, ok := stack[k].(*ast.CallExpr)
				if !ok || call.Fun != fun {
					blocked[cd] = true // used as a value
					return true
				}
				for _, anc := range stack {
					if anc == ast.Node(cd.decl) {
						blocked[cd] = true // recursive
					}
				}
				sites[cd] = append(sites[cd], site{call, call.Pos()})
				return true
			})
		}
		changed := false
		for _, cd := range cands {
			if blocked[cd] || len(sites[cd]) == 0 {
				continue
			}
			// free names of the expression and what they mean
			free := map[string]types.Object{}
			paramObj := map[types.Object]int{}
			for i, v := range cd.params {
				paramObj[v] = i
			}
			ok := true
			skipSel := map[*ast.Ident]bool{}
			ast.Inspect(cd.expr, func(n ast.Node) bool {
				switch x := n.(type) {
				case *ast.SelectorExpr:
					skipSel[x.Sel] = true // the selected name is not looked up in scope
				case *ast.KeyValueExpr:
					ok = false // keyed literals: field names and variables look alike; keep it simple
				case *ast.Ident:
					if skipSel[x] {
						return true
					}
					o := info.Uses[x]
					if o == nil {
						if info.Defs[x] != nil {
							ok = false
						}
						return true
					}
					if _, isP := paramObj[o]; !isP {
						free[x.Name] = o
					}
				}
				return true
			})
			if !ok {
				continue
			}
			done := 0
			for _, st := range sites[cd] {
				if len(st.call.Args) != len(cd.params) || st.call.Ellipsis.IsValid() {
					continue
				}
				pure := true
				for i, a := range st.call.Args {
					// no implicit conversion may happen at the call (a pointer passed as an interface compares differently with nil)
					if at := info.TypeOf(a); !pureArg(a) || at == nil || !types.Identical(at, cd.params[i].Type()) {
						pure = false
					}
				}
				if !pure {
					continue
				}
				inner := p.Types.Scope().Innermost(st.pos)
				same := inner != nil
				for name, o := range free {
					if !same {
						break
					}
					_, got := inner.LookupParent(name, st.pos)
					switch w := o.(type) {
					case *types.PkgName:
						g, isPkg := got.(*types.PkgName)
						if !isPkg || g.Imported() != w.Imported() {
							same = false
						}
					default:
						if got != o {
							same = false
						}
					}
				}
				if !same {
					continue
				}
				// copy of the expression with the arguments in place of the parameters
				cp, err := parser.ParseExprFrom(token.NewFileSet(), "", exprText(cd.expr), 0)
				if err != nil {
					continue
				}
				setPositions(cp, st.pos) // the copy lives at the call site (scope lookups by position must find the caller's scope)
				names := map[string]ast.Expr{}
				for i, v := range cd.params {
					names[v.Name()] = st.call.Args[i]
				}
				skip := map[*ast.Ident]bool{}
				ast.Inspect(cp, func(n ast.Node) bool {
					if se, ok := n.(*ast.SelectorExpr); ok {
						skip[se.Sel] = true
					}
					return true
				})
				var res ast.Node = astutil.Apply(&ast.ParenExpr{X: cp}, func(c *astutil.Cursor) bool {
					if x, ok := c.Node().(*ast.Ident); ok && !skip[x] {
						if a, ok := names[x.Name]; ok {
							c.Replace(a)
						}
					}
					return true
				}, nil)
				replaceCall(p, st.call, res.(*ast.ParenExpr))
				done++
			}
			if done == 0 {
				continue
			}
			changed = true
			if done == len(sites[cd]) {
				var keep []ast.Decl
				for _, d := range cd.file.Decls {
					if d != ast.Decl(cd.decl) {
						keep = append(keep, d)
					}
				}
				cd.file.Decls = keep
			}
			notes = append(notes, fmt.Sprintf("one-line function %s (not in the pinned tree) substituted at %d of %d call sites", cd.obj.Name(), done, len(sites[cd])))
		}
		_ = changed
	}
	if len(notes) == 0 {
		return nil, nil
	}
	if err := recheck(pkgs); err != nil {
		return nil, err
	}
	sort.Strings(notes)
	return notes, nil
}

func pureArg(e ast.Expr) bool {
	switch x := e.(type) {
	case *ast.Ident, *ast.BasicLit:
		return true
	case *ast.SelectorExpr:
		return pureArg(x.X)
	case *ast.ParenExpr:
		return pureArg(x.X)
	case *ast.StarExpr:
		return pureArg(x.X)
	}
	return false
}

// replaceCall substitutes the expression for the (marked) call wherever it
// hangs in the package's syntax.
func replaceCall(p *packages.Package, call *ast.CallExpr, with ast.Expr) {
	for _, f := range p.Syntax {
		found := false
		astutil.Apply(f, func(c *astutil.Cursor) bool {
			if found {
				return false
			}
			if c.Node() == ast.Node(call) {
				c.Replace(with)
				found = true
				return false
			}
			return true
		}, nil)
		if found {
			return
		}
	}
}

// readOnlyIn: the variable is never assigned, incremented or has its address taken in the body.
func readOnlyIn(body ast.Node, v types.Object, info *types.Info) bool {
	ro := true
	is := func(e ast.Expr) bool {
		id, ok := ast.Unparen(e).(*ast.Ident)
		return ok && (info.Uses[id] == v || info.Defs[id] == v)
	}
	ast.Inspect(body, func(n ast.Node) bool {
		switch x := n.(type) {
		case *ast.AssignStmt:
			for _, l := range x.Lhs {
				if is(l) {
					ro = false
				}
			}
		case *ast.IncDecStmt:
			if is(x.X) {
				ro = false
			}
		case *ast.UnaryExpr:
			if x.Op == token.AND && is(x.X) {
				ro = false
			}
		case *ast.RangeStmt:
			if x.Key != nil && is(x.Key) || x.Value != nil && is(x.Value) {
				ro = false
			}
		}
		return true
	})
	return ro
}

// declaresName: something inside the body is declared with this name.
func declaresName(body ast.Node, name string, info *types.Info) bool {
	found := false
	ast.Inspect(body, func(n ast.Node) bool {
		if id, ok := n.(*ast.Ident); ok && id.Name == name && info.Defs[id] != nil {
			found = true
		}
		return true
	})
	// the implicit variables of type switch clauses
	for nd, o := range info.Implicits {
		if o.Name() == name && nd.Pos() >= body.Pos() && nd.End() <= body.End() {
			found = true
		}
	}
	return found
}
