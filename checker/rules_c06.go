package main

import (
	"go/ast"
	"go/token"
	"go/types"
	"strings"
)

// solveAnchors locates the role-bearing variables of solve by type and use.
type solveAnchors struct {
	fi       *FuncInfo
	index    *types.Var // local *typeutil.Map
	calls    *types.Var // local []call
	used     *types.Var // local []*providerSetSrc
	errAbort *types.Var
	ec       *types.Var
	loop     *ast.ForStmt // the dfs loop
	setParam *types.Var
}

func findSolve(c *Ctx, r *R) *solveAnchors {
	fi := r.Need(c.Fn(c.W, "solve"), "solve")
	if fi == nil {
		return nil
	}
	a := &solveAnchors{fi: fi}
	if m := fi.localVarsOfType("golang.org/x/tools/go/types/typeutil", "Map"); len(m) == 1 {
		a.index = m[0]
	}
	if e := fi.collectorVars(); len(e) == 1 {
		a.ec = e[0]
	}
	fi.inspect(fi.Decl.Body, func(n ast.Node) bool {
		id, ok := n.(*ast.Ident)
		if !ok {
			return true
		}
		v, ok := fi.Info.Defs[id].(*types.Var)
		if !ok {
			return true
		}
		if s, ok := v.Type().(*types.Slice); ok {
			if isNamed(s.Elem(), pathW, "call") && a.calls == nil {
				a.calls = v
			}
			if isNamed(derefType(s.Elem()), pathW, "providerSetSrc") && a.used == nil {
				a.used = v
			}
		}
		if isErrorType(v.Type()) {
			if d := fi.singleDef(v); d != nil && fi.isCall(d.rhs, "errors.New") != nil && a.errAbort == nil {
				a.errAbort = v
			}
		}
		return true
	})
	for _, f := range fi.Decl.Type.Params.List {
		for _, nm := range f.Names {
			v := fi.Info.Defs[nm].(*types.Var)
			if isNamed(derefType(v.Type()), pathW, "ProviderSet") {
				a.setParam = v
			}
		}
	}
	// the dfs loop: the for statement whose body contains the appends to calls
	fi.inspect(fi.Decl.Body, func(n ast.Node) bool {
		if f, ok := n.(*ast.ForStmt); ok && a.loop == nil {
			for _, call := range callsIn(f.Body) {
				if fi.isBuiltin(call, "append") != nil && len(call.Args) > 0 && a.calls != nil && fi.varOf(call.Args[0]) == a.calls {
					a.loop = f
				}
			}
		}
		return true
	})
	if a.index == nil || a.calls == nil || a.used == nil || a.errAbort == nil || a.ec == nil || a.loop == nil || a.setParam == nil {
		r.Bad("anchor:solve-roles", fi.Decl.Pos(), "cannot identify index/calls/used/errAbort/collector/dfs loop/set in solve")
		return nil
	}
	return a
}

// callsAppends returns the `calls = append(calls, …)` assignment statements.
func (a *solveAnchors) appendsTo(v *types.Var) []*ast.AssignStmt {
	var out []*ast.AssignStmt
	a.fi.inspect(a.fi.Decl.Body, func(n ast.Node) bool {
		as, ok := n.(*ast.AssignStmt)
		if !ok || len(as.Lhs) != 1 || len(as.Rhs) != 1 || a.fi.varOf(as.Lhs[0]) != v {
			return true
		}
		if ap := a.fi.isBuiltin(as.Rhs[0], "append"); ap != nil && len(ap.Args) >= 1 && a.fi.varOf(ap.Args[0]) == v {
			out = append(out, as)
		}
		return true
	})
	return out
}

// isIndexSet matches index.Set(K, V).
func (a *solveAnchors) indexSets() []*ast.CallExpr {
	var out []*ast.CallExpr
	for _, s := range a.fi.callsTo(fnMapSet) {
		if a.fi.varOf(recvOf(s)) == a.index {
			out = append(out, s)
		}
	}
	return out
}

// currT reports whether e is the `.t` field of the dfs loop's current frame.
func (a *solveAnchors) isCurrT(e ast.Expr) bool {
	sel, ok := ast.Unparen(e).(*ast.SelectorExpr)
	if !ok || sel.Sel.Name != "t" {
		return false
	}
	v := a.fi.varOf(sel.X)
	if v == nil {
		return false
	}
	// the frame popped at the top of the loop
	for _, d := range a.fi.defs[v] {
		if d.kind == "define" && a.fi.within(d.node, a.loop.Body) {
			return true
		}
	}
	return false
}

func init() {
	register("C06.R1", "in solve, the no-provider side adds an error, marks the type aborted and leaves the iteration without planning a step",
		func(c *Ctx, r *R) {
			a := findSolve(c, r)
			if a == nil {
				return
			}
			fi := a.fi
			n := 0
			ast.Inspect(a.loop.Body, func(nd ast.Node) bool {
				is, ok := nd.(*ast.IfStmt)
				if !ok {
					return true
				}
				call := fi.isCall(is.Cond, pathW+".ProvidedType.IsNil")
				if call == nil {
					return true
				}
				// the ProvidedType tested must be set.For(curr.t)
				forCall := fi.isCall(fi.deref(recvOf(call)), pathW+".ProviderSet.For")
				if forCall == nil || fi.varOf(recvOf(forCall)) != a.setParam || !a.isCurrT(forCall.Args[0]) {
					r.Bad("missing-branch/subject", is.Pos(), "IsNil is not applied to set.For(curr.t)")
					return true
				}
				n++
				if !terminates(is.Body) {
					r.Bad("missing-branch/terminates", is.Pos(), "the no-provider branch falls through into planning")
				}
				for _, as := range a.appendsTo(a.calls) {
					if fi.within(as, is.Body) {
						r.Bad("missing-branch/no-step", as.Pos(), "a step is planned on the no-provider side")
					}
				}
				// every exit of the branch is preceded by ec.add(non-nil) and index.Set(curr.t, errAbort)
				exits := 0
				ast.Inspect(is.Body, func(m ast.Node) bool {
					br, ok := m.(*ast.BranchStmt)
					if !ok {
						if _, isRet := m.(*ast.ReturnStmt); isRet {
							r.Bad("missing-branch/return", m.Pos(), "unexpected return on the no-provider side")
						}
						return true
					}
					if br.Tok != token.CONTINUE {
						r.Bad("missing-branch/exit#"+itoa(exits), br.Pos(), "exit other than continue")
						exits++
						return true
					}
					pre := fi.precedingSimple(br, is.Body)
					hasAdd, hasMark := false, false
					for _, s := range pre {
						es, ok := s.(*ast.ExprStmt)
						if !ok {
							continue
						}
						if ad := fi.isCall(es.X, fnECAdd); ad != nil && fi.varOf(recvOf(ad)) == a.ec && len(ad.Args) == 1 {
							// every possible value of the argument is a freshly constructed error
							srcs := fi.valueSources(ad.Args[0])
							fresh := len(srcs) > 0
							for _, sx := range srcs {
								if sx.fi.isCall(sx.expr, "fmt.Errorf", "errors.New") == nil {
									fresh = false
								}
							}
							// a variable declared without value must be assigned on both arms of an if/else before the add
							if v := fi.varOf(ad.Args[0]); v != nil && fresh {
								for _, d := range fi.defs[v] {
									if d.kind == "zero" {
										arms := 0
										var gate *ast.IfStmt
										for _, d2 := range fi.defs[v] {
											if d2.kind != "assign" {
												continue
											}
											blk, _ := fi.parent[d2.node].(*ast.BlockStmt)
											is, _ := fi.parent[blk].(*ast.IfStmt)
											if is != nil && (gate == nil || gate == is) && is.Else != nil {
												gate = is
												arms++
											}
										}
										if gate == nil || arms != 2 || endOf(gate) > startOf(es) {
											fresh = false
										}
									}
								}
							}
							if fresh {
								hasAdd = true
							}
						}
						if st := fi.isCall(es.X, fnMapSet); st != nil && fi.varOf(recvOf(st)) == a.index && a.isCurrT(st.Args[0]) && fi.varOf(st.Args[1]) == a.errAbort {
							hasMark = true
						}
					}
					k := "missing-branch/exit#" + itoa(exits)
					exits++
					r.Check(hasAdd && hasMark, k, br.Pos(), "exit is preceded by ec.add(fresh error) [%v] and index.Set(curr.t, errAbort) [%v]", hasAdd, hasMark)
					return true
				})
				r.Floor("exits of the no-provider branch", exits, 1)
				return true
			})
			r.Floor("IsNil test on set.For(curr.t) in the dfs loop", n, 1)
			// the error messages name the missing type: TypeString(curr.t, …) flows into each added error
			// (diagnostic content is behavioural; checked only as presence of curr.t in the format args)
		})

	register("C06.R2", "abort propagates: every index.At(x).(int) in solve is dominated by the false edge of `== errAbort` on the same value, whose true edge marks curr.t aborted and leaves",
		func(c *Ctx, r *R) {
			a := findSolve(c, r)
			if a == nil {
				return
			}
			fi := a.fi
			n := 0
			fi.inspect(fi.Decl.Body, func(nd ast.Node) bool {
				ta, ok := nd.(*ast.TypeAssertExpr)
				if !ok || ta.Type == nil {
					return true
				}
				bt, ok := fi.Info.TypeOf(ta.Type).(*types.Basic)
				if !ok || bt.Kind() != types.Int {
					return true
				}
				at := fi.isCall(fi.deref(ta.X), fnMapAt)
				if at == nil || fi.varOf(recvOf(at)) != a.index {
					return true
				}
				n++
				k := "assert-int(" + exprShort(at.Args[0]) + ")"
				ok2 := false
				for _, g := range fi.Guards(ta) {
					be, isBin := ast.Unparen(g.Expr).(*ast.BinaryExpr)
					if g.Kind != "bool" || !isBin {
						continue
					}
					eq := be.Op == token.EQL
					if g.Neg {
						eq = !eq
					}
					if be.Op != token.EQL && be.Op != token.NEQ {
						continue
					}
					var other ast.Expr
					if fi.varOf(be.Y) == a.errAbort {
						other = be.X
					} else if fi.varOf(be.X) == a.errAbort {
						other = be.Y
					} else {
						continue
					}
					if eq || !fi.sameExpr(other, ta.X) {
						continue
					}
					// the abort edge marks and leaves
					is, _ := g.At.(*ast.IfStmt)
					if is == nil || !terminates(is.Body) {
						continue
					}
					marked := false
					for _, s := range is.Body.List {
						if es, ok := s.(*ast.ExprStmt); ok {
							if st := fi.isCall(es.X, fnMapSet); st != nil && fi.varOf(recvOf(st)) == a.index && a.isCurrT(st.Args[0]) && fi.varOf(st.Args[1]) == a.errAbort {
								marked = true
							}
						}
					}
					if marked {
						ok2 = true
					}
				}
				r.Check(ok2, k, ta.Pos(), "dominated by `!= errAbort` of the same lookup; the abort edge sets index[curr.t]=errAbort and leaves the iteration")
				return true
			})
			r.Floor("index.At(·).(int) assertions", n, 2)
			// binding alias forwards the looked-up value (so an abort marker is forwarded too)
			fw := 0
			for _, st := range a.indexSets() {
				if !a.isCurrT(st.Args[0]) {
					continue
				}
				v := fi.deref(st.Args[1])
				if at := fi.isCall(v, fnMapAt); at != nil && fi.varOf(recvOf(at)) == a.index {
					fw++
					r.Ok("alias-forwards", st.Pos(), "index.Set(curr.t, index.At(%s)) forwards the concrete entry (including an abort marker)", exprShort(at.Args[0]))
				}
			}
			r.Floor("alias forwarding Set", fw, 1)
		})

	register("C06.R3", "every function owning an errorCollector consults it: a return that does not return ec.errors is dominated by len(ec.errors)==0 with no later add",
		func(c *Ctx, r *R) {
			owners := 0
			for _, fi := range c.all {
				ecs := fi.collectorVars()
				if len(ecs) == 0 {
					continue
				}
				owners++
				r.Need(fi, fi.Name)
				for _, ec := range ecs {
					var adds []*ast.CallExpr
					for _, call := range fi.callsTo(fnECAdd) {
						if fi.varOf(recvOf(call)) == ec {
							adds = append(adds, call)
						}
					}
					isEcErrors := func(e ast.Expr) bool {
						b, ok := fi.fieldSel(e, pathW, "errorCollector", "errors")
						return ok && fi.varOf(b) == ec
					}
					for i, ret := range fi.returnsOf() {
						k := fi.Name + "/return#" + itoa(i)
						returnsIt := false
						for _, res := range ret.Results {
							if isEcErrors(res) {
								returnsIt = true
							}
						}
						if returnsIt {
							r.Ok(k, ret.Pos(), "returns the collector's errors")
							continue
						}
						// returns positioned before the collector exists or before any add can have run
						defPos := 0
						for _, d := range fi.defs[ec] {
							defPos = startOf(d.node)
						}
						if startOf(ret) < defPos {
							r.Ok(k, ret.Pos(), "return precedes the collector")
							continue
						}
						var guardAt ast.Node
						for _, g := range fi.Guards(ret) {
							if x, ne, ok := fi.lenTest(g); ok && !ne && isEcErrors(x) {
								guardAt = g.At
							}
						}
						if guardAt == nil {
							// allowed when no add can precede it
							early := true
							for _, ad := range adds {
								if startOf(ad) < startOf(ret) {
									early = false
								}
								if l := fi.enclosingLoop(ret); l != nil && fi.within(ad, l) {
									early = false
								}
							}
							if early {
								r.Ok(k, ret.Pos(), "no error can have been added before this return")
							} else {
								r.Bad(k, ret.Pos(), "return does not return %s.errors and is not dominated by len(%s.errors)==0", ec.Name(), ec.Name())
							}
							continue
						}
						late := false
						for _, ad := range adds {
							if startOf(ad) >= endOf(guardAt) && startOf(ad) < startOf(ret) {
								late = true
							}
							if l := fi.enclosingLoop(ret); l != nil && fi.within(ad, l) && fi.within(guardAt, l) && startOf(ad) > startOf(ret) {
								late = true
							}
						}
						r.Check(!late, k, ret.Pos(), "dominated by len(%s.errors)==0 at %s with no add in between", ec.Name(), c.Pos(guardAt.Pos()))
					}
				}
			}
			r.Floor("functions owning an errorCollector", owners, 7)
		})

	register("C06.R4", "no error result is dropped: every call returning error/[]error has the result bound and then tested, returned, collected, stored or logged; Content is stored only after generateInjectors' errors were tested",
		func(c *Ctx, r *R) {
			infallible := map[string]bool{
				"fmt.Fprintf": true, "fmt.Fprint": true, "fmt.Fprintln": true, "fmt.Printf": true, "fmt.Println": true, "fmt.Print": true,
				"bytes.Buffer.WriteString": true, "bytes.Buffer.Write": true, "bytes.Buffer.WriteByte": true, "bytes.Buffer.WriteRune": true,
				"strings.Builder.WriteString": true, "strings.Builder.WriteRune": true, "strings.Builder.Write": true, "strings.Builder.WriteByte": true,
			}
			exceptions := map[string]string{
				"copyNonInjectorDecls/" + pathW + ".findInjectorBuild":  "files were already filtered by generateInjectors; an error here means 'not an injector' and the declaration is copied",
				"diffCmd.Execute/io/ioutil.ReadFile":                    "documented: an unreadable current file is treated as empty",
				"diffCmd.Execute/os.ReadFile":                           "documented: an unreadable current file is treated as empty",
				"main/github.com/google/subcommands.Execute":            "not an error result",
				"genCmd.Execute/" + pathW + ".GenerateResult.Commit":    "",
				"objectCache.get/" + pathW + ".objectCache.processExpr": "",
			}
			_ = exceptions["x"]
			sites, ctrl := 0, false
			for _, fi := range c.all {
				counts := map[string]int{}
				for _, call := range fi.callsDeep(fi.Decl.Body) {
					f := fi.callee(call)
					if f == nil {
						continue
					}
					sig := f.Type().(*types.Signature)
					errIdx := -1
					for i := 0; i < sig.Results().Len(); i++ {
						t := sig.Results().At(i).Type()
						if isErrorType(t) || isErrorSlice(t) {
							errIdx = i
						}
					}
					if errIdx < 0 {
						continue
					}
					name := qualFuncName(f)
					short := strings.TrimPrefix(name, "golang.org/x/tools/go/")
					_ = short
					if name == "fmt.Errorf" || name == "errors.New" || name == fnNotePos || name == fnNotePosAll || name == fnMapErrors || name == pathW+".bindingConflictError" {
						// pure constructors of error values: nothing failed yet
						continue
					}
					if infallible[strings.TrimPrefix(name, "")] || infallible[f.Pkg().Name()+"."+funcName(f)] {
						ctrl = true
						continue
					}
					sites++
					r.Need(fi, fi.Name)
					base := fi.Name + "/" + name
					counts[base]++
					k := base
					if counts[base] > 1 {
						k = base + "#" + itoa(counts[base])
					}
					exKey := fi.Name + "/" + name
					verdict, why := fi.errorHandled(call, errIdx, sig.Results().Len())
					if !verdict {
						if reason, ok := exceptions[exKey]; ok && reason != "" {
							r.Ok(k, call.Pos(), "named exception: %s", reason)
							continue
						}
						r.Bad(k, call.Pos(), "error result of %s is dropped: %s", name, why)
						continue
					}
					r.Ok(k, call.Pos(), "%s", why)
				}
			}
			r.Floor("calls returning error", sites, 40)
			r.Control("infallible-writer allowlist matched (fmt.Fprintf to a builder)", ctrl, 0)

			// Generate: Content is stored only after the generateInjectors errors were tested empty
			gen := r.Need(c.Fn(c.W, "Generate"), "Generate")
			if gen != nil {
				n := 0
				gen.inspect(gen.Decl.Body, func(nd ast.Node) bool {
					as, ok := nd.(*ast.AssignStmt)
					if !ok {
						return true
					}
					for _, l := range as.Lhs {
						if f := gen.selField(l); f != nil && f.Name() == "Content" {
							n++
							okG := false
							for _, g := range gen.Guards(as) {
								if x, ne, ok := gen.lenTest(g); ok && !ne {
									if d := gen.defOf(x); d != nil && gen.isCall(d.rhs, pathW+".generateInjectors") != nil {
										okG = true
									}
								}
							}
							r.Check(okG, "Generate/Content-store", as.Pos(), "Content is assigned only on the empty-errors edge of generateInjectors' result")
						}
					}
					return true
				})
				r.Floor("stores to GenerateResult.Content", n, 1)
			}
		})

	register("C06.R5", "exact type lookup: the planner and map builder never test assignability/implementation and never derive a lookup key via Underlying/Elem/NewPointer",
		func(c *Ctx, r *R) {
			forbidden := map[string]bool{
				"go/types.AssignableTo": true, "go/types.ConvertibleTo": true, "go/types.Implements": true, "go/types.Satisfies": true,
				"go/types.NewPointer": true, "go/types.Type.Underlying": true, "go/types.Pointer.Elem": true, "go/types.Named.Underlying": true,
				"go/types.Unalias": true, "go/types.Default": true, "go/types.IdenticalIgnoreTags": true, "go/types.AssertableTo": true, "go/types.MissingMethod": true,
			}
			for _, name := range []string{"solve", "buildProviderMap", "ProviderSet.For", "verifyAcyclic", "verifyArgsUsed"} {
				fi := r.Need(c.Fn(c.W, name), name)
				if fi == nil {
					continue
				}
				bad := 0
				for _, call := range fi.callsDeep(fi.Decl.Body) {
					if n := fi.calleeName(call); forbidden[n] {
						bad++
						r.Bad(name+"/"+n, call.Pos(), "%s is called in the planner: lookup is no longer by exact type identity", n)
					}
				}
				if bad == 0 {
					r.Ok(name+"/no-forbidden-callee", fi.Decl.Pos(), "no assignability/implements/underlying/elem/pointer derivation")
				}
			}
			// ProviderSet.For looks up exactly its parameter
			if fi := c.Fn(c.W, "ProviderSet.For"); fi != nil {
				n := 0
				for _, at := range fi.callsTo(fnMapAt) {
					n++
					v := fi.varOf(at.Args[0])
					_, okRecv := fi.fieldSel(recvOf(at), pathW, "ProviderSet", "providerMap")
					r.Check(v != nil && fi.isParam(v) && okRecv, "For/key-is-parameter", at.Pos(), "providerMap.At is applied to the requested type itself")
				}
				r.Floor("At in ProviderSet.For", n, 1)
				// the result is the stored value or the zero ProvidedType
				for i, ret := range fi.returnsOf() {
					e := ast.Unparen(ret.Results[0])
					okR := false
					if cl, ok := e.(*ast.CompositeLit); ok && len(cl.Elts) == 0 {
						okR = true
						// zero value only when the lookup failed
						nilSide := false
						for _, g := range fi.Guards(ret) {
							if x, isNil, ok := fi.nilTest(g); ok && isNil && fi.isCall(fi.deref(x), fnMapAt) != nil {
								nilSide = true
							}
						}
						okR = nilSide
					}
					if st, ok := e.(*ast.StarExpr); ok {
						if ta, ok := ast.Unparen(st.X).(*ast.TypeAssertExpr); ok && fi.isCall(fi.deref(ta.X), fnMapAt) != nil {
							okR = true
						}
					}
					r.Check(okR, "For/return#"+itoa(i), ret.Pos(), "returns the stored entry, or the zero value only when the lookup failed")
				}
			}
			// positive control
			if pb := c.Fn(c.W, "processBind"); pb != nil && len(pb.callsTo(fnImplements)) > 0 {
				r.Control("types.Implements detector", true, pb.callsTo(fnImplements)[0].Pos())
			} else {
				r.Control("types.Implements detector", false, 0)
			}
			// every index.At / set.For key in solve is curr.t, a provider input type, a field parent or the bound concrete type
			a := findSolve(c, r)
			if a != nil {
				fi := a.fi
				keys := 0
				check := func(call *ast.CallExpr, what string) {
					keys++
					key := call.Args[0]
					d := fi.deref(key)
					ok := a.isCurrT(key)
					if !ok {
						if f := fi.selField(d); f != nil && (f.Name() == "Type" || f.Name() == "Parent" || f.Name() == "t") {
							ok = true
						}
					}
					if !ok && fi.isCall(d, pathW+".ProvidedType.Type") != nil {
						ok = true
					}
					r.Check(ok, "solve/"+what+"("+exprShort(key)+")#"+itoa(keys), call.Pos(), "lookup key is the requested type, a declared input type, a field parent or the bound concrete type — never a derived type")
				}
				for _, at := range fi.callsTo(fnMapAt) {
					check(at, "At")
				}
				for _, fo := range fi.callsTo(pathW + ".ProviderSet.For") {
					check(fo, "For")
				}
				r.Floor("lookup keys in solve", keys, 8)
			}
		})
}

// errorHandled decides whether the error result (index errIdx of nres) of call
// is consumed.
func (fi *FuncInfo) errorHandled(call *ast.CallExpr, errIdx, nres int) (bool, string) {
	par := fi.parent[call]
	for {
		if p, ok := par.(*ast.ParenExpr); ok {
			par = fi.parent[p]
			continue
		}
		break
	}
	switch p := par.(type) {
	case *ast.ExprStmt:
		// releasing a handle on a path that already reports an earlier error: `f.Close(); return err`
		if n := fi.calleeName(call); n == "os.File.Close" {
			if blk, ok := fi.parent[p].(*ast.BlockStmt); ok {
				for i, st := range blk.List {
					if st != ast.Stmt(p) || i+1 >= len(blk.List) {
						continue
					}
					if ret, ok := blk.List[i+1].(*ast.ReturnStmt); ok && len(ret.Results) > 0 {
						last := ret.Results[len(ret.Results)-1]
						if v := fi.varOf(last); v != nil && isErrorType(v.Type()) && !fi.isNilIdent(last) {
							for _, g := range fi.Guards(p) {
								if be, ok := ast.Unparen(g.Expr).(*ast.BinaryExpr); ok && !g.Neg && be.Op == token.NEQ && fi.varOf(be.X) == v && fi.isNilIdent(be.Y) {
									return true, "closed on a path that returns the earlier error"
								}
							}
						}
					}
				}
			}
		}
		return false, "call used as a statement"
	case *ast.ReturnStmt:
		return true, "returned to the caller"
	case *ast.CallExpr:
		// passed directly to another call (ec.add(f()...), append(x, f()...), notePositionAll(pos, f()))
		n := fi.calleeName(p)
		if n == fnECAdd || n == fnNotePosAll || n == fnMapErrors || n == fnNotePos || fi.isBuiltin(p, "append") != nil || fi.isBuiltin(p, "panic") != nil {
			return true, "passed to " + n
		}
		if nres == 1 {
			return true, "passed as an argument"
		}
		return false, "multi-value call passed on"
	case *ast.AssignStmt:
		var lhs ast.Expr
		if len(p.Rhs) == 1 && len(p.Lhs) == nres {
			lhs = p.Lhs[errIdx]
		} else {
			for i, rr := range p.Rhs {
				if ast.Unparen(rr) == call && i < len(p.Lhs) {
					lhs = p.Lhs[i]
				}
			}
		}
		if lhs == nil {
			return false, "cannot pair the error result with a variable"
		}
		if id, ok := lhs.(*ast.Ident); ok && id.Name == "_" {
			return false, "assigned to _"
		}
		v := fi.varOf(lhs)
		if v == nil {
			// stored into a field / element
			return true, "stored in " + exprShort(lhs)
		}
		// a use after the assignment in a test, return, add, append or log
		for _, u := range fi.usesOf(v) {
			if startOf(u) <= startOf(p) {
				continue
			}
			for q := fi.parent[u]; q != nil; q = fi.parent[q] {
				switch q := q.(type) {
				case *ast.IfStmt:
					if contains(q.Cond, u) {
						// the failing edge must consume the error (return, collect, store or log it)
						var failing ast.Node
						for _, g := range flatten(q.Cond, false, q) {
							if x, isNil, ok := fi.nilTest(g); ok && fi.varOf(x) == v {
								if isNil {
									failing = q.Else
								} else {
									failing = q.Body
								}
							}
							if x, ne, ok := fi.lenTest(g); ok && fi.varOf(x) == v {
								if ne {
									failing = q.Body
								} else {
									failing = q.Else
								}
							}
						}
						if failing == nil {
							// `if err == nil { … }` without else and falling through: the failing edge joins what follows
							if q.Else == nil && !terminates(q.Body) {
								for _, g := range flatten(q.Cond, false, q) {
									if x, isNil, ok := fi.nilTest(g); ok && fi.varOf(x) == v && isNil {
										for _, u2 := range fi.usesOf(v) {
											if startOf(u2) >= endOf(q) {
												return true, "tested; the code after the test uses the error"
											}
										}
									}
								}
							}
							// `if err == nil { …leave }` without else: the failing edge is what follows the if
							for _, g := range flatten(q.Cond, true, q) {
								if x, isNil, ok := fi.nilTest(g); ok && fi.varOf(x) == v && !isNil {
									if terminates(q.Body) {
										for _, u2 := range fi.usesOf(v) {
											if startOf(u2) >= endOf(q) {
												return true, "tested; the code after the success guard uses the error"
											}
										}
									}
									return false, "tested, but the failing edge has no code"
								}
							}
							return true, "tested in a condition"
						}
						for _, u2 := range fi.usesOf(v) {
							if contains(failing, u2) {
								if arm := fi.armDroppingError(failing, v); arm != nil {
									return false, "tested, but one arm of a test of the error's dynamic type neither reports nor returns it"
								}
								return true, "tested; the failing edge uses the error"
							}
						}
						return false, "tested, but the failing edge never uses the error"
					}
				case *ast.SwitchStmt, *ast.TypeSwitchStmt:
					return true, "switched on"
				case *ast.ReturnStmt:
					return true, "returned"
				case *ast.CallExpr:
					n := fi.calleeName(q)
					if n == fnECAdd || fi.isBuiltin(q, "append") != nil || strings.HasPrefix(n, "log.") || n == pathCmd+".logErrors" || n == fnNotePosAll || n == fnMapErrors || n == fnNotePos {
						return true, "consumed by " + n
					}
				case *ast.AssignStmt:
					if q != p {
						return true, "stored"
					}
				}
				if _, isStmt := q.(ast.Stmt); isStmt {
					break
				}
			}
		}
		return false, "bound to " + v.Name() + " but never tested, returned, collected or logged"
	case *ast.CompositeLit, *ast.KeyValueExpr:
		return true, "stored in a composite literal"
	case *ast.ValueSpec:
		return true, "bound in a declaration"
	case *ast.IfStmt:
		return true, "tested"
	}
	return false, "unrecognised use"
}

// armDroppingError: inside the failing edge, an if/else that inspects the error (a type assertion in its init or
// condition) must consume it — the error itself or what the assertion yielded — on both arms.
func (fi *FuncInfo) armDroppingError(failing ast.Node, v *types.Var) ast.Node {
	var bad ast.Node
	ast.Inspect(failing, func(nd ast.Node) bool {
		is, ok := nd.(*ast.IfStmt)
		if !ok || is.Else == nil || bad != nil {
			return true
		}
		mentions := func(n ast.Node, vs map[*types.Var]bool) bool {
			hit := false
			if n == nil {
				return false
			}
			ast.Inspect(n, func(m ast.Node) bool {
				if id, ok := m.(*ast.Ident); ok {
					if x, ok := fi.Info.ObjectOf(id).(*types.Var); ok && vs[x] {
						hit = true
					}
				}
				return true
			})
			return hit
		}
		own := map[*types.Var]bool{v: true}
		inspects := false
		if is.Init != nil && mentions(is.Init, own) {
			if as, ok := is.Init.(*ast.AssignStmt); ok && len(as.Rhs) == 1 {
				if _, isTA := ast.Unparen(as.Rhs[0]).(*ast.TypeAssertExpr); isTA {
					inspects = true
					for _, l := range as.Lhs {
						if x := fi.varOf(l); x != nil && isErrorLike(x.Type()) {
							own[x] = true
						}
					}
				}
			}
		}
		if !inspects {
			return true
		}
		for _, arm := range []ast.Node{is.Body, is.Else} {
			if !mentions(arm, own) {
				bad = arm
			}
		}
		return true
	})
	return bad
}

func isErrorLike(t types.Type) bool {
	if isErrorType(t) {
		return true
	}
	return types.Implements(t, errorIface()) || types.Implements(types.NewPointer(t), errorIface())
}

func errorIface() *types.Interface {
	return types.Universe.Lookup("error").Type().Underlying().(*types.Interface)
}
