package main

import (
	"go/ast"
	"go/token"
	"go/types"
	"strings"

	"golang.org/x/tools/go/packages"
	"golang.org/x/tools/go/types/typeutil"
)

// FuncInfo is a declared function of the module with the per-function
// indexes the rules need: parent links, definition sites of local variables.
type pkgIndex struct {
	parent  map[ast.Node]ast.Node
	defs    map[*types.Var][]defSite
	results map[*types.Var]bool // named results of declared functions
}

type FuncInfo struct {
	C    *Ctx
	Pkg  *packages.Package
	Decl *ast.FuncDecl
	Obj  *types.Func
	Name string
	Info *types.Info

	parent map[ast.Node]ast.Node
	defs   map[*types.Var][]defSite
}

type defSite struct {
	node ast.Node // the statement / spec
	rhs  ast.Expr // defining expression, nil when unknown
	idx  int      // tuple index when rhs is a multi-value call, else -1
	kind string   // define, assign, range-key, range-val, incdec, addr, typeswitch, param
}

func newFuncInfo(c *Ctx, p *packages.Package, fd *ast.FuncDecl, obj *types.Func) *FuncInfo {
	fi := &FuncInfo{C: c, Pkg: p, Decl: fd, Obj: obj, Name: funcName(obj), Info: p.TypesInfo,
		parent: c.idx[p].parent, defs: c.idx[p].defs}
	var stack []ast.Node
	ast.Inspect(fd, func(n ast.Node) bool {
		if n == nil {
			stack = stack[:len(stack)-1]
			return true
		}
		if len(stack) > 0 {
			fi.parent[n] = stack[len(stack)-1]
		}
		stack = append(stack, n)
		fi.recordDefs(n)
		return true
	})
	if fd.Type.Results != nil {
		for _, f := range fd.Type.Results.List {
			for _, nm := range f.Names {
				if v, ok := fi.Info.Defs[nm].(*types.Var); ok {
					c.idx[p].results[v] = true
				}
			}
		}
	}
	return fi
}

func (fi *FuncInfo) Key() string { return fi.Pkg.PkgPath + "::" + fi.Name }

func (fi *FuncInfo) varOf(e ast.Expr) *types.Var {
	id, ok := ast.Unparen(e).(*ast.Ident)
	if !ok {
		return nil
	}
	v, _ := fi.Info.ObjectOf(id).(*types.Var)
	return v
}

func (fi *FuncInfo) recordDefs(n ast.Node) {
	add := func(lhs ast.Expr, d defSite) {
		if v := fi.varOf(lhs); v != nil && !v.IsField() {
			fi.defs[v] = append(fi.defs[v], d)
		}
	}
	switch n := n.(type) {
	case *ast.AssignStmt:
		kind := "assign"
		if n.Tok == token.DEFINE {
			kind = "define"
		} else if n.Tok != token.ASSIGN {
			kind = "opassign"
		}
		if len(n.Lhs) == len(n.Rhs) {
			for i, l := range n.Lhs {
				add(l, defSite{node: n, rhs: n.Rhs[i], idx: -1, kind: kind})
			}
		} else if len(n.Rhs) == 1 {
			for i, l := range n.Lhs {
				add(l, defSite{node: n, rhs: n.Rhs[0], idx: i, kind: kind})
			}
		}
	case *ast.ValueSpec:
		for i, name := range n.Names {
			d := defSite{node: n, idx: -1, kind: "define"}
			if len(n.Values) == len(n.Names) {
				d.rhs = n.Values[i]
			} else if len(n.Values) == 1 {
				d.rhs = n.Values[0]
				d.idx = i
			} else {
				d.kind = "zero"
			}
			add(name, d)
		}
	case *ast.RangeStmt:
		if n.Key != nil {
			add(n.Key, defSite{node: n, rhs: n.X, idx: -1, kind: "range-key"})
		}
		if n.Value != nil {
			add(n.Value, defSite{node: n, rhs: n.X, idx: -1, kind: "range-val"})
		}
	case *ast.IncDecStmt:
		add(n.X, defSite{node: n, idx: -1, kind: "incdec"})
	case *ast.UnaryExpr:
		if n.Op == token.AND {
			add(n.X, defSite{node: n, idx: -1, kind: "addr"})
		}
	case *ast.TypeSwitchStmt:
		// the symbolic variable of `switch x := y.(type)` is recorded per clause
		// through Info.Implicits; rules resolve it with typeSwitchSubject.
	case *ast.FuncType:
		// parameters (of the decl and of literals)
		if n.Params != nil {
			for _, f := range n.Params.List {
				for _, name := range f.Names {
					add(name, defSite{node: f, idx: -1, kind: "param"})
				}
			}
		}
	}
}

// singleDef returns the unique defining expression of a local variable that
// is assigned exactly once (and whose address is never taken), else nil.
func (fi *FuncInfo) singleDef(v *types.Var) *defSite {
	ds := fi.defs[v]
	if len(ds) != 1 {
		return nil
	}
	d := ds[0]
	if d.kind == "assign" && d.rhs != nil && fi.C != nil && fi.C.idx[fi.Pkg] != nil && fi.C.idx[fi.Pkg].results[v] {
		// a named result assigned exactly once: that assignment is its definition
		return &d
	}
	if (d.kind != "define" && d.kind != "param") || d.rhs == nil {
		return nil
	}
	return &d
}

// deref follows single-assignment local variables to their defining
// expression (bounded), stripping parentheses.
func (fi *FuncInfo) deref(e ast.Expr) ast.Expr {
	for i := 0; i < 8; i++ {
		e = ast.Unparen(e)
		v := fi.varOf(e)
		if v == nil {
			return e
		}
		d := fi.singleDef(v)
		if d == nil || d.idx >= 0 {
			return e
		}
		e = d.rhs
	}
	return e
}

// defOf returns the definition site of a single-assignment local, or nil.
func (fi *FuncInfo) defOf(e ast.Expr) *defSite {
	v := fi.varOf(e)
	if v == nil {
		return nil
	}
	d := fi.singleDef(v)
	// a plain copy of another single-assignment local (also: a linked helper's
	// result operand) is defined where that local is
	for i := 0; d != nil && d.idx < 0 && i < 6; i++ {
		v2 := fi.varOf(d.rhs)
		if v2 == nil {
			break
		}
		d2 := fi.singleDef(v2)
		if d2 == nil {
			break
		}
		d = d2
	}
	return d
}

// ---------------------------------------------------------------------------
// callee resolution and matchers

func (fi *FuncInfo) callee(call *ast.CallExpr) *types.Func {
	f, _ := typeutil.Callee(fi.Info, call).(*types.Func)
	return f
}

// calleeName renders the resolved callee as "pkgpath.Func" or
// "pkgpath.Type.Method"; "" when unresolved (builtins, func values).
func (fi *FuncInfo) calleeName(call *ast.CallExpr) string {
	return qualFuncName(fi.callee(call))
}

func qualFuncName(f *types.Func) string {
	if f == nil {
		return ""
	}
	pkg := ""
	if f.Pkg() != nil {
		pkg = f.Pkg().Path()
	}
	return pkg + "." + funcName(f)
}

// isCall reports whether e is a call whose resolved callee is one of names.
func (fi *FuncInfo) isCall(e ast.Expr, names ...string) *ast.CallExpr {
	call, ok := ast.Unparen(e).(*ast.CallExpr)
	if !ok {
		return nil
	}
	n := fi.calleeName(call)
	if n == "" {
		return nil
	}
	for _, want := range names {
		if n == want {
			return call
		}
	}
	return nil
}

// isBuiltin reports whether call invokes the named builtin.
func (fi *FuncInfo) isBuiltin(e ast.Expr, name string) *ast.CallExpr {
	call, ok := ast.Unparen(e).(*ast.CallExpr)
	if !ok {
		return nil
	}
	id, ok := ast.Unparen(call.Fun).(*ast.Ident)
	if !ok {
		return nil
	}
	obj := fi.Info.ObjectOf(id)
	if obj == nil && !id.Pos().IsValid() {
		obj = types.Universe.Lookup(id.Name) // an identifier synthesised by a rule (ast.NewIdent)
	}
	b, ok := obj.(*types.Builtin)
	if !ok || b.Name() != name {
		return nil
	}
	return call
}

// recvOf returns the receiver expression of a method call.
func recvOf(call *ast.CallExpr) ast.Expr {
	if sel, ok := ast.Unparen(call.Fun).(*ast.SelectorExpr); ok {
		return sel.X
	}
	return nil
}

// fieldSel reports whether e is a selection of field `field` of named struct
// type `typ` (declared in package path pkg); returns the base expression.
func (fi *FuncInfo) fieldSel(e ast.Expr, pkg, typ, field string) (ast.Expr, bool) {
	sel, ok := ast.Unparen(e).(*ast.SelectorExpr)
	if !ok {
		return nil, false
	}
	s := fi.Info.Selections[sel]
	if s == nil || s.Kind() != types.FieldVal {
		return nil, false
	}
	v, _ := s.Obj().(*types.Var)
	if v == nil || v.Name() != field {
		return nil, false
	}
	if !isNamed(derefType(s.Recv()), pkg, typ) {
		return nil, false
	}
	return sel.X, true
}

// selField returns the field object selected by e, or nil.
func (fi *FuncInfo) selField(e ast.Expr) *types.Var {
	sel, ok := ast.Unparen(e).(*ast.SelectorExpr)
	if !ok {
		return nil
	}
	s := fi.Info.Selections[sel]
	if s == nil || s.Kind() != types.FieldVal {
		return nil
	}
	v, _ := s.Obj().(*types.Var)
	return v
}

func derefType(t types.Type) types.Type {
	if p, ok := t.(*types.Pointer); ok {
		return p.Elem()
	}
	return t
}

func isNamed(t types.Type, pkg, name string) bool {
	n, ok := t.(*types.Named)
	if !ok {
		return false
	}
	o := n.Obj()
	if o.Name() != name {
		return false
	}
	if o.Pkg() == nil {
		return pkg == ""
	}
	return o.Pkg().Path() == pkg
}

// typeIs reports whether expression e has (pointer to) named type pkg.name.
func (fi *FuncInfo) typeIs(e ast.Expr, pkg, name string) bool {
	t := fi.Info.TypeOf(e)
	if t == nil {
		return false
	}
	return isNamed(derefType(t), pkg, name)
}

// ---------------------------------------------------------------------------
// structural equality of expressions (after following single-assignment
// locals), used for "the same key" / "the same value" obligations.

func (fi *FuncInfo) sameExpr(a, b ast.Expr) bool {
	return fi.canon(a, 0) == fi.canon(b, 0) && fi.canon(a, 0) != ""
}

// canon renders an expression in a canonical form in which identifiers are
// resolved to objects, single-assignment locals are replaced by their
// definitions, and calls show their resolved callee.
func (fi *FuncInfo) canon(e ast.Expr, depth int) string {
	if e == nil {
		return ""
	}
	if depth > 10 {
		return "…"
	}
	e = ast.Unparen(e)
	switch e := e.(type) {
	case *ast.Ident:
		obj := fi.Info.ObjectOf(e)
		switch o := obj.(type) {
		case *types.Var:
			if o.IsField() {
				return "field:" + o.Name()
			}
			if d := fi.singleDef(o); d != nil && d.idx < 0 {
				return fi.canon(d.rhs, depth+1)
			}
			if d := fi.singleDef(o); d != nil && d.idx >= 0 {
				return fi.canon(d.rhs, depth+1) + "#" + itoa(d.idx)
			}
			if o.Pkg() != nil && o.Parent() == o.Pkg().Scope() {
				return o.Pkg().Path() + "." + o.Name()
			}
			if fi.isParam(o) {
				return "param:" + o.Name()
			}
			return "var:" + o.Name()
		case *types.Const:
			if o.Pkg() != nil {
				return o.Pkg().Path() + "." + o.Name()
			}
			return o.Name()
		case *types.Func:
			return qualFuncName(o)
		case *types.Nil:
			return "nil"
		case *types.TypeName:
			return "type:" + types.TypeString(o.Type(), nil)
		case *types.PkgName:
			return "pkg:" + o.Imported().Path()
		case *types.Builtin:
			return "builtin:" + o.Name()
		}
		return "id:" + e.Name
	case *ast.BasicLit:
		return e.Value
	case *ast.SelectorExpr:
		if s := fi.Info.Selections[e]; s != nil {
			return fi.canon(e.X, depth+1) + "." + e.Sel.Name
		}
		// qualified identifier
		return fi.canon(e.Sel, depth+1)
	case *ast.CallExpr:
		var sb strings.Builder
		if f := fi.callee(e); f != nil {
			sb.WriteString(qualFuncName(f))
			if sel, ok := ast.Unparen(e.Fun).(*ast.SelectorExpr); ok && fi.Info.Selections[sel] != nil {
				sb.WriteString("{" + fi.canon(sel.X, depth+1) + "}")
			}
		} else {
			sb.WriteString(fi.canon(e.Fun, depth+1))
		}
		sb.WriteString("(")
		for i, a := range e.Args {
			if i > 0 {
				sb.WriteString(",")
			}
			sb.WriteString(fi.canon(a, depth+1))
		}
		if e.Ellipsis.IsValid() {
			sb.WriteString("...")
		}
		sb.WriteString(")")
		return sb.String()
	case *ast.IndexExpr:
		return fi.canon(e.X, depth+1) + "[" + fi.canon(e.Index, depth+1) + "]"
	case *ast.SliceExpr:
		return fi.canon(e.X, depth+1) + "[" + fi.canon(e.Low, depth+1) + ":" + fi.canon(e.High, depth+1) + "]"
	case *ast.StarExpr:
		return "*" + fi.canon(e.X, depth+1)
	case *ast.UnaryExpr:
		return e.Op.String() + fi.canon(e.X, depth+1)
	case *ast.BinaryExpr:
		return "(" + fi.canon(e.X, depth+1) + e.Op.String() + fi.canon(e.Y, depth+1) + ")"
	case *ast.TypeAssertExpr:
		if e.Type == nil {
			return fi.canon(e.X, depth+1) + ".(type)"
		}
		return fi.canon(e.X, depth+1) + ".(" + types.TypeString(fi.Info.TypeOf(e.Type), nil) + ")"
	case *ast.CompositeLit:
		var sb strings.Builder
		sb.WriteString(types.TypeString(fi.Info.TypeOf(e), nil) + "{")
		for i, el := range e.Elts {
			if i > 0 {
				sb.WriteString(",")
			}
			sb.WriteString(fi.canon(el, depth+1))
		}
		sb.WriteString("}")
		return sb.String()
	case *ast.KeyValueExpr:
		k := ""
		if id, ok := e.Key.(*ast.Ident); ok {
			k = id.Name
		} else {
			k = fi.canon(e.Key, depth+1)
		}
		return k + ":" + fi.canon(e.Value, depth+1)
	case *ast.FuncLit:
		return "funclit@" + itoa(int(e.Pos()))
	case *ast.ArrayType, *ast.MapType, *ast.StructType, *ast.InterfaceType, *ast.FuncType, *ast.ChanType:
		return "type:" + types.TypeString(fi.Info.TypeOf(e), nil)
	}
	return types.ExprString(e)
}

func (fi *FuncInfo) isParam(v *types.Var) bool {
	ds := fi.defs[v]
	for _, d := range ds {
		if d.kind == "param" {
			return true
		}
	}
	// receiver
	if fi.Decl.Recv != nil {
		for _, f := range fi.Decl.Recv.List {
			for _, n := range f.Names {
				if fi.Info.Defs[n] == v {
					return true
				}
			}
		}
	}
	return false
}

func itoa(i int) string {
	if i == 0 {
		return "0"
	}
	neg := i < 0
	if neg {
		i = -i
	}
	var b []byte
	for i > 0 {
		b = append([]byte{byte('0' + i%10)}, b...)
		i /= 10
	}
	if neg {
		b = append([]byte{'-'}, b...)
	}
	return string(b)
}

// ---------------------------------------------------------------------------
// traversal helpers

// calls returns every call expression inside n (including inside function
// literals) in source order.
func callsIn(n ast.Node) []*ast.CallExpr {
	var out []*ast.CallExpr
	if n == nil {
		return nil
	}
	ast.Inspect(n, func(m ast.Node) bool {
		if c, ok := m.(*ast.CallExpr); ok {
			out = append(out, c)
		}
		return true
	})
	return out
}

// callsTo returns the calls inside fi's body whose resolved callee is one of names.
func (fi *FuncInfo) callsTo(names ...string) []*ast.CallExpr {
	var out []*ast.CallExpr
	for _, c := range fi.callsDeep(fi.Decl.Body) {
		n := fi.calleeName(c)
		for _, w := range names {
			if n == w && n != "" {
				out = append(out, c)
			}
		}
	}
	return out
}

// enclosing returns the nearest ancestor of n (strictly above) satisfying pred.
func (fi *FuncInfo) enclosing(n ast.Node, pred func(ast.Node) bool) ast.Node {
	for p := fi.parent[n]; p != nil; p = fi.parent[p] {
		if pred(p) {
			return p
		}
	}
	return nil
}

// stmtOf returns the innermost statement containing n (n itself if a stmt).
func (fi *FuncInfo) stmtOf(n ast.Node) ast.Stmt {
	for p := n; p != nil; p = fi.parent[p] {
		if s, ok := p.(ast.Stmt); ok {
			return s
		}
	}
	return nil
}

// enclosingLoop returns the innermost for/range statement containing n
// (not crossing a function literal boundary unless cross is true).
func (fi *FuncInfo) enclosingLoop(n ast.Node) ast.Stmt {
	for p := fi.parent[n]; p != nil; p = fi.parent[p] {
		switch p := p.(type) {
		case *ast.ForStmt:
			return p
		case *ast.RangeStmt:
			return p
		case *ast.FuncLit:
			return nil
		}
	}
	return nil
}

func (fi *FuncInfo) within(n, anc ast.Node) bool {
	for p := n; p != nil; p = fi.parent[p] {
		if p == anc {
			return true
		}
	}
	return false
}

// isAncestor: anc strictly contains n by position (cheap test).
func contains(anc, n ast.Node) bool {
	if anc == nil || n == nil || isNilNode(anc) || isNilNode(n) {
		return false
	}
	// structural, not positional: the normalising pre-pass reorders operands, so
	// the source positions of a rewritten expression need not nest
	found := false
	ast.Inspect(anc, func(m ast.Node) bool {
		if m == n {
			found = true
		}
		return !found
	})
	return found
}

func isNilNode(n ast.Node) bool {
	switch x := n.(type) {
	case *ast.BlockStmt:
		return x == nil
	case *ast.IfStmt:
		return x == nil
	case ast.Stmt:
		return x == nil
	case ast.Expr:
		return x == nil
	}
	return false
}

// inspect walks root like ast.Inspect and additionally descends into the body
// of every linked helper (a helper with a single call site, see Ctx.link) at
// its call expression, so code moved into such a helper is still found.
func (fi *FuncInfo) inspect(root ast.Node, f func(ast.Node) bool) {
	if root == nil {
		return
	}
	ast.Inspect(root, func(n ast.Node) bool {
		if !f(n) {
			return false
		}
		if call, ok := n.(*ast.CallExpr); ok && fi.C != nil {
			if h := fi.C.linked[call]; h != nil {
				fi.inspect(h.Decl.Body, f)
			}
		}
		return true
	})
}

// callsDeep returns every call expression inside n including those inside linked helpers.
func (fi *FuncInfo) callsDeep(n ast.Node) []*ast.CallExpr {
	var out []*ast.CallExpr
	fi.inspect(n, func(m ast.Node) bool {
		if c, ok := m.(*ast.CallExpr); ok {
			out = append(out, c)
		}
		return true
	})
	return out
}

// ---------------------------------------------------------------------------
// interprocedural helpers

// srcExpr is a defining expression found by valueSources, with the function it belongs to.
type srcExpr struct {
	fi   *FuncInfo
	expr ast.Expr
}

// valueSources returns the leaf expressions a value may be computed from:
// it follows every definition of local variables, parameters of helpers that
// are bound to their (single) call site, and the return expressions of
// in-module functions (result index idx for multi-value calls). Leaves are
// expressions that are neither such variables nor such calls.
func (fi *FuncInfo) valueSources(e ast.Expr) []srcExpr {
	var out []srcExpr
	seen := map[ast.Node]bool{}
	var walk func(f *FuncInfo, e ast.Expr, idx int, depth int)
	walk = func(f *FuncInfo, e ast.Expr, idx int, depth int) {
		e = ast.Unparen(e)
		if e == nil || depth > 8 || seen[e] {
			return
		}
		seen[e] = true
		if v := f.varOf(e); v != nil && !v.IsField() {
			ds := f.defs[v]
			followed := false
			for _, d := range ds {
				if d.rhs != nil && (d.kind == "define" || d.kind == "assign" || d.kind == "param") {
					followed = true
					walk(f, d.rhs, d.idx, depth+1)
				}
			}
			if followed {
				return
			}
		}
		if call, ok := e.(*ast.CallExpr); ok && f.C != nil {
			if cf := f.C.FnOf(f.callee(call)); cf != nil && cf.Decl.Body != nil {
				k := idx
				if k < 0 {
					k = 0
				}
				// bind parameters for the duration of the walk when the helper has several call sites
				undo := cf.bindParams(call)
				for _, ret := range cf.returnsOf() {
					if k < len(ret.Results) {
						walk(cf, ret.Results[k], -1, depth+1)
					} else if len(ret.Results) == 1 {
						walk(cf, ret.Results[0], k, depth+1)
					}
				}
				undo()
				return
			}
		}
		out = append(out, srcExpr{f, e})
	}
	walk(fi, e, -1, 0)
	return out
}

// bindParams temporarily treats the parameters of fi as defined by the
// arguments of call (used to look through a helper with several call sites
// from one particular call). It returns the function that undoes the binding.
func (fi *FuncInfo) bindParams(call *ast.CallExpr) func() {
	type sv struct {
		v  *types.Var
		ds []defSite
	}
	var saved []sv
	i := 0
	for _, f := range fi.Decl.Type.Params.List {
		for _, nm := range f.Names {
			if v, ok := fi.Info.Defs[nm].(*types.Var); ok && i < len(call.Args) {
				ds := fi.defs[v]
				if len(ds) == 1 && ds[0].kind == "param" {
					saved = append(saved, sv{v, ds})
					fi.defs[v] = []defSite{{node: ds[0].node, rhs: call.Args[i], idx: -1, kind: "param"}}
				}
			}
			i++
		}
	}
	return func() {
		for _, s := range saved {
			fi.defs[s.v] = s.ds
		}
	}
}

// predicateBody returns the single returned expression of a trivial
// predicate (in-module function or local closure whose body is one return
// statement) called by call, together with the function that undoes the
// temporary parameter binding; nil when call is not such a call.
func (fi *FuncInfo) predicateBody(call *ast.CallExpr) (ast.Expr, func()) {
	if v := fi.varOf(call.Fun); v != nil {
		if sd := fi.singleDef(v); sd != nil && sd.idx < 0 {
			if lit, ok := ast.Unparen(sd.rhs).(*ast.FuncLit); ok && len(lit.Body.List) == 1 {
				if ret, ok := lit.Body.List[0].(*ast.ReturnStmt); ok && len(ret.Results) == 1 {
					// bind closure parameters
					type sv struct {
						v  *types.Var
						ds []defSite
					}
					var saved []sv
					i := 0
					for _, f := range lit.Type.Params.List {
						for _, nm := range f.Names {
							if pv, ok := fi.Info.Defs[nm].(*types.Var); ok && i < len(call.Args) {
								ds := fi.defs[pv]
								saved = append(saved, sv{pv, ds})
								fi.defs[pv] = []defSite{{node: f, rhs: call.Args[i], idx: -1, kind: "param"}}
							}
							i++
						}
					}
					return ret.Results[0], func() {
						for _, s := range saved {
							fi.defs[s.v] = s.ds
						}
					}
				}
			}
		}
	}
	if fi.C == nil {
		return nil, nil
	}
	cf := fi.C.FnOf(fi.callee(call))
	if cf == nil || cf.Decl.Body == nil || len(cf.Decl.Body.List) != 1 {
		return nil, nil
	}
	ret, ok := cf.Decl.Body.List[0].(*ast.ReturnStmt)
	if !ok || len(ret.Results) != 1 {
		return nil, nil
	}
	return ret.Results[0], cf.bindParams(call)
}

// expandGuards replaces every guard that is a call to a trivial predicate by
// the atomic conditions of the predicate's body (parameters stay bound until
// the returned function is called).
func (fi *FuncInfo) expandGuards(gs []Cond) ([]Cond, func()) {
	var out []Cond
	var undos []func()
	for _, g := range gs {
		if call, ok := ast.Unparen(g.Expr).(*ast.CallExpr); ok && g.Kind == "bool" {
			if body, undo := fi.predicateBody(call); body != nil {
				undos = append(undos, undo)
				sub := flatten(body, g.Neg, g.At)
				out = append(out, sub...)
				continue
			}
		}
		out = append(out, g)
	}
	return out, func() {
		for i := len(undos) - 1; i >= 0; i-- {
			undos[i]()
		}
	}
}

// disjuncts splits a || b || c into its operands.
func disjuncts(e ast.Expr) []ast.Expr {
	e = ast.Unparen(e)
	if b, ok := e.(*ast.BinaryExpr); ok && b.Op == token.LOR {
		return append(disjuncts(b.X), disjuncts(b.Y)...)
	}
	return []ast.Expr{e}
}

// precedes: statement a is an earlier sibling of n or of one of n's ancestors
// (structural; positions are not reliable after the normalising pre-passes).
func (fi *FuncInfo) precedes(a, n ast.Node) bool {
	child := n
	for p := fi.parent[child]; p != nil; child, p = p, fi.parent[p] {
		var list []ast.Stmt
		switch b := p.(type) {
		case *ast.BlockStmt:
			list = b.List
		case *ast.CaseClause:
			list = b.Body
		case *ast.CommClause:
			list = b.Body
		}
		for _, st := range list {
			if st == child {
				break
			}
			if st == a {
				return true
			}
		}
	}
	return false
}

// Structural source order. After the normalising pre-passes token positions no
// longer nest or order reliably, so "before", "after" and "after the end of"
// are decided on the traversal order of the tree the rules see: startOf is a
// node's pre-order index, endOf the first index after its subtree.
var nodeOrd = map[ast.Node][2]int{}

func indexOrder(files []*ast.File) {
	k := len(nodeOrd) * 2 // keep indexes of different packages apart
	for _, f := range files {
		var stack []ast.Node
		ast.Inspect(f, func(n ast.Node) bool {
			if n == nil {
				top := stack[len(stack)-1]
				stack = stack[:len(stack)-1]
				o := nodeOrd[top]
				o[1] = k
				nodeOrd[top] = o
				return true
			}
			k++
			nodeOrd[n] = [2]int{k, k}
			stack = append(stack, n)
			return true
		})
		k++
	}
}

func startOf(n ast.Node) int { return nodeOrd[n][0] }
func endOf(n ast.Node) int   { return nodeOrd[n][1] }

// expandLocals returns e with every single-assignment local replaced, deeply,
// by the expression it was defined with (`field := st.Field(i); name :=
// field.Name(); … strconv.Quote(name)` reads `strconv.Quote(st.Field(i).Name())`).
// Only the shells of rewritten nodes are new; identifiers and unchanged
// sub-expressions keep their recorded types and objects.
func (fi *FuncInfo) expandLocals(e ast.Expr) ast.Expr {
	return fi.expandLocalsN(e, 0)
}

func (fi *FuncInfo) expandLocalsN(e ast.Expr, depth int) ast.Expr {
	if e == nil || depth > 12 {
		return e
	}
	switch x := e.(type) {
	case *ast.ParenExpr:
		return fi.expandLocalsN(x.X, depth)
	case *ast.Ident:
		if v := fi.varOf(x); v != nil {
			if d := fi.singleDef(v); d != nil && d.idx < 0 && d.rhs != nil && d.kind != "param" {
				return fi.expandLocalsN(d.rhs, depth+1)
			}
		}
		return x
	case *ast.BinaryExpr:
		a, b := fi.expandLocalsN(x.X, depth+1), fi.expandLocalsN(x.Y, depth+1)
		if a == x.X && b == x.Y {
			return x
		}
		return &ast.BinaryExpr{X: a, OpPos: x.OpPos, Op: x.Op, Y: b}
	case *ast.UnaryExpr:
		a := fi.expandLocalsN(x.X, depth+1)
		if a == x.X {
			return x
		}
		return &ast.UnaryExpr{OpPos: x.OpPos, Op: x.Op, X: a}
	case *ast.StarExpr:
		a := fi.expandLocalsN(x.X, depth+1)
		if a == x.X {
			return x
		}
		return &ast.StarExpr{Star: x.Star, X: a}
	case *ast.SelectorExpr:
		a := fi.expandLocalsN(x.X, depth+1)
		if a == x.X {
			return x
		}
		return &ast.SelectorExpr{X: a, Sel: x.Sel}
	case *ast.IndexExpr:
		a, b := fi.expandLocalsN(x.X, depth+1), fi.expandLocalsN(x.Index, depth+1)
		if a == x.X && b == x.Index {
			return x
		}
		return &ast.IndexExpr{X: a, Lbrack: x.Lbrack, Index: b, Rbrack: x.Rbrack}
	case *ast.CallExpr:
		changed := false
		fun := fi.expandLocalsN(x.Fun, depth+1)
		if _, isId := x.Fun.(*ast.Ident); isId {
			fun = x.Fun // a called function value is not expanded
		}
		if fun != x.Fun {
			changed = true
		}
		args := make([]ast.Expr, len(x.Args))
		for i, a := range x.Args {
			args[i] = fi.expandLocalsN(a, depth+1)
			if args[i] != a {
				changed = true
			}
		}
		if !changed {
			return x
		}
		return &ast.CallExpr{Fun: fun, Lparen: x.Lparen, Args: args, Ellipsis: x.Ellipsis, Rparen: x.Rparen}
	}
	return e
}

// madeWithLen: x (a variable, or a field of a variable defined by a composite
// literal) holds a slice created by make(T, N) and nowhere re-assigned; N is returned.
func (fi *FuncInfo) madeWithLen(x ast.Expr) ast.Expr {
	x = ast.Unparen(x)
	var found ast.Expr
	count := 0
	fi.inspect(fi.Decl.Body, func(m ast.Node) bool {
		as, ok := m.(*ast.AssignStmt)
		if !ok || len(as.Lhs) != len(as.Rhs) {
			return true
		}
		for i, l := range as.Lhs {
			if fi.sameExpr(l, x) {
				count++
				if mk := fi.isBuiltin(as.Rhs[i], "make"); mk != nil && len(mk.Args) >= 2 {
					found = mk.Args[1]
				}
			}
		}
		return true
	})
	if sel, ok := x.(*ast.SelectorExpr); ok && count == 0 {
		// v.F with v := &T{F: make(…, N)} / T{F: make(…, N)}
		if d := fi.defOf(sel.X); d != nil && d.rhs != nil {
			lit := ast.Unparen(d.rhs)
			if u, ok := lit.(*ast.UnaryExpr); ok {
				lit = ast.Unparen(u.X)
			}
			if cl, ok := lit.(*ast.CompositeLit); ok {
				for _, el := range cl.Elts {
					if kv, ok := el.(*ast.KeyValueExpr); ok {
						if id, ok := kv.Key.(*ast.Ident); ok && id.Name == sel.Sel.Name {
							if mk := fi.isBuiltin(kv.Value, "make"); mk != nil && len(mk.Args) >= 2 {
								return mk.Args[1]
							}
						}
					}
				}
			}
		}
	}
	if count == 1 {
		return found
	}
	return nil
}
