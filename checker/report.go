package main

import (
	"encoding/json"
	"fmt"
	"go/token"
	"os"
	"path/filepath"
	"sort"
	"strings"
	"time"
)

// An Ob is one obligation: a rule instance at a named construct.
type Ob struct {
	Rule   string `json:"rule"`
	Key    string `json:"key"` // rule-relative construct key (never a line number)
	Pos    string `json:"pos"` // file:line, for diagnosis only
	Status string `json:"status"`
	Detail string `json:"detail,omitempty"`
}

const (
	stOK        = "discharged"
	stViolation = "violation"
	stUndecided = "undecided"
	stKnown     = "known-finding"
)

type Rule struct {
	ID   string
	Doc  string
	Run  func(c *Ctx, r *R)
	Tier string // "" = both, "thorough" = thorough only
}

// R collects the obligations of one rule run.
type R struct {
	c        *Ctx
	rule     *Rule
	Obs      []Ob
	Controls []string
	Analysed map[string]bool
}

func (r *R) add(status, key string, pos token.Pos, detail string) {
	r.Obs = append(r.Obs, Ob{Rule: r.rule.ID, Key: key, Pos: r.c.Pos(pos), Status: status, Detail: detail})
}
func (r *R) Ok(key string, pos token.Pos, f string, a ...interface{}) {
	r.add(stOK, key, pos, fmt.Sprintf(f, a...))
}
func (r *R) Bad(key string, pos token.Pos, f string, a ...interface{}) {
	r.add(stViolation, key, pos, fmt.Sprintf(f, a...))
}
func (r *R) Undecided(key string, pos token.Pos, f string, a ...interface{}) {
	r.add(stUndecided, key, pos, fmt.Sprintf(f, a...))
}

// Check records key as discharged when ok, else as a violation.
func (r *R) Check(ok bool, key string, pos token.Pos, f string, a ...interface{}) bool {
	if ok {
		r.Ok(key, pos, f, a...)
	} else {
		r.Bad(key, pos, f, a...)
	}
	return ok
}

// Floor fails the rule when fewer instances than confirmed by hand were found.
func (r *R) Floor(what string, got, want int) {
	if got < want {
		r.Bad("floor:"+what, token.NoPos, "found %d %s, expected at least %d (anchor missing or shape not recognised)", got, what, want)
	} else {
		r.Ok("floor:"+what, token.NoPos, "%d %s (floor %d)", got, what, want)
	}
}

// Control records that a positive control (a construct the detector must
// match somewhere in the tree) was hit.
func (r *R) Control(name string, hit bool, pos token.Pos) {
	if hit {
		r.Controls = append(r.Controls, name+" @ "+r.c.Pos(pos))
		r.Ok("control:"+name, pos, "positive control matched")
	} else {
		r.Bad("control:"+name, token.NoPos, "positive control not matched: detector may be blind")
	}
}

// Need returns fi, recording an anchor-missing violation when nil.
func (r *R) Need(fi *FuncInfo, name string) *FuncInfo {
	if fi == nil {
		r.Bad("anchor:"+name, token.NoPos, "anchor function %s not found", name)
		return nil
	}
	if r.Analysed == nil {
		r.Analysed = map[string]bool{}
	}
	r.Analysed[fi.Key()] = true
	return fi
}

var rules = map[string]*Rule{}
var ruleOrder []string

func register(id, doc string, run func(c *Ctx, r *R)) {
	if rules[id] != nil {
		panic("duplicate rule " + id)
	}
	rules[id] = &Rule{ID: id, Doc: doc, Run: run}
	ruleOrder = append(ruleOrder, id)
}

// runRule executes a rule, converting a panic in the analyser into an
// undecided obligation (fail closed).
func runRule(c *Ctx, id string) (res *R) {
	ru := rules[id]
	res = &R{c: c, rule: ru}
	if ru == nil {
		res.rule = &Rule{ID: id}
		res.Bad("rule-missing", token.NoPos, "rule %s is not implemented", id)
		return res
	}
	defer func() {
		if e := recover(); e != nil {
			res.Undecided("analyser-panic", token.NoPos, "%v", e)
		}
	}()
	ru.Run(c, res)
	if len(res.Obs) == 0 {
		res.Bad("vacuous", token.NoPos, "rule produced no obligations")
	}
	return res
}

// ---------------------------------------------------------------------------
// known findings

type Finding struct {
	Status   string `json:"status"` // "known" or "fixed"
	Property string `json:"property"`
	Rule     string `json:"rule"`
	Key      string `json:"key"`
	What     string `json:"what"`
	Input    string `json:"input,omitempty"`
	Commit   string `json:"commit,omitempty"`
	Line     string `json:"line,omitempty"`
}

func loadFindings(path string) ([]Finding, error) {
	b, err := os.ReadFile(path)
	if err != nil {
		if os.IsNotExist(err) {
			return nil, nil
		}
		return nil, err
	}
	var doc struct {
		Findings []Finding `json:"findings"`
	}
	if err := json.Unmarshal(b, &doc); err != nil {
		return nil, err
	}
	return doc.Findings, nil
}

// ---------------------------------------------------------------------------
// evidence

type RuleEvidence struct {
	Rule        string   `json:"rule"`
	Doc         string   `json:"doc"`
	Obligations int      `json:"obligations"`
	Discharged  int      `json:"discharged"`
	Violations  int      `json:"violations"`
	Undecided   int      `json:"undecided"`
	Known       int      `json:"known_findings"`
	Controls    []string `json:"positive_controls,omitempty"`
	Sites       []Ob     `json:"sites"`
}

type Evidence struct {
	PropertyID  string                 `json:"property_id"`
	Tier        string                 `json:"tier"`
	Seed        int                    `json:"seed"`
	Level       string                 `json:"level"`
	Coverage    map[string]interface{} `json:"coverage"`
	Assumptions []string               `json:"assumptions"`
	WallS       float64                `json:"wall_s"`
	Violations  int                    `json:"violations"`
}

type propResult struct {
	prop       string
	results    []*R
	violations []Ob
	known      []Ob
	extra      map[string]interface{}
}

func runProperty(c *Ctx, prop string, findings []Finding) *propResult {
	pr := &propResult{prop: prop, extra: map[string]interface{}{}}
	ids := propRules[prop]
	for _, id := range ids {
		res := runRule(c, id)
		pr.results = append(pr.results, res)
		for i := range res.Obs {
			o := &res.Obs[i]
			if o.Status == stViolation || o.Status == stUndecided {
				if f := matchFinding(findings, prop, o); f != nil {
					o.Status = stKnown
					o.Detail += " [known finding: " + f.What + "]"
					pr.known = append(pr.known, *o)
					continue
				}
				pr.violations = append(pr.violations, *o)
			}
		}
	}
	return pr
}

func matchFinding(fs []Finding, prop string, o *Ob) *Finding {
	for i := range fs {
		f := &fs[i]
		if f.Status == "known" && f.Rule == o.Rule && f.Key == o.Key {
			return f
		}
	}
	return nil
}

func writeEvidence(c *Ctx, pr *propResult, dir string, tier string, seed int, start time.Time, assumptions []string) error {
	ev := Evidence{PropertyID: pr.prop, Tier: tier, Seed: seed, Level: "other", Assumptions: assumptions}
	var res []RuleEvidence
	total, disch := 0, 0
	var samples []interface{}
	analysed := map[string]bool{}
	distinct := map[string]bool{}
	for _, r := range pr.results {
		re := RuleEvidence{Rule: r.rule.ID, Doc: r.rule.Doc, Controls: r.Controls, Sites: r.Obs}
		for _, o := range r.Obs {
			re.Obligations++
			distinct[o.Rule+"@"+o.Key] = true
			switch o.Status {
			case stOK:
				re.Discharged++
			case stViolation:
				re.Violations++
			case stUndecided:
				re.Undecided++
			case stKnown:
				re.Known++
			}
		}
		total += re.Obligations
		disch += re.Discharged
		if len(r.Obs) > 0 {
			// first non-floor obligation as a sample
			for _, o := range r.Obs {
				if !strings.HasPrefix(o.Key, "floor:") {
					samples = append(samples, o)
					break
				}
			}
		}
		for k := range r.Analysed {
			analysed[k] = true
		}
		res = append(res, re)
	}
	var fns []string
	for k := range analysed {
		fns = append(fns, k)
	}
	sort.Strings(fns)
	var ruleDocs []string
	for _, r := range pr.results {
		ruleDocs = append(ruleDocs, r.rule.ID+": "+r.rule.Doc)
	}
	ev.Coverage = map[string]interface{}{
		"explanation": "Static analysis of /repo's current source (typed syntax trees of the module's packages, loaded with go/packages; no code of the subject is executed). " +
			"Each rule enumerates its obligations (rule instance @ construct) from the resolved program and discharges each by a structural argument; an unrecognised shape or a missing anchor is a failure. " +
			"Rules applied: " + strings.Join(ruleDocs, " | "),
		"obligations":         total,
		"discharged":          disch,
		"evaluations":         total,
		"distinct_nontrivial": len(distinct),
		"rule":                "one obligation per (rule, construct key); distinct = distinct (rule,key) pairs; all are non-trivial in that each names a construct found in the analysed source",
		"samples":             samples,
		"exhaustive":          true,
		"checker_cmd":         "wirecheck -property " + pr.prop + " -tier " + tier,
		"trusted_base":        []string{"go/types", "go/packages", "go/ast (x/tools v0.29.0)", "oracle tables and triage table in /verif/checker"},
		"packages_analysed":   c.FileSet,
		"renamed_functions_recognised_by_signature":       c.Renamed,
		"helpers_analysed_as_part_of_their_single_caller": c.linkedNames(),
		"functions_analysed":                              fns,
		"rules":                                           res,
		"known_findings":                                  pr.known,
		"violations_found":                                pr.violations,
	}
	for k, v := range pr.extra {
		ev.Coverage[k] = v
	}
	ev.WallS = time.Since(start).Seconds()
	ev.Violations = len(pr.violations)
	if err := os.MkdirAll(dir, 0o755); err != nil {
		return err
	}
	b, err := json.MarshalIndent(ev, "", " ")
	if err != nil {
		return err
	}
	return os.WriteFile(filepath.Join(dir, pr.prop+".json"), b, 0o644)
}

func writeReplay(pr *propResult, dir string) (string, error) {
	rd := filepath.Join(dir, "replay")
	if err := os.MkdirAll(rd, 0o755); err != nil {
		return "", err
	}
	p := filepath.Join(rd, pr.prop+".json")
	b, _ := json.MarshalIndent(map[string]interface{}{"property": pr.prop, "violations": pr.violations}, "", " ")
	return p, os.WriteFile(p, b, 0o644)
}
