package main

import (
	"go/ast"
	"go/constant"
	"go/token"
	"go/types"
	"sort"
	"strings"
)

func init() {
	register("C01.R7", "import aliases are declared when needed: an import entry records the chosen name and differs = (chosen name != the package's own name), stored under the canonical path; the own package is never imported",
		func(c *Ctx, r *R) {
			fi := r.Need(c.Fn(c.W, "gen.qualifyImport"), "gen.qualifyImport")
			if fi == nil {
				return
			}
			e := newEmitter(c, fi)
			n := 0
			fi.inspect(fi.Decl.Body, func(nd ast.Node) bool {
				cl, ok := nd.(*ast.CompositeLit)
				if !ok || !isNamed(fi.Info.TypeOf(cl), pathW, "importInfo") {
					return true
				}
				n++
				var nameV, diffV ast.Expr
				for _, el := range cl.Elts {
					if kv, ok := el.(*ast.KeyValueExpr); ok {
						switch kv.Key.(*ast.Ident).Name {
						case "name":
							nameV = kv.Value
						case "differs":
							diffV = kv.Value
						}
					}
				}
				if nameV == nil || diffV == nil {
					r.Bad("importInfo/fields", cl.Pos(), "importInfo literal does not set both name and differs")
					return true
				}
				okD := false
				if be, ok := ast.Unparen(fi.deref(diffV)).(*ast.BinaryExpr); ok && be.Op == token.NEQ {
					a, b := be.X, be.Y
					if fi.sameExpr(b, nameV) {
						a, b = b, a
					}
					if fi.sameExpr(a, nameV) {
						if pv := fi.varOf(b); pv != nil && fi.isParam(pv) && e.sym(b) == "$0" {
							okD = true
						}
					}
				}
				r.Check(okD, "importInfo/differs", cl.Pos(), "differs is exactly (chosen name != package name), so an alias is printed whenever the chosen name is not the package's own")
				// the returned qualifier is the stored name
				rets := fi.returnsOf()
				last := rets[len(rets)-1]
				r.Check(fi.sameExpr(last.Results[0], nameV), "importInfo/returned-name", last.Pos(), "the qualifier returned for a new import is the name recorded for it")
				return true
			})
			r.Floor("importInfo literals", n, 1)
			// a known import returns its recorded name
			okKnown := false
			for _, ret := range fi.returnsOf() {
				if f := fi.selField(ret.Results[0]); f != nil && f.Name() == "name" {
					for _, g := range fi.Guards(ret) {
						if v := fi.varOf(g.Expr); v != nil && !g.Neg && types.TypeString(v.Type(), nil) == "bool" {
							okKnown = true
						}
					}
				}
			}
			r.Check(okKnown, "imports/known-path-reuses-name", fi.Decl.Pos(), "a path already in the table yields the name recorded for it")
		})

	register("C12.R5", "\"*\" means all fields only when it is the sole field argument: allFields holds iff there are exactly two arguments and the second is the string literal \"*\"; the struct's identity (package, name, position) is taken from the type named in new(T)",
		func(c *Ctx, r *R) {
			fi := r.Need(c.Fn(c.W, "allFields"), "allFields")
			if fi != nil {
				// every way of answering "true": the conditions that hold there (dominating guards
				// plus the conjuncts of the returned expression) must include all three requirements
				rets := fi.returnsOf()
				arity, literal, cmp := true, true, true
				var last *ast.ReturnStmt
				s := ""
				nTrue := 0
				for _, ret := range rets {
					if types.ExprString(ret.Results[0]) == "false" {
						continue
					}
					nTrue++
					last = ret
					conds := append(fi.Guards(ret), flatten(ret.Results[0], false, ret)...)
					a, l, cm := false, false, false
					for _, g := range conds {
						if be, ok := ast.Unparen(g.Expr).(*ast.BinaryExpr); ok && types.ExprString(be.Y) == "2" && fi.isBuiltin(be.X, "len") != nil {
							if (be.Op == token.NEQ && g.Neg) || (be.Op == token.EQL && !g.Neg) {
								a = true
							}
						}
						if v := fi.varOf(g.Expr); v != nil && !g.Neg {
							for _, d := range fi.defs[v] {
								if ta, ok := ast.Unparen(d.rhs).(*ast.TypeAssertExpr); ok && d.idx == 1 && types.ExprString(ta.Type) == "*ast.BasicLit" {
									if ix, ok := ast.Unparen(ta.X).(*ast.IndexExpr); ok && types.ExprString(ix.Index) == "1" {
										l = true
									}
								}
							}
						}
						if !g.Neg {
							sy := newEmitter(c, fi).sym(g.Expr)
							if (strings.Contains(sy, `strconv.Quote("*")`) || strings.Contains(sy, `"\"*\""`) || strings.Contains(sy, "`\"*\"`")) && strings.Contains(sy, ".Value") {
								cm = true
								s = sy
							}
						}
					}
					arity, literal, cmp = arity && a, literal && l, cmp && cm
				}
				if nTrue == 0 {
					arity, literal, cmp = false, false, false
					last = rets[len(rets)-1]
				}
				r.Check(arity, "allFields/exactly-two-arguments", fi.Decl.Pos(), "any other number of arguments is not the all-fields form")
				r.Check(literal, "allFields/literal", fi.Decl.Pos(), "a non-literal second argument is not the all-fields form")
				r.Check(cmp, "allFields/star", last.Pos(), "the literal is compared with the quoted \"*\" (%s)", s)
			}
			sp := r.Need(c.Fn(c.W, "processStructProvider"), "processStructProvider")
			if sp != nil {
				sp.inspect(sp.Decl.Body, func(nd ast.Node) bool {
					cl, ok := nd.(*ast.CompositeLit)
					if !ok || !isNamed(sp.Info.TypeOf(cl), pathW, "Provider") {
						return true
					}
					var tn *types.Var
					for _, el := range cl.Elts {
						kv := el.(*ast.KeyValueExpr)
						k := kv.Key.(*ast.Ident).Name
						want := map[string]string{"Pkg": "go/types.object.Pkg", "Name": "go/types.object.Name", "Pos": "go/types.object.Pos"}[k]
						if want == "" {
							continue
						}
						call := sp.isCall(kv.Value, want, strings.Replace(want, "object", "TypeName", 1), strings.Replace(want, "object", "Object", 1))
						okK := call != nil && sp.varOf(recvOf(call)) != nil
						if okK {
							if tn == nil {
								tn = sp.varOf(recvOf(call))
							}
							okK = sp.varOf(recvOf(call)) == tn
						}
						r.Check(okK, "Struct/identity:"+k, kv.Pos(), "%s of the struct provider comes from the type object named in new(T)", k)
					}
					if tn != nil {
						// that object is the *types.TypeName resolved from the argument of the new(...) call
						okT := false
						if d := sp.singleDef(tn); d != nil && d.idx == 0 {
							if ta, ok := ast.Unparen(d.rhs).(*ast.TypeAssertExpr); ok && types.ExprString(ta.Type) == "*types.TypeName" && sp.isCall(ta.X, pathW+".qualifiedIdentObject") != nil {
								okT = true
							}
						}
						r.Check(okT, "Struct/identity-source", cl.Pos(), "the type object is the checked *types.TypeName of new(T)'s argument")
					}
					return true
				})
			}
		})

	register("C17.R6", "command dispatch: all four commands are registered; a first argument that is not a command name runs gen; in both paths the process exits with the command's status",
		func(c *Ctx, r *R) {
			fi := r.Need(c.Fn(c.Cmd, "main"), "main")
			if fi == nil {
				return
			}
			reg := map[string]bool{}
			for _, cl := range fi.callsTo("github.com/google/subcommands.Register") {
				if u, ok := ast.Unparen(cl.Args[0]).(*ast.UnaryExpr); ok {
					if lit, ok := u.X.(*ast.CompositeLit); ok {
						reg[types.ExprString(lit.Type)] = true
					}
				}
			}
			names := map[string]string{}
			for _, t := range []string{"checkCmd", "diffCmd", "genCmd", "showCmd"} {
				r.Check(reg[t], "registered:"+t, fi.Decl.Pos(), "%s is registered", t)
				if nf := c.Fn(c.Cmd, t+".Name"); nf != nil && len(nf.returnsOf()) == 1 {
					names[t] = strings.Trim(types.ExprString(nf.returnsOf()[0].Results[0]), `"`)
				}
			}
			// the table of known command names contains every command's Name()
			known := map[string]bool{}
			fi.inspect(fi.Decl.Body, func(nd ast.Node) bool {
				if cl, ok := nd.(*ast.CompositeLit); ok {
					if _, isMap := fi.Info.TypeOf(cl).Underlying().(*types.Map); isMap {
						for _, el := range cl.Elts {
							if kv, ok := el.(*ast.KeyValueExpr); ok && types.ExprString(kv.Value) == "true" {
								known[strings.Trim(types.ExprString(kv.Key), `"`)] = true
							}
						}
					}
				}
				return true
			})
			var ts []string
			for t := range names {
				ts = append(ts, t)
			}
			sort.Strings(ts)
			for _, t := range ts {
				r.Check(known[names[t]], "known-command:"+names[t], fi.Decl.Pos(), "%q is recognised as a command name (otherwise it would be taken for a package pattern of gen)", names[t])
			}
			// every os.Exit carries a command status
			exits := 0
			for _, cl := range fi.callsTo("os.Exit") {
				exits++
				s := newEmitter(c, fi).sym(cl.Args[0])
				okE := strings.HasPrefix(s, "int(") && (strings.Contains(s, ".Execute(") || strings.Contains(s, "subcommands.Execute("))
				r.Check(okE, "exit#"+itoa(exits), cl.Pos(), "the process status is the command's result (%s)", s)
			}
			// gen is the default exactly when there is no first argument or it is not a command name
			for _, cl := range fi.callsTo("os.Exit") {
				// the default-gen exit is the one whose status is genCmd.Execute's
				isGen := false
				for _, in := range callsIn(cl.Args[0]) {
					if fi.calleeName(in) == pathCmd+".genCmd.Execute" {
						isGen = true
					}
				}
				if !isGen {
					continue
				}
				// its guards, whichever way round they are written (`if none || !known {gen}` before the dispatch, or
				// after `if some && known {dispatch}`), are true exactly when there is no first argument or it is
				// not a command name
				var argv ast.Expr
				sameArgv := true
				atom := func(e ast.Expr) (string, bool) {
					switch x := ast.Unparen(e).(type) {
					case *ast.BinaryExpr:
						lc := fi.isBuiltin(x.X, "len")
						if lc == nil || types.ExprString(x.Y) != "0" {
							return "", false
						}
						if argv != nil && !fi.sameExpr(argv, lc.Args[0]) {
							sameArgv = false
						}
						argv = lc.Args[0]
						switch x.Op {
						case token.EQL:
							return "none", true
						case token.GTR, token.NEQ:
							return "none", false
						}
					case *ast.IndexExpr:
						if _, isMap := fi.Info.TypeOf(x.X).Underlying().(*types.Map); !isMap {
							return "", false
						}
						ax, ok := ast.Unparen(x.Index).(*ast.IndexExpr)
						if !ok || types.ExprString(ax.Index) != "0" {
							return "", false
						}
						if argv != nil && !fi.sameExpr(argv, ax.X) {
							sameArgv = false
						}
						argv = ax.X
						return "known", true
					}
					return "", false
				}
				okG := true
				for _, none := range []bool{false, true} {
					for _, known := range []bool{false, true} {
						v, ok := evalGuards(fi.Guards(cl), map[string]bool{"none": none, "known": known}, atom)
						if !ok || v != (none || !known) {
							okG = false
						}
					}
				}
				okG = okG && sameArgv && argv != nil
				r.Check(okG, "default-gen-condition", cl.Pos(), "gen runs by default exactly when there is no first argument or it is not a command name")
			}
			r.Check(exits == 2, "exits", fi.Decl.Pos(), "both the default-gen path and the subcommand path end in os.Exit (%d)", exits)
		})

	register("C17.R7", "options reach the engine: each command's flags are bound to its own fields under the documented names, and Execute forwards them (header file → options, tags → options / Load, output prefix → options)",
		func(c *Ctx, r *R) {
			want := map[string]map[string]string{
				"genCmd":   {"header_file": "headerFile", "output_file_prefix": "prefixFileName", "tags": "tags"},
				"diffCmd":  {"header_file": "headerFile", "output_file_prefix": "prefixFileName", "tags": "tags"}, // every option that changes what gen writes (F: diff lacked the prefix)
				"showCmd":  {"tags": "tags"},
				"checkCmd": {"tags": "tags"},
			}
			var cmds []string
			for k := range want {
				cmds = append(cmds, k)
			}
			sort.Strings(cmds)
			for _, cmd := range cmds {
				sf := r.Need(c.Fn(c.Cmd, cmd+".SetFlags"), cmd+".SetFlags")
				if sf == nil {
					continue
				}
				got := map[string]string{}
				for _, cl := range sf.callsTo("flag.FlagSet.StringVar") {
					if u, ok := ast.Unparen(cl.Args[0]).(*ast.UnaryExpr); ok && u.Op == token.AND {
						if f := sf.selField(u.X); f != nil {
							name := strings.Trim(types.ExprString(cl.Args[1]), `"`)
							if tv, ok := sf.Info.Types[cl.Args[1]]; ok && tv.Value != nil && tv.Value.Kind() == constant.String {
								name = constant.StringVal(tv.Value) // a named constant
							}
							got[name] = f.Name()
							// an option that is not given has no effect: its default is the empty string
							// (the usage text in the default's place would become every run's tags / header file / prefix)
							def, isEmpty := "?", false
							if tv, ok := sf.Info.Types[cl.Args[2]]; ok && tv.Value != nil && tv.Value.Kind() == constant.String {
								def = constant.StringVal(tv.Value)
								isEmpty = def == ""
							}
							r.Check(isEmpty, cmd+"/flag-default:"+name, cl.Pos(), "-%s defaults to the empty string (%q)", name, def)
						}
					}
				}
				var fl []string
				for k := range want[cmd] {
					fl = append(fl, k)
				}
				sort.Strings(fl)
				for _, k := range fl {
					r.Check(got[k] == want[cmd][k], cmd+"/flag:"+k, sf.Decl.Pos(), "-%s is bound to %s.%s (got %q)", k, cmd, want[cmd][k], got[k])
				}
				ex := r.Need(c.Fn(c.Cmd, cmd+".Execute"), cmd+".Execute")
				if ex == nil {
					continue
				}
				e := newEmitter(c, ex)
				uses := map[string]bool{}
				ex.inspect(ex.Decl.Body, func(nd ast.Node) bool {
					switch x := nd.(type) {
					case *ast.AssignStmt:
						for i, l := range x.Lhs {
							if f := ex.selField(l); f != nil && i < len(x.Rhs) {
								uses[f.Name()+"←"+e.sym(x.Rhs[i])] = true
							}
						}
					case *ast.CallExpr:
						n := ex.calleeName(x)
						if n == pathCmd+".newGenerateOptions" {
							uses["header→"+e.sym(x.Args[0])] = true
						}
						if n == pathW+".Load" {
							uses["loadtags→"+e.sym(x.Args[3])] = true
						}
					}
					return true
				})
				if _, ok := want[cmd]["header_file"]; ok {
					r.Check(uses["header→recv.headerFile"], cmd+"/forwards:header_file", ex.Decl.Pos(), "the header file flag reaches newGenerateOptions")
					r.Check(uses["Tags←recv.tags"], cmd+"/forwards:tags", ex.Decl.Pos(), "the tags flag reaches GenerateOptions.Tags")
				} else {
					r.Check(uses["loadtags→recv.tags"], cmd+"/forwards:tags", ex.Decl.Pos(), "the tags flag reaches Load")
				}
				if _, ok := want[cmd]["output_file_prefix"]; ok {
					r.Check(uses["PrefixOutputFile←recv.prefixFileName"], cmd+"/forwards:output_file_prefix", ex.Decl.Pos(), "the output prefix flag reaches GenerateOptions.PrefixOutputFile")
				}
			}
		})
	register("C14.R5", "value variables get identifier names and a declarable type: the name of a value's package-level variable is derived from the recorded type of its expression; a constructor whose provided type is not the expression's own type rejects an untyped nil expression (its type name \"untyped nil\" is not an identifier and `var x = nil` is not Go); where the provided type IS the expression's type, an untyped nil can never be demanded",
		func(c *Ctx, r *R) {
			n := 0
			for _, name := range []string{"processValue", "processInterfaceValue"} {
				fi := r.Need(c.Fn(c.W, name), name)
				if fi == nil {
					continue
				}
				fi.inspect(fi.Decl.Body, func(nd ast.Node) bool {
					cl, ok := nd.(*ast.CompositeLit)
					if !ok || !isNamed(fi.Info.TypeOf(cl), pathW, "Value") {
						return true
					}
					n++
					var outV, exprV ast.Expr
					for _, el := range cl.Elts {
						if kv, ok := el.(*ast.KeyValueExpr); ok {
							switch kv.Key.(*ast.Ident).Name {
							case "Out":
								outV = kv.Value
							case "expr":
								exprV = kv.Value
							}
						}
					}
					if outV == nil || exprV == nil {
						r.Bad(name+"/Value-fields", cl.Pos(), "Value literal without Out or expr")
						return true
					}
					if tc := fi.isCall(fi.deref(outV), "go/types.Info.TypeOf"); tc != nil && fi.sameExpr(tc.Args[0], exprV) {
						r.Ok(name+"/typed-expression", cl.Pos(), "the provided type is the expression's own recorded type: an untyped nil is provided as \"untyped nil\", which no parameter, field or result can demand, so it is never emitted")
						return true
					}
					// a dominating rejection of UntypedNil on TypeOf(expr)
					okG := false
					for _, g := range fi.Guards(cl) {
						if !g.Neg {
							continue
						}
						mentionsNil, onExpr := false, false
						ast.Inspect(g.Expr, func(x ast.Node) bool {
							if se, ok := x.(*ast.SelectorExpr); ok && se.Sel.Name == "UntypedNil" {
								mentionsNil = true
							}
							if e, ok := x.(ast.Expr); ok {
								if tc := fi.isCall(fi.deref(e), "go/types.Info.TypeOf"); tc != nil && fi.sameExpr(tc.Args[0], exprV) {
									onExpr = true
								}
								src := fi.deref(e)
								if d := fi.defOf(e); d != nil && d.idx == 0 && d.rhs != nil {
									src = d.rhs // v, ok := x.(T)
								}
								if ta, ok := ast.Unparen(src).(*ast.TypeAssertExpr); ok {
									if tc := fi.isCall(fi.deref(ta.X), "go/types.Info.TypeOf"); tc != nil && fi.sameExpr(tc.Args[0], exprV) {
										onExpr = true
									}
								}
							}
							return true
						})
						if mentionsNil && onExpr {
							okG = true
						}
					}
					r.Check(okG, name+"/rejects-untyped-nil", cl.Pos(), "the expression's type differs from the provided type, so an untyped nil expression must be rejected before the Value is built")
					return true
				})
			}
			r.Floor("Value constructors", n, 2)
			// the name is seeded with the expression's recorded type
			if fi := r.Need(c.Fn(c.W, "gen.inject"), "gen.inject"); fi != nil {
				ok := false
				for _, cl := range fi.callsTo(pathW + ".typeVariableName") {
					if tc := fi.isCall(fi.deref(cl.Args[0]), "go/types.Info.TypeOf"); tc != nil {
						if f := fi.selField(tc.Args[0]); f != nil && f.Name() == "valueExpr" {
							ok = true
						}
					}
				}
				r.Check(ok, "inject/value-name-from-expression-type", fi.Decl.Pos(), "a value variable's name is derived from TypeOf(the value expression)")
			}
		})
	register("C19.R6", "show's groups own their input sets: in gather, a set of required inputs stored in a group is a map allocated for that group; no local aliases a stored group's set and a stored set is never mutated — so a provider joins a group only when its requirements equal the group's",
		func(c *Ctx, r *R) {
			fi := r.Need(c.Fn(c.Cmd, "gather"), "gather")
			if fi == nil {
				return
			}
			isTM := func(t types.Type) bool {
				return t != nil && types.TypeString(t, nil) == "*golang.org/x/tools/go/types/typeutil.Map"
			}
			var freshIn func(f *FuncInfo, e ast.Expr, depth int) bool
			freshIn = func(f *FuncInfo, e ast.Expr, depth int) bool {
				e = ast.Unparen(e)
				if nw := f.isBuiltin(e, "new"); nw != nil {
					return true
				}
				if u, ok := e.(*ast.UnaryExpr); ok && u.Op == token.AND {
					_, isLit := u.X.(*ast.CompositeLit)
					return isLit
				}
				// a local bound only to allocations
				if v := f.varOf(e); v != nil && !f.isParam(v) && len(f.defs[v]) > 0 {
					for _, d := range f.defs[v] {
						if d.rhs == nil || d.idx > 0 || !freshIn(f, d.rhs, depth) {
							return false
						}
					}
					return true
				}
				// a constructor of the module: every return is an allocation
				if cl, ok := e.(*ast.CallExpr); ok && depth < 2 {
					if h := c.FnOf(f.callee(cl)); h != nil && h.Decl.Body != nil {
						rets := h.returnsOf()
						if len(rets) == 0 {
							return false
						}
						for _, rt := range rets {
							if len(rt.Results) != 1 || !freshIn(h, rt.Results[0], depth+1) {
								return false
							}
						}
						return true
					}
				}
				return false
			}
			fresh := func(e ast.Expr) bool { return freshIn(fi, e, 0) }
			// every local of map type: all definitions allocate
			locals := 0
			seen := map[*types.Var]bool{}
			fi.inspect(fi.Decl.Body, func(nd ast.Node) bool {
				id, ok := nd.(*ast.Ident)
				if !ok {
					return true
				}
				v, ok := fi.Info.Defs[id].(*types.Var)
				if !ok || !isTM(v.Type()) || seen[v] {
					return true
				}
				seen[v] = true
				locals++
				okF := len(fi.defs[v]) > 0
				for _, d := range fi.defs[v] {
					if d.rhs == nil || d.idx > 0 || !fresh(d.rhs) {
						okF = false
					}
				}
				r.Check(okF, "gather/fresh:"+v.Name()+"#"+itoa(locals), id.Pos(), "%s is only ever bound to a newly allocated map (never to a set already stored in a group)", v.Name())
				return true
			})
			r.Floor("type-set locals", locals, 6)
			// stored sets are read-only: mutators are applied to locals only
			muts := 0
			for _, cl := range fi.callsDeep(fi.Decl.Body) {
				var target ast.Expr
				switch n := fi.calleeName(cl); {
				case n == "golang.org/x/tools/go/types/typeutil.Map.Set" || n == "golang.org/x/tools/go/types/typeutil.Map.Delete" || n == "golang.org/x/tools/go/types/typeutil.Map.SetHasher":
					target = recvOf(cl)
				case n == pathCmd+".mergeTypeSets":
					target = cl.Args[0]
				default:
					continue
				}
				muts++
				if f := fi.selField(target); f != nil && f.Name() == "inputs" {
					r.Bad("gather/stored-inputs-mutated", cl.Pos(), "a group's stored input set is modified in place: %s", exprShort(target))
				}
			}
			r.Floor("set mutations examined", muts, 10)
			// mergeTypeSets writes only its first argument
			if mf := r.Need(c.Fn(c.Cmd, "mergeTypeSets"), "mergeTypeSets"); mf != nil {
				okM := true
				var p0 *types.Var
				if ps := mf.Decl.Type.Params.List; len(ps) > 0 && len(ps[0].Names) > 0 {
					p0, _ = mf.Info.Defs[ps[0].Names[0]].(*types.Var)
				}
				for _, cl := range mf.callsDeep(mf.Decl.Body) {
					if n := mf.calleeName(cl); strings.HasSuffix(n, "typeutil.Map.Set") || strings.HasSuffix(n, "typeutil.Map.Delete") {
						if mf.varOf(recvOf(cl)) != p0 {
							okM = false
						}
					}
				}
				r.Check(okM && p0 != nil, "mergeTypeSets/writes-destination-only", mf.Decl.Pos(), "mergeTypeSets modifies only its first argument")
			}
		})
	register("C01.R8", "the emitted injector reproduces every component of the declared signature: of the accessors go/types offers on a function signature (computed from the type: Params, Results, Variadic, Recv, TypeParams, RecvTypeParams), parameters, results and variadic-ness are read by the emitters, and a receiver or a type parameter list — which the emitters never print — is rejected by the signature check that gen and check share",
		func(c *Ctx, r *R) {
			isf := r.Need(c.Fn(c.W, "injectorFuncSignature"), "injectorFuncSignature")
			ip := r.Need(c.Fn(c.W, "injectPass"), "injectPass")
			fo := r.Need(c.Fn(c.W, "funcOutput"), "funcOutput")
			if isf == nil || ip == nil || fo == nil {
				return
			}
			// universe: niladic methods of *types.Signature that describe the declaration
			var sigT *types.Named
			for _, im := range c.W.Types.Imports() {
				if im.Path() == "go/types" {
					if o, ok := im.Scope().Lookup("Signature").(*types.TypeName); ok {
						sigT, _ = o.Type().(*types.Named)
					}
				}
			}
			if sigT == nil {
				r.Bad("types.Signature", isf.Decl.Pos(), "go/types.Signature not found")
				return
			}
			var accs []string
			ms := types.NewMethodSet(types.NewPointer(sigT))
			for i := 0; i < ms.Len(); i++ {
				m := ms.At(i).Obj().(*types.Func)
				msig := m.Type().(*types.Signature)
				if !m.Exported() || msig.Params().Len() != 0 || msig.Results().Len() != 1 {
					continue
				}
				switch m.Name() {
				case "String", "Underlying":
					continue // not components of the declaration
				}
				accs = append(accs, m.Name())
			}
			sort.Strings(accs)
			r.Floor("signature components", len(accs), 6)
			uses := func(fi *FuncInfo, acc string) bool {
				return len(fi.callsTo("go/types.Signature."+acc)) > 0
			}
			rejected := func(acc string) bool {
				for _, ret := range isf.returnsOf() {
					if len(ret.Results) == 0 || isf.isNilIdent(ret.Results[len(ret.Results)-1]) {
						continue
					}
					for _, g := range isf.Guards(ret) {
						if g.Neg || g.Kind != "bool" {
							continue
						}
						be, ok := ast.Unparen(g.Expr).(*ast.BinaryExpr)
						if !ok {
							continue
						}
						x := ast.Unparen(be.X)
						nonEmpty := false
						if lc := isf.isCall(x, "go/types.TypeParamList.Len", "go/types.Tuple.Len"); lc != nil {
							x = recvOf(lc)
							nonEmpty = (be.Op == token.GTR || be.Op == token.NEQ) && types.ExprString(be.Y) == "0"
						} else {
							nonEmpty = be.Op == token.NEQ && isf.isNilIdent(be.Y)
						}
						if nonEmpty && isf.isCall(isf.deref(x), "go/types.Signature."+acc) != nil {
							return true
						}
					}
				}
				return false
			}
			for _, acc := range accs {
				switch acc {
				case "Params", "Variadic":
					r.Check(uses(ip, acc), "component:"+acc, ip.Decl.Pos(), "%s is read by the injector emitter", acc)
				case "Results":
					r.Check(uses(fo, acc) && len(ip.callsTo(pathW+".funcOutput")) > 0, "component:"+acc, fo.Decl.Pos(), "Results is read by funcOutput, which the emitter consults")
				case "RecvTypeParams":
					r.Check(rejected("Recv"), "component:"+acc, isf.Decl.Pos(), "receiver type parameters exist only on methods, which are rejected")
				default:
					// anything else (Recv, TypeParams, and whatever a later go/types adds) is not printed: it must be rejected
					if uses(ip, acc) {
						r.Ok("component:"+acc, ip.Decl.Pos(), "%s is read by the injector emitter", acc)
					} else {
						r.Check(rejected(acc), "component:"+acc, isf.Decl.Pos(), "the emitter prints no %s, so a signature that has one is rejected with a diagnostic", acc)
					}
				}
			}
			// both drivers go through the shared signature check (C19.R2 checks the order and the error handling)
			for _, name := range []string{"generateInjectors", "Load"} {
				if fi := r.Need(c.Fn(c.W, name), name); fi != nil {
					r.Check(len(fi.callsTo(pathW+".injectorFuncSignature")) > 0, name+"/uses-shared-signature-check", fi.Decl.Pos(), "%s validates each injector with injectorFuncSignature", name)
				}
			}
		})
}
