package main

import (
	"go/ast"
	"go/token"
	"go/types"
	"sort"
	"strings"
)

func init() {
	register("C01.R7", "import aliases are declared when needed: an import entry records the chosen name and differs = (chosen name != the package's own name), stored under the canonical path; the own package is never imported",
		func(c *Ctx, r *R) {
			fi := r.Need(c.Fn(c.W, "gen.qualifyImport"), "gen.qualifyImport")
			if fi == nil {
				return
			}
			e := newEmitter(c, fi)
			n := 0
			fi.inspect(fi.Decl.Body, func(nd ast.Node) bool {
				cl, ok := nd.(*ast.CompositeLit)
				if !ok || !isNamed(fi.Info.TypeOf(cl), pathW, "importInfo") {
					return true
				}
				n++
				var nameV, diffV ast.Expr
				for _, el := range cl.Elts {
					if kv, ok := el.(*ast.KeyValueExpr); ok {
						switch kv.Key.(*ast.Ident).Name {
						case "name":
							nameV = kv.Value
						case "differs":
							diffV = kv.Value
						}
					}
				}
				if nameV == nil || diffV == nil {
					r.Bad("importInfo/fields", cl.Pos(), "importInfo literal does not set both name and differs")
					return true
				}
				okD := false
				if be, ok := ast.Unparen(fi.deref(diffV)).(*ast.BinaryExpr); ok && be.Op == token.NEQ {
					a, b := be.X, be.Y
					if fi.sameExpr(b, nameV) {
						a, b = b, a
					}
					if fi.sameExpr(a, nameV) {
						if pv := fi.varOf(b); pv != nil && fi.isParam(pv) && e.sym(b) == "$0" {
							okD = true
						}
					}
				}
				r.Check(okD, "importInfo/differs", cl.Pos(), "differs is exactly (chosen name != package name), so an alias is printed whenever the chosen name is not the package's own")
				// the returned qualifier is the stored name
				rets := fi.returnsOf()
				last := rets[len(rets)-1]
				r.Check(fi.sameExpr(last.Results[0], nameV), "importInfo/returned-name", last.Pos(), "the qualifier returned for a new import is the name recorded for it")
				return true
			})
			r.Floor("importInfo literals", n, 1)
			// a known import returns its recorded name
			okKnown := false
			for _, ret := range fi.returnsOf() {
				if f := fi.selField(ret.Results[0]); f != nil && f.Name() == "name" {
					for _, g := range fi.Guards(ret) {
						if v := fi.varOf(g.Expr); v != nil && !g.Neg && types.TypeString(v.Type(), nil) == "bool" {
							okKnown = true
						}
					}
				}
			}
			r.Check(okKnown, "imports/known-path-reuses-name", fi.Decl.Pos(), "a path already in the table yields the name recorded for it")
		})

	register("C12.R5", "\"*\" means all fields only when it is the sole field argument: allFields holds iff there are exactly two arguments and the second is the string literal \"*\"; the struct's identity (package, name, position) is taken from the type named in new(T)",
		func(c *Ctx, r *R) {
			fi := r.Need(c.Fn(c.W, "allFields"), "allFields")
			if fi != nil {
				rets := fi.returnsOf()
				arity, literal, cmp := false, false, false
				for _, ret := range rets {
					isFalse := types.ExprString(ret.Results[0]) == "false"
					for _, g := range fi.Guards(ret) {
						if be, ok := ast.Unparen(g.Expr).(*ast.BinaryExpr); ok && isFalse && !g.Neg && be.Op == token.NEQ && types.ExprString(be.Y) == "2" && fi.isBuiltin(be.X, "len") != nil {
							arity = true
						}
						if v := fi.varOf(g.Expr); v != nil && isFalse && g.Neg {
							for _, d := range fi.defs[v] {
								if ta, ok := ast.Unparen(d.rhs).(*ast.TypeAssertExpr); ok && types.ExprString(ta.Type) == "*ast.BasicLit" {
									if ix, ok := ast.Unparen(ta.X).(*ast.IndexExpr); ok && types.ExprString(ix.Index) == "1" {
										literal = true
									}
								}
							}
						}
					}
				}
				last := rets[len(rets)-1]
				s := newEmitter(c, fi).sym(last.Results[0])
				cmp = (strings.Contains(s, `strconv.Quote("*")`) || strings.Contains(s, `"\"*\""`) || strings.Contains(s, "`\"*\"`")) && strings.Contains(s, ".Value")
				r.Check(arity, "allFields/exactly-two-arguments", fi.Decl.Pos(), "any other number of arguments is not the all-fields form")
				r.Check(literal, "allFields/literal", fi.Decl.Pos(), "a non-literal second argument is not the all-fields form")
				r.Check(cmp, "allFields/star", last.Pos(), "the literal is compared with the quoted \"*\" (%s)", s)
			}
			sp := r.Need(c.Fn(c.W, "processStructProvider"), "processStructProvider")
			if sp != nil {
				sp.inspect(sp.Decl.Body, func(nd ast.Node) bool {
					cl, ok := nd.(*ast.CompositeLit)
					if !ok || !isNamed(sp.Info.TypeOf(cl), pathW, "Provider") {
						return true
					}
					var tn *types.Var
					for _, el := range cl.Elts {
						kv := el.(*ast.KeyValueExpr)
						k := kv.Key.(*ast.Ident).Name
						want := map[string]string{"Pkg": "go/types.object.Pkg", "Name": "go/types.object.Name", "Pos": "go/types.object.Pos"}[k]
						if want == "" {
							continue
						}
						call := sp.isCall(kv.Value, want, strings.Replace(want, "object", "TypeName", 1), strings.Replace(want, "object", "Object", 1))
						okK := call != nil && sp.varOf(recvOf(call)) != nil
						if okK {
							if tn == nil {
								tn = sp.varOf(recvOf(call))
							}
							okK = sp.varOf(recvOf(call)) == tn
						}
						r.Check(okK, "Struct/identity:"+k, kv.Pos(), "%s of the struct provider comes from the type object named in new(T)", k)
					}
					if tn != nil {
						// that object is the *types.TypeName resolved from the argument of the new(...) call
						okT := false
						if d := sp.singleDef(tn); d != nil && d.idx == 0 {
							if ta, ok := ast.Unparen(d.rhs).(*ast.TypeAssertExpr); ok && types.ExprString(ta.Type) == "*types.TypeName" && sp.isCall(ta.X, pathW+".qualifiedIdentObject") != nil {
								okT = true
							}
						}
						r.Check(okT, "Struct/identity-source", cl.Pos(), "the type object is the checked *types.TypeName of new(T)'s argument")
					}
					return true
				})
			}
		})

	register("C17.R6", "command dispatch: all four commands are registered; a first argument that is not a command name runs gen; in both paths the process exits with the command's status",
		func(c *Ctx, r *R) {
			fi := r.Need(c.Fn(c.Cmd, "main"), "main")
			if fi == nil {
				return
			}
			reg := map[string]bool{}
			for _, cl := range fi.callsTo("github.com/google/subcommands.Register") {
				if u, ok := ast.Unparen(cl.Args[0]).(*ast.UnaryExpr); ok {
					if lit, ok := u.X.(*ast.CompositeLit); ok {
						reg[types.ExprString(lit.Type)] = true
					}
				}
			}
			names := map[string]string{}
			for _, t := range []string{"checkCmd", "diffCmd", "genCmd", "showCmd"} {
				r.Check(reg[t], "registered:"+t, fi.Decl.Pos(), "%s is registered", t)
				if nf := c.Fn(c.Cmd, t+".Name"); nf != nil && len(nf.returnsOf()) == 1 {
					names[t] = strings.Trim(types.ExprString(nf.returnsOf()[0].Results[0]), `"`)
				}
			}
			// the table of known command names contains every command's Name()
			known := map[string]bool{}
			fi.inspect(fi.Decl.Body, func(nd ast.Node) bool {
				if cl, ok := nd.(*ast.CompositeLit); ok {
					if _, isMap := fi.Info.TypeOf(cl).Underlying().(*types.Map); isMap {
						for _, el := range cl.Elts {
							if kv, ok := el.(*ast.KeyValueExpr); ok && types.ExprString(kv.Value) == "true" {
								known[strings.Trim(types.ExprString(kv.Key), `"`)] = true
							}
						}
					}
				}
				return true
			})
			var ts []string
			for t := range names {
				ts = append(ts, t)
			}
			sort.Strings(ts)
			for _, t := range ts {
				r.Check(known[names[t]], "known-command:"+names[t], fi.Decl.Pos(), "%q is recognised as a command name (otherwise it would be taken for a package pattern of gen)", names[t])
			}
			// every os.Exit carries a command status
			exits := 0
			for _, cl := range fi.callsTo("os.Exit") {
				exits++
				s := newEmitter(c, fi).sym(cl.Args[0])
				okE := strings.HasPrefix(s, "int(") && (strings.Contains(s, ".Execute(") || strings.Contains(s, "subcommands.Execute("))
				r.Check(okE, "exit#"+itoa(exits), cl.Pos(), "the process status is the command's result (%s)", s)
			}
			// gen is the default exactly when there is no first argument or it is not a command name
			for _, cl := range fi.callsTo("os.Exit") {
				gs := fi.Guards(cl)
				if len(gs) == 0 || gs[0].Neg {
					continue // the subcommand path: what remains after the default
				}
				okG := false
				if len(gs) == 1 && !gs[0].Neg {
					if be, ok := ast.Unparen(gs[0].Expr).(*ast.BinaryExpr); ok && be.Op == token.LOR {
						l, isLen := ast.Unparen(be.X).(*ast.BinaryExpr)
						u, isNot := ast.Unparen(be.Y).(*ast.UnaryExpr)
						if isLen && isNot && l.Op == token.EQL && types.ExprString(l.Y) == "0" && u.Op == token.NOT {
							if lc := fi.isBuiltin(l.X, "len"); lc != nil {
								if ix, ok := ast.Unparen(u.X).(*ast.IndexExpr); ok {
									if _, isMap := fi.Info.TypeOf(ix.X).Underlying().(*types.Map); isMap {
										if ax, ok := ast.Unparen(ix.Index).(*ast.IndexExpr); ok && types.ExprString(ax.Index) == "0" && fi.sameExpr(ax.X, lc.Args[0]) {
											okG = true
										}
									}
								}
							}
						}
					}
				}
				r.Check(okG, "default-gen-condition", cl.Pos(), "gen runs by default exactly when there is no first argument or it is not a command name")
			}
			r.Check(exits == 2, "exits", fi.Decl.Pos(), "both the default-gen path and the subcommand path end in os.Exit (%d)", exits)
		})

	register("C17.R7", "options reach the engine: each command's flags are bound to its own fields under the documented names, and Execute forwards them (header file → options, tags → options / Load, output prefix → options)",
		func(c *Ctx, r *R) {
			want := map[string]map[string]string{
				"genCmd":   {"header_file": "headerFile", "output_file_prefix": "prefixFileName", "tags": "tags"},
				"diffCmd":  {"header_file": "headerFile", "tags": "tags"},
				"showCmd":  {"tags": "tags"},
				"checkCmd": {"tags": "tags"},
			}
			var cmds []string
			for k := range want {
				cmds = append(cmds, k)
			}
			sort.Strings(cmds)
			for _, cmd := range cmds {
				sf := r.Need(c.Fn(c.Cmd, cmd+".SetFlags"), cmd+".SetFlags")
				if sf == nil {
					continue
				}
				got := map[string]string{}
				for _, cl := range sf.callsTo("flag.FlagSet.StringVar") {
					if u, ok := ast.Unparen(cl.Args[0]).(*ast.UnaryExpr); ok && u.Op == token.AND {
						if f := sf.selField(u.X); f != nil {
							got[strings.Trim(types.ExprString(cl.Args[1]), `"`)] = f.Name()
						}
					}
				}
				var fl []string
				for k := range want[cmd] {
					fl = append(fl, k)
				}
				sort.Strings(fl)
				for _, k := range fl {
					r.Check(got[k] == want[cmd][k], cmd+"/flag:"+k, sf.Decl.Pos(), "-%s is bound to %s.%s (got %q)", k, cmd, want[cmd][k], got[k])
				}
				ex := r.Need(c.Fn(c.Cmd, cmd+".Execute"), cmd+".Execute")
				if ex == nil {
					continue
				}
				e := newEmitter(c, ex)
				uses := map[string]bool{}
				ex.inspect(ex.Decl.Body, func(nd ast.Node) bool {
					switch x := nd.(type) {
					case *ast.AssignStmt:
						for i, l := range x.Lhs {
							if f := ex.selField(l); f != nil && i < len(x.Rhs) {
								uses[f.Name()+"←"+e.sym(x.Rhs[i])] = true
							}
						}
					case *ast.CallExpr:
						n := ex.calleeName(x)
						if n == pathCmd+".newGenerateOptions" {
							uses["header→"+e.sym(x.Args[0])] = true
						}
						if n == pathW+".Load" {
							uses["loadtags→"+e.sym(x.Args[3])] = true
						}
					}
					return true
				})
				if _, ok := want[cmd]["header_file"]; ok {
					r.Check(uses["header→recv.headerFile"], cmd+"/forwards:header_file", ex.Decl.Pos(), "the header file flag reaches newGenerateOptions")
					r.Check(uses["Tags←recv.tags"], cmd+"/forwards:tags", ex.Decl.Pos(), "the tags flag reaches GenerateOptions.Tags")
				} else {
					r.Check(uses["loadtags→recv.tags"], cmd+"/forwards:tags", ex.Decl.Pos(), "the tags flag reaches Load")
				}
				if _, ok := want[cmd]["output_file_prefix"]; ok {
					r.Check(uses["PrefixOutputFile←recv.prefixFileName"], cmd+"/forwards:output_file_prefix", ex.Decl.Pos(), "the output prefix flag reaches GenerateOptions.PrefixOutputFile")
				}
			}
		})
}
