package main

import (
	"go/ast"
	"go/token"
	"go/types"
)

// Rules added after the third probing round (DESIGN.md §5, F43–F47).

func init() {
	register("C05.R5", "no wire.Build call escapes analysis: findInjectorBuild declares a function a non-injector (nil call, nil error) only when it has no body or when no call of wire.Build occurs anywhere in the body; the search for such calls walks the whole body and recognises the callee by the object it denotes",
		func(c *Ctx, r *R) {
			fi := r.Need(c.Fn(c.W, "findInjectorBuild"), "findInjectorBuild")
			if fi == nil {
				return
			}
			// the searching helper (analysed in place when it has one call site; specialised otherwise)
			isSearch := func(cl *ast.CallExpr) bool {
				h := fi.C.linked[cl]
				if h == nil {
					if f := fi.callee(cl); f != nil {
						h = fi.C.FnOf(f)
					}
				}
				if h == nil || len(cl.Args) < 2 {
					return false
				}
				// it inspects its block parameter completely and answers true exactly for calls denoting wire.Build
				whole, byObject := false, false
				for _, in := range h.callsDeep(h.Decl.Body) {
					if h.calleeName(in) == "go/ast.Inspect" && len(in.Args) == 2 {
						if v := h.varOf(in.Args[0]); v != nil && h.isParam(v) {
							whole = true
							// the walk goes on while nothing was found: the callback returns true, or the negation of its found flag
							if lit, ok := ast.Unparen(h.deref(in.Args[1])).(*ast.FuncLit); ok {
								ast.Inspect(lit.Body, func(m ast.Node) bool {
									if inner, isLit := m.(*ast.FuncLit); isLit && inner != lit {
										return false
									}
									ret, ok := m.(*ast.ReturnStmt)
									if !ok || len(ret.Results) != 1 {
										return true
									}
									e := ast.Unparen(ret.Results[0])
									if id, isId := e.(*ast.Ident); isId && id.Name == "true" {
										return true
									}
									if u, isU := e.(*ast.UnaryExpr); isU && u.Op == token.NOT {
										if fv := h.varOf(u.X); fv != nil && h.isFlag(fv, false) {
											return true
										}
									}
									whole = false
									return true
								})
							}
						}
					}
					if h.calleeName(in) == pathW+".isWireImport" {
						byObject = true
					}
				}
				build := false
				h.inspect(h.Decl.Body, func(n ast.Node) bool {
					if lit, ok := n.(*ast.BasicLit); ok && lit.Value == `"Build"` {
						build = true
					}
					return true
				})
				// … and answers true exactly under that match: a flag that starts false and is set under the test, returned
				answers := false
				for v, ds := range h.defs {
					if len(ds) == 0 || ds[0].node == nil || !h.within(ds[0].node, h.Decl) || !h.isFlag(v, false) {
						continue
					}
					for _, d := range ds {
						if d.kind != "assign" {
							continue
						}
						for _, g := range h.Guards(d.node) {
							hit := false
							h.inspect(g.Expr, func(m ast.Node) bool { // (through predicates analysed in place)
								if cl2, ok := m.(*ast.CallExpr); ok && h.calleeName(cl2) == pathW+".isWireImport" {
									hit = true
								}
								return true
							})
							if hit && !g.Neg {
								for _, ret := range h.returnsOf() {
									if len(ret.Results) == 1 && h.varOf(ret.Results[0]) == v {
										answers = true
									}
								}
							}
						}
					}
				}
				return whole && byObject && build && answers
			}
			n := 0
			for i, ret := range fi.returnsOf() {
				if len(ret.Results) != 2 || !fi.isNilIdent(ret.Results[0]) || !fi.isNilIdent(ret.Results[1]) {
					continue
				}
				n++
				ok, why := false, "a function is reported as not being an injector without looking for wire.Build calls in its body"
				for _, g := range fi.Guards(ret) {
					if x, isNil, isT := fi.nilTest(g); isT && isNil {
						if f := fi.selField(x); f != nil && f.Name() == "Body" {
							ok, why = true, "the function has no body"
						}
					}
					if g.Kind == "bool" && g.Neg {
						if cl, isCall := ast.Unparen(g.Expr).(*ast.CallExpr); isCall && isSearch(cl) {
							if f := fi.selField(cl.Args[1]); f != nil && f.Name() == "Body" {
								ok, why = true, "no wire.Build call occurs anywhere in the body"
							}
						}
					}
				}
				r.Check(ok, "findInjectorBuild/not-an-injector#"+itoa(i), ret.Pos(), "%s", why)
			}
			r.Floor("not-an-injector returns", n, 2)
		})

	register("C17.R10", "the default-command form takes gen's options: the genCmd that main executes when no command is named has had SetFlags called on the very flag set it is executed with, before that flag set is parsed",
		func(c *Ctx, r *R) {
			fi := r.Need(c.Fn(c.Cmd, "main"), "main")
			if fi == nil {
				return
			}
			n := 0
			for _, ex := range fi.callsTo(pathCmd + ".genCmd.Execute") {
				n++
				recv := fi.varOf(recvOf(ex))
				ok, why := false, "the default gen command is executed with a flag set on which its options were never registered: `wire -tags x ./pkg` fails with \"flag provided but not defined\""
				if recv != nil && len(ex.Args) == 2 {
					for _, sf := range fi.callsTo(pathCmd + ".genCmd.SetFlags") {
						if fi.varOf(recvOf(sf)) != recv || len(sf.Args) != 1 || !fi.sameExpr(sf.Args[0], ex.Args[1]) {
							continue
						}
						if !fi.unconditionalIn(sf, fi.Decl.Body) {
							continue
						}
						for _, ps := range fi.callsTo("flag.Parse") {
							if startOf(sf) < startOf(ps) && startOf(ps) < startOf(ex) {
								ok, why = true, "options registered on the command line's flag set before it is parsed"
							}
						}
					}
				}
				r.Check(ok, "main/default-gen-options-registered", ex.Pos(), "%s", why)
			}
			r.Floor("default gen executions in main", n, 1)
		})

	register("C10.R12", "wire.Struct resolves its type operand through instantiation syntax: in processStructProvider the expression given to qualifiedIdentObject has *ast.IndexExpr and *ast.IndexListExpr unwrapped to their X (new(Box[int]) names the generic struct Box), and the emitter writes a directly named instantiated struct with its type arguments",
		func(c *Ctx, r *R) {
			fi := r.Need(c.Fn(c.W, "processStructProvider"), "processStructProvider")
			if fi == nil {
				return
			}
			unwrapped := map[string]bool{}
			var target *types.Var
			for _, cl := range fi.callsTo(pathW + ".qualifiedIdentObject") {
				if len(cl.Args) == 2 {
					if v := fi.varOf(cl.Args[1]); v != nil {
						target = v
					}
				}
			}
			if target != nil {
				fi.inspect(fi.Decl.Body, func(n ast.Node) bool {
					as, ok := n.(*ast.AssignStmt)
					if !ok || len(as.Lhs) != 1 || len(as.Rhs) != 1 || fi.varOf(as.Lhs[0]) != target {
						return true
					}
					sel, ok := ast.Unparen(as.Rhs[0]).(*ast.SelectorExpr)
					if !ok || sel.Sel.Name != "X" {
						return true
					}
					if t := fi.Info.TypeOf(sel.X); t != nil {
						unwrapped[types.TypeString(t, nil)] = true
					}
					return true
				})
			}
			r.Check(target != nil, "Struct/type-operand", fi.Decl.Pos(), "the type operand handed to qualifiedIdentObject is a local the function may rewrite")
			for _, k := range []string{"*go/ast.IndexExpr", "*go/ast.IndexListExpr"} {
				r.Check(unwrapped[k], "Struct/unwraps:"+k, fi.Decl.Pos(), "%s is unwrapped to the generic type's name", k)
			}
			if t := traceOf(c, r, "injectorGen.structProviderCall"); t != nil {
				r.Check(containsAll(t.text, "TypeArgs().Len()>0", "types.TypeString(", "recv.g.qualifyPkg"), "Struct/emits-type-arguments", t.fi.Decl.Pos(), "an instantiated struct type is printed with its type arguments through the import-registering qualifier")
			}
		})
}

func containsAll(s string, subs ...string) bool {
	for _, x := range subs {
		found := false
		for i := 0; i+len(x) <= len(s); i++ {
			if s[i:i+len(x)] == x {
				found = true
				break
			}
		}
		if !found {
			return false
		}
	}
	return true
}

func init() {
	register("C01.R13", "an injector file is listed once: generateInjectors appends the file of an injector to the list handed to the declaration copier exactly when the list is empty or its LAST element is another file (files are visited one after the other, so equal files are adjacent); listing a file twice copies its other declarations twice",
		func(c *Ctx, r *R) {
			fi := r.Need(c.Fn(c.W, "generateInjectors"), "generateInjectors")
			if fi == nil {
				return
			}
			n := 0
			fi.inspect(fi.Decl.Body, func(nd ast.Node) bool {
				as, ok := nd.(*ast.AssignStmt)
				if !ok || len(as.Lhs) != 1 || len(as.Rhs) != 1 {
					return true
				}
				ap := fi.isBuiltin(as.Rhs[0], "append")
				if ap == nil || len(ap.Args) != 2 || types.TypeString(fi.Info.TypeOf(as.Lhs[0]), nil) != "[]*go/ast.File" {
					return true
				}
				list, file := fi.varOf(as.Lhs[0]), fi.varOf(ap.Args[1])
				if list == nil || file == nil || fi.varOf(ap.Args[0]) != list {
					return true
				}
				n++
				// the file is the variable of an enclosing loop over the package's files
				inFileLoop := false
				for l := fi.enclosingLoop(as); l != nil; l = fi.enclosingLoop(l) {
					if rs, ok := l.(*ast.RangeStmt); ok && rs.Value != nil && fi.varOf(rs.Value) == file {
						inFileLoop = true
					}
				}
				r.Check(inFileLoop, "generateInjectors/lists-the-visited-file", as.Pos(), "the listed file is the one being visited")
				atom := func(e ast.Expr) (string, bool) {
					be, ok := ast.Unparen(e).(*ast.BinaryExpr)
					if !ok {
						return "", false
					}
					if l := fi.isBuiltin(be.X, "len"); l != nil && fi.varOf(l.Args[0]) == list && types.ExprString(be.Y) == "0" {
						switch be.Op {
						case token.EQL:
							return "empty", true
						case token.GTR, token.NEQ:
							return "empty", false
						}
					}
					if be.Op == token.EQL || be.Op == token.NEQ {
						x, y := be.X, be.Y
						if fi.varOf(y) != file {
							x, y = y, x
						}
						if ix, ok := ast.Unparen(x).(*ast.IndexExpr); ok && fi.varOf(y) == file && fi.varOf(ix.X) == list {
							// the index is len(list)-1
							if sub, ok := ast.Unparen(fi.deref(ix.Index)).(*ast.BinaryExpr); ok && sub.Op == token.SUB && types.ExprString(sub.Y) == "1" {
								if l := fi.isBuiltin(fi.deref(sub.X), "len"); l != nil && fi.varOf(l.Args[0]) == list {
									return "lastIsOther", be.Op == token.NEQ
								}
							}
						}
					}
					return "", false
				}
				var gs []Cond
				for _, g := range fi.Guards(as) {
					if _, ok := atom(g.Expr); ok || g.Kind == "bool" && (isLogical(g.Expr)) {
						gs = append(gs, g)
					}
				}
				okT := len(gs) > 0
				for _, empty := range []bool{false, true} {
					for _, other := range []bool{false, true} {
						v, ok := evalGuards(gs, map[string]bool{"empty": empty, "lastIsOther": other}, atom)
						if !ok || v != (empty || other) {
							okT = false
						}
					}
				}
				r.Check(okT, "generateInjectors/listed-once", as.Pos(), "the file is appended exactly when the list is empty or ends in another file")
				return true
			})
			r.Floor("injector-file list appends", n, 1)
		})
}

func isLogical(e ast.Expr) bool {
	switch x := ast.Unparen(e).(type) {
	case *ast.BinaryExpr:
		return x.Op == token.LAND || x.Op == token.LOR
	case *ast.UnaryExpr:
		return x.Op == token.NOT
	}
	return false
}

func init() {
	register("C19.R10", "show's grouping search makes progress: every type pushed onto gather's search stack, other than the node being re-queued, is pushed under the test that it has no entry yet in the visited map (pushing visited nodes instead of unvisited ones re-queues the current node for ever)",
		func(c *Ctx, r *R) {
			fi := r.Need(c.Fn(c.Cmd, "gather"), "gather")
			if fi == nil {
				return
			}
			n := 0
			fi.inspect(fi.Decl.Body, func(nd ast.Node) bool {
				as, ok := nd.(*ast.AssignStmt)
				if !ok || len(as.Lhs) != 1 || len(as.Rhs) != 1 {
					return true
				}
				ap := fi.isBuiltin(as.Rhs[0], "append")
				stk := fi.varOf(as.Lhs[0])
				if ap == nil || stk == nil || fi.varOf(ap.Args[0]) != stk || ap.Ellipsis.IsValid() || types.TypeString(stk.Type(), nil) != "[]go/types.Type" {
					return true
				}
				// the node popped in the enclosing loop
				var popped *types.Var
				if loop := fi.enclosingLoop(as); loop != nil {
					fi.inspect(loop, func(m ast.Node) bool {
						if a2, ok := m.(*ast.AssignStmt); ok && len(a2.Lhs) == 1 && len(a2.Rhs) == 1 && a2.Tok == token.DEFINE {
							if ix, ok := ast.Unparen(a2.Rhs[0]).(*ast.IndexExpr); ok && fi.varOf(ix.X) == stk {
								popped = fi.varOf(a2.Lhs[0])
							}
						}
						return true
					})
				}
				for i, e := range ap.Args[1:] {
					if v := fi.varOf(e); v != nil && v == popped {
						continue // the current node goes back under its dependencies
					}
					n++
					ok := false
					for _, g := range fi.Guards(as) {
						if x, isNil, isT := fi.nilTest(g); isT && isNil {
							if at := fi.isCall(x, fnMapAt); at != nil && len(at.Args) == 1 && (fi.sameExpr(at.Args[0], e) || fi.sameExpr(fi.deref(at.Args[0]), fi.deref(e))) {
								ok = true
							}
						}
					}
					r.Check(ok, "gather/push#"+itoa(n)+"/"+roleShort(fi, e), as.Pos(), "operand %d is pushed only when the visited map has no entry for it", i+1)
				}
				return true
			})
			r.Floor("pushes onto gather's search stack", n, 3)
		})
}

func init() {
	register("C06.R7", "errors are handled on the edge on which they exist: a test of an error list is an emptiness test (no other threshold); an error variable (or list) that is returned as the error result, added to a collector or logged is never known to be nil (empty) at that point — an inverted or shifted test silently drops real errors and reports phantom ones",
		func(c *Ctx, r *R) {
			tests, uses := 0, 0
			for _, fi := range c.all {
				fi := fi
				isErrList := func(e ast.Expr) bool {
					t := fi.Info.TypeOf(e)
					if t == nil {
						return false
					}
					sl, ok := t.Underlying().(*types.Slice)
					return ok && isErrorType(sl.Elem())
				}
				// (a) thresholds
				fi.inspect(fi.Decl.Body, func(nd ast.Node) bool {
					be, ok := nd.(*ast.BinaryExpr)
					if !ok {
						return true
					}
					l := fi.isBuiltin(be.X, "len")
					if l == nil || len(l.Args) != 1 || !isErrList(l.Args[0]) {
						return true
					}
					k, isC := fi.constInt(be.Y)
					if !isC {
						return true
					}
					tests++
					okT := k == 0 && (be.Op == token.EQL || be.Op == token.GTR || be.Op == token.NEQ)
					r.Check(okT, fi.Name+"/error-list-test:"+exprShort(l.Args[0]), be.Pos(), "the error list %s is tested for emptiness (got %s)", exprShort(l.Args[0]), exprShort(be))
					return true
				})
				// (b) polarity at the points of use
				knownAbsent := func(n ast.Node, v *types.Var) (bool, string) {
					for _, g := range fi.Guards(n) {
						// the variable must not be assigned again between the test and the use
						from := 0
						if is, ok := g.At.(*ast.IfStmt); ok {
							from = startOf(is.Cond)
						} else if g.At != nil {
							from = startOf(g.At)
						}
						again := false
						for _, d := range fi.defs[v] {
							if d.node != nil && startOf(d.node) > from && startOf(d.node) < startOf(n) {
								again = true
							}
						}
						if again || from == 0 {
							continue
						}
						if x, isNil, ok := fi.nilTest(g); ok && isNil && fi.varOf(x) == v {
							return true, exprShort(x) + " == nil"
						}
						if x, nonEmpty, ok := fi.lenTest(g); ok && !nonEmpty && fi.varOf(x) == v {
							return true, "len(" + exprShort(x) + ") == 0"
						}
					}
					return false, ""
				}
				check := func(n ast.Node, e ast.Expr, what string) {
					// the variable itself, or wrapped: fmt.Errorf("…: %v", err), notePosition(p, err), mapErrors(errs, f)
					seen := map[*types.Var]bool{}
					ast.Inspect(e, func(m ast.Node) bool {
						if _, isLit := m.(*ast.FuncLit); isLit {
							return false
						}
						id, ok := m.(*ast.Ident)
						if !ok {
							return true
						}
						v, ok := fi.Info.Uses[id].(*types.Var)
						if !ok || v.IsField() || seen[v] || !(isErrorType(v.Type()) || isErrList(id)) {
							return true
						}
						seen[v] = true
						uses++
						if absent, how := knownAbsent(n, v); absent {
							r.Bad(fi.Name+"/"+what+":"+v.Name(), n.Pos(), "%s is %s here although %s holds: the error test is inverted", v.Name(), what, how)
						}
						return true
					})
				}
				fi.inspect(fi.Decl.Body, func(nd ast.Node) bool {
					switch x := nd.(type) {
					case *ast.ReturnStmt:
						if len(x.Results) > 0 {
							check(x, x.Results[len(x.Results)-1], "returned")
						}
					case *ast.CallExpr:
						if fi.calleeName(x) == fnECAdd {
							for _, a := range x.Args {
								check(x, a, "added to the collector")
							}
						}
						if n := fi.calleeName(x); n == pathCmd+".logErrors" || n == "log.Println" || n == "log.Print" {
							for _, a := range x.Args {
								check(x, a, "logged")
							}
						}
					}
					return true
				})
			}
			r.Floor("error-list tests", tests, 15)
			r.Floor("uses of error variables", uses, 25)
			r.Ok("polarity", 0, "no error variable is returned, collected or logged on the edge on which it is known to be absent (%d uses)", uses)
		})

	register("C17.R11", "nothing to do is the only early success: in gen and diff a return of status 0 that is not decided by the success flag is taken only when wire.Generate returned no results at all (and no errors)",
		func(c *Ctx, r *R) {
			for _, name := range []string{"genCmd.Execute", "diffCmd.Execute"} {
				fi := r.Need(c.Fn(c.Cmd, name), name)
				if fi == nil {
					continue
				}
				n := 0
				for i, ret := range fi.returnsOf() {
					v, ok := fi.constInt(ret.Results[0])
					if !ok || v != 0 {
						continue
					}
					flagged := false
					for _, g := range fi.Guards(ret) {
						if fv := fi.varOf(g.Expr); fv != nil && fi.isFlag(fv, true) {
							flagged = true
						}
					}
					if flagged {
						continue
					}
					n++
					okE := false
					for _, g := range fi.Guards(ret) {
						if x, nonEmpty, isL := fi.lenTest(g); isL && !nonEmpty {
							if d := fi.defOf(x); d != nil && d.idx == 0 && fi.isCall(d.rhs, pathW+".Generate") != nil {
								okE = true
							}
						}
					}
					r.Check(okE, name+"/early-success#"+itoa(i), ret.Pos(), "status 0 before any result was looked at is returned only when Generate produced no results")
				}
				r.Floor("early success returns of "+name, n, 1)
			}
		})
}

func init() {
	register("C17.R12", "the packages named on the command line are the packages processed: packages() returns the flag set's arguments, and the current directory only when there are none; a unusable -header_file is used exactly when one is named",
		func(c *Ctx, r *R) {
			fi := r.Need(c.Fn(c.Cmd, "packages"), "packages")
			if fi != nil {
				n := 0
				for i, ret := range fi.returnsOf() {
					if len(ret.Results) != 1 {
						continue
					}
					// one variable assigned the arguments and then, under the no-arguments test, the default
					if v := fi.varOf(ret.Results[0]); v != nil && len(fi.defs[v]) >= 2 {
						okArgs, okDef, other := false, false, 0
						for _, d := range fi.defs[v] {
							n++
							switch {
							case d.rhs != nil && fi.isCall(d.rhs, "flag.FlagSet.Args") != nil:
								okArgs = fi.unconditionalIn(d.node, fi.Decl.Body)
							case d.rhs != nil:
								cl, isLit := ast.Unparen(d.rhs).(*ast.CompositeLit)
								isDot := isLit && len(cl.Elts) == 1
								if isDot {
									if s, ok := newEmitter(c, fi).constString(cl.Elts[0]); !ok || s != "." {
										isDot = false
									}
								}
								under := false
								gs := fi.Guards(d.node)
								for _, g := range gs {
									if x, nonEmpty, ok := fi.lenTest(g); ok && !nonEmpty && (fi.varOf(x) == v || fi.isCall(fi.deref(x), "flag.FlagSet.Args") != nil) {
										under = true
									}
								}
								if isDot && under && len(gs) == 1 {
									okDef = true
								} else {
									other++
								}
							default:
								other++
							}
						}
						r.Check(okArgs && okDef && other == 0, "packages/arguments-or-default", ret.Pos(), "the result is the command's arguments, replaced by \".\" only when there are none")
						continue
					}
					n++
					e := fi.deref(ret.Results[0])
					if cl, ok := ast.Unparen(e).(*ast.CompositeLit); ok {
						// the default: only under "no arguments"
						isDot := len(cl.Elts) == 1
						if isDot {
							if s, ok := newEmitter(c, fi).constString(cl.Elts[0]); !ok || s != "." {
								isDot = false
							}
						}
						under := false
						for _, g := range fi.Guards(ret) {
							if x, nonEmpty, ok := fi.lenTest(g); ok && !nonEmpty && fi.isCall(fi.deref(x), "flag.FlagSet.Args") != nil {
								under = true
							}
							if z, one, ok := nargTest(fi, g); ok && z && !one {
								under = true
							}
						}
						r.Check(isDot && under, "packages/default#"+itoa(i), ret.Pos(), "the default pattern is \".\" and is used only when no argument was given")
						continue
					}
					// the arguments themselves: not on the no-arguments edge
					isArgs := fi.isCall(e, "flag.FlagSet.Args") != nil
					empty := false
					for _, g := range fi.Guards(ret) {
						if x, nonEmpty, ok := fi.lenTest(g); ok && !nonEmpty && fi.isCall(fi.deref(x), "flag.FlagSet.Args") != nil {
							empty = true
						}
						if z, _, ok := nargTest(fi, g); ok && z {
							empty = true
						}
					}
					r.Check(isArgs && !empty, "packages/arguments#"+itoa(i), ret.Pos(), "the command's arguments are returned whenever there are any")
				}
				r.Floor("returns of packages()", n, 2)
			}
			ng := r.Need(c.Fn(c.Cmd, "newGenerateOptions"), "newGenerateOptions")
			if ng != nil {
				n := 0
				for _, cl := range ng.callsDeep(ng.Decl.Body) {
					if nm := ng.calleeName(cl); nm != "io/ioutil.ReadFile" && nm != "os.ReadFile" {
						continue
					}
					n++
					v := ng.varOf(cl.Args[0])
					ok := false
					for _, g := range ng.Guards(cl) {
						if be, isB := ast.Unparen(g.Expr).(*ast.BinaryExpr); isB && ng.varOf(be.X) == v && types.ExprString(be.Y) == `""` && ((be.Op == token.NEQ && !g.Neg) || (be.Op == token.EQL && g.Neg)) {
							ok = true
						}
					}
					okP := v != nil && ng.isParam(v)
					r.Check(ok && okP, "newGenerateOptions/header-read-iff-named", cl.Pos(), "the header file is read exactly when the option names one")
				}
				r.Floor("header reads", n, 1)
			}
		})
}

// nargTest: the guard compares f.NArg() with a constant; reports whether it holds with no argument and with one.
func nargTest(fi *FuncInfo, g Cond) (atZero, atOne, ok bool) {
	be, isB := ast.Unparen(g.Expr).(*ast.BinaryExpr)
	if !isB || g.Kind != "bool" || fi.isCall(be.X, "flag.FlagSet.NArg") == nil {
		return false, false, false
	}
	k, isC := fi.constInt(be.Y)
	if !isC {
		return false, false, false
	}
	at := func(n int64) bool {
		var v bool
		switch be.Op {
		case token.EQL:
			v = n == k
		case token.NEQ:
			v = n != k
		case token.LSS:
			v = n < k
		case token.LEQ:
			v = n <= k
		case token.GTR:
			v = n > k
		case token.GEQ:
			v = n >= k
		default:
			return false
		}
		if g.Neg {
			v = !v
		}
		return v
	}
	return at(0), at(1), true
}

func init() {
	register("C19.R11", "show's grouping, clause by clause: inputs are recorded with the sentinel -1 and nothing else is; a provider is grouped only once a flag that starts true and is cleared for every dependency without an entry says all are present; a node joins an existing group exactly when sameTypeKeys holds for that group's inputs and its own; sameTypeKeys is equal size plus every key of the one present in the other; a field's input set is its parent itself when the parent is an input and the parent's group inputs otherwise; both work lists pop the last element",
		func(c *Ctx, r *R) {
			fi := r.Need(c.Fn(c.Cmd, "gather"), "gather")
			if fi == nil {
				return
			}
			// visited map: the typeutil.Map whose stored values are ints
			var visited *types.Var
			for _, cl := range fi.callsTo(fnMapSet) {
				if len(cl.Args) == 2 {
					if t := fi.Info.TypeOf(cl.Args[1]); t != nil && types.TypeString(types.Default(t), nil) == "int" {
						visited = fi.varOf(recvOf(cl))
					}
				}
			}
			if visited == nil {
				r.Bad("visited-map", fi.Decl.Pos(), "the map from type to group index not found")
				return
			}
			// (1) sentinel
			nSent, nIdx := 0, 0
			for _, cl := range fi.callsTo(fnMapSet) {
				if fi.varOf(recvOf(cl)) != visited {
					continue
				}
				if k, isC := fi.constInt(cl.Args[1]); isC {
					nSent++
					inputArm := false
					for _, g := range fi.Guards(cl) {
						if cl0 := callOf(g.Expr); !g.Neg && cl0 != nil {
							if n := fi.calleeName(cl0); n == pathW+".ProvidedType.IsNil" || n == pathW+".ProvidedType.IsArg" {
								inputArm = true
							}
						}
					}
					r.Check(k == -1 && inputArm, "sentinel#"+itoa(nSent), cl.Pos(), "a constant entry is -1 and is made for inputs (no source, or an injector argument) only (got %d)", k)
				} else {
					nIdx++
				}
			}
			r.Floor("sentinel entries", nSent, 2)
			r.Floor("group-index entries", nIdx, 6)
			// (2) the all-present flag
			var flag *types.Var
			for v, ds := range fi.defs {
				if len(ds) > 0 && ds[0].node != nil && fi.within(ds[0].node, fi.Decl) && fi.isFlag(v, true) {
					for _, d := range fi.defs[v] {
						if d.kind == "assign" {
							// the test directly around the clearing assignment
							var inner *ast.IfStmt
							if blk, ok := fi.parent[fi.stmtOf(d.node)].(*ast.BlockStmt); ok {
								inner, _ = fi.parent[blk].(*ast.IfStmt)
							}
							for _, g := range fi.Guards(d.node) {
								if inner == nil || g.At != ast.Node(inner) {
									continue
								}
								if x, isNil, ok := fi.nilTest(g); ok && isNil {
									if at := fi.isCall(x, fnMapAt); at != nil && fi.varOf(recvOf(at)) == visited {
										flag = v
									}
								}
							}
						}
					}
				}
			}
			r.Check(flag != nil, "all-present-flag", fi.Decl.Pos(), "a flag that starts true and is cleared under `no entry for this dependency` decides whether a provider can be grouped")
			if flag != nil {
				// the re-queue happens under !flag; every group-index entry of the provider arm is made under flag
				requeued := false
				for v2, ds := range fi.defs {
					if types.TypeString(v2.Type(), nil) != "[]go/types.Type" || len(ds) == 0 || ds[0].node == nil || !fi.within(ds[0].node, fi.Decl) {
						continue
					}
					for _, d := range fi.defs[v2] {
						if d.node == nil || fi.isBuiltin(d.rhs, "append") == nil {
							continue
						}
						for _, g := range fi.Guards(d.node) {
							if fi.varOf(g.Expr) == flag && g.Neg {
								requeued = true
							}
						}
					}
				}
				r.Check(requeued, "all-present-flag/requeue", fi.Decl.Pos(), "when a dependency is missing the node is queued again behind its dependencies")
			}
			// (3) joining a group
			joins := 0
			for _, cl := range fi.callsTo(fnMapSet) {
				sel, ok := ast.Unparen(recvOf(cl)).(*ast.SelectorExpr)
				if !ok || sel.Sel.Name != "outputs" {
					continue
				}
				grp := ast.Unparen(sel.X) // groups[i], or the element variable of a loop over the groups
				joins++
				okJ := false
				for _, g := range fi.Guards(cl) {
					if g.Neg {
						continue
					}
					if st := fi.isCall(g.Expr, pathCmd+".sameTypeKeys"); st != nil && len(st.Args) == 2 {
						for k := 0; k < 2; k++ {
							if s2, ok := ast.Unparen(st.Args[k]).(*ast.SelectorExpr); ok && s2.Sel.Name == "inputs" && fi.sameExpr(s2.X, grp) {
								okJ = true
							}
						}
					}
					// values: the group without inputs
					if x, nonEmpty, isL := fi.lenCallTest(g); isL && !nonEmpty {
						if s2, ok := ast.Unparen(x).(*ast.SelectorExpr); ok && s2.Sel.Name == "inputs" && fi.sameExpr(s2.X, grp) {
							okJ = true
						}
					}
				}
				r.Check(okJ, "join#"+itoa(joins), cl.Pos(), "a node is added to an existing group only when that group's inputs are the node's inputs")
			}
			r.Floor("joins of an existing group", joins, 3)
			// (4) sameTypeKeys
			if st := r.Need(c.Fn(c.Cmd, "sameTypeKeys"), "sameTypeKeys"); st != nil {
				okLen, okFlag, okRet := false, false, false
				var same *types.Var
				for v, ds := range st.defs { // (the table is shared by the package: only variables defined in this function)
					if len(ds) > 0 && ds[0].node != nil && st.within(ds[0].node, st.Decl) && st.isFlag(v, true) {
						same = v
					}
				}
				for _, ret := range st.returnsOf() {
					if id, ok := ast.Unparen(ret.Results[0]).(*ast.Ident); ok && id.Name == "false" {
						for _, g := range st.Guards(ret) {
							if be, ok := ast.Unparen(g.Expr).(*ast.BinaryExpr); ok && !g.Neg && be.Op == token.NEQ && st.isCall(be.X, "golang.org/x/tools/go/types/typeutil.Map.Len") != nil && st.isCall(be.Y, "golang.org/x/tools/go/types/typeutil.Map.Len") != nil {
								okLen = true
							}
						}
					} else if same != nil && st.varOf(ret.Results[0]) == same {
						okRet = true
					} else {
						okRet = false
					}
				}
				if same != nil {
					for _, d := range st.defs[same] {
						if d.kind != "assign" {
							continue
						}
						for _, g := range st.Guards(d.node) {
							if x, isNil, ok := st.nilTest(g); ok && isNil && st.isCall(x, fnMapAt) != nil {
								okFlag = true
							}
						}
					}
				}
				r.Check(okLen && okFlag && okRet, "sameTypeKeys/definition", st.Decl.Pos(), "false when the sizes differ; otherwise a flag that starts true, is cleared for a key of the one map missing in the other, and is the result")
			}
			npop := 0
			// (8) a pop is a read of the last element AND a cut by one, in the same block; the node that waits for its
			// dependencies is itself put back; a set taken from the imports work list is marked before it is expanded
			fi.inspect(fi.Decl.Body, func(nd ast.Node) bool {
				as, ok := nd.(*ast.AssignStmt)
				if !ok || len(as.Lhs) != 1 || len(as.Rhs) != 1 || as.Tok != token.DEFINE {
					return true
				}
				ix, ok := ast.Unparen(as.Rhs[0]).(*ast.IndexExpr)
				if !ok {
					return true
				}
				sv := fi.varOf(ix.X)
				if sv == nil {
					return true
				}
				if _, isSlice := sv.Type().Underlying().(*types.Slice); !isSlice {
					return true
				}
				if be, ok := ast.Unparen(ix.Index).(*ast.BinaryExpr); !ok || be.Op != token.SUB {
					return true
				}
				popped := fi.varOf(as.Lhs[0])
				// the cut follows in the same statement list
				cut := false
				var list []ast.Stmt
				switch p := fi.parent[as].(type) {
				case *ast.BlockStmt:
					list = p.List
				case *ast.CaseClause:
					list = p.Body
				}
				after := false
				for _, st := range list {
					if st == ast.Stmt(as) {
						after = true
						continue
					}
					if a2, ok := st.(*ast.AssignStmt); ok && after && len(a2.Lhs) == 1 && len(a2.Rhs) == 1 && fi.varOf(a2.Lhs[0]) == sv {
						if sl, ok := ast.Unparen(a2.Rhs[0]).(*ast.SliceExpr); ok && fi.varOf(sl.X) == sv && sl.Low == nil && sl.High != nil {
							cut = true
						}
					}
				}
				npop++
				r.Check(cut, "pop-cuts#"+itoa(npop), as.Pos(), "the element taken from the work list is also removed from it")
				if popped == nil {
					return true
				}
				loop := fi.enclosingLoop(as)
				if loop == nil {
					return true
				}
				switch types.TypeString(sv.Type(), nil) {
				case "[]go/types.Type":
					// the grouping stack: under the not-all-present flag the popped node itself is pushed back
					back := false
					fi.inspect(loop, func(m ast.Node) bool {
						a3, ok := m.(*ast.AssignStmt)
						if !ok || len(a3.Lhs) != 1 || len(a3.Rhs) != 1 || fi.varOf(a3.Lhs[0]) != sv {
							return true
						}
						if ap := fi.isBuiltin(a3.Rhs[0], "append"); ap != nil {
							underFlag := false
							for _, g := range fi.Guards(a3) {
								if flag != nil && fi.varOf(g.Expr) == flag && g.Neg {
									underFlag = true
								}
							}
							for _, e := range ap.Args[1:] {
								if fi.varOf(e) == popped && underFlag {
									back = true
								}
							}
						}
						return true
					})
					r.Check(back, "requeues-the-node#"+itoa(npop), as.Pos(), "a node whose dependencies are not all present is pushed back itself")
				default:
					// the imports work list: the popped set is recorded in the visited map before its imports are pushed
					marked := false
					fi.inspect(loop, func(m ast.Node) bool {
						a3, ok := m.(*ast.AssignStmt)
						if !ok || len(a3.Lhs) != 1 {
							return true
						}
						if ix3, ok := ast.Unparen(a3.Lhs[0]).(*ast.IndexExpr); ok && fi.varOf(ix3.Index) == popped {
							if _, isMap := fi.Info.TypeOf(ix3.X).Underlying().(*types.Map); isMap {
								marked = true
							}
						}
						return true
					})
					r.Check(marked, "marks-visited#"+itoa(npop), as.Pos(), "a set taken from the work list is recorded as visited")
				}
				return true
			})
			// (7) a node that already has an entry is not handled again: every entry made for the popped node is
			// dominated by the test that it has none yet
			handled := 0
			for _, cl := range fi.callsTo(fnMapSet) {
				if fi.varOf(recvOf(cl)) != visited {
					continue
				}
				handled++
				okH := false
				for _, g := range fi.Guards(cl) {
					if x, isNil, isT := fi.nilTest(g); isT && isNil {
						if at := fi.isCall(x, fnMapAt); at != nil && fi.varOf(recvOf(at)) == visited && fi.sameExpr(at.Args[0], cl.Args[0]) {
							okH = true
						}
					}
				}
				r.Check(okH, "entry-once#"+itoa(handled), cl.Pos(), "an entry is made only for a node that has none yet")
			}
			// (6) the work lists pop their last element: S[len(S)-1] and S[:len(S)-1], nothing else built from len(S)
			pops := 0
			fi.inspect(fi.Decl.Body, func(nd ast.Node) bool {
				var seq, idx ast.Expr
				switch x := nd.(type) {
				case *ast.IndexExpr:
					seq, idx = x.X, x.Index
				case *ast.SliceExpr:
					if x.Low != nil || x.High == nil {
						return true
					}
					seq, idx = x.X, x.High
				default:
					return true
				}
				sv := fi.varOf(seq)
				if sv == nil {
					return true
				}
				if _, isSlice := sv.Type().Underlying().(*types.Slice); !isSlice {
					return true
				}
				// len(S), or a local that only ever holds len(S)
				isLen := func(e ast.Expr) bool {
					if e == nil {
						return false
					}
					if l := fi.isBuiltin(e, "len"); l != nil && fi.varOf(l.Args[0]) == sv {
						return true
					}
					if lv := fi.varOf(e); lv != nil && len(fi.defs[lv]) > 0 {
						for _, d := range fi.defs[lv] {
							if l := fi.isBuiltin(d.rhs, "len"); l == nil || fi.varOf(l.Args[0]) != sv {
								return false
							}
						}
						return true
					}
					return false
				}
				mentionsLen := false
				ast.Inspect(idx, func(m ast.Node) bool {
					if isLen(asExpr(m)) {
						mentionsLen = true
					}
					return true
				})
				if !mentionsLen {
					return true
				}
				pops++
				okP := false
				if be, ok := ast.Unparen(idx).(*ast.BinaryExpr); ok && be.Op == token.SUB && types.ExprString(be.Y) == "1" && isLen(be.X) {
					okP = true
				}
				// … inside a loop that runs while the list is not empty
				inLoop := false
				for l := fi.enclosingLoop(nd); l != nil; l = fi.enclosingLoop(l) {
					if f, ok := l.(*ast.ForStmt); ok && f.Cond != nil {
						if x, nonEmpty, ok := fi.lenTest(Cond{Kind: "bool", Expr: f.Cond}); ok && nonEmpty && fi.varOf(x) == sv {
							inLoop = true
						}
						if be, ok := ast.Unparen(f.Cond).(*ast.BinaryExpr); ok && be.Op == token.GTR && types.ExprString(be.Y) == "0" && isLen(be.X) {
							inLoop = true
						}
					}
				}
				r.Check(okP && inLoop, "pop#"+itoa(pops), nd.Pos(), "the work list is read and shortened at len-1, while it is not empty")
				return true
			})
			r.Floor("work-list pops", pops, 2)
			// (5) a field's inputs
			nField := 0
			fi.inspect(fi.Decl.Body, func(nd ast.Node) bool {
				is, ok := nd.(*ast.IfStmt)
				if !ok || len(is.Body.List) == 0 {
					return true
				}
				be, ok := ast.Unparen(is.Cond).(*ast.BinaryExpr)
				if !ok {
					return true
				}
				k, isC := fi.constInt(be.Y)
				if !isC || k != -1 || (be.Op != token.EQL && be.Op != token.NEQ) {
					return true
				}
				nField++
				// the two edges, however the branch is written (if/else, or guard + continue)
				thenCalls := callsIn(is.Body)
				var elseCalls []*ast.CallExpr
				for _, root := range fi.otherEdgeRoots(is, is.Body.List[0]) {
					elseCalls = append(elseCalls, callsIn(root)...)
				}
				inputCalls, groupCalls := thenCalls, elseCalls
				if be.Op == token.NEQ {
					inputCalls, groupCalls = elseCalls, thenCalls
				}
				setsSelf, merges := false, false
				for _, cl := range inputCalls {
					if fi.calleeName(cl) == fnMapSet {
						setsSelf = true
					}
				}
				for _, cl := range inputCalls {
					if fi.calleeName(cl) == pathCmd+".mergeTypeSets" {
						setsSelf = false
					}
				}
				for _, cl := range groupCalls {
					if fi.calleeName(cl) == pathCmd+".mergeTypeSets" {
						merges = true
					}
				}
				r.Check(setsSelf && merges, "inputs-of-dependency#"+itoa(nField), is.Pos(), "a dependency that is an input contributes itself, one that was grouped contributes its group's inputs")
				return true
			})
			r.Floor("input/group decisions", nField, 2)
		})
}

// lenCallTest: the guard compares X.Len() (typeutil.Map) with 0.
func (fi *FuncInfo) lenCallTest(g Cond) (x ast.Expr, nonEmpty, ok bool) {
	be, isB := ast.Unparen(g.Expr).(*ast.BinaryExpr)
	if !isB || g.Kind != "bool" {
		return nil, false, false
	}
	cl := fi.isCall(be.X, "golang.org/x/tools/go/types/typeutil.Map.Len")
	k, isC := fi.constInt(be.Y)
	if cl == nil || !isC || k != 0 {
		return nil, false, false
	}
	switch be.Op {
	case token.EQL:
		nonEmpty = false
	case token.GTR, token.NEQ:
		nonEmpty = true
	default:
		return nil, false, false
	}
	if g.Neg {
		nonEmpty = !nonEmpty
	}
	return recvOf(cl), nonEmpty, true
}

func init() {
	register("C20.R9", "a comma-ok type assertion's value is dereferenced only where the assertion is known to have succeeded: every field selection, method call or dereference through `v` of `v, ok := x.(T)` (T a pointer or interface type) is dominated by ok — an inverted test dereferences nil for every input that takes the branch",
		func(c *Ctx, r *R) {
			n := 0
			for _, fi := range c.all {
				fi := fi
				fi.inspect(fi.Decl.Body, func(nd ast.Node) bool {
					as, ok := nd.(*ast.AssignStmt)
					if !ok || as.Tok != token.DEFINE || len(as.Lhs) != 2 || len(as.Rhs) != 1 {
						return true
					}
					ta, ok := ast.Unparen(as.Rhs[0]).(*ast.TypeAssertExpr)
					if !ok || ta.Type == nil {
						return true
					}
					v, okv := fi.varOf(as.Lhs[0]), fi.varOf(as.Lhs[1])
					if v == nil || okv == nil || len(fi.defs[v]) != 1 {
						return true
					}
					// `ok` may be reused by later assertions: a test of it speaks about this assertion only
					// while no other definition of it lies between the assertion and the test
					aboutThis := func(at ast.Node) bool {
						if at == nil || startOf(at) < startOf(as) {
							return false
						}
						for _, d := range fi.defs[okv] {
							if d.node != nil && d.node != ast.Node(as) && fi.within(d.node, fi.Decl) && startOf(d.node) > startOf(as) && startOf(d.node) < startOf(at) {
								return false
							}
						}
						return true
					}
					switch v.Type().Underlying().(type) {
					case *types.Pointer, *types.Interface:
					default:
						return true
					}
					// the function (or closure) the assertion belongs to
					var scope ast.Node = fi.Decl.Body
					if lit := fi.enclosing(as, func(m ast.Node) bool { _, ok := m.(*ast.FuncLit); return ok }); lit != nil {
						scope = lit
					}
					k := 0
					fi.inspect(scope, func(m ast.Node) bool {
						var base ast.Expr
						switch x := m.(type) {
						case *ast.SelectorExpr:
							base = x.X
						case *ast.StarExpr:
							base = x.X
						default:
							return true
						}
						id, isId := ast.Unparen(base).(*ast.Ident)
						if !isId || fi.Info.Uses[id] != types.Object(v) {
							return true
						}
						k++
						n++
						good := false
						for _, g := range fi.guardsWithShortCircuit(m) {
							if g.Kind == "bool" && fi.varOf(g.Expr) == okv && !g.Neg && (len(fi.defs[okv]) == 1 || aboutThis(g.At)) {
								good = true
							}
							// or the value itself was tested against nil
							if x, isNil, isT := fi.nilTest(g); isT && !isNil && fi.varOf(x) == v {
								good = true
							}
						}
						r.Check(good, fi.Name+"/assert-use:"+roleShort(fi, as.Rhs[0])+"#"+itoa(k), m.Pos(), "%s is used through only where %s holds", v.Name(), okv.Name())
						return true
					})
					return true
				})
			}
			r.Floor("dereferences of comma-ok assertion values", n, 20)
		})
}

// guardsWithShortCircuit: the conditions known at n, including (a) the left
// operands of the && / || expressions n sits in the right operand of, and
// (b), for a node inside closures, the conditions under which each enclosing
// closure was created (they still hold when it runs for variables assigned once).
func (fi *FuncInfo) guardsWithShortCircuit(n ast.Node) []Cond {
	var out []Cond
	child := n
	for p := fi.parent[child]; p != nil; child, p = p, fi.parent[p] {
		if be, ok := p.(*ast.BinaryExpr); ok && (be.Op == token.LAND || be.Op == token.LOR) && child == ast.Node(be.Y) {
			out = append(out, flatten(be.X, be.Op == token.LOR, be)...)
		}
		if _, isStmt := p.(ast.Stmt); isStmt {
			break
		}
	}
	out = append(out, fi.Guards(n)...)
	for lit := fi.enclosing(n, func(m ast.Node) bool { _, ok := m.(*ast.FuncLit); return ok }); lit != nil; {
		out = append(out, fi.Guards(lit)...)
		next := fi.enclosing(fi.parent[lit], func(m ast.Node) bool { _, ok := m.(*ast.FuncLit); return ok })
		if next == nil || next == lit {
			break
		}
		lit = next
	}
	return out
}

func init() {
	register("C15.R9", "the renamer's scope bookkeeping and declaration tests are exact: a scope is pushed exactly when the copied node has one; isTypeSwitchVarDecl holds exactly for `id := x.(type)`; the package of a printed field name is taken from the field of that name",
		func(c *Ctx, r *R) {
			if fi := r.Need(c.Fn(c.W, "gen.rewritePkgRefs"), "gen.rewritePkgRefs"); fi != nil {
				n := 0
				fi.inspect(fi.Decl.Body, func(nd ast.Node) bool {
					as, ok := nd.(*ast.AssignStmt)
					if !ok || len(as.Lhs) != 1 || len(as.Rhs) != 1 {
						return true
					}
					ap := fi.isBuiltin(as.Rhs[0], "append")
					if ap == nil || len(ap.Args) != 2 || types.TypeString(fi.Info.TypeOf(as.Lhs[0]), nil) != "[]*go/types.Scope" {
						return true
					}
					n++
					pushed := fi.varOf(ap.Args[1])
					ok2 := false
					for _, g := range fi.Guards(as) {
						if x, isNil, isT := fi.nilTest(g); isT && !isNil && fi.varOf(x) == pushed && pushed != nil {
							ok2 = true
						}
					}
					r.Check(ok2, "rewritePkgRefs/scope-push#"+itoa(n), as.Pos(), "a scope is pushed when (and only when) it is not nil")
					return true
				})
				r.Floor("scope pushes", n, 1)
			}
			if fi := r.Need(c.Fn(c.W, "isTypeSwitchVarDecl"), "isTypeSwitchVarDecl"); fi != nil {
				atom := func(e ast.Expr) (string, bool) {
					e = ast.Unparen(e)
					if v := fi.varOf(e); v != nil {
						if d := fi.reachingDef(v, e); d != nil && d.idx == 1 {
							if ta, ok := ast.Unparen(d.rhs).(*ast.TypeAssertExpr); ok && ta.Type != nil {
								switch types.TypeString(fi.Info.TypeOf(ta.Type), nil) {
								case "*go/ast.AssignStmt":
									return "isAssign", true
								case "*go/ast.TypeAssertExpr":
									return "isTA", true
								}
							}
						}
					}
					be, ok := e.(*ast.BinaryExpr)
					if !ok || (be.Op != token.EQL && be.Op != token.NEQ) {
						return "", false
					}
					pos := be.Op == token.EQL
					switch {
					case fi.selField(be.X) != nil && fi.selField(be.X).Name() == "Tok" && types.ExprString(be.Y) == "token.DEFINE":
						return "define", pos
					case fi.isBuiltin(be.X, "len") != nil && types.ExprString(be.Y) == "1":
						if f := fi.selField(fi.isBuiltin(be.X, "len").Args[0]); f != nil {
							return "one" + f.Name(), pos
						}
					case fi.isNilIdent(be.Y) && fi.selField(be.X) != nil && fi.selField(be.X).Name() == "Type":
						return "typeNil", pos
					}
					if ix, ok := ast.Unparen(be.X).(*ast.IndexExpr); ok && types.ExprString(ix.Index) == "0" {
						if f := fi.selField(ix.X); f != nil && f.Name() == "Lhs" {
							return "isId", pos
						}
					}
					return "", false
				}
				names := []string{"isAssign", "define", "oneLhs", "oneRhs", "isId", "isTA", "typeNil"}
				okT := true
				for m := 0; m < 1<<len(names); m++ {
					env := map[string]bool{}
					for i, nm := range names {
						env[nm] = m&(1<<i) != 0
					}
					v, ok := fi.evalBoolFunc(env, atom)
					if !ok || v != (m == 1<<len(names)-1) {
						okT = false
					}
				}
				r.Check(okT, "isTypeSwitchVarDecl/definition", fi.Decl.Pos(), "true exactly for a one-to-one short declaration of this identifier from an x.(type) expression")
			}
			// (looked up without naming it: namedByCall stays analysed as part of checkCalls for the other rules)
			if fi := r.Need(c.funcs[pathW+"::namedByCall"], "namedByCall"); fi != nil {
				n := 0
				fi.inspect(fi.Decl.Body, func(nd ast.Node) bool {
					as, ok := nd.(*ast.AssignStmt)
					if !ok || len(as.Lhs) != 1 || len(as.Rhs) != 1 {
						return true
					}
					pk := fi.isCall(as.Rhs[0], "go/types.Var.Pkg", "go/types.object.Pkg")
					if pk == nil {
						return true
					}
					if t := fi.Info.TypeOf(recvOf(pk)); t == nil || types.TypeString(t, nil) != "*go/types.Var" {
						return true
					}
					n++
					fld := fi.expandLocals(recvOf(pk))
					ok2 := false
					for _, g := range fi.Guards(as) {
						be, isB := fi.expandLocals(g.Expr).(*ast.BinaryExpr)
						if !isB || !((be.Op == token.EQL && !g.Neg) || (be.Op == token.NEQ && g.Neg)) {
							continue
						}
						for k, side := range []ast.Expr{be.X, be.Y} {
							other := []ast.Expr{be.Y, be.X}[k]
							if nm := fi.isCall(side, "go/types.Var.Name", "go/types.object.Name"); nm != nil && exprShort(fi.expandLocals(recvOf(nm))) == exprShort(fld) {
								v := fi.varOf(other)
								for hop := 0; v != nil && hop < 4; hop++ {
									next := (*types.Var)(nil)
									for _, d := range fi.defs[v] {
										if d.kind == "range-val" {
											ok2 = true // the name being looked up: an element of the call's field names
										}
										if (d.kind == "param" || d.kind == "define") && d.rhs != nil && len(fi.defs[v]) == 1 {
											next = fi.varOf(d.rhs)
										}
									}
									v = next
								}
							}
						}
					}
					r.Check(ok2, "namedByCall/field-package#"+itoa(n), as.Pos(), "the package of a printed field name is that of the struct field with exactly that name")
					return true
				})
				r.Floor("field package assignments", n, 1)
			}
		})
}

// reachingDef: of the straight-line definitions of v, the last one that
// precedes the use (structural order); nil when a definition sits in a loop
// or branch that the use is not part of.
func (fi *FuncInfo) reachingDef(v *types.Var, use ast.Node) *defSite {
	var best *defSite
	for i := range fi.defs[v] {
		d := &fi.defs[v][i]
		if d.node == nil || startOf(d.node) >= startOf(use) {
			continue
		}
		if best == nil || startOf(d.node) > startOf(best.node) {
			best = d
		}
	}
	if best == nil || best.rhs == nil {
		return nil
	}
	// the definition must dominate the use: it is an earlier sibling of the use or of one of its ancestors
	if !fi.precedes(fi.stmtOf(best.node), use) {
		// … or the init of an if / switch statement the use is inside of
		inInit := false
		for p := fi.parent[use]; p != nil; p = fi.parent[p] {
			switch x := p.(type) {
			case *ast.IfStmt:
				if x.Init != nil && fi.within(best.node, x.Init) {
					inInit = true
				}
			case *ast.SwitchStmt:
				if x.Init != nil && fi.within(best.node, x.Init) {
					inInit = true
				}
			}
		}
		if !inInit {
			return nil
		}
	}
	return best
}

func asExpr(n ast.Node) ast.Expr {
	e, _ := n.(ast.Expr)
	return e
}

func init() {
	register("C18.R7", "user tags are split at commas and spaces, at nothing else: the predicate load hands to strings.FieldsFunc is true exactly for ',' and ' '",
		func(c *Ctx, r *R) {
			fi := r.Need(c.Fn(c.W, "load"), "load")
			if fi == nil {
				return
			}
			n := 0
			for _, cl := range fi.callsDeep(fi.Decl.Body) {
				if fi.calleeName(cl) != "strings.FieldsFunc" || len(cl.Args) != 2 {
					continue
				}
				n++
				lit, _ := ast.Unparen(fi.deref(cl.Args[1])).(*ast.FuncLit)
				var body []ast.Stmt
				var param *types.Var
				if lit != nil {
					body = lit.Body.List
					if len(lit.Type.Params.List) == 1 && len(lit.Type.Params.List[0].Names) == 1 {
						param, _ = fi.Info.Defs[lit.Type.Params.List[0].Names[0]].(*types.Var)
					}
				} else if h := fi.C.FnOf(fi.calleeOfValue(cl.Args[1])); h != nil {
					body = h.Decl.Body.List
					if len(h.Decl.Type.Params.List) == 1 && len(h.Decl.Type.Params.List[0].Names) == 1 {
						param, _ = h.Info.Defs[h.Decl.Type.Params.List[0].Names[0]].(*types.Var)
					}
				}
				atom := func(e ast.Expr) (string, bool) {
					be, ok := ast.Unparen(e).(*ast.BinaryExpr)
					if !ok || (be.Op != token.EQL && be.Op != token.NEQ) || fi.varOf(be.X) != param || param == nil {
						return "", false
					}
					switch types.ExprString(be.Y) {
					case "','":
						return "comma", be.Op == token.EQL
					case "' '":
						return "space", be.Op == token.EQL
					}
					return "", false
				}
				okT := body != nil
				for m := 0; m < 4 && okT; m++ {
					env := map[string]bool{"comma": m&1 != 0, "space": m&2 != 0}
					if m == 3 {
						continue // a rune is not both
					}
					v, ok := fi.evalBoolStmts(body, env, atom)
					if !ok || v != (m != 0) {
						okT = false
					}
				}
				r.Check(okT, "load/tag-separators#"+itoa(n), cl.Pos(), "the separator predicate is true exactly for a comma and for a space")
			}
			r.Floor("tag splits", n, 1)
		})
}

// calleeOfValue: the declared function an identifier used as a function value denotes.
func (fi *FuncInfo) calleeOfValue(e ast.Expr) *types.Func {
	if id, ok := ast.Unparen(e).(*ast.Ident); ok {
		f, _ := fi.Info.Uses[id].(*types.Func)
		return f
	}
	return nil
}

func init() {
	register("C20.R10", "last-element idioms cannot index out of range: wherever a slice is indexed or cut by an expression built from its own length, the expression is len(S)-1 and the slice is known to be non-empty there (a loop that runs while it is non-empty, a dominating length test, or the left operand of the && / || the access sits in)",
		func(c *Ctx, r *R) {
			n := 0
			perFn := map[string]int{}
			for _, fi := range c.all {
				fi := fi
				fi.inspect(fi.Decl.Body, func(nd ast.Node) bool {
					var seq, idx ast.Expr
					isCut := false
					switch x := nd.(type) {
					case *ast.IndexExpr:
						seq, idx = x.X, x.Index
					case *ast.SliceExpr:
						if x.High == nil {
							return true
						}
						seq, idx, isCut = x.X, x.High, true
					default:
						return true
					}
					if t := fi.Info.TypeOf(seq); t == nil {
						return true
					} else if _, isSlice := t.Underlying().(*types.Slice); !isSlice {
						return true
					}
					isLen := func(e ast.Expr) bool {
						if e == nil {
							return false
						}
						if l := fi.isBuiltin(e, "len"); l != nil && fi.sameExpr(l.Args[0], seq) {
							return true
						}
						if lv := fi.varOf(e); lv != nil && len(fi.defs[lv]) > 0 {
							for _, d := range fi.defs[lv] {
								if l := fi.isBuiltin(d.rhs, "len"); l == nil || !fi.sameExpr(l.Args[0], seq) {
									return false
								}
							}
							return true
						}
						return false
					}
					mentions := false
					ast.Inspect(idx, func(m ast.Node) bool {
						if isLen(asExpr(m)) {
							mentions = true
						}
						return true
					})
					if !mentions {
						return true
					}
					if isCut && isLen(ast.Unparen(idx)) {
						return true // S[:len(S)] is always in range
					}
					n++
					perFn[fi.Name]++
					key := fi.Name + "/last-element:" + roleShort(fi, seq) + "#" + itoa(perFn[fi.Name])
					be, ok := ast.Unparen(idx).(*ast.BinaryExpr)
					if !ok || be.Op != token.SUB || types.ExprString(be.Y) != "1" || !isLen(be.X) {
						r.Bad(key, nd.Pos(), "the position is built from the slice's length but is not len-1: %s", exprShort(idx))
						return true
					}
					nonEmpty := false
					for _, g := range fi.guardsWithShortCircuit(nd) {
						if x, ne, isL := fi.lenTest(g); isL && ne && fi.sameExpr(x, seq) {
							nonEmpty = true
						}
						if b2, isB := ast.Unparen(g.Expr).(*ast.BinaryExpr); isB && !g.Neg && b2.Op == token.GTR && types.ExprString(b2.Y) == "0" && isLen(b2.X) {
							nonEmpty = true
						}
					}
					for l := fi.enclosingLoop(nd); l != nil && !nonEmpty; l = fi.enclosingLoop(l) {
						if f, ok := l.(*ast.ForStmt); ok && f.Cond != nil {
							if x, ne, isL := fi.lenTest(Cond{Kind: "bool", Expr: f.Cond}); isL && ne && fi.sameExpr(x, seq) {
								nonEmpty = true
							}
							if b2, isB := ast.Unparen(f.Cond).(*ast.BinaryExpr); isB && b2.Op == token.GTR && types.ExprString(b2.Y) == "0" && isLen(b2.X) {
								nonEmpty = true
							}
						}
					}
					// the slice was appended to just before, in straight line: x = append(x, …); … x[len(x)-1]
					if !nonEmpty {
						if v := fi.varOf(seq); v != nil {
							for _, d := range fi.defs[v] {
								if ap := fi.isBuiltin(d.rhs, "append"); ap != nil && len(ap.Args) >= 2 && d.node != nil && fi.precedes(fi.stmtOf(d.node), nd) {
									nonEmpty = true
								}
							}
						}
					}
					// a pop that mirrors a push made under the same test (pre- and post-order callbacks of one traversal)
					if !nonEmpty {
						if v := fi.varOf(seq); v != nil {
							var popTest ast.Expr
							for _, g := range fi.Guards(nd) {
								if x, isNil, isT := fi.nilTest(g); isT && !isNil {
									popTest = fi.expandLocals(x)
								}
							}
							if popTest != nil {
								for _, d := range fi.defs[v] {
									if ap := fi.isBuiltin(d.rhs, "append"); ap != nil && d.node != nil {
										for _, g := range fi.Guards(d.node) {
											if x, isNil, isT := fi.nilTest(g); isT && !isNil && exprShort(fi.expandLocals(x)) == exprShort(popTest) {
												nonEmpty = true
											}
										}
									}
								}
							}
						}
					}
					// an element popped from a stack onto which only non-empty slices are ever put
					if !nonEmpty {
						if v := fi.varOf(seq); v != nil {
							if d := fi.singleDef(v); d != nil && d.rhs != nil {
								if ix, ok := ast.Unparen(d.rhs).(*ast.IndexExpr); ok {
									if stack := fi.varOf(ix.X); stack != nil {
										all, any := true, false
										nonEmptyValue := func(e ast.Expr) bool {
											e = fi.deref(e)
											if cl, ok := ast.Unparen(e).(*ast.CompositeLit); ok {
												return len(cl.Elts) > 0
											}
											if ap := fi.isBuiltin(e, "append"); ap != nil {
												return len(ap.Args) >= 2 && !ap.Ellipsis.IsValid()
											}
											return false
										}
										for _, sd := range fi.defs[stack] {
											if sd.rhs == nil {
												continue
											}
											switch x := ast.Unparen(sd.rhs).(type) {
											case *ast.CompositeLit:
												for _, el := range x.Elts {
													any = true
													if !nonEmptyValue(el) {
														all = false
													}
												}
											case *ast.CallExpr:
												if ap := fi.isBuiltin(x, "append"); ap != nil && !ap.Ellipsis.IsValid() {
													for _, el := range ap.Args[1:] {
														any = true
														if !nonEmptyValue(el) {
															all = false
														}
													}
												} else {
													all = false
												}
											case *ast.SliceExpr:
												// the pop itself
											default:
												all = false
											}
										}
										if all && any {
											nonEmpty = true
										}
									}
								}
							}
						}
					}
					r.Check(nonEmpty, key, nd.Pos(), "%s is non-empty where its last element is taken", exprShort(seq))
					return true
				})
			}
			r.Floor("last-element accesses", n, 10)
		})
}

func init() {
	register("C20.R11", "nothing is dereferenced on the edge on which it is known to be nil: a field selection, method call or dereference through a pointer- or interface-typed variable (or through the same call expression) is never dominated by a test that says exactly that value is nil — the contradiction an inverted nil test produces",
		func(c *Ctx, r *R) {
			n, bad := 0, 0
			for _, fi := range c.all {
				fi := fi
				fi.inspect(fi.Decl.Body, func(nd ast.Node) bool {
					var base ast.Expr
					switch x := nd.(type) {
					case *ast.SelectorExpr:
						base = x.X
					case *ast.StarExpr:
						base = x.X
					default:
						return true
					}
					t := fi.Info.TypeOf(base)
					if t == nil {
						return true
					}
					switch t.Underlying().(type) {
					case *types.Pointer, *types.Interface:
					default:
						return true
					}
					if _, isPkg := fi.Info.Uses[identOf(base)].(*types.PkgName); isPkg {
						return true
					}
					n++
					v := fi.varOf(base)
					for _, g := range fi.guardsWithShortCircuit(nd) {
						x, isNil, isT := fi.nilTest(g)
						if !isT || !isNil {
							continue
						}
						same := false
						if v != nil && fi.varOf(x) == v {
							// the variable must not be assigned between the test and the use
							from := 0
							if is, ok := g.At.(*ast.IfStmt); ok {
								from = startOf(is.Cond)
							} else if g.At != nil {
								from = startOf(g.At)
							}
							again := false
							for _, d := range fi.defs[v] {
								if d.node != nil && startOf(d.node) > from && startOf(d.node) < startOf(nd) {
									again = true
								}
							}
							same = !again && from > 0
						} else if v == nil && fi.sameExpr(x, base) && pureArg(base) {
							same = true
						}
						if same {
							bad++
							r.Bad(fi.Name+"/nil-deref:"+roleShort(fi, base)+"#"+itoa(bad), nd.Pos(), "%s is dereferenced although %s == nil holds here", exprShort(base), exprShort(x))
						}
					}
					return true
				})
			}
			r.Floor("dereferences through pointers and interfaces", n, 300)
			r.Ok("no-contradiction", 0, "no dereference sits on the nil edge of a test of the same value (%d dereferences)", n)
		})
}

func identOf(e ast.Expr) *ast.Ident {
	id, _ := ast.Unparen(e).(*ast.Ident)
	return id
}
