package main

import (
	"go/ast"
	"go/token"
	"go/types"
)

// Rules added after the third probing round (DESIGN.md §5, F43–F47).

func init() {
	register("C05.R5", "no wire.Build call escapes analysis: findInjectorBuild declares a function a non-injector (nil call, nil error) only when it has no body or when no call of wire.Build occurs anywhere in the body; the search for such calls walks the whole body and recognises the callee by the object it denotes",
		func(c *Ctx, r *R) {
			fi := r.Need(c.Fn(c.W, "findInjectorBuild"), "findInjectorBuild")
			if fi == nil {
				return
			}
			// the searching helper (analysed in place when it has one call site; specialised otherwise)
			isSearch := func(cl *ast.CallExpr) bool {
				h := fi.C.linked[cl]
				if h == nil {
					if f := fi.callee(cl); f != nil {
						h = fi.C.FnOf(f)
					}
				}
				if h == nil || len(cl.Args) < 2 {
					return false
				}
				// it inspects its block parameter completely and answers true exactly for calls denoting wire.Build
				whole, byObject := false, false
				for _, in := range h.callsDeep(h.Decl.Body) {
					if h.calleeName(in) == "go/ast.Inspect" && len(in.Args) == 2 {
						if v := h.varOf(in.Args[0]); v != nil && h.isParam(v) {
							whole = true
						}
					}
					if h.calleeName(in) == pathW+".isWireImport" {
						byObject = true
					}
				}
				build := false
				h.inspect(h.Decl.Body, func(n ast.Node) bool {
					if lit, ok := n.(*ast.BasicLit); ok && lit.Value == `"Build"` {
						build = true
					}
					return true
				})
				return whole && byObject && build
			}
			n := 0
			for i, ret := range fi.returnsOf() {
				if len(ret.Results) != 2 || !fi.isNilIdent(ret.Results[0]) || !fi.isNilIdent(ret.Results[1]) {
					continue
				}
				n++
				ok, why := false, "a function is reported as not being an injector without looking for wire.Build calls in its body"
				for _, g := range fi.Guards(ret) {
					if x, isNil, isT := fi.nilTest(g); isT && isNil {
						if f := fi.selField(x); f != nil && f.Name() == "Body" {
							ok, why = true, "the function has no body"
						}
					}
					if g.Kind == "bool" && g.Neg {
						if cl, isCall := ast.Unparen(g.Expr).(*ast.CallExpr); isCall && isSearch(cl) {
							if f := fi.selField(cl.Args[1]); f != nil && f.Name() == "Body" {
								ok, why = true, "no wire.Build call occurs anywhere in the body"
							}
						}
					}
				}
				r.Check(ok, "findInjectorBuild/not-an-injector#"+itoa(i), ret.Pos(), "%s", why)
			}
			r.Floor("not-an-injector returns", n, 2)
		})

	register("C17.R10", "the default-command form takes gen's options: the genCmd that main executes when no command is named has had SetFlags called on the very flag set it is executed with, before that flag set is parsed",
		func(c *Ctx, r *R) {
			fi := r.Need(c.Fn(c.Cmd, "main"), "main")
			if fi == nil {
				return
			}
			n := 0
			for _, ex := range fi.callsTo(pathCmd + ".genCmd.Execute") {
				n++
				recv := fi.varOf(recvOf(ex))
				ok, why := false, "the default gen command is executed with a flag set on which its options were never registered: `wire -tags x ./pkg` fails with \"flag provided but not defined\""
				if recv != nil && len(ex.Args) == 2 {
					for _, sf := range fi.callsTo(pathCmd + ".genCmd.SetFlags") {
						if fi.varOf(recvOf(sf)) != recv || len(sf.Args) != 1 || !fi.sameExpr(sf.Args[0], ex.Args[1]) {
							continue
						}
						if !fi.unconditionalIn(sf, fi.Decl.Body) {
							continue
						}
						for _, ps := range fi.callsTo("flag.Parse") {
							if startOf(sf) < startOf(ps) && startOf(ps) < startOf(ex) {
								ok, why = true, "options registered on the command line's flag set before it is parsed"
							}
						}
					}
				}
				r.Check(ok, "main/default-gen-options-registered", ex.Pos(), "%s", why)
			}
			r.Floor("default gen executions in main", n, 1)
		})

	register("C10.R12", "wire.Struct resolves its type operand through instantiation syntax: in processStructProvider the expression given to qualifiedIdentObject has *ast.IndexExpr and *ast.IndexListExpr unwrapped to their X (new(Box[int]) names the generic struct Box), and the emitter writes a directly named instantiated struct with its type arguments",
		func(c *Ctx, r *R) {
			fi := r.Need(c.Fn(c.W, "processStructProvider"), "processStructProvider")
			if fi == nil {
				return
			}
			unwrapped := map[string]bool{}
			var target *types.Var
			for _, cl := range fi.callsTo(pathW + ".qualifiedIdentObject") {
				if len(cl.Args) == 2 {
					if v := fi.varOf(cl.Args[1]); v != nil {
						target = v
					}
				}
			}
			if target != nil {
				fi.inspect(fi.Decl.Body, func(n ast.Node) bool {
					as, ok := n.(*ast.AssignStmt)
					if !ok || len(as.Lhs) != 1 || len(as.Rhs) != 1 || fi.varOf(as.Lhs[0]) != target {
						return true
					}
					sel, ok := ast.Unparen(as.Rhs[0]).(*ast.SelectorExpr)
					if !ok || sel.Sel.Name != "X" {
						return true
					}
					if t := fi.Info.TypeOf(sel.X); t != nil {
						unwrapped[types.TypeString(t, nil)] = true
					}
					return true
				})
			}
			r.Check(target != nil, "Struct/type-operand", fi.Decl.Pos(), "the type operand handed to qualifiedIdentObject is a local the function may rewrite")
			for _, k := range []string{"*go/ast.IndexExpr", "*go/ast.IndexListExpr"} {
				r.Check(unwrapped[k], "Struct/unwraps:"+k, fi.Decl.Pos(), "%s is unwrapped to the generic type's name", k)
			}
			if t := traceOf(c, r, "injectorGen.structProviderCall"); t != nil {
				r.Check(containsAll(t.text, "TypeArgs().Len()>0", "types.TypeString(", "recv.g.qualifyPkg"), "Struct/emits-type-arguments", t.fi.Decl.Pos(), "an instantiated struct type is printed with its type arguments through the import-registering qualifier")
			}
		})
}

func containsAll(s string, subs ...string) bool {
	for _, x := range subs {
		found := false
		for i := 0; i+len(x) <= len(s); i++ {
			if s[i:i+len(x)] == x {
				found = true
				break
			}
		}
		if !found {
			return false
		}
	}
	return true
}

func init() {
	register("C01.R13", "an injector file is listed once: generateInjectors appends the file of an injector to the list handed to the declaration copier exactly when the list is empty or its LAST element is another file (files are visited one after the other, so equal files are adjacent); listing a file twice copies its other declarations twice",
		func(c *Ctx, r *R) {
			fi := r.Need(c.Fn(c.W, "generateInjectors"), "generateInjectors")
			if fi == nil {
				return
			}
			n := 0
			fi.inspect(fi.Decl.Body, func(nd ast.Node) bool {
				as, ok := nd.(*ast.AssignStmt)
				if !ok || len(as.Lhs) != 1 || len(as.Rhs) != 1 {
					return true
				}
				ap := fi.isBuiltin(as.Rhs[0], "append")
				if ap == nil || len(ap.Args) != 2 || types.TypeString(fi.Info.TypeOf(as.Lhs[0]), nil) != "[]*go/ast.File" {
					return true
				}
				list, file := fi.varOf(as.Lhs[0]), fi.varOf(ap.Args[1])
				if list == nil || file == nil || fi.varOf(ap.Args[0]) != list {
					return true
				}
				n++
				// the file is the variable of an enclosing loop over the package's files
				inFileLoop := false
				for l := fi.enclosingLoop(as); l != nil; l = fi.enclosingLoop(l) {
					if rs, ok := l.(*ast.RangeStmt); ok && rs.Value != nil && fi.varOf(rs.Value) == file {
						inFileLoop = true
					}
				}
				r.Check(inFileLoop, "generateInjectors/lists-the-visited-file", as.Pos(), "the listed file is the one being visited")
				atom := func(e ast.Expr) (string, bool) {
					be, ok := ast.Unparen(e).(*ast.BinaryExpr)
					if !ok {
						return "", false
					}
					if l := fi.isBuiltin(be.X, "len"); l != nil && fi.varOf(l.Args[0]) == list && types.ExprString(be.Y) == "0" {
						switch be.Op {
						case token.EQL:
							return "empty", true
						case token.GTR, token.NEQ:
							return "empty", false
						}
					}
					if be.Op == token.EQL || be.Op == token.NEQ {
						x, y := be.X, be.Y
						if fi.varOf(y) != file {
							x, y = y, x
						}
						if ix, ok := ast.Unparen(x).(*ast.IndexExpr); ok && fi.varOf(y) == file && fi.varOf(ix.X) == list {
							// the index is len(list)-1
							if sub, ok := ast.Unparen(fi.deref(ix.Index)).(*ast.BinaryExpr); ok && sub.Op == token.SUB && types.ExprString(sub.Y) == "1" {
								if l := fi.isBuiltin(fi.deref(sub.X), "len"); l != nil && fi.varOf(l.Args[0]) == list {
									return "lastIsOther", be.Op == token.NEQ
								}
							}
						}
					}
					return "", false
				}
				var gs []Cond
				for _, g := range fi.Guards(as) {
					if _, ok := atom(g.Expr); ok || g.Kind == "bool" && (isLogical(g.Expr)) {
						gs = append(gs, g)
					}
				}
				okT := len(gs) > 0
				for _, empty := range []bool{false, true} {
					for _, other := range []bool{false, true} {
						v, ok := evalGuards(gs, map[string]bool{"empty": empty, "lastIsOther": other}, atom)
						if !ok || v != (empty || other) {
							okT = false
						}
					}
				}
				r.Check(okT, "generateInjectors/listed-once", as.Pos(), "the file is appended exactly when the list is empty or ends in another file")
				return true
			})
			r.Floor("injector-file list appends", n, 1)
		})
}

func isLogical(e ast.Expr) bool {
	switch x := ast.Unparen(e).(type) {
	case *ast.BinaryExpr:
		return x.Op == token.LAND || x.Op == token.LOR
	case *ast.UnaryExpr:
		return x.Op == token.NOT
	}
	return false
}
