package main

import (
	"go/ast"
	"go/token"
	"go/types"
	"os"
	"path/filepath"
	"regexp"
	"strconv"
	"strings"

	"golang.org/x/tools/go/packages"
)

// Rules for defects that were reproduced against the real tool but are not
// repaired (DESIGN.md §5): each finds the construct responsible; the matching
// entries in known_findings.json turn the report into a KNOWN-FINDING line.

func init() {
	register("C13.R5", "both value constructors apply the evaluation-safety filter: the expression a Value will be initialised from is walked (ast.Inspect) to reject calls and channel receives — in processValue and in processInterfaceValue alike",
		func(c *Ctx, r *R) {
			for _, name := range []string{"processValue", "processInterfaceValue"} {
				fi := r.Need(c.Fn(c.W, name), name)
				if fi == nil {
					continue
				}
				// the expression stored in the Value
				var stored ast.Expr
				fi.inspect(fi.Decl.Body, func(nd ast.Node) bool {
					if cl, ok := nd.(*ast.CompositeLit); ok && isNamed(fi.Info.TypeOf(cl), pathW, "Value") {
						for _, el := range cl.Elts {
							if kv, ok := el.(*ast.KeyValueExpr); ok && kv.Key.(*ast.Ident).Name == "expr" {
								stored = kv.Value
							}
						}
					}
					return true
				})
				if stored == nil {
					r.Bad(name+"/stored-expression", fi.Decl.Pos(), "Value literal not found")
					continue
				}
				walked := false
				for _, cl := range fi.callsTo("go/ast.Inspect") {
					if fi.sameExpr(cl.Args[0], stored) {
						walked = true
					}
				}
				r.Check(walked, name+"/evaluation-safety-filter", fi.Decl.Pos(), "the stored expression is walked for calls and receives before it is accepted")
			}
		})

	register("C01.R10", "type names are printed as the user wrote them: the tool is built with alias types materialised (go directive >= 1.23 in its go.mod, or //go:debug gotypesalias=1 in cmd/wire), otherwise types.TypeString prints an alias's target — for an exported alias of an unexported type, a name the injector's package cannot use",
		func(c *Ctx, r *R) {
			b, err := os.ReadFile(filepath.Join(c.Repo, "go.mod"))
			if err != nil {
				r.Bad("go.mod", token.NoPos, "cannot read go.mod: %v", err)
				return
			}
			m := regexp.MustCompile(`(?m)^go\s+(\d+)\.(\d+)`).FindStringSubmatch(string(b))
			okV := false
			got := "no go directive"
			if m != nil {
				maj, _ := strconv.Atoi(m[1])
				min, _ := strconv.Atoi(m[2])
				okV = maj > 1 || min >= 23
				got = "go " + m[1] + "." + m[2]
			}
			if !okV {
				for _, f := range c.Cmd.Syntax {
					for _, cg := range f.Comments {
						for _, cm := range cg.List {
							if strings.HasPrefix(cm.Text, "//go:debug gotypesalias=1") {
								okV = true
							}
						}
					}
				}
			}
			r.Check(okV, "go.mod/aliases-materialised", c.Cmd.Syntax[0].Pos(), "alias types are materialised in the tool's build (%s)", got)
		})

	register("C20.R7", "the type-keyed maps accept every type the checker can hand them: the typeutil.Hasher of the x/tools version the module requires has a case for *types.Alias (or unaliases) — without it, hashing an alias type panics as soon as the tool is built or run with aliases materialised (go run from a go 1.23 module)",
		func(c *Ctx, r *R) {
			var tu *packages.Package
			packages.Visit([]*packages.Package{c.W}, nil, func(p *packages.Package) {
				if p.PkgPath == "golang.org/x/tools/go/types/typeutil" {
					tu = p
				}
			})
			if tu == nil || len(tu.Syntax) == 0 {
				r.Bad("typeutil", token.NoPos, "golang.org/x/tools/go/types/typeutil not loaded with syntax")
				return
			}
			handles := false
			var pos token.Pos
			for _, f := range tu.Syntax {
				ast.Inspect(f, func(nd ast.Node) bool {
					fd, ok := nd.(*ast.FuncDecl)
					if !ok || !strings.HasPrefix(fd.Name.Name, "hash") {
						return true
					}
					if pos == token.NoPos {
						pos = fd.Pos()
					}
					ast.Inspect(fd, func(m ast.Node) bool {
						if se, ok := m.(*ast.SelectorExpr); ok && (se.Sel.Name == "Alias" || se.Sel.Name == "Unalias") {
							handles = true
						}
						return true
					})
					return true
				})
			}
			ver := ""
			if tu.Module != nil {
				ver = tu.Module.Version
			}
			r.Check(handles, "typeutil.Hasher/alias-case", pos, "the hasher of golang.org/x/tools %s handles alias types", ver)
		})

	register("C01.R11", "every import the generated file adds is importable from its package: Go's internal-directory rule is applied to the packages of providers and value expressions taken from other packages' sets",
		func(c *Ctx, r *R) {
			g := r.Need(c.Fn(c.W, "Generate"), "Generate")
			if g == nil {
				return
			}
			rr := c.reach(g)
			mentions := false
			for f := range rr.in {
				ast.Inspect(f.Decl, func(nd ast.Node) bool {
					if lit, ok := nd.(*ast.BasicLit); ok && lit.Kind == token.STRING && strings.Contains(lit.Value, "internal") && !strings.Contains(lit.Value, " ") {
						mentions = true
					}
					return true
				})
			}
			qi := c.Fn(c.W, "gen.qualifyImport")
			pos := g.Decl.Pos()
			if qi != nil {
				pos = qi.Decl.Pos()
			}
			r.Check(mentions, "imports/internal-directory-rule", pos, "some function reachable from Generate tests an import path for an internal element (%d functions examined)", len(rr.in))
		})

	register("C13.R6", "predeclared identifiers in a moved expression keep their meaning: an identifier that resolves to the universe scope (true, nil, len, …) is checked against the destination package's scope, where it may be shadowed",
		func(c *Ctx, r *R) {
			fi := r.Need(c.Fn(c.W, "accessibleFrom"), "accessibleFrom")
			if fi == nil {
				return
			}
			// the destination must be available as a package or scope, not only as a path
			hasScope := false
			for _, f := range fi.Decl.Type.Params.List {
				ts := types.TypeString(fi.Info.TypeOf(f.Type), nil)
				if strings.Contains(ts, "go/types.Package") || strings.Contains(ts, "go/types.Scope") || strings.Contains(ts, "packages.Package") {
					hasScope = true
				}
			}
			looks := len(fi.callsTo("go/types.Scope.Lookup")) > 0
			r.Check(hasScope && looks, "accessibleFrom/universe-shadowing", fi.Decl.Pos(), "accessibleFrom can see the destination package's scope and looks universe names up in it")
		})

	register("C01.R12", "whatever the generated code may name exists in the normal build: declarations are copied out of every file of the package that the normal build excludes, not only out of files that happen to contain an injector",
		func(c *Ctx, r *R) {
			fi := r.Need(c.Fn(c.W, "generateInjectors"), "generateInjectors")
			if fi == nil {
				return
			}
			n := 0
			fi.inspect(fi.Decl.Body, func(nd ast.Node) bool {
				as, ok := nd.(*ast.AssignStmt)
				if !ok || len(as.Rhs) != 1 || fi.isBuiltin(as.Rhs[0], "append") == nil {
					return true
				}
				if t := fi.Info.TypeOf(as.Lhs[0]); t == nil || types.TypeString(t, nil) != "[]*go/ast.File" {
					return true
				}
				n++
				// the file is selected under "it contains an injector": any guard inside the per-file loop
				loop := fi.enclosingLoop(as)
				conditional := false
				if loop != nil {
					// the append sits inside the per-declaration loop or behind a flag set there
					for p := fi.parent[ast.Node(as)]; p != nil && p != ast.Node(loop); p = fi.parent[p] {
						if _, isIf := p.(*ast.IfStmt); isIf {
							conditional = true
						}
					}
					if inner, isRange := loop.(*ast.RangeStmt); isRange && types.TypeString(fi.Info.TypeOf(inner.X), nil) != "[]*go/ast.File" {
						conditional = true
					}
				}
				r.Check(!conditional, "copied-files/only-files-with-injectors", as.Pos(), "a file's declarations are copied whether or not the file contains an injector (a wireinject-only file with providers and no injector is otherwise lost to the normal build)")
				return true
			})
			r.Floor("file selections", n, 1)
		})

	register("C10.R8", "bindings resolve independently of argument order: in buildProviderMap's loop over a set's bindings, no iteration reads a provider-map entry that another iteration of the same loop writes — a binding whose concrete type is itself bound (Bind(J, I) with Bind(I, *T)) is otherwise accepted in one order and rejected in the other",
		func(c *Ctx, r *R) {
			fi := r.Need(c.Fn(c.W, "buildProviderMap"), "buildProviderMap")
			if fi == nil {
				return
			}
			n := 0
			fi.inspect(fi.Decl.Body, func(nd ast.Node) bool {
				rs, ok := nd.(*ast.RangeStmt)
				if !ok {
					return true
				}
				if f := fi.selField(rs.X); f == nil || f.Name() != "Bindings" {
					return true
				}
				n++
				item := fi.varOf(rs.Value)
				// the provider map: the first result of the function's successful return
				var provMap *types.Var
				for _, ret := range fi.returnsOf() {
					if len(ret.Results) == 3 && fi.isNilIdent(ret.Results[2]) {
						provMap = fi.varOf(ret.Results[0])
					}
				}
				reads, writes := map[string]ast.Node{}, map[string]ast.Node{}
				for _, cl := range fi.callsDeep(rs.Body) {
					nm := fi.calleeName(cl)
					if !strings.HasSuffix(nm, "typeutil.Map.At") && !strings.HasSuffix(nm, "typeutil.Map.Set") {
						continue
					}
					if v := fi.varOf(recvOf(cl)); v == nil || v != provMap {
						continue
					}
					if sel, ok := ast.Unparen(cl.Args[0]).(*ast.SelectorExpr); ok && fi.varOf(sel.X) == item {
						if strings.HasSuffix(nm, ".At") {
							reads[sel.Sel.Name] = cl
						} else {
							writes[sel.Sel.Name] = cl
						}
					}
				}
				for k, at := range reads {
					if _, w := writes[k]; w {
						continue // same key: only decides which duplicate is reported
					}
					if len(writes) > 0 {
						r.Bad("buildProviderMap/bindings/read-after-write:"+k, at.Pos(), "the loop reads providerMap at b.%s and writes it at another field of the same item: a binding can depend on one processed later", k)
					}
				}
				if len(reads) == 0 || len(writes) == 0 {
					r.Ok("buildProviderMap/bindings/phases", rs.Pos(), "the bindings loop does not both read and write the provider map")
				}
				return true
			})
			r.Floor("bindings loops", n, 1)
		})

	register("C18.R5", "a package that no longer has injectors does not keep a stale output: when generation yields nothing for a package, gen removes (or at least reports) an existing output file instead of silently leaving it",
		func(c *Ctx, r *R) {
			fi := r.Need(c.Fn(c.Cmd, "genCmd.Execute"), "genCmd.Execute")
			if fi == nil {
				return
			}
			n := 0
			fi.inspect(fi.Decl.Body, func(nd ast.Node) bool {
				is, ok := nd.(*ast.IfStmt)
				if !ok {
					return true
				}
				x, ne, isLen := fi.lenTest(Cond{Kind: "bool", Expr: is.Cond})
				if !isLen || ne {
					return true
				}
				if f := fi.selField(x); f == nil || f.Name() != "Content" {
					return true
				}
				n++
				handles := false
				for _, cl := range callsIn(is.Body) {
					switch fi.calleeName(cl) {
					case "os.Remove", "os.Stat", "os.Lstat", "log.Printf", "log.Println":
						handles = true
					}
				}
				r.Check(handles, "genCmd.Execute/empty-result/stale-output", is.Pos(), "the empty-result branch deals with an output file left from an earlier run")
				return true
			})
			r.Floor("empty-result branches", n, 1)
		})
	register("C15.R8", "one source variable, one new name: the renaming pass keys its chosen names by types.Object, but the symbolic variable of a type switch (switch v := x.(type)) has a distinct implicit object per clause and a declaring identifier with no object at all — unless the pass treats them as one (by declaration position, or through Info.Implicits), uses are renamed clause by clause and the declaration is not",
		func(c *Ctx, r *R) {
			fi := r.Need(c.Fn(c.W, "gen.rewritePkgRefs"), "gen.rewritePkgRefs")
			if fi == nil {
				return
			}
			byObject := false
			var posMap *types.Var
			fi.inspect(fi.Decl.Body, func(nd ast.Node) bool {
				if as, ok := nd.(*ast.AssignStmt); ok && len(as.Lhs) == 1 && len(as.Rhs) == 1 {
					if t := fi.Info.TypeOf(as.Rhs[0]); t != nil {
						if m, ok := t.Underlying().(*types.Map); ok {
							switch types.TypeString(m.Key(), nil) {
							case "go/types.Object":
								byObject = true
							case "go/token.Pos":
								posMap = fi.varOf(as.Lhs[0])
							}
						}
					}
				}
				return true
			})
			if !byObject {
				r.Ok("rename/keyed-by-object", fi.Decl.Pos(), "the renaming pass does not key names by object")
				return
			}
			// (a) at an identifier with no object that declares a type switch variable, the chosen name is stored by the
			//     identifier's position; (b) an identifier whose object is positioned there is given that name
			stored, consulted := false, false
			if posMap != nil {
				fi.inspect(fi.Decl.Body, func(nd ast.Node) bool {
					ix, ok := nd.(*ast.IndexExpr)
					if !ok || fi.varOf(ix.X) != posMap {
						return true
					}
					pc := fi.isCall(ix.Index, "go/ast.Ident.Pos", "go/types.Object.Pos", "go/types.object.Pos")
					if pc == nil {
						return true
					}
					if as, isAs := fi.parent[ast.Node(ix)].(*ast.AssignStmt); isAs && len(as.Lhs) == 1 && as.Lhs[0] == ast.Expr(ix) {
						// store: under "no object" and "declares a type switch variable"
						noObj, tsDecl := false, false
						for _, g := range fi.Guards(as) {
							if x, isNil, ok := fi.nilTest(g); ok && isNil && fi.isCall(fi.deref(x), "go/types.Info.ObjectOf", pathW+".referencedObject") != nil {
								noObj = true
							}
							if fi.isCall(g.Expr, pathW+".isTypeSwitchVarDecl") != nil && !g.Neg {
								tsDecl = true
							}
						}
						if noObj && tsDecl && strings.HasSuffix(fi.calleeName(pc), "Ident.Pos") {
							stored = true
						}
						return true
					}
					if strings.Contains(fi.calleeName(pc), "bject.Pos") {
						consulted = true
					}
					return true
				})
			}
			r.Check(stored && consulted, "rename/type-switch-variable", fi.Decl.Pos(), "the name chosen at the declaration of a type switch variable is stored by position (%v) and given to every identifier whose object is positioned there (%v)", stored, consulted)
		})
	register("C17.R9", "a failing package does not prevent output for the others — also when it fails to load: errors the loader reports for one root package are attached to that package's result instead of aborting the invocation",
		func(c *Ctx, r *R) {
			fi := r.Need(c.Fn(c.W, "load"), "load")
			if fi == nil {
				return
			}
			n := 0
			for _, ret := range fi.returnsOf() {
				if len(ret.Results) != 2 || !fi.isNilIdent(ret.Results[0]) {
					continue
				}
				v := fi.varOf(ret.Results[1])
				if v == nil {
					continue
				}
				// does the returned error list accumulate the per-package Errors of all packages?
				accumulates := false
				srcs := []*FuncInfo{fi}
				for _, d := range fi.defs[v] {
					if cl, ok := ast.Unparen(d.rhs).(*ast.CallExpr); ok {
						if h := c.FnOf(fi.callee(cl)); h != nil {
							srcs = append(srcs, h)
						}
					}
				}
				for _, f := range srcs {
					f.inspect(f.Decl.Body, func(nd ast.Node) bool {
						if rs, ok := nd.(*ast.RangeStmt); ok {
							if fld := f.selField(rs.X); fld != nil && fld.Name() == "Errors" {
								accumulates = true
							}
						}
						return true
					})
				}
				if accumulates {
					n++
					r.Bad("load/package-errors-abort-all", ret.Pos(), "the errors of every root package are merged and returned with no packages: one package that does not type-check (or one unresolvable pattern) stops generation for all the others")
				}
			}
			if n == 0 {
				r.Ok("load/package-errors-abort-all", fi.Decl.Pos(), "load does not turn per-package errors into a global failure")
			}
		})

	register("C18.R6", "the build constraint cannot be displaced by the header: it is written in the //go:build form, which gofmt treats as authoritative — written only as // +build, a header that carries its own //go:build line makes gofmt drop wire's constraint, and the generated file then joins the wireinject build",
		func(c *Ctx, r *R) {
			t := traceOf(c, r, "gen.frame")
			if t == nil {
				return
			}
			r.Check(strings.Contains(t.text, "//go:build !wireinject"), "frame/constraint-in-go-build-form", t.fi.Decl.Pos(), "frame emits //go:build !wireinject")
		})

	register("C16.R7", "names and code come from the user's files, not from tool output: a package whose syntax was produced by cgo (the loader parses CompiledGoFiles, build-cache files with cgo-translated code) is rejected or mapped back to its source files before section banners and copied declarations are taken from it",
		func(c *Ctx, r *R) {
			g := r.Need(c.Fn(c.W, "Generate"), "Generate")
			if g == nil {
				return
			}
			rr := c.reach(g)
			aware := false
			for f := range rr.in {
				ast.Inspect(f.Decl, func(nd ast.Node) bool {
					switch x := nd.(type) {
					case *ast.SelectorExpr:
						if x.Sel.Name == "CompiledGoFiles" {
							aware = true
						}
					case *ast.BasicLit:
						if x.Value == `"C"` {
							aware = true
						}
					}
					return true
				})
			}
			gi := c.Fn(c.W, "generateInjectors")
			pos := g.Decl.Pos()
			if gi != nil {
				pos = gi.Decl.Pos()
			}
			r.Check(aware, "generate/cgo-translated-syntax", pos, "some function reachable from Generate distinguishes cgo-translated files")
		})
	register("C20.R8", "diagnostics point into the user's sources: an error about an item of a marker call is positioned at that item's expression; a position taken from the declaration of the object the item names (a provider function, a struct type) lies wherever that declaration is — in the standard library or a dependency for wire.Build(os.Exit) — and notePosition never replaces a position already attached",
		func(c *Ctx, r *R) {
			n, bad := 0, 0
			for _, fi := range c.all {
				if fi.Pkg != c.W {
					continue
				}
				fi := fi
				per := 0
				for _, cl := range fi.callsTo(pathW+".notePosition", pathW+".notePositionAll") {
					n++
					pc := fi.isCall(cl.Args[0], "go/token.FileSet.Position")
					if pc == nil {
						continue
					}
					src := fi.deref(pc.Args[0])
					oc := fi.isCall(src, "go/types.Object.Pos", "go/types.object.Pos", "go/types.Func.Pos", "go/types.TypeName.Pos", "go/types.Var.Pos")
					if oc == nil {
						continue
					}
					// positions of objects of the package being analysed are the user's own (injector functions, set variables in Load)
					if fi.Name == "Load" || fi.Name == "generateInjectors" || fi.Name == "gen.inject" || fi.Name == "checkCalls" {
						continue
					}
					per++
					bad++
					r.Bad(fi.Name+"/position-of-referenced-declaration#"+itoa(per), cl.Pos(), "the diagnostic is positioned at the declaration of the object a marker argument names (%s), which need not be in the user's sources", exprShort(pc.Args[0]))
				}
			}
			if bad == 0 {
				r.Ok("positions-from-marker-syntax", token.NoPos, "no diagnostic takes its position from a referenced declaration (%d sites)", n)
			}
			r.Floor("positioned diagnostics examined", n, 30)
		})
}
