package main

import (
	"go/ast"
	"go/token"
	"go/types"
	"sort"
	"strings"
)

// inventorClass classifies the collision predicate passed to disambiguate /
// typeVariableName at call: "injector", "file", "import", "copied-local", or "?…".
func inventorClass(c *Ctx, fi *FuncInfo, call *ast.CallExpr) string {
	pred := call.Args[len(call.Args)-1]
	e := newEmitter(c, fi)
	if sel, ok := ast.Unparen(pred).(*ast.SelectorExpr); ok && fi.Info.Selections[sel] != nil {
		switch {
		case sel.Sel.Name == "nameInInjector" && isNamed(derefType(fi.Info.TypeOf(sel.X)), pathW, "injectorGen"):
			return "injector"
		case sel.Sel.Name == "nameInFileScope" && isNamed(derefType(fi.Info.TypeOf(sel.X)), pathW, "gen"):
			return "file"
		}
		return "?" + e.sym(pred)
	}
	if v := fi.varOf(pred); v != nil && fi.isParam(v) {
		return "param"
	}
	lit, ok := ast.Unparen(pred).(*ast.FuncLit)
	if !ok {
		return "?" + e.sym(pred)
	}
	// render the closure: sequence of (condition → true) then the final result
	var parts []string
	saved := e.names
	i := 0
	for _, f := range lit.Type.Params.List {
		for _, n := range f.Names {
			if v, ok := fi.Info.Defs[n].(*types.Var); ok {
				e.names[v] = "fp" + itoa(i)
			}
			i++
		}
	}
	var walk func(list []ast.Stmt, pre string)
	walk = func(list []ast.Stmt, pre string) {
		for _, s := range list {
			switch s := s.(type) {
			case *ast.IfStmt:
				init := ""
				if s.Init != nil {
					if as, ok := s.Init.(*ast.AssignStmt); ok {
						init = e.sym(as.Rhs[0]) + ";"
					}
				}
				walk(s.Body.List, pre+"if["+init+e.sym(s.Cond)+"]")
			case *ast.ReturnStmt:
				parts = append(parts, pre+"→"+e.sym(s.Results[0]))
			case *ast.AssignStmt:
				// definitions are substituted by sym
			default:
				parts = append(parts, pre+"?stmt")
			}
		}
	}
	walk(lit.Body.List, "")
	e.names = saved
	got := strings.Join(parts, " ; ")
	switch got {
	case `→((fp0=="err")||recv.nameInFileScope(fp0))`:
		return "import"
	case `if[(recv.nameInFileScope(fp0)||func{…}(fp0))]→true ; if[(len(m1)>0)]if[(m1[(len(m1)-1)].LookupParent(fp0,token.NoPos)#1!=nil)]→true ; →false`:
		return "copied-local"
	}
	return "?" + got
}

func init() {
	register("C14.R2", "every invented name is disambiguated against the right scopes: parameter, local and cleanup names against the injector (which includes the file); the error variable and value holders against the file; import aliases against err ∪ file; renamed locals of copied declarations against file ∪ chosen names ∪ the innermost source scope, and a local is renamed whenever it collides with the file or with a chosen name",
		func(c *Ctx, r *R) {
			want := map[string]string{
				"paramNames": "injector", "localNames": "injector", "cleanupNames": "injector",
				"errVar": "file", "values": "file", "importInfo.name": "import", "newNames": "copied-local",
			}
			seen := map[string]int{}
			// provenance of a stored value: every definition that can reach the store is an inventor call
			classOf := func(fi *FuncInfo, val ast.Expr, at ast.Node) (string, bool) {
				val = ast.Unparen(val)
				if cl := fi.isCall(val, pathW+".disambiguate", pathW+".typeVariableName"); cl != nil {
					return inventorClass(c, fi, cl), true
				}
				v := fi.varOf(val)
				if v == nil {
					return "not a variable or inventor call: " + exprShort(val), false
				}
				if d := fi.singleDef(v); d != nil {
					if cl := fi.isCall(d.rhs, pathW+".disambiguate", pathW+".typeVariableName"); cl != nil {
						return inventorClass(c, fi, cl), true
					}
					return "defined from " + exprShort(d.rhs), false
				}
				// re-assigned local: an if/else before the store must assign it from inventors on both arms
				var classes []string
				var gate *ast.IfStmt
				for _, d := range fi.defs[v] {
					if d.kind != "assign" {
						continue
					}
					cl := fi.isCall(d.rhs, pathW+".disambiguate", pathW+".typeVariableName")
					if cl == nil {
						return "assigned from " + exprShort(d.rhs), false
					}
					classes = append(classes, inventorClass(c, fi, cl))
					blk, _ := fi.parent[d.node].(*ast.BlockStmt)
					is, _ := fi.parent[blk].(*ast.IfStmt)
					if is == nil {
						// else-branch block: parent is the IfStmt too
						return "assignment is not a direct arm of an if/else", false
					}
					if gate == nil {
						gate = is
					} else if gate != is {
						return "assignments belong to different branches", false
					}
				}
				if gate == nil || gate.Else == nil || len(classes) != 2 || gate.End() > at.Pos() {
					return "no if/else assigning the name on both arms before the store", false
				}
				if classes[0] != classes[1] {
					return "arms disagree: " + classes[0] + " vs " + classes[1], false
				}
				// the gate and the store are in the same block, gate first
				if fi.parent[gate] != fi.parent[fi.stmtOf(at)] {
					return "gate and store are not in the same block", false
				}
				return classes[0], true
			}
			for _, fi := range c.all {
				if fi.Pkg != c.W {
					continue
				}
				fi.inspect(fi.Decl.Body, func(nd ast.Node) bool {
					switch n := nd.(type) {
					case *ast.AssignStmt:
						for i, l := range n.Lhs {
							if i >= len(n.Rhs) {
								continue
							}
							tgt := ast.Unparen(l)
							table, val := "", n.Rhs[i]
							if ix, ok := tgt.(*ast.IndexExpr); ok {
								if f := fi.selField(ix.X); f != nil && f.Name() == "values" && isNamed(derefType(fi.Info.TypeOf(ix.X.(*ast.SelectorExpr).X)), pathW, "gen") {
									table = "values"
								}
								if v := fi.varOf(ix.X); v != nil && fi.Name == "gen.rewritePkgRefs" {
									if mt, ok := v.Type().(*types.Map); ok && types.TypeString(mt.Elem(), nil) == "string" {
										table = "newNames"
									}
								}
							} else if f := fi.selField(tgt); f != nil && isNamed(derefType(fi.Info.TypeOf(tgt.(*ast.SelectorExpr).X)), pathW, "injectorGen") {
								if ap := fi.isBuiltin(val, "append"); ap != nil && len(ap.Args) == 2 {
									table, val = f.Name(), ap.Args[1]
								} else {
									table = f.Name()
								}
							}
							if _, ok := want[table]; !ok {
								continue
							}
							seen[table]++
							r.Need(fi, fi.Name)
							cls, ok := classOf(fi, val, n)
							r.Check(ok && cls == want[table], "store:"+table+"@"+fi.Name, n.Pos(), "name stored in %s comes from disambiguate/typeVariableName with the %q collision predicate (got %s)", table, want[table], cls)
						}
					case *ast.CompositeLit:
						t := derefType(fi.Info.TypeOf(n))
						for _, el := range n.Elts {
							kv, ok := el.(*ast.KeyValueExpr)
							if !ok {
								continue
							}
							key := kv.Key.(*ast.Ident).Name
							table := ""
							if isNamed(t, pathW, "injectorGen") && key == "errVar" {
								table = "errVar"
							}
							if isNamed(t, pathW, "importInfo") && key == "name" {
								table = "importInfo.name"
							}
							if table == "" {
								continue
							}
							seen[table]++
							r.Need(fi, fi.Name)
							cls, ok := classOf(fi, kv.Value, n)
							r.Check(ok && cls == want[table], "store:"+table+"@"+fi.Name+"#"+itoa(seen[table]), kv.Pos(), "name stored in %s comes from disambiguate/typeVariableName with the %q collision predicate (got %s)", table, want[table], cls)
						}
					}
					return true
				})
			}
			var tables []string
			for t := range want {
				tables = append(tables, t)
			}
			sort.Strings(tables)
			total := 0
			for _, t := range tables {
				total += seen[t]
				r.Check(seen[t] > 0, "table-has-writer:"+t, 0, "%d store(s) into %s found", seen[t], t)
			}
			r.Floor("naming sites", total, 8)
			// the rename decision of copied locals
			rp := r.Need(c.Fn(c.W, "gen.rewritePkgRefs"), "gen.rewritePkgRefs")
			if rp != nil {
				e := newEmitter(c, rp)
				found := false
				rp.inspect(rp.Decl.Body, func(nd ast.Node) bool {
					is, ok := nd.(*ast.IfStmt)
					if !ok || is.Init == nil {
						return true
					}
					s := e.sym(is.Cond)
					if !strings.Contains(s, "nameInFileScope") {
						return true
					}
					found = true
					okC := s == "(((m1.Pos()<$1.Pos())||($1.End()<=m1.Pos()))||!(recv.nameInFileScope(m1.Name())||func{…}(m1.Name())))" ||
						regexpMatch(`^\(\(\((.+)\.Pos\(\)<\$1\.Pos\(\)\)\|\|\(\$1\.End\(\)<=(.+)\.Pos\(\)\)\)\|\|!\(recv\.nameInFileScope\((.+)\.Name\(\)\)\|\|func\{…\}\((.+)\.Name\(\)\)\)\)$`, s)
					r.Check(okC, "copied-local/rename-decision", is.Pos(), "a local is left alone only if declared outside the copied node, or if it collides neither with the file scope nor with an already chosen name — got %s", s)
					return true
				})
				r.Check(found, "copied-local/rename-decision-present", rp.Decl.Pos(), "rename decision found")
				// inNewNames scans every chosen name
				okIn := false
				rp.inspect(rp.Decl.Body, func(nd ast.Node) bool {
					rs, ok := nd.(*ast.RangeStmt)
					if !ok || rs.Value == nil {
						return true
					}
					if v := rp.varOf(rs.X); v != nil {
						if mt, ok := v.Type().(*types.Map); ok && types.TypeString(mt.Elem(), nil) == "string" && rp.loopOnlyReturnsTrueOnEq(rs) {
							okIn = true
						}
					}
					return true
				})
				r.Check(okIn, "copied-local/inNewNames-scans-all", rp.Decl.Pos(), "the chosen-names predicate compares against every chosen name")
			}
		})

	register("C14.R3", "the collision predicates read every table: nameInInjector consults the error variable, every parameter, local and cleanup name and the file scope; nameInFileScope consults every import alias, every value holder and the package scope up to the universe",
		func(c *Ctx, r *R) {
			ni := r.Need(c.Fn(c.W, "injectorGen.nameInInjector"), "injectorGen.nameInInjector")
			if ni != nil {
				var param, recv *types.Var
				for _, f := range ni.Decl.Type.Params.List {
					for _, n := range f.Names {
						param = ni.Info.Defs[n].(*types.Var)
					}
				}
				for _, f := range ni.Decl.Recv.List {
					for _, n := range f.Names {
						recv = ni.Info.Defs[n].(*types.Var)
					}
				}
				st := lookupType(c.W, "injectorGen").Underlying().(*types.Struct)
				for i := 0; i < st.NumFields(); i++ {
					f := st.Field(i)
					switch types.TypeString(f.Type(), nil) {
					case "string":
						ok := false
						for _, ret := range ni.returnsOf() {
							if types.ExprString(ret.Results[0]) != "true" {
								continue
							}
							gs := ni.Guards(ret)
							if len(gs) != 1 || gs[0].Neg {
								continue
							}
							if be, isB := ast.Unparen(gs[0].Expr).(*ast.BinaryExpr); isB && be.Op == token.EQL {
								a, b := be.X, be.Y
								if ni.varOf(a) != param {
									a, b = b, a
								}
								if ni.varOf(a) == param && ni.selField(b) == f && ni.varOf(b.(*ast.SelectorExpr).X) == recv {
									ok = true
								}
							}
						}
						r.Check(ok, "nameInInjector/field:"+f.Name(), ni.Decl.Pos(), "a candidate equal to %s collides", f.Name())
					case "[]string":
						ok := false
						ni.inspect(ni.Decl.Body, func(nd ast.Node) bool {
							rs, isR := nd.(*ast.RangeStmt)
							if !isR || ni.selField(rs.X) != f || ni.varOf(rs.X.(*ast.SelectorExpr).X) != recv {
								return true
							}
							if ni.parent[rs] == ast.Node(ni.Decl.Body) && ni.loopOnlyReturnsTrueOnEqParam(rs, param) {
								ok = true
							}
							return true
						})
						r.Check(ok, "nameInInjector/table:"+f.Name(), ni.Decl.Pos(), "a candidate equal to ANY element of %s collides (whole table scanned)", f.Name())
					}
				}
				// delegation to the file scope
				rets := ni.returnsOf()
				last := rets[len(rets)-1]
				dc := ni.isCall(last.Results[0], pathW+".gen.nameInFileScope")
				r.Check(dc != nil && ni.varOf(dc.Args[0]) == param && len(ni.Guards(last)) >= 0 && ni.enclosingLoop(last) == nil, "nameInInjector/delegates-to-file-scope", last.Pos(), "otherwise the file-scope predicate decides")
			}
			nf := r.Need(c.Fn(c.W, "gen.nameInFileScope"), "gen.nameInFileScope")
			if nf != nil {
				var param, recv *types.Var
				for _, f := range nf.Decl.Type.Params.List {
					for _, n := range f.Names {
						param = nf.Info.Defs[n].(*types.Var)
					}
				}
				for _, f := range nf.Decl.Recv.List {
					for _, n := range f.Names {
						recv = nf.Info.Defs[n].(*types.Var)
					}
				}
				for _, fld := range []string{"imports", "values"} {
					ok := false
					nf.inspect(nf.Decl.Body, func(nd ast.Node) bool {
						rs, isR := nd.(*ast.RangeStmt)
						if !isR {
							return true
						}
						f := nf.selField(rs.X)
						if f == nil || f.Name() != fld || nf.varOf(rs.X.(*ast.SelectorExpr).X) != recv {
							return true
						}
						if nf.parent[rs] == ast.Node(nf.Decl.Body) && nf.loopOnlyReturnsTrueOnEqParam(rs, param) {
							ok = true
						}
						return true
					})
					r.Check(ok, "nameInFileScope/table:"+fld, nf.Decl.Pos(), "a candidate equal to any name in gen.%s collides", fld)
				}
				rets := nf.returnsOf()
				last := rets[len(rets)-1]
				okS := false
				if x, isNil, ok := nf.nilTest(Cond{Kind: "bool", Expr: last.Results[0]}); ok && !isNil {
					if d := nf.defOf(x); d != nil && d.idx == 1 {
						if lp := nf.isCall(d.rhs, "go/types.Scope.LookupParent"); lp != nil && nf.varOf(lp.Args[0]) == param {
							e := newEmitter(c, nf)
							if e.sym(recvOf(lp)) == "recv.pkg.Types.Scope()" {
								okS = true
							}
						}
					}
				}
				r.Check(okS, "nameInFileScope/package-scope-and-universe", last.Pos(), "otherwise the candidate collides iff the package scope or any parent scope (universe) declares it")
			}
		})

	register("C14.R4", "keywords and collisions: disambiguate and typeVariableName return a candidate only when it is not a Go keyword and does not collide; typeVariableName falls back to disambiguate with the same predicate",
		func(c *Ctx, r *R) {
			check := func(fi *FuncInfo, ret *ast.ReturnStmt, collides *types.Var, key string) {
				cand := ret.Results[0]
				kw, col := false, false
				gs, undo := fi.expandGuards(fi.Guards(ret))
				defer undo()
				for _, g := range gs {
					if !g.Neg {
						continue
					}
					if ik := fi.isCall(g.Expr, "go/token.Token.IsKeyword"); ik != nil {
						if lk := fi.isCall(recvOf(ik), "go/token.Lookup"); lk != nil && fi.sameExpr(lk.Args[0], cand) {
							kw = true
						}
					}
					if cl, ok := ast.Unparen(g.Expr).(*ast.CallExpr); ok && len(cl.Args) == 1 && fi.sameExpr(cl.Args[0], cand) {
						if fi.varOf(cl.Fun) == collides || fi.varOf(fi.deref(cl.Fun)) == collides {
							col = true
						}
					}
				}
				r.Check(kw && col, key, ret.Pos(), "candidate %s is returned only when !IsKeyword [%v] and !collides [%v]", exprShort(cand), kw, col)
			}
			for _, name := range []string{"disambiguate", "typeVariableName"} {
				fi := r.Need(c.Fn(c.W, name), name)
				if fi == nil {
					continue
				}
				var collides *types.Var
				for _, f := range fi.Decl.Type.Params.List {
					for _, n := range f.Names {
						v := fi.Info.Defs[n].(*types.Var)
						if types.TypeString(v.Type(), nil) == "func(string) bool" {
							collides = v
						}
					}
				}
				n := 0
				for i, ret := range fi.returnsOf() {
					if dc := fi.isCall(ret.Results[0], pathW+".disambiguate"); dc != nil {
						r.Check(fi.varOf(dc.Args[1]) == collides, name+"/fallback#"+itoa(i), ret.Pos(), "falls back to disambiguate with the same collision predicate")
						continue
					}
					n++
					check(fi, ret, collides, name+"/return#"+itoa(i))
				}
				r.Floor("candidate returns in "+name, n, 1)
			}
		})
}

// loopOnlyReturnsTrueOnEqParam: the range loop's body is exactly
// `if <elem or elem.name> == param { return true }`, with no other exit.
func (fi *FuncInfo) loopOnlyReturnsTrueOnEqParam(rs *ast.RangeStmt, param *types.Var) bool {
	if rs.Value == nil || len(rs.Body.List) != 1 {
		return false
	}
	if _, sliced := ast.Unparen(rs.X).(*ast.SliceExpr); sliced {
		return false
	}
	is, ok := rs.Body.List[0].(*ast.IfStmt)
	if !ok || is.Else != nil || len(is.Body.List) != 1 {
		return false
	}
	ret, ok := is.Body.List[0].(*ast.ReturnStmt)
	if !ok || len(ret.Results) != 1 || types.ExprString(ret.Results[0]) != "true" {
		return false
	}
	be, ok := ast.Unparen(is.Cond).(*ast.BinaryExpr)
	if !ok || be.Op != token.EQL {
		return false
	}
	a, b := be.X, be.Y
	if fi.varOf(b) != param {
		a, b = b, a
	}
	if fi.varOf(b) != param || param == nil {
		return false
	}
	elem := fi.varOf(rs.Value)
	if fi.varOf(a) == elem {
		return true
	}
	if sel, ok := ast.Unparen(a).(*ast.SelectorExpr); ok && fi.varOf(sel.X) == elem && sel.Sel.Name == "name" {
		return true
	}
	return false
}

// loopOnlyReturnsTrueOnEq: like above for a closure whose single parameter is the candidate.
func (fi *FuncInfo) loopOnlyReturnsTrueOnEq(rs *ast.RangeStmt) bool {
	lit, _ := fi.enclosing(rs, func(n ast.Node) bool { _, ok := n.(*ast.FuncLit); return ok }).(*ast.FuncLit)
	if lit == nil || len(lit.Type.Params.List) != 1 || len(lit.Type.Params.List[0].Names) != 1 {
		return false
	}
	p, _ := fi.Info.Defs[lit.Type.Params.List[0].Names[0]].(*types.Var)
	return fi.loopOnlyReturnsTrueOnEqParam(rs, p)
}
