package main

import (
	"go/ast"
	"go/token"
	"go/types"
	"sort"
	"strings"
)

// inventorClass classifies the collision predicate passed to disambiguate /
// typeVariableName at call: "injector", "file", "import", "copied-local", or "?…".
func inventorClass(c *Ctx, fi *FuncInfo, call *ast.CallExpr) string {
	pred := call.Args[len(call.Args)-1]
	e := newEmitter(c, fi)
	if sel, ok := ast.Unparen(pred).(*ast.SelectorExpr); ok && fi.Info.Selections[sel] != nil {
		switch {
		case sel.Sel.Name == "nameInInjector" && isNamed(derefType(fi.Info.TypeOf(sel.X)), pathW, "injectorGen"):
			return "injector"
		case sel.Sel.Name == "nameInFileScope" && isNamed(derefType(fi.Info.TypeOf(sel.X)), pathW, "gen"):
			return "file"
		}
		return "?" + e.sym(pred)
	}
	if v := fi.varOf(pred); v != nil && fi.isParam(v) {
		return "param"
	}
	lit, ok := ast.Unparen(pred).(*ast.FuncLit)
	if !ok {
		return "?" + e.sym(pred)
	}
	// render the closure: sequence of (condition → true) then the final result
	var parts []string
	saved := e.names
	i := 0
	for _, f := range lit.Type.Params.List {
		for _, n := range f.Names {
			if v, ok := fi.Info.Defs[n].(*types.Var); ok {
				e.names[v] = "fp" + itoa(i)
			}
			i++
		}
	}
	var walk func(list []ast.Stmt, pre string)
	walk = func(list []ast.Stmt, pre string) {
		for _, s := range list {
			switch s := s.(type) {
			case *ast.IfStmt:
				init := ""
				if s.Init != nil {
					if as, ok := s.Init.(*ast.AssignStmt); ok {
						init = e.sym(as.Rhs[0]) + ";"
					}
				}
				walk(s.Body.List, pre+"if["+init+e.sym(s.Cond)+"]")
			case *ast.ReturnStmt:
				parts = append(parts, pre+"→"+e.sym(s.Results[0]))
			case *ast.AssignStmt:
				// definitions are substituted by sym
			default:
				parts = append(parts, pre+"?stmt")
			}
		}
	}
	walk(lit.Body.List, "")
	e.names = saved
	got := strings.Join(parts, " ; ")
	if got == `→((fp0=="err")||recv.nameInFileScope(fp0))` || got == `→(recv.nameInFileScope(fp0)||(fp0=="err"))` {
		return "import"
	}
	// semantic classification: which tests can make the predicate true?
	makers := truthMakers(fi, lit)
	if makers["fileScope"] && makers["chosenNames"] && makers["innerScope"] && len(makers) == 3 {
		return "copied-local"
	}
	if makers["fileScope"] && makers["errLiteral"] && len(makers) == 2 {
		return "import"
	}
	return "?" + got
}

func init() {
	register("C14.R2", "every invented name is disambiguated against the right scopes: parameter, local and cleanup names against the injector (which includes the file); the error variable and value holders against the file; import aliases against err ∪ file; renamed locals of copied declarations against file ∪ chosen names ∪ the innermost source scope, and a local is renamed whenever it collides with the file or with a chosen name",
		func(c *Ctx, r *R) {
			want := map[string]string{
				"paramNames": "injector", "localNames": "injector", "cleanupNames": "injector",
				"errVar": "file", "values": "file", "importInfo.name": "import", "newNames": "copied-local",
			}
			seen := map[string]int{}
			// provenance of a stored value: every definition that can reach the store is an inventor call
			classOf := func(fi *FuncInfo, val ast.Expr, at ast.Node) (string, bool) {
				val = ast.Unparen(val)
				if cl := fi.isCall(val, pathW+".disambiguate", pathW+".typeVariableName"); cl != nil {
					return inventorClass(c, fi, cl), true
				}
				v := fi.varOf(val)
				if v == nil {
					return "not a variable or inventor call: " + exprShort(val), false
				}
				if d := fi.singleDef(v); d != nil {
					if cl := fi.isCall(d.rhs, pathW+".disambiguate", pathW+".typeVariableName"); cl != nil {
						return inventorClass(c, fi, cl), true
					}
					return "defined from " + exprShort(d.rhs), false
				}
				// re-assigned local: an if/else before the store must assign it from inventors on both arms
				var classes []string
				var gate *ast.IfStmt
				for _, d := range fi.defs[v] {
					if d.kind != "assign" {
						continue
					}
					cl := fi.isCall(d.rhs, pathW+".disambiguate", pathW+".typeVariableName")
					if cl == nil {
						return "assigned from " + exprShort(d.rhs), false
					}
					classes = append(classes, inventorClass(c, fi, cl))
					blk, _ := fi.parent[d.node].(*ast.BlockStmt)
					is, _ := fi.parent[blk].(*ast.IfStmt)
					if is == nil {
						// else-branch block: parent is the IfStmt too
						return "assignment is not a direct arm of an if/else", false
					}
					if gate == nil {
						gate = is
					} else if gate != is {
						return "assignments belong to different branches", false
					}
				}
				if gate == nil || gate.Else == nil || len(classes) != 2 || endOf(gate) > startOf(at) {
					return "no if/else assigning the name on both arms before the store", false
				}
				if classes[0] != classes[1] {
					return "arms disagree: " + classes[0] + " vs " + classes[1], false
				}
				// the gate and the store are in the same block, gate first
				if fi.parent[gate] != fi.parent[fi.stmtOf(at)] {
					return "gate and store are not in the same block", false
				}
				return classes[0], true
			}
			for _, fi := range c.all {
				if fi.Pkg != c.W {
					continue
				}
				fi.inspect(fi.Decl.Body, func(nd ast.Node) bool {
					switch n := nd.(type) {
					case *ast.AssignStmt:
						for i, l := range n.Lhs {
							if i >= len(n.Rhs) {
								continue
							}
							tgt := ast.Unparen(l)
							table, val := "", n.Rhs[i]
							if ix, ok := tgt.(*ast.IndexExpr); ok {
								if f := fi.selField(ix.X); f != nil && f.Name() == "values" && isNamed(derefType(fi.Info.TypeOf(ix.X.(*ast.SelectorExpr).X)), pathW, "gen") {
									table = "values"
								}
								if v := fi.varOf(ix.X); v != nil && fi.Name == "gen.rewritePkgRefs" {
									if mt, ok := v.Type().(*types.Map); ok && types.TypeString(mt.Elem(), nil) == "string" {
										table = "newNames"
									}
								}
							} else if f := fi.selField(tgt); f != nil && isNamed(derefType(fi.Info.TypeOf(tgt.(*ast.SelectorExpr).X)), pathW, "injectorGen") {
								if ap := fi.isBuiltin(val, "append"); ap != nil && len(ap.Args) == 2 {
									table, val = f.Name(), ap.Args[1]
								} else {
									table = f.Name()
								}
							}
							if _, ok := want[table]; !ok {
								continue
							}
							seen[table]++
							r.Need(fi, fi.Name)
							cls, ok := classOf(fi, val, n)
							r.Check(ok && cls == want[table], "store:"+table+"@"+fi.Name, n.Pos(), "name stored in %s comes from disambiguate/typeVariableName with the %q collision predicate (got %s)", table, want[table], cls)
						}
					case *ast.CompositeLit:
						t := derefType(fi.Info.TypeOf(n))
						for _, el := range n.Elts {
							kv, ok := el.(*ast.KeyValueExpr)
							if !ok {
								continue
							}
							key := kv.Key.(*ast.Ident).Name
							table := ""
							if isNamed(t, pathW, "injectorGen") && key == "errVar" {
								table = "errVar"
							}
							if isNamed(t, pathW, "importInfo") && key == "name" {
								table = "importInfo.name"
							}
							if table == "" {
								continue
							}
							seen[table]++
							r.Need(fi, fi.Name)
							cls, ok := classOf(fi, kv.Value, n)
							r.Check(ok && cls == want[table], "store:"+table+"@"+fi.Name+"#"+itoa(seen[table]), kv.Pos(), "name stored in %s comes from disambiguate/typeVariableName with the %q collision predicate (got %s)", table, want[table], cls)
						}
					}
					return true
				})
			}
			var tables []string
			for t := range want {
				tables = append(tables, t)
			}
			sort.Strings(tables)
			total := 0
			for _, t := range tables {
				total += seen[t]
				r.Check(seen[t] > 0, "table-has-writer:"+t, 0, "%d store(s) into %s found", seen[t], t)
			}
			r.Floor("naming sites", total, 8)
			// the rename decision of copied locals: at the point where a new name is chosen, the dominating
			// conditions are only "declared inside the copied node", object/scope sanity tests, and
			// "collides with the file scope OR with an already chosen name"
			rp := r.Need(c.Fn(c.W, "gen.rewritePkgRefs"), "gen.rewritePkgRefs")
			if rp != nil {
				n, nTS := 0, 0
				for _, dc := range rp.callsTo(pathW + ".disambiguate") {
					if inventorClass(c, rp, dc) != "copied-local" {
						continue
					}
					n++
					name := dc.Args[0]
					gs, undo := rp.expandGuards(rp.Guards(dc))
					hasOr, unknown := false, []string{}
					tsDecl := false
					for _, g := range gs {
						if g.Kind != "bool" {
							continue
						}
						ex := ast.Unparen(g.Expr)
						// the collision disjunction
						if be, ok := ex.(*ast.BinaryExpr); ok && be.Op == token.LOR && !g.Neg {
							var ops []ast.Expr
							var split func(e ast.Expr)
							split = func(e ast.Expr) {
								e = ast.Unparen(e)
								if b, ok := e.(*ast.BinaryExpr); ok && b.Op == token.LOR {
									split(b.X)
									split(b.Y)
									return
								}
								ops = append(ops, e)
							}
							split(be)
							fileScope, chosen := false, false
							for _, op := range ops {
								cl, ok := op.(*ast.CallExpr)
								if !ok || len(cl.Args) != 1 || !rp.sameExpr(cl.Args[0], name) {
									continue
								}
								if rp.calleeName(cl) == pathW+".gen.nameInFileScope" {
									fileScope = true
								} else if scansStringMap(rp, cl) {
									chosen = true
								}
							}
							if fileScope && chosen && len(ops) == 2 {
								hasOr = true
								continue
							}
						}
						// sanity / locality tests
						if _, _, ok := rp.nilTest(g); ok {
							continue
						}
						if be, ok := ex.(*ast.BinaryExpr); ok {
							tx := rp.Info.TypeOf(be.X)
							if tx != nil {
								ts := types.TypeString(tx, nil)
								if ts == "go/token.Pos" && (be.Op == token.LSS || be.Op == token.LEQ || be.Op == token.GTR || be.Op == token.GEQ) {
									continue // the object is declared inside the copied node (written as an exit on the complement or directly)
								}
								if ts == "*go/types.Scope" && ((g.Neg && be.Op == token.EQL) || (!g.Neg && be.Op == token.NEQ)) {
									continue
								}
							}
						}
						if v := rp.varOf(ex); v != nil && types.TypeString(v.Type(), nil) == "bool" {
							continue // comma-ok flags of assertions / map lookups
						}
						if rp.isCall(ex, pathW+".isTypeSwitchVarDecl") != nil && !g.Neg {
							tsDecl = true
							continue // the declaration of a type switch's symbolic variable (it has no object): the second, position-keyed decision
						}
						unknown = append(unknown, exprShort(g.Expr))
					}
					undo()
					suffix := ""
					if tsDecl {
						suffix = "/type-switch-variable"
						nTS++
					}
					r.Check(hasOr, "copied-local/rename-decision"+suffix, dc.Pos(), "a local is renamed exactly when it collides with the file scope OR with an already chosen name")
					r.Check(len(unknown) == 0, "copied-local/rename-decision-not-narrowed"+suffix, dc.Pos(), "no further condition decides whether a colliding local is renamed (%v)", unknown)
				}
				r.Check(n-nTS == 1 && nTS <= 1, "copied-local/rename-decision-present", rp.Decl.Pos(), "one rename decision for objects, at most one for type switch declarations (%d, %d)", n-nTS, nTS)
				// the chosen-names predicate scans every chosen name
				// … of every table of chosen names (objects; type switch declarations, kept by position)
				tables, scanned := map[*types.Var]bool{}, map[*types.Var]bool{}
				for _, v := range rp.localVarsOfMapToString() {
					tables[v] = true
				}
				rp.inspect(rp.Decl.Body, func(nd ast.Node) bool {
					rs, ok := nd.(*ast.RangeStmt)
					if !ok || rs.Value == nil {
						return true
					}
					if v := rp.varOf(rs.X); v != nil && tables[v] && rp.loopOnlyReturnsTrueOnEq(rs) {
						scanned[v] = true
					}
					return true
				})
				okIn := len(tables) > 0
				for v := range tables {
					if !scanned[v] {
						okIn = false
					}
				}
				r.Check(okIn, "copied-local/inNewNames-scans-all", rp.Decl.Pos(), "the chosen-names predicate compares against every chosen name of every table (%d tables)", len(tables))
			}
		})

	register("C14.R3", "the collision predicates read every table: nameInInjector consults the error variable, every parameter, local and cleanup name and the file scope; nameInFileScope consults every import alias, every value holder and the package scope up to the universe",
		func(c *Ctx, r *R) {
			ni := r.Need(c.Fn(c.W, "injectorGen.nameInInjector"), "injectorGen.nameInInjector")
			if ni != nil {
				var param, recv *types.Var
				for _, f := range ni.Decl.Type.Params.List {
					for _, n := range f.Names {
						param = ni.Info.Defs[n].(*types.Var)
					}
				}
				for _, f := range ni.Decl.Recv.List {
					for _, n := range f.Names {
						recv = ni.Info.Defs[n].(*types.Var)
					}
				}
				st := lookupType(c.W, "injectorGen").Underlying().(*types.Struct)
				for i := 0; i < st.NumFields(); i++ {
					f := st.Field(i)
					switch types.TypeString(f.Type(), nil) {
					case "string":
						ok := false
						for _, ret := range ni.returnsOf() {
							if types.ExprString(ret.Results[0]) != "true" {
								continue
							}
							gs := ni.Guards(ret)
							if len(gs) != 1 || gs[0].Neg {
								continue
							}
							if be, isB := ast.Unparen(gs[0].Expr).(*ast.BinaryExpr); isB && be.Op == token.EQL {
								a, b := be.X, be.Y
								if ni.varOf(a) != param {
									a, b = b, a
								}
								if ni.varOf(a) == param && ni.selField(b) == f && ni.varOf(b.(*ast.SelectorExpr).X) == recv {
									ok = true
								}
							}
						}
						r.Check(ok, "nameInInjector/field:"+f.Name(), ni.Decl.Pos(), "a candidate equal to %s collides", f.Name())
					case "[]string":
						ok := false
						ni.inspect(ni.Decl.Body, func(nd ast.Node) bool {
							rs, isR := nd.(*ast.RangeStmt)
							if !isR {
								return true
							}
							// direct: range recv.<table>
							if ni.selField(rs.X) == f && ni.varOf(rs.X.(*ast.SelectorExpr).X) == recv {
								if ni.parent[rs] == ast.Node(ni.Decl.Body) && ni.loopOnlyReturnsTrueOnEqParam(rs, param) {
									ok = true
								}
								return true
							}
							// merged: range over the element of an outer `range [][]string{…, recv.<table>, …}` with no early exit
							if outer, isO := ni.enclosingLoop(rs).(*ast.RangeStmt); isO && outer.Value != nil && ni.varOf(rs.X) == ni.varOf(outer.Value) && ni.parent[outer] == ast.Node(ni.Decl.Body) {
								if cl, isCL := ast.Unparen(outer.X).(*ast.CompositeLit); isCL && len(outer.Body.List) == 1 && outer.Body.List[0] == ast.Stmt(rs) {
									for _, el := range cl.Elts {
										if ni.selField(el) == f && ni.varOf(el.(*ast.SelectorExpr).X) == recv && ni.loopOnlyReturnsTrueOnEqParam(rs, param) {
											ok = true
										}
									}
								}
							}
							return true
						})
						r.Check(ok, "nameInInjector/table:"+f.Name(), ni.Decl.Pos(), "a candidate equal to ANY element of %s collides (whole table scanned)", f.Name())
					}
				}
				// delegation to the file scope
				rets := ni.returnsOf()
				last := rets[len(rets)-1]
				dc := ni.isCall(last.Results[0], pathW+".gen.nameInFileScope")
				r.Check(dc != nil && ni.varOf(dc.Args[0]) == param && len(ni.Guards(last)) >= 0 && ni.enclosingLoop(last) == nil, "nameInInjector/delegates-to-file-scope", last.Pos(), "otherwise the file-scope predicate decides")
			}
			nf := r.Need(c.Fn(c.W, "gen.nameInFileScope"), "gen.nameInFileScope")
			if nf != nil {
				var param, recv *types.Var
				for _, f := range nf.Decl.Type.Params.List {
					for _, n := range f.Names {
						param = nf.Info.Defs[n].(*types.Var)
					}
				}
				for _, f := range nf.Decl.Recv.List {
					for _, n := range f.Names {
						recv = nf.Info.Defs[n].(*types.Var)
					}
				}
				for _, fld := range []string{"imports", "values"} {
					ok := false
					nf.inspect(nf.Decl.Body, func(nd ast.Node) bool {
						rs, isR := nd.(*ast.RangeStmt)
						if !isR {
							return true
						}
						f := nf.selField(rs.X)
						if f == nil || f.Name() != fld || nf.varOf(rs.X.(*ast.SelectorExpr).X) != recv {
							return true
						}
						if nf.parent[rs] == ast.Node(nf.Decl.Body) && nf.loopOnlyReturnsTrueOnEqParam(rs, param) {
							ok = true
						}
						return true
					})
					r.Check(ok, "nameInFileScope/table:"+fld, nf.Decl.Pos(), "a candidate equal to any name in gen.%s collides", fld)
				}
				rets := nf.returnsOf()
				last := rets[len(rets)-1]
				okS := false
				if x, isNil, ok := nf.nilTest(Cond{Kind: "bool", Expr: last.Results[0]}); ok && !isNil {
					if d := nf.defOf(x); d != nil && d.idx == 1 {
						if lp := nf.isCall(d.rhs, "go/types.Scope.LookupParent"); lp != nil && nf.varOf(lp.Args[0]) == param {
							e := newEmitter(c, nf)
							if e.sym(recvOf(lp)) == "recv.pkg.Types.Scope()" {
								okS = true
							}
						}
					}
				}
				r.Check(okS, "nameInFileScope/package-scope-and-universe", last.Pos(), "otherwise the candidate collides iff the package scope or any parent scope (universe) declares it")
			}
		})

	register("C14.R4", "keywords and collisions: disambiguate and typeVariableName return a candidate only when it is not a Go keyword and does not collide; typeVariableName falls back to disambiguate with the same predicate",
		func(c *Ctx, r *R) {
			check := func(fi *FuncInfo, ret *ast.ReturnStmt, collides *types.Var, key string) {
				cand := ret.Results[0]
				kw, col := false, false
				gs, undo := fi.expandGuards(fi.Guards(ret))
				defer undo()
				for _, g := range gs {
					if !g.Neg {
						continue
					}
					if ik := fi.isCall(g.Expr, "go/token.Token.IsKeyword"); ik != nil {
						if lk := fi.isCall(recvOf(ik), "go/token.Lookup"); lk != nil && fi.sameExpr(lk.Args[0], cand) {
							kw = true
						}
					}
					if cl, ok := ast.Unparen(g.Expr).(*ast.CallExpr); ok && len(cl.Args) == 1 && fi.sameExpr(cl.Args[0], cand) {
						if fi.varOf(cl.Fun) == collides || fi.varOf(fi.deref(cl.Fun)) == collides {
							col = true
						}
					}
				}
				r.Check(kw && col, key, ret.Pos(), "candidate %s is returned only when !IsKeyword [%v] and !collides [%v]", exprShort(cand), kw, col)
			}
			for _, name := range []string{"disambiguate", "typeVariableName"} {
				fi := r.Need(c.Fn(c.W, name), name)
				if fi == nil {
					continue
				}
				var collides *types.Var
				for _, f := range fi.Decl.Type.Params.List {
					for _, n := range f.Names {
						v := fi.Info.Defs[n].(*types.Var)
						if types.TypeString(v.Type(), nil) == "func(string) bool" {
							collides = v
						}
					}
				}
				n := 0
				for i, ret := range fi.returnsOf() {
					if dc := fi.isCall(ret.Results[0], pathW+".disambiguate"); dc != nil {
						r.Check(fi.varOf(dc.Args[1]) == collides, name+"/fallback#"+itoa(i), ret.Pos(), "falls back to disambiguate with the same collision predicate")
						continue
					}
					n++
					check(fi, ret, collides, name+"/return#"+itoa(i))
				}
				r.Floor("candidate returns in "+name, n, 1)
			}
		})
}

// loopOnlyReturnsTrueOnEqParam: the range loop's body is exactly
// `if <elem or elem.name> == param { return true }`, with no other exit.
func (fi *FuncInfo) loopOnlyReturnsTrueOnEqParam(rs *ast.RangeStmt, param *types.Var) bool {
	if rs.Value == nil || len(rs.Body.List) != 1 {
		return false
	}
	if _, sliced := ast.Unparen(rs.X).(*ast.SliceExpr); sliced {
		return false
	}
	is, ok := rs.Body.List[0].(*ast.IfStmt)
	if !ok || is.Else != nil || len(is.Body.List) != 1 {
		return false
	}
	ret, ok := is.Body.List[0].(*ast.ReturnStmt)
	if !ok || len(ret.Results) != 1 || types.ExprString(ret.Results[0]) != "true" {
		return false
	}
	be, ok := ast.Unparen(is.Cond).(*ast.BinaryExpr)
	if !ok || be.Op != token.EQL {
		return false
	}
	a, b := be.X, be.Y
	if fi.varOf(b) != param {
		a, b = b, a
	}
	if fi.varOf(b) != param || param == nil {
		return false
	}
	elem := fi.varOf(rs.Value)
	if fi.varOf(a) == elem {
		return true
	}
	if sel, ok := ast.Unparen(a).(*ast.SelectorExpr); ok && fi.varOf(sel.X) == elem && sel.Sel.Name == "name" {
		return true
	}
	return false
}

// loopOnlyReturnsTrueOnEq: like above for a closure whose single parameter is the candidate.
func (fi *FuncInfo) loopOnlyReturnsTrueOnEq(rs *ast.RangeStmt) bool {
	lit, _ := fi.enclosing(rs, func(n ast.Node) bool { _, ok := n.(*ast.FuncLit); return ok }).(*ast.FuncLit)
	if lit == nil || len(lit.Type.Params.List) != 1 || len(lit.Type.Params.List[0].Names) != 1 {
		return false
	}
	p, _ := fi.Info.Defs[lit.Type.Params.List[0].Names[0]].(*types.Var)
	return fi.loopOnlyReturnsTrueOnEqParam(rs, p)
}

// scansStringMap reports whether call invokes a local closure whose body
// ranges over a map with string values (the chosen-names table).
func scansStringMap(fi *FuncInfo, call *ast.CallExpr) bool {
	v := fi.varOf(call.Fun)
	if v == nil {
		return false
	}
	sd := fi.singleDef(v)
	if sd == nil {
		return false
	}
	lit, ok := ast.Unparen(sd.rhs).(*ast.FuncLit)
	if !ok {
		return false
	}
	found := false
	ast.Inspect(lit.Body, func(n ast.Node) bool {
		if rs, ok := n.(*ast.RangeStmt); ok {
			if mt, ok := fi.Info.TypeOf(rs.X).Underlying().(*types.Map); ok && types.TypeString(mt.Elem(), nil) == "string" {
				found = true
			}
		}
		return true
	})
	return found
}

// truthMakers lists the kinds of test that can make a collision-predicate
// closure return true: "fileScope" (gen.nameInFileScope(p)), "chosenNames" (a
// closure scanning a string-valued map, applied to p), "innerScope"
// (Scope.LookupParent(p) != nil), "errLiteral" (p == "err"). A test counts
// only where its truth leads to `return true` (disjunct of an if whose body
// returns true, or disjunct of a returned expression). Anything else that can
// make it true is reported as "other:<expr>".
func truthMakers(fi *FuncInfo, lit *ast.FuncLit) map[string]bool {
	out := map[string]bool{}
	if len(lit.Type.Params.List) != 1 || len(lit.Type.Params.List[0].Names) != 1 {
		return out
	}
	param, _ := fi.Info.Defs[lit.Type.Params.List[0].Names[0]].(*types.Var)
	params := map[*types.Var]bool{param: true} // the candidate name, also under the parameter names of local closures it is passed to
	isParam := func(e ast.Expr) bool {
		v := fi.varOf(e)
		if v != nil && params[v] {
			return true
		}
		v = fi.varOf(fi.deref(e))
		return v != nil && params[v]
	}
	var walk func(list []ast.Stmt)
	var classify func(e ast.Expr, depth int)
	classify = func(e ast.Expr, depth int) {
		e = ast.Unparen(fi.orient(ast.Unparen(e)))
		if depth > 4 {
			out["other:deep"] = true
			return
		}
		switch x := e.(type) {
		case *ast.BinaryExpr:
			switch x.Op {
			case token.LOR:
				classify(x.X, depth)
				classify(x.Y, depth)
				return
			case token.EQL:
				if isParam(x.X) && types.ExprString(x.Y) == `"err"` {
					out["errLiteral"] = true
					return
				}
			case token.NEQ:
				// obj != nil where obj comes from LookupParent(p)
				if fi.isNilIdent(x.Y) {
					if d := fi.defOf(x.X); d != nil {
						if lp := fi.isCall(d.rhs, "go/types.Scope.LookupParent"); lp != nil && isParam(lp.Args[0]) {
							out["innerScope"] = true
							return
						}
					}
				}
			}
		case *ast.CallExpr:
			if len(x.Args) == 1 && isParam(x.Args[0]) {
				if fi.calleeName(x) == pathW+".gen.nameInFileScope" {
					out["fileScope"] = true
					return
				}
				if scansStringMap(fi, x) {
					out["chosenNames"] = true
					return
				}
				// a hoisted closure combining tests
				if body, undo := fi.predicateBody(x); body != nil {
					classify(body, depth+1)
					undo()
					return
				}
				// a local closure with a longer body: its own tests count, for its parameter
				if v := fi.varOf(x.Fun); v != nil && depth < 3 {
					if sd := fi.singleDef(v); sd != nil && sd.idx < 0 {
						if l2, ok := ast.Unparen(sd.rhs).(*ast.FuncLit); ok && len(l2.Type.Params.List) == 1 && len(l2.Type.Params.List[0].Names) == 1 {
							if pv, ok := fi.Info.Defs[l2.Type.Params.List[0].Names[0]].(*types.Var); ok {
								params[pv] = true
								walk(l2.Body.List)
								return
							}
						}
					}
				}
			}
		case *ast.Ident:
			if x.Name == "false" {
				return
			}
		}
		out["other:"+exprShort(e)] = true
	}
	walk = func(list []ast.Stmt) {
		for _, s := range list {
			switch s := s.(type) {
			case *ast.IfStmt:
				returnsTrue := len(s.Body.List) >= 1
				if returnsTrue {
					ret, ok := s.Body.List[len(s.Body.List)-1].(*ast.ReturnStmt)
					returnsTrue = ok && len(ret.Results) == 1 && types.ExprString(ret.Results[0]) == "true"
				}
				if returnsTrue && len(s.Body.List) == 1 {
					classify(s.Cond, 0)
				} else {
					// a guard that merely scopes further tests (e.g. len(stack) > 0): look inside
					walk(s.Body.List)
				}
				if eb, ok := s.Else.(*ast.BlockStmt); ok {
					walk(eb.List)
				}
			case *ast.ReturnStmt:
				if len(s.Results) == 1 {
					classify(s.Results[0], 0)
				}
			case *ast.AssignStmt, *ast.DeclStmt:
			default:
				out["other:stmt"] = true
			}
		}
	}
	walk(lit.Body.List)
	delete(out, "other:true")
	return out
}

// localVarsOfMapToString: the local variables of type map[K]string (tables of chosen names).
func (fi *FuncInfo) localVarsOfMapToString() []*types.Var {
	var out []*types.Var
	seen := map[*types.Var]bool{}
	fi.inspect(fi.Decl.Body, func(n ast.Node) bool {
		id, ok := n.(*ast.Ident)
		if !ok {
			return true
		}
		v, ok := fi.Info.Defs[id].(*types.Var)
		if !ok || seen[v] || v.IsField() {
			return true
		}
		if mt, ok := v.Type().(*types.Map); ok && types.TypeString(mt.Elem(), nil) == "string" {
			seen[v] = true
			out = append(out, v)
		}
		return true
	})
	return out
}
