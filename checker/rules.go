package main

import (
	"go/ast"
	"go/token"
	"go/types"
	"regexp"
)

// propRules lists, per property, the rules whose obligations decide its
// structural clauses. Shared rules appear under several properties.
var propRules = map[string][]string{
	"C05": {"C05.R1", "C05.R1b", "C05.R2", "C05.R3", "C05.R4", "C10.R2", "C10.R4", "C06.R3", "C06.R4", "C06.R5", "C10.R7", "C06.R6", "C05.R5", "C06.R7"},
	"C01": {"C01.R1", "C01.R2", "C01.R3", "C01.R4", "C01.R6", "C01.R7", "C01.R8", "C14.R5", "C02.R4", "C11.R1", "C12.R4", "C13.R3", "C13.R4", "C14.R1", "C03.R1", "C01.R9", "C12.R6", "C01.R10", "C01.R11", "C01.R12", "C16.R7", "C15.R5", "C01.R13", "C15.R9"},
	"C02": {"C02.R1", "C02.R2", "C02.R3", "C02.R4", "C02.R5", "C02.R6", "C11.R4", "C10.R4", "C10.R5", "C12.R1", "C12.R4", "C01.R4", "C13.R4"},
	"C03": {"C03.R1", "C01.R1", "C03.R7", "C14.R1", "C14.R3", "C04.R2", "C04.R4", "C09.R3"},
	"C04": {"C04.R1", "C04.R2", "C04.R4", "C02.R1", "C02.R2", "C14.R3", "C14.R1", "C03.R1"},
	"C14": {"C14.R1", "C14.R2", "C14.R3", "C14.R4", "C14.R5", "C15.R6", "C01.R2", "C01.R7", "C15.R5", "C01.R4", "C15.R7", "C14.R6", "C13.R6", "C10.R7", "C15.R9", "C16.R4", "C14.R7"},
	"C20": {"C20.R1", "C20.R2", "C20.R3", "C20.R4", "C20.R5", "C20.R6", "C01.R1", "C15.R1", "C02.R6", "C10.R2", "C06.R2", "C10.R6", "C20.R7", "C10.R9", "C20.R8", "C10.R10", "C06.R6", "C10.R11", "C05.R5", "C10.R12", "C06.R7", "C20.R9", "C20.R10", "C20.R11"},
	"C17": {"C17.R1", "C17.R2", "C17.R3", "C17.R4", "C17.R5", "C17.R6", "C17.R7", "C06.R4", "C17.R8", "C17.R9", "C17.R10", "C06.R7", "C17.R11", "C17.R12", "C18.R7", "C16.R9", "C17.R13"},
	"C16": {"C16.R1", "C16.R2", "C16.R3", "C16.R4", "C16.R5", "C01.R6", "C15.R2", "C16.R6", "C16.R7", "C16.R8", "C16.R9"},
	"C18": {"C18.R1", "C18.R2", "C18.R3", "C18.R4", "C17.R4", "C17.R7", "C18.R5", "C18.R6", "C18.R7", "C16.R9"},
	"C19": {"C19.R1", "C19.R2", "C19.R3", "C19.R4", "C19.R5", "C19.R6", "C02.R6", "C09.R3", "C17.R8", "C19.R7", "C10.R7", "C19.R8", "C19.R9", "C05.R5", "C19.R10", "C06.R7", "C19.R11", "C17.R13"},
	"C15": {"C15.R1", "C15.R2", "C15.R3", "C15.R4", "C15.R5", "C15.R6", "C14.R2", "C16.R4", "C15.R7", "C14.R6", "C15.R8", "C16.R8", "C01.R13", "C15.R9", "C14.R7"},
	"C07": {"C07.R1", "C07.R2", "C07.R3", "C07.R4", "C02.R1", "C05.R3", "C06.R2", "C20.R10"},
	"C08": {"C08.R1", "C08.R2", "C08.R3", "C08.R4", "C10.R2", "C10.R8"},
	"C09": {"C09.R1", "C09.R2", "C09.R3", "C09.R4", "C01.R8"},
	"C10": {"C10.R1", "C10.R2", "C10.R3", "C10.R4", "C10.R5", "C01.R9", "C10.R6", "C10.R7", "C10.R8", "C10.R9", "C10.R10", "C13.R3", "C10.R11", "C10.R12", "C05.R5", "C09.R2"},
	"C12": {"C12.R1", "C12.R2", "C12.R3", "C12.R4", "C12.R5", "C12.R6"},
	"C13": {"C13.R1", "C13.R2", "C13.R3", "C13.R4", "C15.R5", "C15.R2", "C15.R7", "C13.R5", "C13.R6"},
	"C11": {"C11.R1", "C11.R2", "C11.R4", "C06.R5", "C01.R4", "C10.R11", "C05.R1"},
	"C06": {"C06.R1", "C06.R2", "C06.R3", "C06.R4", "C06.R5", "C12.R2", "C10.R5", "C17.R2", "C10.R7", "C06.R6", "C06.R7", "C12.R6", "C17.R6", "C17.R13"},
}

const (
	fnMapSet     = "golang.org/x/tools/go/types/typeutil.Map.Set"
	fnMapAt      = "golang.org/x/tools/go/types/typeutil.Map.At"
	fnMapDelete  = "golang.org/x/tools/go/types/typeutil.Map.Delete"
	fnMapIterate = "golang.org/x/tools/go/types/typeutil.Map.Iterate"
	fnMapKeys    = "golang.org/x/tools/go/types/typeutil.Map.Keys"
	fnMapLen     = "golang.org/x/tools/go/types/typeutil.Map.Len"
	fnECAdd      = pathW + ".errorCollector.add"
	fnNotePos    = pathW + ".notePosition"
	fnNotePosAll = pathW + ".notePositionAll"
	fnMapErrors  = pathW + ".mapErrors"
	fnIdentical  = "go/types.Identical"
	fnImplements = "go/types.Implements"
	fnTypeString = "go/types.TypeString"
)

func runThorough(c *Ctx, pr *propResult, findings []Finding) {
	thoroughExtras(c, pr, findings)
}

// ---------------------------------------------------------------------------
// small shared helpers used by many rules

// varsIn returns the non-field variables mentioned in e.
func (fi *FuncInfo) varsIn(e ast.Expr) map[*types.Var]bool {
	out := map[*types.Var]bool{}
	ast.Inspect(e, func(n ast.Node) bool {
		if id, ok := n.(*ast.Ident); ok {
			if v, ok := fi.Info.ObjectOf(id).(*types.Var); ok && !v.IsField() {
				out[v] = true
			}
		}
		return true
	})
	return out
}

// fieldsIn returns the field objects selected in e.
func (fi *FuncInfo) fieldsIn(e ast.Expr) map[*types.Var]bool {
	out := map[*types.Var]bool{}
	ast.Inspect(e, func(n ast.Node) bool {
		if id, ok := n.(*ast.Ident); ok {
			if v, ok := fi.Info.ObjectOf(id).(*types.Var); ok && v.IsField() {
				out[v] = true
			}
		}
		return true
	})
	return out
}

// stableBetween reports whether the value of expression e cannot change
// between source positions a and b (a<b) of the same function: no variable
// or field it mentions is assigned in between (loop-carried writes that are
// textually outside (a,b) re-execute the guard at a first).
func (fi *FuncInfo) stableBetween(e ast.Expr, from, to ast.Node) bool {
	a, b := startOf(from), startOf(to)
	vars := fi.varsIn(e)
	// follow single-def substitutions too
	for v := range vars {
		if d := fi.singleDef(v); d != nil {
			for w := range fi.varsIn(d.rhs) {
				vars[w] = true
			}
		}
	}
	for v := range vars {
		for _, d := range fi.defs[v] {
			if d.kind == "param" {
				continue
			}
			p := startOf(d.node)
			if p > a && p < b {
				return false
			}
		}
	}
	fields := fi.fieldsIn(e)
	stable := true
	fi.inspect(fi.Decl.Body, func(n ast.Node) bool {
		as, ok := n.(*ast.AssignStmt)
		if !ok || startOf(as) <= a || startOf(as) >= b {
			return true
		}
		for _, l := range as.Lhs {
			if f := fi.selField(l); f != nil && fields[f] {
				stable = false
			}
		}
		return true
	})
	return stable
}

// inNestedLoopOrLit reports whether n sits inside a loop or function literal
// that is itself inside top.
func (fi *FuncInfo) inNestedLoopOrLit(n, top ast.Node) bool {
	for p := fi.parent[n]; p != nil && p != top; p = fi.parent[p] {
		switch p.(type) {
		case *ast.ForStmt, *ast.RangeStmt, *ast.FuncLit:
			return true
		}
	}
	return false
}

// unconditionalIn reports whether n executes on every path through block
// top that reaches its position: no branch inside top guards it and it is
// not inside a nested loop or closure.
func (fi *FuncInfo) unconditionalIn(n, top ast.Node) bool {
	return len(fi.GuardsWithin(n, top)) == 0 && !fi.inNestedLoopOrLit(n, top) && fi.within(n, top)
}

// branchBlocks returns, for an if statement establishing cond, the block that
// executes when the ORIGINAL condition expression is true and the one when it
// is false (else may be nil).
func ifBlocks(is *ast.IfStmt) (then ast.Node, els ast.Node) {
	return is.Body, is.Else
}

// exprShort renders e compactly for keys.
func exprShort(e ast.Expr) string {
	if e == nil {
		return ""
	}
	return types.ExprString(e)
}

// localVarsOfType returns the local variables of fi (declared in its body)
// whose type is (pointer to) pkg.name, in declaration order.
func (fi *FuncInfo) localVarsOfType(pkg, name string) []*types.Var {
	var out []*types.Var
	seen := map[*types.Var]bool{}
	fi.inspect(fi.Decl.Body, func(n ast.Node) bool {
		id, ok := n.(*ast.Ident)
		if !ok {
			return true
		}
		v, ok := fi.Info.Defs[id].(*types.Var)
		if !ok || seen[v] || v.IsField() {
			return true
		}
		if isNamed(derefType(v.Type()), pkg, name) {
			seen[v] = true
			out = append(out, v)
		}
		return true
	})
	return out
}

// collectorOf returns the errorCollector variable of fi (local of type
// *errorCollector), or nil.
func (fi *FuncInfo) collectorVars() []*types.Var {
	return fi.localVarsOfType(pathW, "errorCollector")
}

// returnsOf lists the return statements of the declaration's own body (not
// those of nested function literals).
func (fi *FuncInfo) returnsOf() []*ast.ReturnStmt {
	var out []*ast.ReturnStmt
	var walk func(n ast.Node)
	walk = func(n ast.Node) {
		ast.Inspect(n, func(m ast.Node) bool {
			switch m := m.(type) {
			case *ast.FuncLit:
				return false
			case *ast.ReturnStmt:
				out = append(out, m)
			}
			return true
		})
	}
	walk(fi.Decl.Body)
	return out
}

// loopCtx renders the chain of enclosing loops of n ("range set.Providers>range p.Out"),
// used to make obligation keys unique without line numbers.
func (fi *FuncInfo) loopCtx(n ast.Node) string {
	var parts []string
	for p := fi.parent[n]; p != nil; p = fi.parent[p] {
		switch p := p.(type) {
		case *ast.RangeStmt:
			parts = append([]string{"range " + exprShort(p.X)}, parts...)
		case *ast.ForStmt:
			parts = append([]string{"for " + exprShort(p.Cond)}, parts...)
		case *ast.FuncLit:
			parts = append([]string{"func"}, parts...)
		}
	}
	s := ""
	for i, p := range parts {
		if i > 0 {
			s += ">"
		}
		s += p
	}
	return s
}

// precedingSimple returns the simple statements (expression statements and
// assignments, not nested in branches) executed before n on the way from the
// start of top to n: earlier siblings of n and of each of its ancestors below top.
func (fi *FuncInfo) precedingSimple(n, top ast.Node) []ast.Stmt {
	var out []ast.Stmt
	child := n
	for p := fi.parent[child]; p != nil; child, p = p, fi.parent[p] {
		var list []ast.Stmt
		switch p := p.(type) {
		case *ast.BlockStmt:
			list = p.List
		case *ast.CaseClause:
			list = p.Body
		}
		var pre []ast.Stmt
		for _, s := range list {
			if s == child {
				break
			}
			switch s.(type) {
			case *ast.ExprStmt, *ast.AssignStmt, *ast.DeclStmt, *ast.IncDecStmt:
				pre = append(pre, s)
			}
		}
		out = append(pre, out...)
		if p == top {
			break
		}
	}
	return out
}

// usesOf returns the identifiers in fi's body that refer to v (excluding its definition).
func (fi *FuncInfo) usesOf(v *types.Var) []*ast.Ident {
	var out []*ast.Ident
	fi.inspect(fi.Decl.Body, func(n ast.Node) bool {
		if id, ok := n.(*ast.Ident); ok && fi.Info.Uses[id] == v {
			out = append(out, id)
		}
		return true
	})
	return out
}

// isErrorType / isErrorSlice classify result types.
func isErrorType(t types.Type) bool {
	return types.Identical(t, types.Universe.Lookup("error").Type())
}
func isErrorSlice(t types.Type) bool {
	s, ok := t.(*types.Slice)
	return ok && isErrorType(s.Elem())
}

// loopExits lists the statements inside loop's body that can leave the loop
// before it has visited every element: return, goto, break targeting it (or
// an outer statement), continue targeting an outer loop, panic-like calls are
// not counted. Function literals are skipped.
func (fi *FuncInfo) loopExits(loop ast.Stmt) []ast.Node {
	var body *ast.BlockStmt
	switch l := loop.(type) {
	case *ast.ForStmt:
		body = l.Body
	case *ast.RangeStmt:
		body = l.Body
	default:
		return nil
	}
	var label string
	if ls, ok := fi.parent[loop].(*ast.LabeledStmt); ok {
		label = ls.Label.Name
	}
	var out []ast.Node
	var walk func(n ast.Node, breakable int, loops int)
	walk = func(n ast.Node, breakable, loops int) {
		ast.Inspect(n, func(m ast.Node) bool {
			if m == nil || m == n {
				return true
			}
			switch s := m.(type) {
			case *ast.FuncLit:
				return false
			case *ast.ReturnStmt:
				out = append(out, s)
			case *ast.BranchStmt:
				switch s.Tok {
				case token.GOTO:
					out = append(out, s)
				case token.BREAK:
					if s.Label != nil {
						// labelled break: leaves this loop if the label is this loop's or an outer statement's
						if s.Label.Name == label || !fi.labelInside(s.Label.Name, body) {
							out = append(out, s)
						}
					} else if breakable == 0 {
						out = append(out, s)
					}
				case token.CONTINUE:
					if s.Label != nil && s.Label.Name != label && !fi.labelInside(s.Label.Name, body) {
						out = append(out, s)
					}
				}
			case *ast.ForStmt:
				walk(s.Body, breakable+1, loops+1)
				return false
			case *ast.RangeStmt:
				walk(s.Body, breakable+1, loops+1)
				return false
			case *ast.SwitchStmt:
				walk(s.Body, breakable+1, loops)
				return false
			case *ast.TypeSwitchStmt:
				walk(s.Body, breakable+1, loops)
				return false
			case *ast.SelectStmt:
				walk(s.Body, breakable+1, loops)
				return false
			}
			return true
		})
	}
	walk(body, 0, 0)
	return out
}

func (fi *FuncInfo) labelInside(name string, body ast.Node) bool {
	found := false
	ast.Inspect(body, func(n ast.Node) bool {
		if ls, ok := n.(*ast.LabeledStmt); ok && ls.Label.Name == name {
			found = true
		}
		return true
	})
	return found
}

// loopComplete reports whether the loop visits every element (no early exit).
func (fi *FuncInfo) loopComplete(loop ast.Stmt) bool {
	return len(fi.loopExits(loop)) == 0
}

func regexpMatch(pat, s string) bool {
	return regexp.MustCompile(pat).MatchString(s)
}

// returnsIn lists the return statements lexically inside n (not those of nested function literals).
func returnsIn(n ast.Node) []*ast.ReturnStmt {
	var out []*ast.ReturnStmt
	ast.Inspect(n, func(m ast.Node) bool {
		switch m := m.(type) {
		case *ast.FuncLit:
			return false
		case *ast.ReturnStmt:
			out = append(out, m)
		}
		return true
	})
	return out
}

// otherEdge describes the edge of an if statement that does NOT lead to n:
// the calls made on it, whether a call on it is made unconditionally, and
// whether n cannot be reached along it. The shapes:
//
//	if c {…n…} else {E}        E
//	if c {E} else {…n…}        E
//	if c {E; leave}; …n…       E
//	if c {…n…; leave}; E…      the statements that follow the if in its block
func (fi *FuncInfo) otherEdge(is *ast.IfStmt, n ast.Node) (calls []*ast.CallExpr, uncond func(*ast.CallExpr) bool, cannotReach bool, ok bool) {
	blockEdge := func(b ast.Node, cr bool) ([]*ast.CallExpr, func(*ast.CallExpr) bool, bool, bool) {
		return callsIn(b), func(cl *ast.CallExpr) bool { return fi.unconditionalIn(cl, b) }, cr, true
	}
	switch {
	case fi.within(n, is.Body) && is.Else != nil:
		return blockEdge(is.Else, true)
	case is.Else != nil && fi.within(n, is.Else):
		return blockEdge(is.Body, true)
	case !fi.within(n, is.Body):
		return blockEdge(is.Body, terminates(is.Body))
	case terminates(is.Body):
		var list []ast.Stmt
		var top ast.Node
		switch p := fi.parent[is].(type) {
		case *ast.BlockStmt:
			list, top = p.List, p
		case *ast.CaseClause:
			list, top = p.Body, p
		}
		var rest []ast.Stmt
		before := map[ast.Node]bool{} // the if itself and what precedes it: conditions that hold on both edges
		for i, st := range list {
			if st == ast.Stmt(is) {
				rest = list[i+1:]
				for _, b := range list[:i+1] {
					before[b] = true
				}
			}
		}
		if len(rest) == 0 {
			return nil, nil, false, false
		}
		for _, st := range rest {
			calls = append(calls, callsIn(st)...)
		}
		return calls, func(cl *ast.CallExpr) bool {
			for _, g := range fi.GuardsWithin(cl, top) {
				if !before[g.At] {
					return false
				}
			}
			return !fi.inNestedLoopOrLit(cl, top)
		}, true, true
	}
	return nil, nil, false, false
}

// otherEdgeRoots: the statements executed on the edge of the if statement that
// does not lead to n (see otherEdge for the shapes).
func (fi *FuncInfo) otherEdgeRoots(is *ast.IfStmt, n ast.Node) []ast.Node {
	switch {
	case fi.within(n, is.Body) && is.Else != nil:
		return []ast.Node{is.Else}
	case is.Else != nil && fi.within(n, is.Else):
		return []ast.Node{is.Body}
	case !fi.within(n, is.Body):
		return []ast.Node{is.Body}
	case terminates(is.Body):
		var list []ast.Stmt
		switch p := fi.parent[is].(type) {
		case *ast.BlockStmt:
			list = p.List
		case *ast.CaseClause:
			list = p.Body
		}
		var out []ast.Node
		for i, st := range list {
			if st == ast.Stmt(is) {
				for _, r := range list[i+1:] {
					out = append(out, r)
				}
			}
		}
		return out
	}
	return nil
}
