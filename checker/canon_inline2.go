package main

import (
	"bytes"
	"fmt"
	"go/ast"
	"go/parser"
	"go/printer"
	"go/token"
	"go/types"
	"reflect"
	"sort"

	"golang.org/x/tools/go/ast/astutil"
	"golang.org/x/tools/go/packages"
)

// inlineCalls puts an extracted function back where it is called — the
// extract-method refactoring undone — in the three contexts in which that is
// an identity of Go without inventing control flow:
//
//	h(args)                     a call statement of a function without results and without return statements
//	return h(args)              a tail call: h's result types are the caller's
//	if h(args) { S; return … }  (or `if !h(args)`) a guard on a predicate all of whose returns are the constants
//	                            true/false, the ones that do not select S being its last statement
//
// The function must be one that the pinned tree does not know (so no rule
// names it), unexported, without receiver or type parameters, not variadic,
// not recursive, never used as a value, with exactly one call site, free of
// defer/recover/labels/goto. Arguments must have exactly the parameter types.
// A parameter that the body only reads and that is given a plain variable
// becomes that variable; the others are bound by `params := args` in front.
// Every package-level name the body mentions must mean the same thing at the
// call site. One function per package and round (recorded uses go stale).
func inlineCalls(pkgs map[string]*packages.Package) ([]string, error) {
	known := map[string]bool{}
	for _, a := range anchorSigs {
		known[a[0]+"::"+a[1]] = true
	}
	var notes []string
	for _, path := range []string{pathRoot, pathW, pathCmd} {
		p := pkgs[path]
		if p == nil {
			continue
		}
		if note := inlineOne(p, path, known); note != "" {
			notes = append(notes, note)
		}
	}
	if len(notes) == 0 {
		return nil, nil
	}
	if err := recheck(pkgs); err != nil {
		return nil, err
	}
	sort.Strings(notes)
	return notes, nil
}

func inlineOne(p *packages.Package, path string, known map[string]bool) string {
	info := p.TypesInfo
	for _, f := range p.Syntax {
		for _, d := range f.Decls {
			fd, ok := d.(*ast.FuncDecl)
			if !ok || fd.Recv != nil || fd.Body == nil || fd.Type.TypeParams != nil {
				continue
			}
			obj, _ := info.Defs[fd.Name].(*types.Func)
			if obj == nil || obj.Exported() || known[path+"::"+obj.Name()] || obj.Name() == "main" || obj.Name() == "init" {
				continue
			}
			sig := obj.Type().(*types.Signature)
			if sig.Variadic() {
				continue
			}
			plain := true
			var returns []*ast.ReturnStmt
			ast.Inspect(fd.Body, func(n ast.Node) bool {
				switch x := n.(type) {
				case *ast.FuncLit:
					return false
				case *ast.ReturnStmt:
					returns = append(returns, x)
				case *ast.DeferStmt, *ast.LabeledStmt:
					plain = false
				case *ast.BranchStmt:
					if x.Tok == token.GOTO || x.Label != nil {
						plain = false
					}
				case *ast.CallExpr:
					if id, ok := x.Fun.(*ast.Ident); ok && id.Name == "recover" {
						plain = false
					}
				}
				return true
			})
			if !plain {
				continue
			}
			// the single use and what surrounds it
			var stackAt []ast.Node
			uses, bad := 0, false
			for _, f2 := range p.Syntax {
				var stack []ast.Node
				ast.Inspect(f2, func(n ast.Node) bool {
					if n == nil {
						stack = stack[:len(stack)-1]
						return true
					}
					stack = append(stack, n)
					id, ok := n.(*ast.Ident)
					if !ok || info.Uses[id] != types.Object(obj) {
						return true
					}
					uses++
					for _, anc := range stack {
						if anc == ast.Node(fd) {
							bad = true
						}
					}
					stackAt = append([]ast.Node{}, stack...)
					return true
				})
			}
			if bad || uses != 1 || len(stackAt) < 4 {
				continue
			}
			site, ok := stackAt[len(stackAt)-2].(*ast.CallExpr)
			if !ok || site.Fun != stackAt[len(stackAt)-1] || site.Ellipsis.IsValid() || len(site.Args) != sig.Params().Len() {
				continue
			}
			var encl *ast.FuncDecl // the function declaration the call sits in, not inside a closure
			inLit := false
			for _, anc := range stackAt {
				switch x := anc.(type) {
				case *ast.FuncDecl:
					encl = x
				case *ast.FuncLit:
					inLit = true
				}
			}
			if encl == nil {
				continue
			}
			up := stackAt[len(stackAt)-3]
			var target ast.Stmt     // the statement that becomes the block
			var selected []ast.Stmt // guard context: the statements the predicate's selecting returns turn into
			polarity := true
			mode := ""
			switch x := up.(type) {
			case *ast.ExprStmt:
				if sig.Results().Len() == 0 && len(returns) == 0 {
					mode, target = "statement", x
				}
			case *ast.ReturnStmt:
				if inLit || len(x.Results) != 1 || sig.Results().Len() == 0 {
					break
				}
				eo, _ := info.Defs[encl.Name].(*types.Func)
				if eo == nil || !types.Identical(eo.Type().(*types.Signature).Results(), sig.Results()) {
					break
				}
				if fd.Type.Results != nil {
					named := false
					for _, fl := range fd.Type.Results.List {
						if len(fl.Names) > 0 {
							named = true
						}
					}
					if named {
						break // bare returns would mean something else in the caller
					}
				}
				if len(fd.Body.List) == 0 {
					break
				}
				if _, endsInReturn := fd.Body.List[len(fd.Body.List)-1].(*ast.ReturnStmt); !endsInReturn {
					break // the body ends in a panic or an endless loop: keep it simple
				}
				mode, target = "tail call", x
			case *ast.UnaryExpr, *ast.IfStmt:
				var is *ast.IfStmt
				if u, isU := x.(*ast.UnaryExpr); isU {
					if u.Op != token.NOT || len(stackAt) < 5 {
						break
					}
					is, _ = stackAt[len(stackAt)-4].(*ast.IfStmt)
					if is == nil || is.Cond != ast.Expr(u) {
						break
					}
					polarity = false
				} else {
					is = x.(*ast.IfStmt)
					if is.Cond != ast.Expr(site) {
						break
					}
				}
				if inLit || is.Init != nil || is.Else != nil || len(is.Body.List) == 0 {
					break
				}
				if _, endsInReturn := is.Body.List[len(is.Body.List)-1].(*ast.ReturnStmt); !endsInReturn {
					break
				}
				branches := false
				ast.Inspect(is.Body, func(n ast.Node) bool {
					if _, ok := n.(*ast.BranchStmt); ok {
						branches = true
					}
					return true
				})
				if branches || sig.Results().Len() != 1 || !isBoolType(sig.Results().At(0).Type()) || len(fd.Body.List) == 0 {
					break
				}
				// every return a constant; the non-selecting ones only as the body's last statement
				okRet := true
				last, _ := fd.Body.List[len(fd.Body.List)-1].(*ast.ReturnStmt)
				if last == nil {
					break
				}
				for _, rt := range returns {
					if len(rt.Results) != 1 {
						okRet = false
						continue
					}
					id, isId := rt.Results[0].(*ast.Ident)
					if !isId || (id.Name != "true" && id.Name != "false") || info.Uses[id] == nil || info.Uses[id].Pkg() != nil {
						okRet = false
						continue
					}
					if (id.Name == "true") != polarity && rt != last {
						okRet = false
					}
				}
				if lid, isId := last.Results[0].(*ast.Ident); !okRet || !isId || (lid.Name == "true") == polarity {
					break // the last statement must be the non-selecting constant
				}
				mode, target, selected = "guard", is, is.Body.List
			}
			var parentList *[]ast.Stmt // single-exit context: where the body's statements are spliced in
			if mode == "" && !inLit && sig.Results().Len() == 1 && len(returns) == 1 && len(fd.Body.List) > 0 && returns[0] == fd.Body.List[len(fd.Body.List)-1] {
				// a function with one result whose only return is its last statement, called from a simple statement in
				// which nothing else has an effect: the statements move in front and the call becomes the returned expression
				named := false
				for _, fl := range fd.Type.Results.List {
					if len(fl.Names) > 0 {
						named = true
					}
				}
				var st ast.Stmt
				var holder ast.Node
				for i := len(stackAt) - 1; i > 0 && st == nil; i-- {
					if s0, isStmt := stackAt[i].(ast.Stmt); isStmt {
						switch b := stackAt[i-1].(type) {
						case *ast.BlockStmt:
							st, holder, parentList = s0, b, &b.List
						case *ast.CaseClause:
							st, holder, parentList = s0, b, &b.Body
						}
						if st == nil {
							switch s0.(type) {
							case *ast.ExprStmt, *ast.AssignStmt, *ast.ReturnStmt:
								// keep climbing only out of an if statement's init
							default:
								i = 0
							}
						}
					}
				}
				okStmt := false
				switch x := st.(type) {
				case *ast.ExprStmt, *ast.AssignStmt, *ast.ReturnStmt:
					okStmt = true
				case *ast.IfStmt:
					// only in the init or the condition (evaluated once, before anything else of the statement)
					in := false
					for _, part := range []ast.Node{x.Init, x.Cond} {
						if part != nil {
							ast.Inspect(part, func(n ast.Node) bool {
								if n == ast.Node(site) {
									in = true
								}
								return true
							})
						}
					}
					okStmt = in
				}
				if okStmt && !named {
					// nothing else in the statement may have an effect (other calls, receives, closures)
					pureRest := true
					ast.Inspect(st, func(n ast.Node) bool {
						if n == ast.Node(site) {
							return false
						}
						switch y := n.(type) {
						case *ast.BlockStmt:
							return false // the arms of an if statement run afterwards
						case *ast.CallExpr:
							if tv, ok := info.Types[y.Fun]; !ok || !(tv.IsType() || tv.IsBuiltin()) {
								pureRest = false
							}
						case *ast.FuncLit:
							pureRest = false
						case *ast.UnaryExpr:
							if y.Op == token.ARROW {
								pureRest = false
							}
						}
						return true
					})
					// no capture: what the body declares is neither used by the statement nor by what follows it, nor
					// already declared where it goes
					declared := declaredIn(fd.Body)
					clash := false
					if len(declared) > 0 {
						has := declaredIn(&ast.BlockStmt{List: *parentList})
						if sc := info.Scopes[holder]; sc != nil {
							for nm := range declared {
								if sc.Lookup(nm) != nil {
									clash = true
								}
							}
						}
						after := false
						for _, s1 := range *parentList {
							if s1 == st {
								after = true
							}
							if !after {
								continue
							}
							ast.Inspect(s1, func(n ast.Node) bool {
								if id, ok := n.(*ast.Ident); ok && declared[id.Name] {
									clash = true
								}
								return true
							})
						}
						for nm := range declared {
							if has[nm] {
								clash = true
							}
						}
					}
					if pureRest && !clash {
						mode, target = "single exit", st
					}
				}
			}
			if mode == "" {
				continue
			}
			if _, inBlock := blockListOf(stackAt, target); !inBlock {
				continue
			}
			// break/continue of the body must bind inside it
			if looseBranches(fd.Body) {
				continue
			}
			if !sameMeaningAt(fd.Body, p, site.Pos()) {
				continue
			}
			// nothing below may fail: from here on the body is rewritten in place
			if mode == "guard" {
				if _, err := copyStmts(selected, site.Pos()); err != nil {
					continue
				}
			}
			pre, ok := bindArguments(fd, sig, site, info, mode != "single exit")
			if !ok {
				continue
			}
			body := fd.Body.List
			if mode == "guard" {
				// selecting returns become copies of the guarded statements; the final non-selecting return disappears
				body = body[:len(body)-1]
				okCopy := true
				wrapped := &ast.BlockStmt{List: body}
				astutil.Apply(wrapped, func(c *astutil.Cursor) bool {
					if _, isLit := c.Node().(*ast.FuncLit); isLit {
						return false
					}
					if rt, isRet := c.Node().(*ast.ReturnStmt); isRet {
						cp, err := copyStmts(selected, site.Pos())
						if err != nil {
							okCopy = false
							return false
						}
						_ = rt
						c.Replace(&ast.BlockStmt{Lbrace: site.Pos(), List: cp, Rbrace: site.End()})
						return false
					}
					return true
				}, nil)
				if !okCopy {
					continue
				}
				body = wrapped.List
			}
			if mode == "single exit" {
				ret := returns[0].Results[0]
				done := false
				astutil.Apply(target, func(c *astutil.Cursor) bool {
					if c.Node() == ast.Node(site) && !done {
						c.Replace(&ast.ParenExpr{Lparen: site.Pos(), X: ret, Rparen: site.End()})
						done = true
						return false
					}
					return !done
				}, nil)
				if !done {
					continue
				}
				var nl []ast.Stmt
				for _, s1 := range *parentList {
					if s1 == target {
						nl = append(nl, pre...)
						nl = append(nl, body[:len(body)-1]...)
					}
					nl = append(nl, s1)
				}
				*parentList = nl
				var keep []ast.Decl
				for _, d2 := range f.Decls {
					if d2 != ast.Decl(fd) {
						keep = append(keep, d2)
					}
				}
				f.Decls = keep
				return fmt.Sprintf("function %s (not in the pinned tree, one call site: %s) analysed in place", obj.Name(), mode)
			}
			blk := &ast.BlockStmt{Lbrace: site.Pos(), List: append(pre, body...), Rbrace: site.End()}
			replaced := false
			for _, f2 := range p.Syntax {
				astutil.Apply(f2, func(c *astutil.Cursor) bool {
					if c.Node() == ast.Node(target) {
						c.Replace(blk)
						replaced = true
						return false
					}
					return !replaced
				}, nil)
				if replaced {
					break
				}
			}
			if !replaced {
				continue
			}
			var keep []ast.Decl
			for _, d2 := range f.Decls {
				if d2 != ast.Decl(fd) {
					keep = append(keep, d2)
				}
			}
			f.Decls = keep
			return fmt.Sprintf("function %s (not in the pinned tree, one call site: %s) analysed in place", obj.Name(), mode)
		}
	}
	return ""
}

func isBoolType(t types.Type) bool {
	b, ok := t.Underlying().(*types.Basic)
	return ok && b.Info()&types.IsBoolean != 0
}

// blockListOf: the statement hangs directly in a statement list.
func blockListOf(stack []ast.Node, st ast.Stmt) (ast.Node, bool) {
	for i, n := range stack {
		if n == ast.Node(st) && i > 0 {
			switch stack[i-1].(type) {
			case *ast.BlockStmt, *ast.CaseClause, *ast.CommClause:
				return stack[i-1], true
			}
		}
	}
	return nil, false
}

// looseBranches: a break or continue in the body that would bind outside it.
func looseBranches(body *ast.BlockStmt) bool {
	loose := false
	var walk func(n ast.Node, inLoop, inSwitch bool)
	walk = func(n ast.Node, inLoop, inSwitch bool) {
		ast.Inspect(n, func(m ast.Node) bool {
			if m == n {
				return true
			}
			switch x := m.(type) {
			case *ast.FuncLit:
				return false
			case *ast.ForStmt:
				walk(x.Body, true, inSwitch)
				return false
			case *ast.RangeStmt:
				walk(x.Body, true, inSwitch)
				return false
			case *ast.SwitchStmt:
				walk(x.Body, inLoop, true)
				return false
			case *ast.TypeSwitchStmt:
				walk(x.Body, inLoop, true)
				return false
			case *ast.SelectStmt:
				walk(x.Body, inLoop, true)
				return false
			case *ast.BranchStmt:
				if x.Tok == token.CONTINUE && !inLoop || x.Tok == token.BREAK && !inLoop && !inSwitch {
					loose = true
				}
			}
			return true
		})
	}
	walk(body, false, false)
	return loose
}

// bindArguments renames read-only parameters given plain variables to those
// variables (in place, in the body) and returns the `params := args`
// statement for the others.
func bindArguments(fd *ast.FuncDecl, sig *types.Signature, site *ast.CallExpr, info *types.Info, allowDefine bool) ([]ast.Stmt, bool) {
	used := map[types.Object]bool{}
	ast.Inspect(fd.Body, func(n ast.Node) bool {
		if id, ok := n.(*ast.Ident); ok && info.Uses[id] != nil {
			used[info.Uses[id]] = true
		}
		return true
	})
	type rename struct {
		obj  types.Object
		name string
	}
	var renames []rename
	type subst struct {
		obj  types.Object
		with ast.Expr
	}
	var substs []subst
	var lhs, rhs []ast.Expr
	k := 0
	for _, fl := range fd.Type.Params.List {
		names := fl.Names
		if len(names) == 0 {
			names = []*ast.Ident{nil}
		}
		for _, nm := range names {
			arg := site.Args[k]
			pv := sig.Params().At(k)
			k++
			at := info.TypeOf(arg)
			if at == nil || !types.Identical(at, pv.Type()) {
				return nil, false
			}
			if nm == nil || nm.Name == "_" || !used[info.Defs[nm]] {
				if !pureArg(arg) {
					return nil, false
				}
				continue
			}
			if aid, isId := arg.(*ast.Ident); isId && aid.Name != "_" && readOnlyIn(fd.Body, info.Defs[nm], info) && !declaresName(fd.Body, aid.Name, info) {
				if _, isVar := info.Uses[aid].(*types.Var); isVar {
					renames = append(renames, rename{info.Defs[nm], aid.Name})
					continue
				}
			}
			// a read-only parameter given a field selection, in a body that calls nothing and assigns only its own
			// locals, is that field selection wherever it is used
			if sel, isSel := arg.(*ast.SelectorExpr); isSel && pureArg(sel) && readOnlyIn(fd.Body, info.Defs[nm], info) && effectFree(fd.Body, info) {
				rootFree := true
				ast.Inspect(sel, func(n ast.Node) bool {
					if id, ok := n.(*ast.Ident); ok && info.Uses[id] != nil && declaresName(fd.Body, id.Name, info) {
						rootFree = false
					}
					return true
				})
				if rootFree {
					substs = append(substs, subst{info.Defs[nm], sel})
					continue
				}
			}
			lhs = append(lhs, &ast.Ident{NamePos: site.Pos(), Name: nm.Name})
			rhs = append(rhs, arg)
		}
	}
	if len(lhs) > 0 && !allowDefine {
		return nil, false // the statements are spliced into the caller's block: no new declarations for parameters
	}
	// two parameters renamed to each other's names would capture: keep it simple
	for _, r1 := range renames {
		for _, fl := range fd.Type.Params.List {
			for _, nm := range fl.Names {
				if nm.Name == r1.name && info.Defs[nm] != r1.obj && used[info.Defs[nm]] {
					renamedToo := false
					for _, r2 := range renames {
						if r2.obj == info.Defs[nm] {
							renamedToo = true
						}
					}
					if !renamedToo {
						return nil, false // the argument's name is also a bound parameter's name in the body
					}
					if renamedToo {
						return nil, false
					}
				}
			}
		}
	}
	for _, r := range renames {
		ast.Inspect(fd.Body, func(n ast.Node) bool {
			if id, ok := n.(*ast.Ident); ok && info.Uses[id] == r.obj {
				id.Name = r.name
			}
			return true
		})
	}
	for _, sb := range substs {
		astutil.Apply(fd.Body, func(c *astutil.Cursor) bool {
			if id, ok := c.Node().(*ast.Ident); ok && info.Uses[id] == sb.obj {
				c.Replace(sb.with)
			}
			return true
		}, nil)
	}
	if len(lhs) == 0 {
		return nil, true
	}
	return []ast.Stmt{&ast.AssignStmt{Lhs: lhs, TokPos: site.Pos(), Tok: token.DEFINE, Rhs: rhs}}, true
}

// sameMeaningAt: every package-level or imported name the body mentions
// resolves to the same object at the position.
func sameMeaningAt(body *ast.BlockStmt, p *packages.Package, pos token.Pos) bool {
	info := p.TypesInfo
	inner := p.Types.Scope().Innermost(pos)
	if inner == nil {
		return false
	}
	same := true
	skip := map[*ast.Ident]bool{}
	ast.Inspect(body, func(n ast.Node) bool {
		switch x := n.(type) {
		case *ast.SelectorExpr:
			skip[x.Sel] = true
		case *ast.KeyValueExpr:
			if id, ok := x.Key.(*ast.Ident); ok {
				if _, isField := info.Uses[id].(*types.Var); isField && info.Uses[id].(*types.Var).IsField() {
					skip[id] = true
				}
			}
		case *ast.Ident:
			if skip[x] || !same {
				return true
			}
			o := info.Uses[x]
			if o == nil {
				return true
			}
			if _, isPkgName := o.(*types.PkgName); !isPkgName && o.Pkg() == p.Types && o.Parent() != p.Types.Scope() {
				return true // a local or a parameter of the function being inlined
			}
			_, got := inner.LookupParent(x.Name, pos)
			switch w := o.(type) {
			case *types.PkgName:
				g, isPkg := got.(*types.PkgName)
				if !isPkg || g.Imported() != w.Imported() {
					same = false
				}
			default:
				if got != o {
					same = false
				}
			}
		}
		return true
	})
	return same
}

// copyStmts: an independent copy of the statements (printed and parsed again).
func copyStmts(list []ast.Stmt, at token.Pos) ([]ast.Stmt, error) {
	var buf bytes.Buffer
	buf.WriteString("package p\nfunc _() {\n")
	for _, st := range list {
		if err := printer.Fprint(&buf, token.NewFileSet(), st); err != nil {
			return nil, err
		}
		buf.WriteString("\n")
	}
	buf.WriteString("}\n")
	f, err := parser.ParseFile(token.NewFileSet(), "", buf.Bytes(), 0)
	if err != nil {
		return nil, err
	}
	out := f.Decls[0].(*ast.FuncDecl).Body.List
	for _, st := range out {
		setPositions(st, at)
	}
	return out, nil
}

// setPositions gives every node of a freshly parsed fragment one position of the file it is put into.
func setPositions(n ast.Node, at token.Pos) {
	posType := reflect.TypeOf(token.Pos(0))
	ast.Inspect(n, func(m ast.Node) bool {
		if m == nil {
			return true
		}
		v := reflect.ValueOf(m)
		if v.Kind() != reflect.Ptr || v.IsNil() || v.Elem().Kind() != reflect.Struct {
			return true
		}
		e := v.Elem()
		for i := 0; i < e.NumField(); i++ {
			if fl := e.Field(i); fl.Type() == posType && fl.CanSet() && fl.Int() != 0 {
				fl.SetInt(int64(at))
			}
		}
		return true
	})
}

// effectFree: the body calls nothing but builtins and conversions and assigns only variables it declares itself.
func effectFree(body *ast.BlockStmt, info *types.Info) bool {
	free := true
	own := func(e ast.Expr) bool {
		id, ok := ast.Unparen(e).(*ast.Ident)
		if !ok {
			return false
		}
		if id.Name == "_" {
			return true
		}
		o := info.Uses[id]
		if o == nil {
			o = info.Defs[id]
		}
		return o != nil && o.Pos() >= body.Pos() && o.Pos() < body.End()
	}
	ast.Inspect(body, func(n ast.Node) bool {
		switch x := n.(type) {
		case *ast.CallExpr:
			if tv, ok := info.Types[x.Fun]; ok && (tv.IsType() || tv.IsBuiltin()) {
				return true
			}
			free = false
		case *ast.AssignStmt:
			for _, l := range x.Lhs {
				if !own(l) {
					free = false
				}
			}
		case *ast.IncDecStmt:
			if !own(x.X) {
				free = false
			}
		case *ast.GoStmt, *ast.SendStmt, *ast.FuncLit:
			free = false
		}
		return true
	})
	return free
}
