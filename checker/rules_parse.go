package main

import (
	"go/ast"
	"go/token"
	"go/types"
	"sort"
	"strings"
)

// tupleAtType matches `<T>.At(k).Type()` (after following single-assignment
// locals) where T is the result tuple variable; returns k.
func (fi *FuncInfo) tupleAtType(e ast.Expr, tuple *types.Var) (int, bool) {
	tc := fi.isCall(fi.deref(e), "go/types.Var.Type", "go/types.object.Type")
	if tc == nil {
		return 0, false
	}
	at := fi.isCall(fi.deref(recvOf(tc)), "go/types.Tuple.At")
	if at == nil || fi.varOf(recvOf(at)) != tuple {
		return 0, false
	}
	lit, ok := ast.Unparen(at.Args[0]).(*ast.BasicLit)
	if !ok || lit.Kind != token.INT {
		return 0, false
	}
	k := 0
	for _, ch := range lit.Value {
		k = k*10 + int(ch-'0')
	}
	return k, true
}

func init() {
	register("C09.R1", "result-list decision table of funcOutput: for every (arity, identity of results 2 and 3 with error / func()) exactly the documented shapes are accepted and classified; error and cleanup types are the universe error and the empty signature",
		func(c *Ctx, r *R) {
			fi := r.Need(c.Fn(c.W, "funcOutput"), "funcOutput")
			if fi == nil {
				return
			}
			// the result tuple variable: results := sig.Results()
			var tuple *types.Var
			for v, ds := range fi.defs {
				if len(ds) == 1 && ds[0].rhs != nil && fi.within(ds[0].node, fi.Decl) {
					if rc := fi.isCall(ds[0].rhs, "go/types.Signature.Results"); rc != nil && fi.varOf(recvOf(rc)) != nil && fi.isParam(fi.varOf(recvOf(rc))) {
						tuple = v
					}
				}
			}
			if tuple == nil {
				r.Bad("anchor:results-tuple", fi.Decl.Pos(), "results := sig.Results() not found")
				return
			}
			errT := c.W.Types.Scope().Lookup("errorType")
			clT := c.W.Types.Scope().Lookup("cleanupType")
			if errT == nil || clT == nil {
				r.Bad("anchor:errorType/cleanupType", 0, "package variables not found")
				return
			}
			// definitions of the two reference types
			for _, f := range c.W.Syntax {
				for _, d := range f.Decls {
					gd, ok := d.(*ast.GenDecl)
					if !ok || gd.Tok != token.VAR {
						continue
					}
					for _, sp := range gd.Specs {
						vs := sp.(*ast.ValueSpec)
						for i, nm := range vs.Names {
							if i >= len(vs.Values) {
								continue
							}
							val := types.ExprString(vs.Values[i])
							switch c.W.TypesInfo.Defs[nm] {
							case errT:
								r.Check(val == `types.Universe.Lookup("error").Type()`, "errorType-definition", nm.Pos(), "errorType is the universe type error (%s)", val)
							case clT:
								r.Check(val == "types.NewSignature(nil, nil, nil, false)" || val == "types.NewSignatureType(nil, nil, nil, nil, nil, false)", "cleanupType-definition", nm.Pos(), "cleanupType is func() (%s)", val)
							}
						}
					}
				}
			}
			type row struct {
				ret   *ast.ReturnStmt
				conds []Cond
			}
			var rows []row
			for _, ret := range fi.returnsOf() {
				rows = append(rows, row{ret, fi.Guards(ret)})
			}
			kinds := []string{"error", "func()", "other"}
			// eval returns +1 true, 0 false, -1 undecided, -2 out-of-range access
			eval := func(g Cond, n int, rk [3]string) int {
				b2i := func(b bool) int {
					if b != g.Neg {
						return 1
					}
					return 0
				}
				switch g.Kind {
				case "case":
					lc := fi.isCall(g.Expr, "go/types.Tuple.Len")
					if lc == nil || fi.varOf(recvOf(lc)) != tuple {
						return -1
					}
					in := false
					for _, v := range g.Vals {
						lit, ok := ast.Unparen(v).(*ast.BasicLit)
						if !ok {
							return -1
						}
						if lit.Value == itoa(n) {
							in = true
						}
					}
					return b2i(in)
				case "bool":
					id := fi.isCall(g.Expr, fnIdentical)
					if id == nil {
						return -1
					}
					var ref types.Object
					var other ast.Expr
					for i, a := range id.Args {
						if idn, ok := ast.Unparen(a).(*ast.Ident); ok {
							o := fi.Info.ObjectOf(idn)
							if o == errT || o == clT {
								ref = o
								other = id.Args[1-i]
							}
						}
					}
					if ref == nil {
						return -1
					}
					k, ok := fi.tupleAtType(other, tuple)
					if !ok {
						return -1
					}
					if k >= n {
						return -2
					}
					if k == 0 || k > 2 {
						return -1
					}
					want := "error"
					if ref == clT {
						want = "func()"
					}
					return b2i(rk[k] == want)
				}
				return -1
			}
			cases := 0
			for n := 0; n <= 4; n++ {
				for _, k1 := range kinds {
					for _, k2 := range kinds {
						if n < 2 && k1 != "other" || n < 3 && k2 != "other" {
							continue
						}
						cases++
						rk := [3]string{"other", k1, k2}
						key := "arity=" + itoa(n)
						if n >= 2 {
							key += ",r2=" + k1
						}
						if n >= 3 {
							key += ",r3=" + k2
						}
						if n == 4 {
							key = "arity>=4,r2=" + k1 + ",r3=" + k2
						}
						var fired []row
						undec := false
						for _, rw := range rows {
							all := true
							for _, g := range rw.conds {
								switch eval(g, n, rk) {
								case 0:
									all = false
								case -1:
									undec = true
								case -2:
									all = false
									r.Bad(key+"/oob", rw.ret.Pos(), "a condition reads result %d of a %d-result list", 2, n)
								}
								if !all {
									break
								}
							}
							if all {
								fired = append(fired, rw)
							}
						}
						if undec {
							r.Undecided(key, fi.Decl.Pos(), "a branch condition of funcOutput is not a recognised predicate (arity test or Identical(result k, error/func()))")
							continue
						}
						if len(fired) != 1 {
							r.Bad(key, fi.Decl.Pos(), "%d returns are reachable for this shape (expected exactly 1)", len(fired))
							continue
						}
						ret := fired[0].ret
						// expected
						wantErr, wantCl, reject := false, false, false
						switch {
						case n == 0 || n >= 4:
							reject = true
						case n == 1:
						case n == 2 && k1 == "error":
							wantErr = true
						case n == 2 && k1 == "func()":
							wantCl = true
						case n == 2:
							reject = true
						case n == 3 && k1 == "func()" && k2 == "error":
							wantErr, wantCl = true, true
						default:
							reject = true
						}
						isReject := len(ret.Results) == 2 && !fi.isNilIdent(ret.Results[1])
						if reject {
							r.Check(isReject, key, ret.Pos(), "shape is rejected with an error")
							continue
						}
						if isReject {
							r.Bad(key, ret.Pos(), "a documented shape is rejected")
							continue
						}
						cl, _ := ast.Unparen(ret.Results[0]).(*ast.CompositeLit)
						if cl == nil {
							r.Undecided(key, ret.Pos(), "success result is not an outputSignature literal")
							continue
						}
						gotErr, gotCl, outOK := false, false, false
						for _, el := range cl.Elts {
							kv, ok := el.(*ast.KeyValueExpr)
							if !ok {
								continue
							}
							name := kv.Key.(*ast.Ident).Name
							isTrue := false
							if id, ok := ast.Unparen(kv.Value).(*ast.Ident); ok && id.Name == "true" {
								isTrue = true
							}
							switch name {
							case "err":
								gotErr = isTrue
							case "cleanup":
								gotCl = isTrue
							case "out":
								if k, ok := fi.tupleAtType(kv.Value, tuple); ok && k == 0 {
									outOK = true
								}
							}
						}
						r.Check(gotErr == wantErr && gotCl == wantCl && outOK, key, ret.Pos(), "classified as {out=result 1, cleanup=%v, err=%v}; want cleanup=%v err=%v", gotCl, gotErr, wantCl, wantErr)
					}
				}
			}
			r.Floor("abstract result-list shapes evaluated", cases, 15)
		})

	register("C09.R2", "pairwise-distinct inputs: each constructor of a Provider compares every pair j<i of its input types with types.Identical and rejects a match; no other Provider literal exists",
		func(c *Ctx, r *R) {
			lits := 0
			withCheck := map[string]bool{}
			for _, fi := range c.all {
				has := false
				fi.inspect(fi.Decl.Body, func(nd ast.Node) bool {
					if cl, ok := nd.(*ast.CompositeLit); ok && isNamed(fi.Info.TypeOf(cl), pathW, "Provider") {
						has = true
						lits++
					}
					return true
				})
				if !has {
					continue
				}
				r.Need(fi, fi.Name)
				ok, why := fi.hasPairCheck()
				withCheck[fi.Name] = ok
				r.Check(ok, fi.Name+"/pair-check", fi.Decl.Pos(), "%s", why)
			}
			r.Floor("functions constructing a Provider", len(withCheck), 3)
		})

	register("C09.R3", "needs-error / needs-cleanup: for every planned call an error is added iff it has a cleanup the injector cannot return, or an error the injector cannot return; nothing is rejected for declaring unneeded results; both gen and check apply it to solve's calls",
		func(c *Ctx, r *R) {
			type site struct {
				fi *FuncInfo
				is *ast.IfStmt
			}
			found := map[string][]site{}
			for _, fi := range c.all {
				if fi.Pkg != c.W {
					continue
				}
				fi.inspect(fi.Decl.Body, func(nd ast.Node) bool {
					is, ok := nd.(*ast.IfStmt)
					if !ok {
						return true
					}
					cs := flatten(is.Cond, false, is)
					if len(cs) != 2 {
						return true
					}
					var callF, sigF *types.Var
					for _, cd := range cs {
						f := fi.selField(cd.Expr)
						if f == nil {
							return true
						}
						if isNamed(derefType(fi.Info.TypeOf(cd.Expr.(*ast.SelectorExpr).X)), pathW, "call") && !cd.Neg {
							callF = f
						} else if isNamed(derefType(fi.Info.TypeOf(cd.Expr.(*ast.SelectorExpr).X)), pathW, "outputSignature") && cd.Neg {
							sigF = f
						}
					}
					if callF == nil || sigF == nil {
						return true
					}
					pair := callF.Name() + "&&!" + sigF.Name()
					found[pair] = append(found[pair], site{fi, is})
					return true
				})
			}
			for _, want := range []string{"hasCleanup&&!cleanup", "hasErr&&!err"} {
				ss := found[want]
				if len(ss) == 0 {
					r.Bad("check:"+want, 0, "no test `c.%s` found", want)
					continue
				}
				for _, s := range ss {
					fi := s.fi
					r.Need(fi, fi.Name)
					k := fi.Name + "/" + want
					added := false
					for _, cl := range callsIn(s.is.Body) {
						if fi.calleeName(cl) == fnECAdd && fi.unconditionalIn(cl, s.is.Body) && len(cl.Args) == 1 && fi.isCall(fi.deref(cl.Args[0]), fnNotePos, "fmt.Errorf", "errors.New") != nil {
							added = true
						}
					}
					r.Check(added, k+"/adds-error", s.is.Pos(), "the test's true edge unconditionally adds an error")
					loop, _ := fi.enclosingLoop(s.is).(*ast.RangeStmt)
					okLoop := loop != nil && fi.loopComplete(loop) && fi.unconditionalIn(s.is, loop.Body) && fi.varOf(loop.X) != nil && fi.isParam(fi.varOf(loop.X))
					if !okLoop && loop != nil {
						// `for i := range calls` where calls is a local from solve
						okLoop = fi.loopComplete(loop) && fi.unconditionalIn(s.is, loop.Body) && fi.varOf(loop.X) != nil
					}
					r.Check(okLoop, k+"/every-call", s.is.Pos(), "applied unconditionally to every element of the calls slice")
				}
			}
			for pair := range found {
				if pair != "hasCleanup&&!cleanup" && pair != "hasErr&&!err" {
					r.Bad("check:"+pair, found[pair][0].is.Pos(), "unexpected rejection condition %s", pair)
				}
			}
			// no rejection depends on the injector declaring more than needed: in the checking function, the
			// outputSignature fields are read only in the two tests above
			for _, ss := range found {
				for _, s := range ss {
					fi := s.fi
					extra := 0
					fi.inspect(fi.Decl.Body, func(nd ast.Node) bool {
						sel, ok := nd.(*ast.SelectorExpr)
						if !ok {
							return true
						}
						f := fi.selField(sel)
						if f == nil || !isNamed(derefType(fi.Info.TypeOf(sel.X)), pathW, "outputSignature") || f.Name() == "out" {
							return true
						}
						inKnown := false
						for _, s2 := range ss {
							if contains(s2.is.Cond, sel) {
								inKnown = true
							}
						}
						for _, other := range found {
							for _, s2 := range other {
								if contains(s2.is.Cond, sel) {
									inKnown = true
								}
							}
						}
						if !inKnown && fi.Name != "injectPass" && fi.Name != "injectorGen.funcProviderCall" {
							extra++
						}
						return true
					})
					r.Check(extra == 0, fi.Name+"/no-other-signature-tests", fi.Decl.Pos(), "no other condition in %s reads the injector's err/cleanup flags", fi.Name)
				}
			}
			// both drivers apply it to solve's result with the injector's own signature
			for _, drv := range []string{"gen.inject", "Load"} {
				fi := r.Need(c.Fn(c.W, drv), drv)
				if fi == nil {
					continue
				}
				ok := false
				for _, cl := range fi.callsDeep(fi.Decl.Body) {
					cf := c.FnOf(fi.callee(cl))
					if cf == nil {
						continue
					}
					has := false
					for _, ss := range found {
						for _, s := range ss {
							if s.fi == cf {
								has = true
							}
						}
					}
					if !has {
						continue
					}
					// one argument is solve's calls, one is the classified signature
					callsOK, sigOK := false, false
					for _, a := range cl.Args {
						if d := fi.defOf(a); d != nil && d.idx == 0 && fi.isCall(d.rhs, pathW+".solve") != nil {
							callsOK = true
						}
						if d := fi.defOf(a); d != nil && fi.isCall(d.rhs, pathW+".funcOutput", pathW+".injectorFuncSignature") != nil {
							sigOK = true
						}
					}
					if callsOK && sigOK {
						ok = true
					}
				}
				if !ok {
					// the tests may be inline in the driver itself
					for _, ss := range found {
						for _, s := range ss {
							if s.fi == fi {
								ok = true
							}
						}
					}
				}
				r.Check(ok, drv+"/applies-check", fi.Decl.Pos(), "%s applies the needs-error/needs-cleanup check to solve's calls with the injector's classified signature", drv)
			}
		})

	register("C09.R4", "every provider function and every injector passes the result-list table: funcOutput is called by processFuncProvider, injectorFuncSignature, gen.inject and injectPass, and function objects reach processFuncProvider through objectCache.get",
		func(c *Ctx, r *R) {
			callers := map[string]bool{}
			for _, fi := range c.all {
				if len(fi.callsTo(pathW+".funcOutput")) > 0 {
					callers[fi.Name] = true
				}
			}
			for _, w := range []string{"processFuncProvider", "injectorFuncSignature", "gen.inject", "injectPass"} {
				r.Check(callers[w], "caller:"+w, 0, "%s classifies its signature with funcOutput", w)
			}
			get := r.Need(c.Fn(c.W, "objectCache.get"), "objectCache.get")
			if get != nil {
				ok := false
				for _, cl := range get.callsTo(pathW + ".processFuncProvider") {
					for _, g := range get.Guards(cl) {
						if g.Kind == "typecase" && !g.Neg && len(g.Vals) == 1 && types.ExprString(g.Vals[0]) == "*types.Func" {
							ok = true
						}
						// the same test written as a comma-ok assertion
						if g.Kind == "bool" && !g.Neg {
							if v := get.varOf(g.Expr); v != nil {
								if d := get.singleDef(v); d != nil && d.idx == 1 {
									if ta, isTA := ast.Unparen(d.rhs).(*ast.TypeAssertExpr); isTA && ta.Type != nil && types.TypeString(get.Info.TypeOf(ta.Type), nil) == "*go/types.Func" {
										ok = true
									}
								}
							}
						}
					}
				}
				r.Check(ok, "get/func-case", get.Decl.Pos(), "every *types.Func named in a set is converted by processFuncProvider")
			}
			for _, drv := range []string{"generateInjectors", "Load"} {
				fi := r.Need(c.Fn(c.W, drv), drv)
				if fi != nil {
					r.Check(len(fi.callsTo(pathW+".injectorFuncSignature")) > 0, drv+"/injector-signature", fi.Decl.Pos(), "%s classifies each injector's signature", drv)
				}
			}
		})

	register("C10.R2", "position-independent classification: processNewSet's loop over the arguments ignores the index, keeps no state between iterations other than the per-kind slices and the collector, appends every item unconditionally, and its type switch covers every type a process* function returns",
		func(c *Ctx, r *R) {
			fi := r.Need(c.Fn(c.W, "objectCache.processNewSet"), "objectCache.processNewSet")
			if fi == nil {
				return
			}
			var loop *ast.RangeStmt
			fi.inspect(fi.Decl.Body, func(nd ast.Node) bool {
				rs, ok := nd.(*ast.RangeStmt)
				if ok && loop == nil {
					if f := fi.selField(rs.X); f != nil && f.Name() == "Args" {
						loop = rs
					}
				}
				return true
			})
			if loop == nil {
				r.Bad("arg-loop", fi.Decl.Pos(), "loop over call.Args not found")
				return
			}
			keyUnused := loop.Key == nil || types.ExprString(loop.Key) == "_"
			r.Check(keyUnused, "arg-loop/index-unused", loop.Pos(), "the argument's position is not consulted")
			r.Check(fi.loopComplete(loop), "arg-loop/complete", loop.Pos(), "every argument is processed (no early exit)")
			// the item comes from processExpr(info, pkgPath, arg, "")
			var item *types.Var
			for _, cl := range callsIn(loop.Body) {
				if fi.calleeName(cl) == pathW+".objectCache.processExpr" && fi.varOf(cl.Args[2]) == fi.varOf(loop.Value) {
					if as, ok := fi.parent[cl].(*ast.AssignStmt); ok {
						item = fi.varOf(as.Lhs[0])
					}
				}
			}
			r.Check(item != nil, "arg-loop/item", loop.Pos(), "each argument is converted by processExpr")
			// writes inside the loop: only to pset.<slice field>, locals defined in the loop, and the collector
			fi.inspect(loop.Body, func(nd ast.Node) bool {
				as, ok := nd.(*ast.AssignStmt)
				if !ok {
					return true
				}
				if _, isTS := fi.parent[as].(*ast.TypeSwitchStmt); isTS {
					return true
				}
				for _, l := range as.Lhs {
					if v := fi.varOf(l); v != nil {
						inLoop := false
						for _, d := range fi.defs[v] {
							if d.kind == "define" && fi.within(d.node, loop.Body) {
								inLoop = true
							}
						}
						r.Check(inLoop, "arg-loop/state:"+v.Name(), as.Pos(), "variable written in the loop is local to one iteration")
						continue
					}
					f := fi.selField(l)
					if f == nil {
						r.Undecided("arg-loop/write:"+exprShort(l), as.Pos(), "unrecognised write")
						continue
					}
					// pset.X = append(pset.X, item...) unconditionally within its case
					ap := fi.isBuiltin(as.Rhs[0], "append")
					okA := ap != nil && fi.selField(ap.Args[0]) == f
					cc := fi.enclosing(as, func(n ast.Node) bool { _, ok := n.(*ast.CaseClause); return ok })
					okU := cc != nil && fi.unconditionalIn(as, cc)
					r.Check(okA && okU, "arg-loop/append:"+f.Name(), as.Pos(), "item is appended to %s unconditionally in its case (no de-duplication or filtering)", f.Name())
				}
				return true
			})
			// type-switch coverage
			universe := map[string]bool{}
			var collect func(f *FuncInfo, depth int)
			seen := map[*FuncInfo]bool{}
			collect = func(f *FuncInfo, depth int) {
				if f == nil || seen[f] || depth > 4 {
					return
				}
				seen[f] = true
				for _, ret := range f.returnsOf() {
					if len(ret.Results) == 0 {
						continue
					}
					e := ast.Unparen(ret.Results[0])
					if f.isNilIdent(e) {
						continue
					}
					if cl, ok := e.(*ast.CallExpr); ok && len(ret.Results) == 1 {
						// return f(...) forwarding all results
						cf := f.callee(cl)
						if cf != nil {
							t := cf.Type().(*types.Signature).Results().At(0).Type()
							if _, isIface := t.Underlying().(*types.Interface); isIface {
								collect(c.FnOf(cf), depth+1)
							} else {
								universe[types.TypeString(t, nil)] = true
							}
						}
						continue
					}
					t := f.Info.TypeOf(e)
					if fld := f.selField(e); fld != nil && fld.Name() == "val" {
						// the memoised value: whatever an earlier call of the same function returned
						continue
					}
					if _, isIface := t.Underlying().(*types.Interface); isIface {
						// a variable holding call results: every definition contributes its callee's result type
						okAll := false
						if v := f.varOf(e); v != nil && len(f.defs[v]) > 0 {
							okAll = true
							for _, d := range f.defs[v] {
								if d.kind == "zero" {
									continue
								}
								cl, isCall := ast.Unparen(d.rhs).(*ast.CallExpr)
								if d.rhs == nil || !isCall || f.callee(cl) == nil {
									okAll = false
									continue
								}
								cf := f.callee(cl)
								idx := d.idx
								if idx < 0 {
									idx = 0
								}
								rt := cf.Type().(*types.Signature).Results().At(idx).Type()
								if _, isI := rt.Underlying().(*types.Interface); isI {
									collect(c.FnOf(cf), depth+1)
								} else {
									universe[types.TypeString(rt, nil)] = true
								}
							}
						}
						if !okAll {
							r.Undecided("universe/"+f.Name, ret.Pos(), "cannot determine the dynamic type of %s", exprShort(e))
						}
						continue
					}
					universe[types.TypeString(t, nil)] = true
				}
			}
			collect(c.Fn(c.W, "objectCache.processExpr"), 0)
			// code of processExpr moved into single-call-site helpers still belongs to it
			if pe := c.Fn(c.W, "objectCache.processExpr"); pe != nil {
				for _, cl := range pe.callsDeep(pe.Decl.Body) {
					if h := c.linked[cl]; h != nil {
						res := h.Obj.Type().(*types.Signature).Results()
						if res.Len() > 0 {
							if _, isI := res.At(0).Type().Underlying().(*types.Interface); isI {
								collect(h, 0)
							}
						}
					}
				}
			}
			var sw *ast.TypeSwitchStmt
			fi.inspect(loop.Body, func(nd ast.Node) bool {
				if s, ok := nd.(*ast.TypeSwitchStmt); ok && sw == nil && item != nil && (fi.varOf(typeSwitchSubject(s)) == item || fi.varOf(fi.deref(typeSwitchSubject(s))) == item) {
					sw = s
				}
				return true
			})
			if sw == nil {
				r.Bad("item-switch", loop.Pos(), "type switch over the converted item not found")
				return
			}
			cases := map[string]bool{}
			for _, s := range sw.Body.List {
				for _, e := range s.(*ast.CaseClause).List {
					cases[types.TypeString(fi.Info.TypeOf(e), nil)] = true
				}
			}
			var us []string
			for u := range universe {
				us = append(us, u)
			}
			sort.Strings(us)
			for _, u := range us {
				r.Check(cases[u], "item-switch/case:"+u, sw.Pos(), "a value of type %s returned by processExpr has a case", u)
			}
			r.Floor("item types returned by processExpr", len(us), 5)
		})

	register("C10.R3", "marker coverage: every exported function of package github.com/google/wire that returns a marker type has a case in processExpr's dispatch on the marker name",
		func(c *Ctx, r *R) {
			fi := r.Need(c.Fn(c.W, "objectCache.processExpr"), "objectCache.processExpr")
			if fi == nil {
				return
			}
			handled := map[string]bool{}
			isName := func(e ast.Expr) bool {
				return fi.isCall(fi.deref(e), "go/types.Object.Name", "go/types.object.Name", "go/types.Func.Name") != nil
			}
			fi.inspect(fi.Decl.Body, func(nd ast.Node) bool {
				if be, ok := nd.(*ast.BinaryExpr); ok && be.Op == token.EQL {
					for i, side := range []ast.Expr{be.X, be.Y} {
						other := []ast.Expr{be.Y, be.X}[i]
						if lit, ok := ast.Unparen(other).(*ast.BasicLit); ok && isName(side) {
							handled[strings.Trim(lit.Value, `"`)] = true
						}
					}
				}
				sw, ok := nd.(*ast.SwitchStmt)
				if !ok || sw.Tag == nil {
					return true
				}
				if !isName(sw.Tag) {
					return true
				}
				for _, s := range sw.Body.List {
					for _, e := range s.(*ast.CaseClause).List {
						if lit, ok := e.(*ast.BasicLit); ok {
							handled[strings.Trim(lit.Value, `"`)] = true
						}
					}
				}
				return true
			})
			n := 0
			sc := c.Root.Types.Scope()
			for _, nm := range sc.Names() {
				f, ok := sc.Lookup(nm).(*types.Func)
				if !ok || !f.Exported() {
					continue
				}
				res := f.Type().(*types.Signature).Results()
				if res.Len() != 1 {
					continue
				}
				nt, ok := res.At(0).Type().(*types.Named)
				if !ok || nt.Obj().Pkg() != c.Root.Types {
					continue // Build returns string
				}
				n++
				r.Check(handled[nm], "marker:"+nm, f.Pos(), "wire.%s is recognised by processExpr", nm)
			}
			r.Floor("marker functions", n, 6)
			// Build is recognised by findInjectorBuild
			fb := r.Need(c.Fn(c.W, "findInjectorBuild"), "findInjectorBuild")
			if fb != nil {
				ok := false
				fb.inspect(fb.Decl.Body, func(nd ast.Node) bool {
					if lit, ok2 := nd.(*ast.BasicLit); ok2 && lit.Value == `"Build"` {
						ok = true
					}
					return true
				})
				r.Check(ok && sc.Lookup("Build") != nil, "marker:Build", fb.Decl.Pos(), "wire.Build is recognised by findInjectorBuild")
			}
		})

	register("C10.R4", "the object cache is keyed by (package import path, object name) and stores value and errors together",
		func(c *Ctx, r *R) {
			fi := r.Need(c.Fn(c.W, "objectCache.get"), "objectCache.get")
			if fi == nil {
				return
			}
			var objParam *types.Var
			for _, f := range fi.Decl.Type.Params.List {
				for _, nm := range f.Names {
					objParam = fi.Info.Defs[nm].(*types.Var)
				}
			}
			n := 0
			fi.inspect(fi.Decl.Body, func(nd ast.Node) bool {
				cl, ok := nd.(*ast.CompositeLit)
				if !ok || !isNamed(fi.Info.TypeOf(cl), pathW, "objRef") {
					return true
				}
				n++
				for _, el := range cl.Elts {
					kv, ok := el.(*ast.KeyValueExpr)
					if !ok {
						r.Undecided("objRef/unkeyed", el.Pos(), "unkeyed literal")
						continue
					}
					switch kv.Key.(*ast.Ident).Name {
					case "importPath":
						pc := fi.isCall(kv.Value, "go/types.Package.Path")
						okP := pc != nil
						if okP {
							pk := fi.isCall(recvOf(pc), "go/types.Object.Pkg", "go/types.object.Pkg")
							okP = pk != nil && fi.varOf(recvOf(pk)) == objParam
						}
						r.Check(okP, "objRef/importPath", kv.Pos(), "keyed by the object's package import PATH (obj.Pkg().Path())")
					case "name":
						nc := fi.isCall(kv.Value, "go/types.Object.Name", "go/types.object.Name")
						r.Check(nc != nil && fi.varOf(recvOf(nc)) == objParam, "objRef/name", kv.Pos(), "keyed by the object's name")
					}
				}
				return true
			})
			r.Floor("objRef literals in get", n, 1)
			// the struct has exactly these two comparable string fields
			if t := lookupType(c.W, "objRef"); t != nil {
				st := t.Underlying().(*types.Struct)
				r.Check(st.NumFields() == 2, "objRef/fields", t.Obj().Pos(), "objRef has two fields (importPath, name)")
			}
		})

	register("C10.R5", "a set/provider variable is resolved to its own initialiser: in objectCache.get the expression converted for a *types.Var is spec.Values[k] where k is the position at which spec.Names[k] is the variable's name (the index variable is the key of the scan over spec.Names, or assigned from it on a name match)",
		func(c *Ctx, r *R) {
			fi := r.Need(c.Fn(c.W, "objectCache.get"), "objectCache.get")
			if fi == nil {
				return
			}
			n := 0
			for _, pe := range fi.callsTo(pathW + ".objectCache.processExpr") {
				ix, ok := fi.deref(pe.Args[2]).(*ast.IndexExpr)
				if !ok {
					continue
				}
				f := fi.selField(ix.X)
				if f == nil || f.Name() != "Values" {
					continue
				}
				n++
				spec := ix.X.(*ast.SelectorExpr).X
				iv := fi.varOf(ix.Index)
				if iv == nil {
					r.Bad("get/value-index", ix.Pos(), "the initialiser index is not a variable")
					continue
				}
				// a scan over spec.Names that determines iv by a name comparison
				ok2 := false
				fi.inspect(fi.Decl.Body, func(nd ast.Node) bool {
					rs, isR := nd.(*ast.RangeStmt)
					if !isR || rs.Key == nil {
						return true
					}
					nf := fi.selField(rs.X)
					if nf == nil || nf.Name() != "Names" || !fi.sameExpr(rs.X.(*ast.SelectorExpr).X, spec) {
						return true
					}
					kv := fi.varOf(rs.Key)
					for _, st := range rs.Body.List {
						is, isIf := st.(*ast.IfStmt)
						if !isIf {
							continue
						}
						be, isB := ast.Unparen(is.Cond).(*ast.BinaryExpr)
						if !isB || be.Op != token.EQL {
							continue
						}
						// <names[k] or the range value>.Name == obj.Name()
						nameSide, objSide := false, false
						for _, side := range []ast.Expr{be.X, be.Y} {
							if sel, isSel := ast.Unparen(side).(*ast.SelectorExpr); isSel && sel.Sel.Name == "Name" {
								switch x := ast.Unparen(sel.X).(type) {
								case *ast.IndexExpr:
									if fi.sameExpr(x.X, rs.X) && fi.varOf(x.Index) == kv {
										nameSide = true
									}
								case *ast.Ident:
									if rs.Value != nil && fi.varOf(x) == fi.varOf(rs.Value) {
										nameSide = true
									}
								}
							}
							if cl, isCall := ast.Unparen(side).(*ast.CallExpr); isCall && strings.HasSuffix(fi.calleeName(cl), ".Name") {
								objSide = true
							}
						}
						if !nameSide || !objSide || !terminates(is.Body) {
							continue
						}
						// iv is the scan's own key (assigned by `for iv = range`), or set from the key in the match arm
						if kv == iv {
							ok2 = true
						}
						for _, s2 := range is.Body.List {
							if as, isAs := s2.(*ast.AssignStmt); isAs && len(as.Lhs) == 1 && fi.varOf(as.Lhs[0]) == iv && fi.varOf(as.Rhs[0]) == kv {
								ok2 = true
							}
						}
					}
					return true
				})
				r.Check(ok2, "get/value-index", ix.Pos(), "spec.Values is indexed by the position found by scanning spec.Names for the variable's own name (a shadowed or unrelated index would resolve every variable of a multi-name declaration to the first initialiser)")
			}
			r.Floor("initialiser lookups in objectCache.get", n, 1)
		})

	register("C11.R1", "validation table of processBind: exactly two arguments; arg 0 pointer to interface; (pointer mode) arg 1 a pointer whose element is the concrete type; not self-bound; types.Implements(concrete element type, interface) — all on every path to success, with the binding built from those very values",
		func(c *Ctx, r *R) {
			fi := r.Need(c.Fn(c.W, "processBind"), "processBind")
			if fi == nil {
				return
			}
			var callP *types.Var
			for _, f := range fi.Decl.Type.Params.List {
				for _, nm := range f.Names {
					if types.TypeString(fi.Info.Defs[nm].Type(), nil) == "*go/ast.CallExpr" {
						callP = fi.Info.Defs[nm].(*types.Var)
					}
				}
			}
			n := 0
			for i, ret := range fi.returnsOf() {
				if len(ret.Results) != 2 || fi.isNilIdent(ret.Results[0]) {
					continue
				}
				n++
				k := "success#" + itoa(i)
				gs := fi.Guards(ret)
				// the binding literal
				var iface, provided ast.Expr
				if u, ok := ast.Unparen(ret.Results[0]).(*ast.UnaryExpr); ok {
					if cl, ok := u.X.(*ast.CompositeLit); ok {
						for _, el := range cl.Elts {
							if kv, ok := el.(*ast.KeyValueExpr); ok {
								switch kv.Key.(*ast.Ident).Name {
								case "Iface":
									iface = kv.Value
								case "Provided":
									provided = kv.Value
								}
							}
						}
					}
				}
				if iface == nil || provided == nil {
					r.Undecided(k+"/literal", ret.Pos(), "IfaceBinding literal not recognised")
					continue
				}
				provV := fi.varOf(provided)
				// (1) arity
				arity := false
				for _, g := range gs {
					if be, ok := ast.Unparen(g.Expr).(*ast.BinaryExpr); ok && g.Kind == "bool" {
						if l := fi.isBuiltin(be.X, "len"); l != nil {
							if f := fi.selField(l.Args[0]); f != nil && f.Name() == "Args" {
								if lit, ok := be.Y.(*ast.BasicLit); ok && lit.Value == "2" && ((be.Op == token.NEQ && g.Neg) || (be.Op == token.EQL && !g.Neg)) {
									arity = true
								}
							}
						}
					}
				}
				r.Check(arity, k+"/arity", ret.Pos(), "dominated by len(call.Args)==2")
				// (2) iface = <ptr>.Elem() where ptr, ok := TypeOf(call.Args[0]).(*types.Pointer), ok tested
				ifaceOK := false
				if ec := fi.isCall(fi.deref(iface), "go/types.Pointer.Elem"); ec != nil {
					if d := fi.defOf(recvOf(ec)); d != nil && d.idx == 0 {
						if ta, ok := ast.Unparen(d.rhs).(*ast.TypeAssertExpr); ok && fi.argTypeOf(ta.X, callP, 0) {
							ifaceOK = fi.okTested(gs, d)
						}
					}
				}
				r.Check(ifaceOK, k+"/iface", ret.Pos(), "Iface is the element of argument 0's pointer type, with the pointer assertion tested")
				// (3) methodSet := iface.Underlying().(*types.Interface), ok tested; used in Implements
				var impl *ast.CallExpr
				for _, g := range gs {
					if cl := fi.isCall(g.Expr, fnImplements); cl != nil && !g.Neg {
						impl = cl
					}
				}
				if impl == nil {
					r.Bad(k+"/implements", ret.Pos(), "success is not dominated by types.Implements(...)")
				} else {
					msOK := false
					if d := fi.defOf(impl.Args[1]); d != nil && d.idx == 0 {
						if ta, ok := ast.Unparen(d.rhs).(*ast.TypeAssertExpr); ok {
							if uc := fi.isCall(ta.X, "go/types.Type.Underlying"); uc != nil && fi.sameExpr(recvOf(uc), iface) {
								msOK = fi.okTested(gs, d)
							}
						}
					}
					r.Check(msOK, k+"/implements-iface", impl.Pos(), "the method set tested is the underlying interface of Iface (assertion tested)")
					r.Check(provV != nil && fi.varOf(impl.Args[0]) == provV, k+"/implements-concrete", impl.Pos(), "Implements is applied to the very type stored as Provided (not its pointer or element)")
				}
				// (4) not self-bound
				self := false
				for _, g := range gs {
					if cl := fi.isCall(g.Expr, fnIdentical); cl != nil && g.Neg {
						a0, a1 := cl.Args[0], cl.Args[1]
						if (fi.sameExpr(a0, iface) && fi.varOf(a1) == provV) || (fi.sameExpr(a1, iface) && fi.varOf(a0) == provV) {
							self = true
						}
					}
				}
				r.Check(self, k+"/not-self", ret.Pos(), "dominated by !types.Identical(Iface, Provided)")
				// (5) provided: defined as TypeOf(call.Args[1]); under bindShouldUsePointer reassigned to its pointer's Elem with the assertion tested
				if provV != nil {
					defOK, elemOK := false, false
					for _, d := range fi.defs[provV] {
						switch d.kind {
						case "define":
							if fi.argTypeOf(d.rhs, callP, 1) {
								defOK = true
							}
						case "assign":
							ec := fi.isCall(d.rhs, "go/types.Pointer.Elem")
							if ec == nil {
								continue
							}
							pd := fi.defOf(recvOf(ec))
							if pd == nil || pd.idx != 0 {
								continue
							}
							ta, ok := ast.Unparen(pd.rhs).(*ast.TypeAssertExpr)
							if !ok || fi.varOf(ta.X) != provV {
								continue
							}
							// executed exactly when bindShouldUsePointer(...) holds, after testing ok
							gg := fi.Guards(d.node)
							under := false
							for _, g := range gg {
								if fi.isCall(g.Expr, pathW+".bindShouldUsePointer") != nil && !g.Neg {
									under = true
								}
							}
							if under && fi.okTested(gg, pd) {
								elemOK = true
							}
						}
					}
					r.Check(defOK, k+"/provided-def", ret.Pos(), "Provided starts as the type of argument 1")
					r.Check(elemOK, k+"/provided-elem", ret.Pos(), "in pointer mode Provided becomes the element of argument 1's pointer type (assertion tested)")
					r.Check(len(fi.defs[provV]) == 2, k+"/provided-writes", ret.Pos(), "Provided has exactly these two definitions")
				}
			}
			r.Floor("success returns of processBind", n, 1)
			// bindShouldUsePointer: decided by the marker package's declaration
			bs := r.Need(c.Fn(c.W, "bindShouldUsePointer"), "bindShouldUsePointer")
			if bs != nil {
				ok := false
				bs.inspect(bs.Decl.Body, func(nd ast.Node) bool {
					if lit, ok2 := nd.(*ast.BasicLit); ok2 && lit.Value == `"bindToUsePointer"` {
						ok = true
					}
					if cl, ok2 := nd.(*ast.CallExpr); ok2 && bs.calleeName(cl) == "go/types.Scope.Lookup" && len(cl.Args) == 1 {
						if tv, ok3 := bs.Info.Types[cl.Args[0]]; ok3 && tv.Value != nil && tv.Value.ExactString() == `"bindToUsePointer"` {
							ok = true // through a named constant
						}
					}
					return true
				})
				r.Check(ok && c.Root.Types.Scope().Lookup("bindToUsePointer") != nil, "pointer-mode-flag", bs.Decl.Pos(), "pointer mode is keyed on the marker package declaring bindToUsePointer (it does)")
			}
		})
}

// argTypeOf matches info.TypeOf(call.Args[k]) (through locals) for the *ast.CallExpr parameter callP.
func (fi *FuncInfo) argTypeOf(e ast.Expr, callP *types.Var, k int) bool {
	tc := fi.isCall(fi.deref(e), "go/types.Info.TypeOf")
	if tc == nil {
		return false
	}
	ix, ok := fi.deref(tc.Args[0]).(*ast.IndexExpr)
	if !ok {
		return false
	}
	lit, ok := ast.Unparen(ix.Index).(*ast.BasicLit)
	if !ok || lit.Value != itoa(k) {
		return false
	}
	f := fi.selField(ix.X)
	return f != nil && f.Name() == "Args" && fi.varOf(ix.X.(*ast.SelectorExpr).X) == callP
}

// okTested reports whether guards gs include the truth of the comma-ok flag
// defined by the same statement as d (v, ok := x.(T)).
func (fi *FuncInfo) okTested(gs []Cond, d *defSite) bool {
	as, ok := d.node.(*ast.AssignStmt)
	if !ok || len(as.Lhs) != 2 {
		return false
	}
	okVar := fi.varOf(as.Lhs[1])
	if okVar == nil {
		return false
	}
	for _, g := range gs {
		if g.Kind == "bool" && !g.Neg && fi.varOf(g.Expr) == okVar {
			// the flag must not have been reassigned between this definition and the test
			redefined := false
			for _, d2 := range fi.defs[okVar] {
				if startOf(d2.node) > startOf(as) && startOf(d2.node) < startOf(g.At) {
					redefined = true
				}
			}
			if !redefined && startOf(g.At) > startOf(as) {
				// and it is the nearest definition before the test
				return true
			}
		}
	}
	return false
}

// hasPairCheck recognises, in any of its usual spellings,
//
//	for i over all of X { … for j over [0,i) { if types.Identical(X[i].Type, X[j].Type) { return …error } } }
//
// The outer loop may be a counting loop up to the length of X or a range over
// X; the inner loop a counting loop `j < i` or a range over the prefix X[:i];
// X[i].Type may be read through a local that is stored into X[i] in the same
// iteration.
func (fi *FuncInfo) hasPairCheck() (bool, string) {
	why := "no pairwise types.Identical test over the provider's inputs found"
	// what the recognised tests cover: an insertion-form test covers the append that follows it, a test over
	// all pairs covers every store that is complete before its outer loop starts
	coveredStores := map[ast.Node]bool{}
	type pairLoop struct {
		outer ast.Stmt
		iv    *types.Var
	}
	var globalOuters []pairLoop
	okMsg := ""
	for _, id := range fi.callsTo(fnIdentical) {
		is, ok := fi.parent[id].(*ast.IfStmt)
		if !ok || ast.Unparen(is.Cond) != ast.Expr(id) {
			continue
		}
		// insertion form: every new input is compared with all inputs kept so far, then appended
		//   for _, prev := range S { if Identical(x, prev.Type) { return error } }; S = append(S, T{Type: x, …})
		onlyDefsBeside := func(list []ast.Stmt) bool {
			for _, st := range list {
				if st == ast.Stmt(is) {
					continue
				}
				if as, ok := st.(*ast.AssignStmt); !ok || as.Tok != token.DEFINE {
					return false // something else happens in the comparison loop
				}
			}
			return true
		}
		if in, ok := fi.enclosingLoop(is).(*ast.RangeStmt); ok && in.Value != nil && terminates(is.Body) && fi.parent[is] == ast.Node(in.Body) && onlyDefsBeside(in.Body.List) {
			prev := fi.varOf(in.Value)
			var x ast.Expr
			for i, a := range id.Args {
				if sel, ok := ast.Unparen(a).(*ast.SelectorExpr); ok && fi.varOf(sel.X) == prev && sel.Sel.Name == "Type" {
					x = id.Args[1-i]
				}
			}
			if outer := fi.enclosingLoop(in); x != nil && outer != nil {
				blk, _ := fi.parent[ast.Node(in)].(*ast.BlockStmt)
				appended := false
				if blk != nil {
					after := false
					for _, st := range blk.List {
						if st == ast.Stmt(in) {
							after = true
							continue
						}
						if !after {
							continue
						}
						as, ok := st.(*ast.AssignStmt)
						if !ok || len(as.Rhs) != 1 || !fi.sameExpr(as.Lhs[0], in.X) {
							continue
						}
						ap := fi.isBuiltin(as.Rhs[0], "append")
						if ap == nil || len(ap.Args) != 2 || !fi.sameExpr(ap.Args[0], in.X) {
							continue
						}
						if cl, ok := ast.Unparen(ap.Args[1]).(*ast.CompositeLit); ok {
							for _, el := range cl.Elts {
								if kv, ok := el.(*ast.KeyValueExpr); ok && kv.Key.(*ast.Ident).Name == "Type" && (fi.sameExpr(kv.Value, x) || fi.sameExpr(fi.deref(kv.Value), fi.deref(x))) {
									appended = true
									coveredStores[as] = true
								}
							}
						}
					}
				}
				if appended {
					okMsg = "each input is compared with every input kept before it, then appended"
					continue
				}
			}
		}
		// enclosing loops (inner, outer)
		inner := fi.enclosingLoop(is)
		if inner == nil {
			continue
		}
		outer := fi.enclosingLoop(inner)
		if outer == nil {
			continue
		}
		// outer: index variable i and the sequence X it covers
		var iv *types.Var
		var seq ast.Expr
		switch o := outer.(type) {
		case *ast.ForStmt:
			lo := fi.loopShape(o)
			if lo == nil || !lo.ascending || lo.inclusive || lo.from != "0" {
				why = "outer loop is not `for i := 0; i < N; i++`"
				continue
			}
			iv = lo.v
			if l := fi.isBuiltin(fi.deref(lo.boundExpr), "len"); l != nil {
				seq = l.Args[0]
			} else {
				// N is the length X was made with
				fi.inspect(fi.Decl.Body, func(nd ast.Node) bool {
					if kv, ok := nd.(*ast.KeyValueExpr); ok {
						if kid, ok := kv.Key.(*ast.Ident); ok && kid.Name == "Args" {
							if mk := fi.isBuiltin(kv.Value, "make"); mk != nil && len(mk.Args) == 2 && fi.sameExpr(mk.Args[1], lo.boundExpr) {
								seq = kv.Value // marker: the Args field of the literal
							}
						}
					}
					if as, ok := nd.(*ast.AssignStmt); ok && len(as.Rhs) == 1 && len(as.Lhs) == 1 {
						if mk := fi.isBuiltin(as.Rhs[0], "make"); mk != nil && len(mk.Args) == 2 && fi.sameExpr(mk.Args[1], lo.boundExpr) {
							seq = as.Lhs[0]
						}
					}
					return true
				})
			}
		case *ast.RangeStmt:
			if o.Key == nil {
				why = "outer range loop has no index"
				continue
			}
			iv = fi.varOf(o.Key)
			seq = o.X
		}
		if iv == nil || seq == nil {
			why = "outer loop does not range over all inputs"
			continue
		}
		// elem classifies an operand: "i" (element i), "<i" (an element before i), or ""
		isSeq := func(x ast.Expr) bool {
			if fi.sameExpr(x, seq) {
				return true
			}
			// `provider.Args` where the literal's Args was made with the bound
			if f := fi.selField(x); f != nil && f.Name() == "Args" {
				if _, isKV := seq.(*ast.CallExpr); isKV {
					return true
				}
				if fs := fi.selField(seq); fs != nil && fs.Name() == "Args" {
					return true
				}
			}
			return false
		}
		var elem func(e ast.Expr, depth int) string
		elem = func(e ast.Expr, depth int) string {
			e = ast.Unparen(e)
			if sel, ok := e.(*ast.SelectorExpr); ok && fi.selField(sel) != nil && fi.selField(sel).Name() == "Type" {
				switch x := ast.Unparen(sel.X).(type) {
				case *ast.IndexExpr:
					if !isSeq(x.X) {
						return ""
					}
					v := fi.varOf(x.Index)
					if v == iv {
						return "i"
					}
					if in, ok := inner.(*ast.ForStmt); ok {
						if li := fi.loopShape(in); li != nil && li.v == v && li.ascending && !li.inclusive && li.from == "0" && fi.varOf(li.boundExpr) == iv {
							return "<i"
						}
					}
				case *ast.Ident:
					v := fi.varOf(x)
					if in, ok := inner.(*ast.RangeStmt); ok && in.Value != nil && fi.varOf(in.Value) == v {
						if se, ok := ast.Unparen(in.X).(*ast.SliceExpr); ok && isSeq(se.X) && se.Low == nil && fi.varOf(se.High) == iv && se.Max == nil {
							return "<i"
						}
					}
					if o, ok := outer.(*ast.RangeStmt); ok && o.Value != nil && fi.varOf(o.Value) == v {
						return "i"
					}
				}
				return ""
			}
			// a local that is stored as X[i].Type in this iteration
			if v := fi.varOf(e); v != nil && depth < 2 {
				found := ""
				ast.Inspect(outer, func(nd ast.Node) bool {
					as, ok := nd.(*ast.AssignStmt)
					if !ok || len(as.Lhs) != 1 || len(as.Rhs) != 1 {
						return true
					}
					ix, ok := ast.Unparen(as.Lhs[0]).(*ast.IndexExpr)
					if !ok || !isSeq(ix.X) || fi.varOf(ix.Index) != iv {
						return true
					}
					if cl, ok := ast.Unparen(as.Rhs[0]).(*ast.CompositeLit); ok {
						for _, el := range cl.Elts {
							if kv, ok := el.(*ast.KeyValueExpr); ok {
								if kid, ok := kv.Key.(*ast.Ident); ok && kid.Name == "Type" && fi.varOf(kv.Value) == v {
									found = "i"
								}
							}
						}
					}
					return true
				})
				if found != "" {
					return found
				}
				if d := fi.singleDef(v); d != nil && d.idx < 0 {
					return elem(d.rhs, depth+1)
				}
			}
			return ""
		}
		a, b := elem(id.Args[0], 0), elem(id.Args[1], 0)
		if !((a == "i" && b == "<i") || (a == "<i" && b == "i")) {
			why = "the compared operands are not (input i, every input before i)"
			continue
		}
		if !fi.unconditionalIn(is, loopBody(inner)) || !fi.unconditionalIn(inner, loopBody(outer)) || !fi.loopComplete2(outer, is) {
			return false, "the pair test is conditional or the loops can exit early"
		}
		rejects := false
		for _, ret := range returnsIn(is.Body) {
			if fi.unconditionalIn(ret, is.Body) {
				last := ret.Results[len(ret.Results)-1]
				if !fi.isNilIdent(last) {
					rejects = true
				}
			}
		}
		if !rejects {
			return false, "a matching pair is not rejected"
		}
		okMsg = "all pairs j<i of input types are compared with types.Identical; a match returns an error"
		globalOuters = append(globalOuters, pairLoop{outer, iv})
	}
	if okMsg == "" {
		return false, why
	}
	// every store into the list of inputs is covered by one of the tests
	seqVars := map[*types.Var]bool{}
	isArgsSel := func(e ast.Expr) bool {
		f := fi.selField(e)
		return f != nil && f.Name() == "Args" && isNamed(derefType(fi.Info.TypeOf(ast.Unparen(e).(*ast.SelectorExpr).X)), pathW, "Provider")
	}
	fi.inspect(fi.Decl.Body, func(nd ast.Node) bool {
		switch x := nd.(type) {
		case *ast.KeyValueExpr:
			if kid, ok := x.Key.(*ast.Ident); ok && kid.Name == "Args" {
				if v := fi.varOf(x.Value); v != nil {
					seqVars[v] = true
				}
			}
		case *ast.AssignStmt:
			for i, l := range x.Lhs {
				if isArgsSel(l) && i < len(x.Rhs) {
					if v := fi.varOf(x.Rhs[i]); v != nil {
						seqVars[v] = true
					}
				}
			}
		}
		return true
	})
	isInputs := func(e ast.Expr) bool {
		if isArgsSel(e) {
			return true
		}
		v := fi.varOf(e)
		return v != nil && seqVars[v]
	}
	uncovered := ""
	fi.inspect(fi.Decl.Body, func(nd ast.Node) bool {
		as, ok := nd.(*ast.AssignStmt)
		if !ok || len(as.Lhs) != 1 || len(as.Rhs) != 1 || fi.enclosingLoop(as) == nil {
			return true
		}
		store := false
		if ix, ok := ast.Unparen(as.Lhs[0]).(*ast.IndexExpr); ok && isInputs(ix.X) {
			store = true
		} else if isInputs(as.Lhs[0]) {
			if ap := fi.isBuiltin(as.Rhs[0], "append"); ap != nil {
				store = true
			}
		}
		if !store || coveredStores[as] {
			return true
		}
		if fi.insertionByIndex(as, isInputs) {
			return true
		}
		for _, pl := range globalOuters {
			o := pl.outer
			if endOf(as) < startOf(o) && !fi.within(o, fi.enclosingLoop(as)) {
				return true
			}
			// input i is stored in the iteration that compares it with the inputs before it
			if ix, ok := ast.Unparen(as.Lhs[0]).(*ast.IndexExpr); ok && fi.varOf(ix.Index) == pl.iv && fi.enclosingLoop(as) == o && fi.unconditionalIn(as, loopBody(o)) {
				return true
			}
		}
		uncovered = exprShort(as.Lhs[0])
		return true
	})
	if uncovered != "" {
		return false, "an input is stored (" + uncovered + ") without being compared with every input stored before it"
	}
	return true, okMsg
}

// loopComplete2: the only exits of loop are inside node allowed (the rejecting branch).
func (fi *FuncInfo) loopComplete2(loop ast.Stmt, allowed ast.Node) bool {
	for _, e := range fi.loopExits(loop) {
		if !fi.within(e, allowed) {
			// returns of errors from checkField etc. inside the outer loop are fine only if they return a non-nil error
			if ret, ok := e.(*ast.ReturnStmt); ok && len(ret.Results) > 0 && !fi.isNilIdent(ret.Results[len(ret.Results)-1]) {
				continue
			}
			return false
		}
	}
	return true
}

func loopBody(l ast.Stmt) *ast.BlockStmt {
	switch x := l.(type) {
	case *ast.ForStmt:
		return x.Body
	case *ast.RangeStmt:
		return x.Body
	}
	return nil
}

// affineIn reads e as v+off.
func (fi *FuncInfo) affineIn(e ast.Expr, v *types.Var) (int, bool) {
	e = ast.Unparen(e)
	if fi.varOf(e) == v && v != nil {
		return 0, true
	}
	if be, ok := e.(*ast.BinaryExpr); ok && (be.Op == token.ADD || be.Op == token.SUB) {
		if fi.varOf(be.X) == v {
			if c, ok := fi.constInt(be.Y); ok {
				if be.Op == token.SUB {
					return -int(c), true
				}
				return int(c), true
			}
		}
		if be.Op == token.ADD && fi.varOf(be.Y) == v {
			if c, ok := fi.constInt(be.X); ok {
				return int(c), true
			}
		}
	}
	return 0, false
}

// insertionByIndex recognises the indexed insertion form of the pair test:
//
//	for i := F; i < N; i++ { …; for j := A; j < i+B; j++ { if Identical(x, X[j+O].Type) { return error } }; X[i+W] = T{Type: x} }
//
// which compares x with exactly the elements stored by the earlier iterations when A+O == F+W and B+O == W
// (or ranges over the prefix X[:i+W] when F+W == 0).
func (fi *FuncInfo) insertionByIndex(as *ast.AssignStmt, isInputs func(ast.Expr) bool) bool {
	ix, ok := ast.Unparen(as.Lhs[0]).(*ast.IndexExpr)
	if !ok {
		return false
	}
	outer, ok := fi.enclosingLoop(as).(*ast.ForStmt)
	if !ok {
		return false
	}
	lo := fi.loopShape(outer)
	if lo == nil || !lo.ascending || lo.inclusive {
		return false
	}
	f0, ok := fi.constInt(lo.fromExpr)
	if !ok {
		return false
	}
	w, ok := fi.affineIn(ix.Index, lo.v)
	if !ok {
		return false
	}
	var x ast.Expr
	if cl, ok := ast.Unparen(as.Rhs[0]).(*ast.CompositeLit); ok {
		for _, el := range cl.Elts {
			if kv, ok := el.(*ast.KeyValueExpr); ok {
				if kid, ok := kv.Key.(*ast.Ident); ok && kid.Name == "Type" {
					x = kv.Value
				}
			}
		}
	}
	blk, _ := fi.parent[as].(*ast.BlockStmt)
	if x == nil || blk == nil || blk != outer.Body || !fi.loopComplete2(outer, as) {
		return false
	}
	for _, st := range blk.List {
		if st == ast.Stmt(as) {
			break
		}
		body := loopBody(st)
		if body == nil {
			continue
		}
		for _, s := range body.List {
			is, ok := s.(*ast.IfStmt)
			if !ok || !terminates(is.Body) {
				continue
			}
			id := fi.isCall(is.Cond, fnIdentical)
			if id == nil {
				continue
			}
			rejects := false
			for _, ret := range returnsIn(is.Body) {
				if len(ret.Results) > 0 && !fi.isNilIdent(ret.Results[len(ret.Results)-1]) {
					rejects = true
				}
			}
			if !rejects {
				continue
			}
			for k, a := range id.Args {
				if !(fi.sameExpr(a, x) || fi.sameExpr(fi.deref(a), fi.deref(x))) {
					continue
				}
				sel, ok := ast.Unparen(fi.deref(id.Args[1-k])).(*ast.SelectorExpr)
				if !ok || sel.Sel.Name != "Type" {
					continue
				}
				switch in := st.(type) {
				case *ast.ForStmt:
					li := fi.loopShape(in)
					jx, ok := ast.Unparen(fi.deref(sel.X)).(*ast.IndexExpr)
					if li == nil || !ok || !li.ascending || li.inclusive || !isInputs(jx.X) {
						continue
					}
					a0, ok1 := fi.constInt(li.fromExpr)
					b, ok2 := fi.affineIn(li.boundExpr, lo.v)
					o, ok3 := fi.affineIn(jx.Index, li.v)
					if ok1 && ok2 && ok3 && int(a0)+o == int(f0)+w && b+o == w {
						return true
					}
				case *ast.RangeStmt:
					se, ok := ast.Unparen(in.X).(*ast.SliceExpr)
					if !ok || in.Value == nil || fi.varOf(sel.X) != fi.varOf(in.Value) || se.Low != nil || se.Max != nil || !isInputs(se.X) {
						continue
					}
					if h, ok := fi.affineIn(se.High, lo.v); ok && h == w && int(f0)+w == 0 {
						return true
					}
				}
			}
		}
	}
	return false
}
