// wirecheck decides structural clauses of properties C01–C20 of google/wire by
// static analysis of /repo's current source. See /verif/DESIGN.md.
package main

import (
	"encoding/json"
	"flag"
	"fmt"
	"go/printer"
	"go/token"
	"os"
	"sort"
	"strconv"
	"strings"
	"time"
)

var assumptionsCommon = []string{
	"go/types, go/packages and go/ast resolve the program as the Go toolchain would",
	"structured control flow only (no goto) in the analysed functions; a goto makes the guard analysis undecided",
	"library behaviour (typeutil.Map keyed by types.Identical, go/printer, go/format, go/packages loader) is trusted",
	"rules decide structural necessary conditions named in DESIGN.md, not end-to-end behaviour of generated code",
}

func main() {
	prop := flag.String("property", "", "property id (C01..C20), or 'all'")
	tier := flag.String("tier", "quick", "quick | thorough")
	repo := flag.String("repo", "/repo", "repository to analyse")
	evdir := flag.String("evidence", "/verif/evidence", "evidence directory")
	known := flag.String("known", "/verif/known_findings.json", "known findings file")
	replay := flag.String("replay", "", "replay file: re-decide the obligations listed there")
	list := flag.Bool("list", false, "list rules")
	dumpEmit := flag.Bool("dump-emit", false, "print the emission traces of the emitter functions and exit")
	dumpNorm := flag.String("dump-normalised", "", "print the named function as the rules see it (after the normalising pre-passes) and exit")
	dumpSigs := flag.Bool("dump-sigs", false, "print the signature table of the module's functions (used to regenerate anchors_table.go) and exit")
	verbose := flag.Bool("v", false, "print every obligation")
	flag.Parse()

	if *list {
		for _, id := range ruleOrder {
			fmt.Printf("%s\t%s\n", id, rules[id].Doc)
		}
		return
	}
	seed := 0
	if s := os.Getenv("VERIF_SEED"); s != "" {
		seed, _ = strconv.Atoi(s)
	}
	if t := os.Getenv("VERIF_TIER"); t != "" && *tier == "" {
		*tier = t
	}
	if *replay != "" {
		b, err := os.ReadFile(*replay)
		if err != nil {
			fmt.Println("cannot read replay file:", err)
			os.Exit(2)
		}
		var doc struct {
			Property string `json:"property"`
		}
		if err := json.Unmarshal(b, &doc); err != nil || doc.Property == "" {
			fmt.Println("bad replay file")
			os.Exit(2)
		}
		*prop = doc.Property
		*verbose = true
	}
	if *prop == "" && !*dumpEmit && !*dumpSigs && *dumpNorm == "" {
		fmt.Println("usage: wirecheck -property Cnn [-tier quick|thorough]")
		os.Exit(2)
	}
	findings, err := loadFindings(*known)
	if err != nil {
		fmt.Println("cannot read known findings:", err)
		os.Exit(2)
	}
	start := time.Now()
	c, err := loadCtx(*repo, *tier, nil, nil)
	if err != nil {
		// fail closed: a tree that does not load or type-check cannot be judged
		fmt.Printf("wirecheck: cannot load %s: %v\n", *repo, err)
		for _, p := range propList(*prop) {
			fmt.Printf("VIOLATION property=%s replay=%s/replay/%s.json\n", p, *evdir, p)
		}
		os.Exit(1)
	}
	if *dumpNorm != "" {
		for _, fi := range c.all {
			if fi.Name == *dumpNorm {
				printer.Fprint(os.Stdout, token.NewFileSet(), fi.Decl)
				fmt.Println()
			}
		}
		return
	}
	if *dumpSigs {
		fmt.Println("package main")
		fmt.Println()
		fmt.Println("// Declaration tables of the pinned tree: (package, name, receiver+signature) of")
		fmt.Println("// every function, and the field list of every struct type. canonicalise uses")
		fmt.Println("// them to recognise declarations that were only renamed. Regenerate with")
		fmt.Println("// `wirecheck -dump-sigs > anchors_table.go` after reviewing an intended change.")
		fmt.Println("var anchorSigs = [][3]string{")
		for _, fi := range c.all {
			fmt.Printf("\t{%q, %q, %q},\n", fi.Pkg.PkgPath, fi.Name, sigKey(fi.Obj))
		}
		fmt.Println("}")
		fmt.Println()
		fmt.Println("var pinnedStructs = []pinnedStruct{")
		dumpStructs(c.Pkgs)
		fmt.Println("}")
		return
	}
	// discovery pass: which functions do the rules ask for by name? Those stay
	// anchors; every other single-call-site helper is linked into its caller.
	for _, id := range ruleOrder {
		runRule(c, id)
	}
	c.link(c.requested)
	if *dumpEmit {
		for _, name := range emitterFuncs {
			fi := c.Fn(c.W, name)
			if fi == nil {
				fmt.Println("##", name, "NOT FOUND")
				continue
			}
			e := newEmitter(c, fi)
			tr := e.run()
			fmt.Printf("## %s (%d emit sites)\n%s\n", name, e.sites, renderTrace(tr))
			for _, is := range e.issues {
				fmt.Println("   ISSUE:", is)
			}
		}
		return
	}
	exit := 0
	for _, p := range propList(*prop) {
		if len(propRules[p]) == 0 {
			fmt.Printf("property %s: no rules (not claimed)\n", p)
			continue
		}
		pstart := time.Now()
		pr := runProperty(c, p, findings)
		if *tier == "thorough" {
			runThorough(c, pr, findings)
		}
		if err := writeEvidence(c, pr, *evdir, *tier, seed, pstart, assumptionsCommon); err != nil {
			fmt.Println("cannot write evidence:", err)
			exit = 1
		}
		nOb, nOK := 0, 0
		for _, r := range pr.results {
			for _, o := range r.Obs {
				nOb++
				if o.Status == stOK {
					nOK++
				}
				if *verbose {
					fmt.Printf("  [%s] %s @%s %s — %s\n", o.Status, o.Rule, o.Key, o.Pos, o.Detail)
				}
			}
		}
		for _, o := range pr.known {
			fmt.Printf("KNOWN-FINDING: property=%s %s@%s (%s) %s\n", p, o.Rule, o.Key, o.Pos, o.Detail)
		}
		if len(pr.violations) > 0 {
			path, _ := writeReplay(pr, *evdir)
			sort.SliceStable(pr.violations, func(i, j int) bool { return pr.violations[i].Rule < pr.violations[j].Rule })
			for _, o := range pr.violations {
				fmt.Printf("  %s %s @%s %s: %s\n", strings.ToUpper(o.Status), o.Rule, o.Key, o.Pos, o.Detail)
			}
			fmt.Printf("VIOLATION property=%s replay=%s\n", p, path)
			exit = 1
		} else {
			fmt.Printf("property %s: %d rules, %d obligations, %d discharged, %d known findings, 0 violations (%.1fs)\n",
				p, len(pr.results), nOb, nOK, len(pr.known), time.Since(pstart).Seconds())
		}
	}
	_ = start
	os.Exit(exit)
}

func propList(p string) []string {
	if p == "all" {
		var out []string
		for k := range propRules {
			out = append(out, k)
		}
		sort.Strings(out)
		return out
	}
	return strings.Split(p, ",")
}
