package main

import (
	"go/ast"
	"go/token"
	"go/types"
	"strings"
)

// visitGuard finds the loop-top test `if index.At(curr.t) != nil { continue }`.
func (a *solveAnchors) visitGuard() *ast.IfStmt {
	fi := a.fi
	for _, s := range a.loop.Body.List {
		is, ok := s.(*ast.IfStmt)
		if !ok || is.Else != nil || !terminates(is.Body) {
			continue
		}
		cs := flatten(is.Cond, false, is)
		if len(cs) != 1 {
			continue
		}
		x, isNil, ok := fi.nilTest(cs[0])
		if !ok || isNil {
			continue
		}
		at := fi.isCall(fi.deref(x), fnMapAt)
		if at != nil && fi.varOf(recvOf(at)) == a.index && a.isCurrT(at.Args[0]) {
			return is
		}
	}
	return nil
}

func init() {
	register("C02.R1", "visit-once: the loop-top test index.At(curr.t)!=nil→continue precedes every effect of the planning loop; every planned step and every index entry for curr.t lies after it",
		func(c *Ctx, r *R) {
			a := findSolve(c, r)
			if a == nil {
				return
			}
			fi := a.fi
			g := a.visitGuard()
			if g == nil {
				r.Bad("visit-guard", a.loop.Pos(), "no unconditional `if index.At(curr.t) != nil { continue }` at the top level of the planning loop")
				return
			}
			r.Ok("visit-guard", g.Pos(), "found at the top level of the planning loop")
			// only the pop may precede it
			for _, s := range a.loop.Body.List {
				if s == g {
					break
				}
				as, ok := s.(*ast.AssignStmt)
				okS := ok
				if ok {
					for _, cl := range callsIn(as) {
						if fi.isBuiltin(cl, "len") == nil {
							okS = false
						}
					}
				}
				r.Check(okS, "before-guard:"+exprShort(firstLhs(s)), s.Pos(), "statement before the visit test is a plain pop of the work stack")
			}
			n := 0
			for _, as := range a.appendsTo(a.calls) {
				n++
				r.Check(fi.within(as, a.loop.Body) && startOf(as) >= endOf(g), "step-after-guard#"+itoa(n), as.Pos(), "step is planned only for a type not yet indexed")
			}
			r.Floor("calls = append(calls, …) sites", n, 3)
			for i, st := range a.indexSets() {
				if fi.within(st, a.loop.Body) {
					r.Check(startOf(st) >= endOf(g), "index-set-after-guard#"+itoa(i), st.Pos(), "index entry written after the visit test")
				}
			}
		})

	register("C02.R2", "index = position: each planned step is preceded, with no intervening step, by index.Set(curr.t, given.Len()+len(calls)); givens are indexed 0..given.Len()-1 in order",
		func(c *Ctx, r *R) {
			a := findSolve(c, r)
			if a == nil {
				return
			}
			fi := a.fi
			isPos := func(e ast.Expr) bool {
				be, ok := ast.Unparen(fi.deref(e)).(*ast.BinaryExpr)
				if !ok || be.Op != token.ADD {
					return false
				}
				isGivenLen := func(x ast.Expr) bool {
					cl := fi.isCall(fi.deref(x), "go/types.Tuple.Len") // possibly hoisted into a local
					return cl != nil && fi.varOf(recvOf(cl)) != nil && fi.isParam(fi.varOf(recvOf(cl)))
				}
				isLenCalls := func(x ast.Expr) bool {
					l := fi.isBuiltin(x, "len")
					return l != nil && fi.varOf(l.Args[0]) == a.calls
				}
				return (isGivenLen(be.X) && isLenCalls(be.Y)) || (isGivenLen(be.Y) && isLenCalls(be.X))
			}
			n := 0
			for _, as := range a.appendsTo(a.calls) {
				n++
				k := "step#" + itoa(n) + "/position"
				// nearest enclosing case clause or block
				top := fi.enclosing(as, func(n ast.Node) bool { _, ok := n.(*ast.CaseClause); return ok })
				if top == nil {
					top = a.loop.Body
				}
				found, clean := false, true
				var setPos int
				for _, s := range fi.precedingSimple(as, top) {
					if es, ok := s.(*ast.ExprStmt); ok {
						if st := fi.isCall(es.X, fnMapSet); st != nil && fi.varOf(recvOf(st)) == a.index && a.isCurrT(st.Args[0]) && isPos(st.Args[1]) {
							found = true
							setPos = startOf(st)
						}
					}
				}
				if found {
					for _, o := range a.appendsTo(a.calls) {
						if o != as && startOf(o) > setPos && startOf(o) < startOf(as) {
							clean = false
						}
					}
					// the position expression must be evaluated before the append: true by statement order
				}
				r.Check(found && clean, k, as.Pos(), "preceded by index.Set(curr.t, given.Len()+len(calls)) with no step in between")
			}
			r.Floor("planned steps", n, 3)
			// givens
			ok := false
			fi.inspect(fi.Decl.Body, func(nd ast.Node) bool {
				f, isFor := nd.(*ast.ForStmt)
				if !isFor || f == a.loop || fi.within(f, a.loop) {
					return true
				}
				lp := fi.loopShape(f)
				if lp == nil || !lp.ascending || lp.from != "0" {
					return true
				}
				for _, st := range callsIn(f.Body) {
					if fi.calleeName(st) == fnMapSet && fi.varOf(recvOf(st)) == a.index && fi.varOf(st.Args[1]) == lp.v {
						// key: given.At(i).Type()
						kc := fi.canon(st.Args[0], 0)
						if strings.Contains(kc, "go/types.Tuple.At{param:") && strings.Contains(kc, "(var:"+lp.v.Name()+")") && strings.HasPrefix(lp.bound, "go/types.Tuple.Len{param:") && !lp.inclusive {
							ok = true
							r.Ok("givens-indexed", st.Pos(), "index.Set(given.At(i).Type(), i) for i in [0, given.Len())")
						}
					}
				}
				return true
			})
			if !ok {
				r.Bad("givens-indexed", fi.Decl.Pos(), "loop indexing the injector's parameters as positions 0..given.Len()-1 not found")
			}
		})

	register("C02.R3", "argument pairing: args[i] and ins[i] are filled from p.Args[i] with the same i over all of p.Args; field names follow p.Args order; a field step's only argument is its parent's position",
		func(c *Ctx, r *R) {
			a := findSolve(c, r)
			if a == nil {
				return
			}
			fi := a.fi
			okArgs, okIns, okNames, okField := false, false, false, false
			ast.Inspect(a.loop.Body, func(nd ast.Node) bool {
				switch s := nd.(type) {
				case *ast.AssignStmt:
					if len(s.Lhs) != 1 || len(s.Rhs) != 1 {
						return true
					}
					ix, isIx := s.Lhs[0].(*ast.IndexExpr)
					if isIx {
						loop, _ := fi.enclosingLoop(s).(*ast.RangeStmt)
						if loop == nil || loop.Key == nil || fi.varOf(loop.Key) != fi.varOf(ix.Index) || fi.varOf(ix.Index) == nil {
							return true
						}
						// range over p.Args
						if f := fi.selField(loop.X); f == nil || f.Name() != "Args" {
							return true
						}
						argsLen := func(v *types.Var) bool {
							d := fi.singleDef(v)
							if d == nil {
								return false
							}
							mk := fi.isBuiltin(d.rhs, "make")
							if mk == nil || len(mk.Args) != 2 {
								return false
							}
							l := fi.isBuiltin(mk.Args[1], "len")
							return l != nil && fi.sameExpr(l.Args[0], loop.X)
						}
						tv := fi.varOf(ix.X)
						if tv == nil || !argsLen(tv) {
							return true
						}
						// isArgType: e is <loop.X>[i].Type with the same i
						isArgType := func(e ast.Expr) bool {
							sel, ok := ast.Unparen(e).(*ast.SelectorExpr)
							if !ok || fi.selField(sel) == nil || fi.selField(sel).Name() != "Type" {
								return false
							}
							if ie, ok := ast.Unparen(sel.X).(*ast.IndexExpr); ok {
								return fi.sameExpr(ie.X, loop.X) && fi.varOf(ie.Index) == fi.varOf(ix.Index)
							}
							// the range's own value variable stands for <loop.X>[i]
							return loop.Value != nil && fi.varOf(sel.X) != nil && fi.varOf(sel.X) == fi.varOf(loop.Value)
						}
						if sl, ok := tv.Type().(*types.Slice); ok {
							if b, ok := sl.Elem().(*types.Basic); ok && b.Kind() == types.Int {
								// args[i] = index.At(p.Args[i].Type).(int)
								good := false
								if ta, ok := fi.deref(s.Rhs[0]).(*ast.TypeAssertExpr); ok {
									if at := fi.isCall(fi.deref(ta.X), fnMapAt); at != nil && fi.varOf(recvOf(at)) == a.index && isArgType(at.Args[0]) {
										good = true
									}
								}
								if r.Check(good, "args[i]", s.Pos(), "args[i] is the position of p.Args[i].Type (same i)") {
									okArgs = true
								}
							} else {
								if r.Check(isArgType(s.Rhs[0]), "ins[i]", s.Pos(), "ins[i] is p.Args[i].Type (same i)") {
									okIns = true
								}
							}
						}
					}
					// fieldNames = append(fieldNames, arg.FieldName)
					if ap := fi.isBuiltin(s.Rhs[0], "append"); ap != nil && len(ap.Args) == 2 {
						if f := fi.selField(ap.Args[1]); f != nil && f.Name() == "FieldName" {
							loop, _ := fi.enclosingLoop(s).(*ast.RangeStmt)
							okL := loop != nil && loop.Value != nil && fi.varOf(loop.Value) == fi.varOf(ap.Args[1].(*ast.SelectorExpr).X) &&
								fi.selField(loop.X) != nil && fi.selField(loop.X).Name() == "Args" && fi.unconditionalIn(s, loop.Body) && fi.loopComplete(loop)
							if r.Check(okL, "fieldNames", s.Pos(), "field names are appended for every element of p.Args in order") {
								okNames = true
							}
						}
					}
					// args := []int{index.At(f.Parent).(int)}
					if cl, ok := ast.Unparen(s.Rhs[0]).(*ast.CompositeLit); ok && len(cl.Elts) == 1 {
						if sl, ok := fi.Info.TypeOf(cl).(*types.Slice); ok {
							if b, ok := sl.Elem().(*types.Basic); ok && b.Kind() == types.Int {
								want := false
								if ta, ok := fi.deref(cl.Elts[0]).(*ast.TypeAssertExpr); ok {
									if at := fi.isCall(fi.deref(ta.X), fnMapAt); at != nil && fi.varOf(recvOf(at)) == a.index {
										if f := fi.selField(at.Args[0]); f != nil && f.Name() == "Parent" {
											want = true
										}
									}
								}
								rc := exprShort(cl.Elts[0])
								if r.Check(want, "field-args", s.Pos(), "a field step's argument is the position of f.Parent; got %s", rc) {
									okField = true
								}
							}
						}
					}
				}
				return true
			})
			r.Check(okArgs, "found:args[i]", 0, "assignment args[i] = index.At(p.Args[i].Type).(int) present")
			r.Check(okIns, "found:ins[i]", 0, "assignment ins[i] = p.Args[i].Type present")
			r.Check(okNames, "found:fieldNames", 0, "fieldNames built from p.Args")
			r.Check(okField, "found:field-args", 0, "field step argument built from f.Parent")
		})

	register("C02.R5", "record-field agreement: call{…} in solve and Provider{…} in processFuncProvider copy like-named fields (no swapped flags); required keys present per step kind",
		func(c *Ctx, r *R) {
			a := findSolve(c, r)
			if a == nil {
				return
			}
			fi := a.fi
			alias := map[string]string{"valueExpr": "expr", "valueTypeInfo": "info"}
			required := map[string][]string{
				"provider": {"kind", "pkg", "name", "args", "varargs", "fieldNames", "ins", "out", "hasCleanup", "hasErr"},
				"value":    {"kind", "out", "valueExpr", "valueTypeInfo"},
				"field":    {"kind", "pkg", "name", "out", "args", "ptrToField"},
			}
			n := 0
			ast.Inspect(a.loop.Body, func(nd ast.Node) bool {
				cl, ok := nd.(*ast.CompositeLit)
				if !ok || !isNamed(fi.Info.TypeOf(cl), pathW, "call") {
					return true
				}
				n++
				keys := map[string]ast.Expr{}
				for _, el := range cl.Elts {
					kv, ok := el.(*ast.KeyValueExpr)
					if !ok {
						r.Undecided("call-literal#"+itoa(n)+"/unkeyed", el.Pos(), "unkeyed element")
						continue
					}
					keys[kv.Key.(*ast.Ident).Name] = kv.Value
				}
				kind := "provider"
				if _, ok := keys["valueExpr"]; ok {
					kind = "value"
				} else if _, ok := keys["ptrToField"]; ok {
					kind = "field"
				}
				for _, rk := range required[kind] {
					if _, ok := keys[rk]; !ok {
						r.Bad("call-literal:"+kind+"/"+rk, cl.Pos(), "key %s missing in the %s step literal", rk, kind)
					}
				}
				for k, v := range keys {
					key := "call-literal:" + kind + "/" + k
					switch k {
					case "out":
						r.Check(a.isCurrT(v), key, v.Pos(), "out is the type being planned (curr.t)")
					case "kind":
						vv := fi.deref(v)
						want := map[string]string{"value": "valueExpr", "field": "selectorExpr"}[kind]
						if kind == "provider" {
							// kind var: funcProviderCall, or structProvider exactly under p.IsStruct
							kv := fi.varOf(v)
							okK := kv != nil
							if okK {
								for _, d := range fi.defs[kv] {
									nm := ""
									if id, ok := ast.Unparen(d.rhs).(*ast.Ident); ok {
										nm = id.Name
									}
									switch d.kind {
									case "define":
										okK = okK && nm == "funcProviderCall"
									case "assign":
										isStruct := false
										if blk, ok := fi.parent[d.node].(*ast.BlockStmt); ok {
											if is, ok := fi.parent[blk].(*ast.IfStmt); ok && is.Body == blk && is.Else == nil {
												if f := fi.selField(is.Cond); f != nil && f.Name() == "IsStruct" {
													isStruct = true
												}
											}
										}
										okK = okK && nm == "structProvider" && isStruct
									default:
										okK = false
									}
								}
							}
							r.Check(okK, key, v.Pos(), "kind is funcProviderCall, or structProvider exactly when p.IsStruct")
						} else {
							id, _ := vv.(*ast.Ident)
							r.Check(id != nil && id.Name == want, key, v.Pos(), "kind constant is %s", want)
						}
					default:
						d := fi.deref(v)
						if sel, ok := d.(*ast.SelectorExpr); ok && fi.selField(sel) != nil {
							want := k
							if al, ok := alias[k]; ok {
								want = al
							}
							r.Check(strings.EqualFold(sel.Sel.Name, want), key, v.Pos(), "%s is copied from the like-named field (.%s)", k, sel.Sel.Name)
						} else if id, ok := ast.Unparen(v).(*ast.Ident); ok {
							// a local: no other key of the record could take it when its type is unique among the record's
							// fields; otherwise it must be the like-named local (or, for ptrToField, the flag C12.R3 decides)
							okL := strings.EqualFold(id.Name, k)
							if st, isS := fi.Info.TypeOf(cl).Underlying().(*types.Struct); isS && !okL {
								same := 0
								for i := 0; i < st.NumFields(); i++ {
									if types.Identical(st.Field(i).Type(), fi.Info.TypeOf(id)) {
										same++
									}
								}
								okL = same == 1
							}
							if !okL && k == "ptrToField" {
								okL = true // its value is decided by C12.R3 (address taken exactly for the pointer form)
							}
							r.Check(okL, key, v.Pos(), "%s is given a local no other field could take (%s)", k, id.Name)
						} else {
							r.Undecided(key, v.Pos(), "value shape not recognised: %s", exprShort(v))
						}
					}
				}
				return true
			})
			r.Floor("call{} literals in solve", n, 3)

			pf := r.Need(c.Fn(c.W, "processFuncProvider"), "processFuncProvider")
			if pf != nil {
				want := map[string]string{
					"Varargs":    "go/types.Signature.Variadic{",
					"HasCleanup": ".cleanup",
					"HasErr":     ".err",
					"Pkg":        ".Pkg{param:",
					"Name":       ".Name{param:",
				}
				m := 0
				pf.inspect(pf.Decl.Body, func(nd ast.Node) bool {
					cl, ok := nd.(*ast.CompositeLit)
					if !ok || !isNamed(pf.Info.TypeOf(cl), pathW, "Provider") {
						return true
					}
					m++
					seen := map[string]bool{}
					for _, el := range cl.Elts {
						kv := el.(*ast.KeyValueExpr)
						k := kv.Key.(*ast.Ident).Name
						seen[k] = true
						cv := pf.canon(kv.Value, 0)
						if w, ok := want[k]; ok {
							good := strings.Contains(cv, w)
							if k == "HasCleanup" || k == "HasErr" {
								good = strings.HasSuffix(cv, w) && strings.HasPrefix(cv, pathW+".funcOutput(")
							}
							r.Check(good, "Provider-literal/"+k, kv.Pos(), "%s ← %s", k, cv)
						}
						if k == "Out" {
							r.Check(strings.Contains(cv, pathW+".funcOutput(") && strings.HasSuffix(cv, ".out}"), "Provider-literal/Out", kv.Pos(), "Out is the classified first result: %s", cv)
						}
					}
					for k := range want {
						r.Check(seen[k], "Provider-literal/has:"+k, cl.Pos(), "key %s present", k)
					}
					return true
				})
				r.Floor("Provider{} literal in processFuncProvider", m, 1)
			}
		})

	register("C02.R6", "kind dispatch is exhaustive: every source kind of ProvidedType has an accessor and a case in solve, verifyAcyclic and cmd/wire.gather; injectPass covers every callKind",
		func(c *Ctx, r *R) {
			pt := lookupType(c.W, "ProvidedType")
			if pt == nil {
				r.Bad("anchor:ProvidedType", 0, "type not found")
				return
			}
			st := pt.Underlying().(*types.Struct)
			var kinds []string // accessor names
			for i := 0; i < st.NumFields(); i++ {
				f := st.Field(i)
				if _, ok := f.Type().(*types.Pointer); !ok {
					continue
				}
				// accessor: method IsX returning pt.<f> != nil
				acc := ""
				for _, fi := range c.all {
					if fi.Pkg != c.W || !strings.HasPrefix(fi.Name, "ProvidedType.Is") || fi.Name == "ProvidedType.IsNil" {
						continue
					}
					rets := fi.returnsOf()
					if len(rets) != 1 || len(rets[0].Results) != 1 {
						continue
					}
					cs := flatten(rets[0].Results[0], false, nil)
					if len(cs) != 1 {
						continue
					}
					if x, isNil, ok := fi.nilTest(cs[0]); ok && !isNil && fi.selField(x) == f {
						acc = fi.Name
					}
				}
				if r.Check(acc != "", "accessor:"+f.Name(), f.Pos(), "source-kind field %s has accessor %s", f.Name(), acc) {
					kinds = append(kinds, pathW+"."+acc)
				}
			}
			r.Floor("source kinds of ProvidedType", len(kinds), 4)
			// IsNil covers every kind
			if in := c.Fn(c.W, "ProvidedType.IsNil"); in != nil && len(in.returnsOf()) == 1 {
				cs := flatten(in.returnsOf()[0].Results[0], false, nil)
				seen := map[*types.Var]bool{}
				for _, cd := range cs {
					if x, isNil, ok := in.nilTest(cd); ok && isNil {
						seen[in.selField(x)] = true
					}
				}
				all := true
				for i := 0; i < st.NumFields(); i++ {
					if _, ok := st.Field(i).Type().(*types.Pointer); ok && !seen[st.Field(i)] {
						all = false
					}
				}
				r.Check(all, "IsNil-covers-all-kinds", in.Decl.Pos(), "IsNil is the conjunction of nil tests of every source-kind field")
			} else {
				r.Bad("IsNil-covers-all-kinds", 0, "ProvidedType.IsNil not found or not a single return")
			}
			for _, site := range []struct {
				p    string
				name string
			}{{pathW, "solve"}, {pathW, "verifyAcyclic"}, {pathCmd, "gather"}} {
				var fi *FuncInfo
				if site.p == pathW {
					fi = c.Fn(c.W, site.name)
				} else {
					fi = c.Fn(c.Cmd, site.name)
				}
				if r.Need(fi, site.name) == nil {
					continue
				}
				found := 0
				fi.inspect(fi.Decl.Body, func(nd ast.Node) bool {
					// arms of a dispatch: the case conditions of a tagless switch, or the conditions of an
					// if / else-if chain (taken at its head)
					var arms []ast.Expr
					var at ast.Node
					switch x := nd.(type) {
					case *ast.SwitchStmt:
						if x.Tag != nil {
							return true
						}
						at = x
						for _, s := range x.Body.List {
							arms = append(arms, s.(*ast.CaseClause).List...)
						}
					case *ast.IfStmt:
						if p, ok := fi.parent[x].(*ast.IfStmt); ok && p.Else == ast.Stmt(x) {
							return true // not the head of the chain
						}
						at = x
						for is := x; is != nil; {
							arms = append(arms, is.Cond)
							next, _ := is.Else.(*ast.IfStmt)
							is = next
						}
						if len(arms) < 2 {
							return true
						}
					default:
						return true
					}
					sw := at
					seen := map[string]bool{}
					hasDefaultPanic := false
					for _, e := range arms {
						for _, cl := range callsIn(e) {
							seen[fi.calleeName(cl)] = true
						}
					}
					any := false
					for _, k := range kinds {
						if seen[k] {
							any = true
						}
					}
					if !any {
						return true
					}
					found++
					for _, k := range kinds {
						short := k[strings.LastIndex(k, ".")+1:]
						r.Check(seen[k], site.name+"/dispatch#"+itoa(found)+"/"+short, sw.Pos(), "dispatch has a case for %s", short)
					}
					_ = hasDefaultPanic
					return true
				})
				r.Floor("kind dispatches in "+site.name, found, 1)
			}
			// injectPass: switch c.kind covers every callKind constant
			ip := r.Need(c.Fn(c.W, "injectPass"), "injectPass")
			if ip != nil {
				ck := lookupType(c.W, "callKind")
				var consts []*types.Const
				for _, nm := range c.W.Types.Scope().Names() {
					if k, ok := c.W.Types.Scope().Lookup(nm).(*types.Const); ok && ck != nil && types.Identical(k.Type(), ck) {
						consts = append(consts, k)
					}
				}
				r.Floor("callKind constants", len(consts), 4)
				found := false
				ip.inspect(ip.Decl.Body, func(nd ast.Node) bool {
					sw, ok := nd.(*ast.SwitchStmt)
					if !ok || sw.Tag == nil || ck == nil || !types.Identical(ip.Info.TypeOf(sw.Tag), ck) {
						return true
					}
					found = true
					seen := map[types.Object]bool{}
					for _, s := range sw.Body.List {
						for _, e := range s.(*ast.CaseClause).List {
							if id, ok := ast.Unparen(e).(*ast.Ident); ok {
								seen[ip.Info.ObjectOf(id)] = true
							}
						}
					}
					for _, k := range consts {
						r.Check(seen[k], "injectPass/kind-switch/"+k.Name(), sw.Pos(), "emitter dispatch has a case for %s", k.Name())
					}
					return true
				})
				r.Check(found, "injectPass/kind-switch", ip.Decl.Pos(), "switch on the step kind found")
			}
		})

	register("C11.R4", "a binding is an alias, not a step: on the concrete≠requested side of solve no step is planned and index[curr.t] receives exactly index.At(concrete), only when that is non-nil",
		func(c *Ctx, r *R) {
			a := findSolve(c, r)
			if a == nil {
				return
			}
			fi := a.fi
			n := 0
			ast.Inspect(a.loop.Body, func(nd ast.Node) bool {
				is, ok := nd.(*ast.IfStmt)
				if !ok {
					return true
				}
				cs := flatten(is.Cond, false, is)
				if len(cs) != 1 || !cs[0].Neg {
					return true
				}
				id := fi.isCall(cs[0].Expr, fnIdentical)
				if id == nil {
					return true
				}
				// one operand is curr.t, the other pv.Type()
				var conc ast.Expr
				if a.isCurrT(id.Args[1]) {
					conc = id.Args[0]
				} else if a.isCurrT(id.Args[0]) {
					conc = id.Args[1]
				} else {
					return true
				}
				tc := fi.isCall(fi.deref(conc), pathW+".ProvidedType.Type")
				if tc == nil {
					return true
				}
				n++
				r.Check(terminates(is.Body), "alias-branch/terminates", is.Pos(), "the alias branch never falls into step planning")
				for _, as := range a.appendsTo(a.calls) {
					if fi.within(as, is.Body) {
						r.Bad("alias-branch/no-step", as.Pos(), "a step is planned for an interface binding")
					}
				}
				sets := 0
				for _, st := range a.indexSets() {
					if !fi.within(st, is.Body) {
						continue
					}
					sets++
					at := fi.isCall(fi.deref(st.Args[1]), fnMapAt)
					okV := a.isCurrT(st.Args[0]) && at != nil && fi.varOf(recvOf(at)) == a.index && fi.sameExpr(at.Args[0], conc)
					nonNil := false
					for _, g := range fi.GuardsWithin(st, is.Body) {
						if x, isNil, ok := fi.nilTest(g); ok && !isNil && fi.sameExpr(x, st.Args[1]) {
							nonNil = true
						}
					}
					r.Check(okV && nonNil, "alias-branch/index-alias", st.Pos(), "index[curr.t] = index.At(concrete), on its non-nil edge")
				}
				r.Floor("alias index.Set", sets, 1)
				// when the concrete type is not yet indexed it is pushed together with curr for a revisit
				pushed := false
				ast.Inspect(is.Body, func(m ast.Node) bool {
					as, ok := m.(*ast.AssignStmt)
					if !ok || len(as.Rhs) != 1 {
						return true
					}
					if ap := fi.isBuiltin(as.Rhs[0], "append"); ap != nil && len(ap.Args) == 3 {
						cl, _ := ast.Unparen(ap.Args[2]).(*ast.CompositeLit)
						if cl != nil {
							for _, el := range cl.Elts {
								if kv, ok := el.(*ast.KeyValueExpr); ok && kv.Key.(*ast.Ident).Name == "t" && fi.sameExpr(kv.Value, conc) {
									pushed = true
								}
							}
						}
					}
					return true
				})
				r.Check(pushed, "alias-branch/push-concrete", is.Pos(), "an unindexed concrete type is pushed (with curr re-queued beneath it)")
				return true
			})
			r.Floor("alias branch (!Identical(pv.Type(), curr.t))", n, 1)
		})

	register("C08.R3", "every consulted source is recorded: used = append(used, src) runs for every provided type before any of its finalisations, under no condition other than 'not yet indexed' and 'has a provider'",
		func(c *Ctx, r *R) {
			a := findSolve(c, r)
			if a == nil {
				return
			}
			fi := a.fi
			aps := a.appendsTo(a.used)
			r.Floor("used = append(used, …)", len(aps), 1)
			for i, as := range aps {
				k := "used-append#" + itoa(i)
				ap := fi.isBuiltin(as.Rhs[0], "append")
				// value: set.srcMap.At(curr.t).(*providerSetSrc)
				v := fi.deref(ap.Args[1])
				okV := false
				if ta, ok := v.(*ast.TypeAssertExpr); ok {
					if at := fi.isCall(fi.deref(ta.X), fnMapAt); at != nil && a.isCurrT(at.Args[0]) {
						if b, ok := fi.fieldSel(recvOf(at), pathW, "ProviderSet", "srcMap"); ok && fi.varOf(b) == a.setParam {
							okV = true
						}
					}
				}
				r.Check(okV, k+"/value", as.Pos(), "records set.srcMap.At(curr.t)")
				extra := 0
				for _, g := range fi.GuardsWithin(as, a.loop.Body) {
					if x, isNil, ok := fi.nilTest(g); ok && isNil {
						if at := fi.isCall(fi.deref(x), fnMapAt); at != nil && fi.varOf(recvOf(at)) == a.index {
							continue
						}
					}
					if g.Neg && fi.isCall(g.Expr, pathW+".ProvidedType.IsNil") != nil {
						continue
					}
					extra++
				}
				r.Check(extra == 0 && !fi.inNestedLoopOrLit(as, a.loop.Body), k+"/unconditional", as.Pos(), "no further condition decides whether a consulted source is recorded (%d extra)", extra)
				// before any finalisation
				early := true
				for _, o := range a.appendsTo(a.calls) {
					if startOf(o) < startOf(as) {
						early = false
					}
				}
				for _, st := range a.indexSets() {
					if fi.within(st, a.loop.Body) && startOf(st) < startOf(as) && fi.varOf(st.Args[1]) != a.errAbort {
						early = false
					}
				}
				r.Check(early, k+"/before-finalisation", as.Pos(), "recorded before any step or index entry for the type")
			}
		})

	register("C08.R4", "the unused-item check runs: solve's success return is dominated by the empty edge of verifyArgsUsed(set, used), whose errors are returned otherwise",
		func(c *Ctx, r *R) {
			a := findSolve(c, r)
			if a == nil {
				return
			}
			fi := a.fi
			n := 0
			for i, ret := range fi.returnsOf() {
				// a success return is one that reports no errors: `return calls, nil` — and `return nil, nil` too
				if len(ret.Results) != 2 || !fi.isNilIdent(ret.Results[1]) {
					continue
				}
				n++
				ok := false
				for _, g := range fi.Guards(ret) {
					if x, ne, o := fi.lenTest(g); o && !ne {
						if d := fi.defOf(x); d != nil {
							if vc := fi.isCall(d.rhs, pathW+".verifyArgsUsed"); vc != nil && fi.varOf(vc.Args[0]) == a.setParam && fi.varOf(vc.Args[1]) == a.used {
								// its failing edge returns the errors
								is := g.At.(*ast.IfStmt)
								for _, r2 := range fi.returnsOf() {
									if fi.within(r2, is.Body) && len(r2.Results) == 2 && fi.varOf(r2.Results[1]) == fi.varOf(x) {
										ok = true
									}
								}
							}
						}
					}
				}
				r.Check(ok, "success-return#"+itoa(i), ret.Pos(), "dominated by len(verifyArgsUsed(set, used))==0 whose other edge returns those errors")
				r.Check(fi.varOf(ret.Results[0]) == a.calls, "success-return#"+itoa(i)+"/value", ret.Pos(), "returns the planned calls")
			}
			r.Floor("success returns of solve", n, 1)
		})
}

func firstLhs(s ast.Stmt) ast.Expr {
	if as, ok := s.(*ast.AssignStmt); ok && len(as.Lhs) > 0 {
		return as.Lhs[0]
	}
	return nil
}

// loopInfo is the normal form of a counting for-loop.
type loopInfo struct {
	v         *types.Var
	from      string // canonical start expression
	fromExpr  ast.Expr
	bound     string // canonical bound expression
	boundExpr ast.Expr
	ascending bool
	inclusive bool // bound included (i <= N  /  i >= N)
}

// loopShape recognises `for i := A; i < B; i++` / `i <= B` / `for i := A; i >= B; i--` / `i > B`.
func (fi *FuncInfo) loopShape(f *ast.ForStmt) *loopInfo {
	init, ok := f.Init.(*ast.AssignStmt)
	if !ok || len(init.Lhs) != 1 || len(init.Rhs) != 1 {
		return nil
	}
	v := fi.varOf(init.Lhs[0])
	if v == nil {
		return nil
	}
	post, ok := f.Post.(*ast.IncDecStmt)
	if !ok || fi.varOf(post.X) != v {
		return nil
	}
	cond, ok := ast.Unparen(f.Cond).(*ast.BinaryExpr)
	if !ok {
		return nil
	}
	li := &loopInfo{v: v, from: fi.canon(init.Rhs[0], 0), fromExpr: init.Rhs[0], ascending: post.Tok == token.INC}
	op := cond.Op
	var b ast.Expr
	if fi.varOf(cond.X) == v {
		b = cond.Y
	} else if fi.varOf(cond.Y) == v {
		b = cond.X
		switch op {
		case token.LSS:
			op = token.GTR
		case token.GTR:
			op = token.LSS
		case token.LEQ:
			op = token.GEQ
		case token.GEQ:
			op = token.LEQ
		}
	} else {
		return nil
	}
	li.bound, li.boundExpr = fi.canon(b, 0), b
	switch {
	case li.ascending && op == token.LSS:
	case li.ascending && op == token.LEQ:
		li.inclusive = true
	case !li.ascending && op == token.GTR:
	case !li.ascending && op == token.GEQ:
		li.inclusive = true
	default:
		return nil
	}
	// the loop variable must not be written in the body
	for _, d := range fi.defs[v] {
		if d.node != init && d.node != post {
			return nil
		}
	}
	return li
}
