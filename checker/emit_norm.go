package main

import (
	"go/ast"
	"go/token"
	"go/types"
	"regexp"
	"sort"
	"strings"
)

// This file makes the emission traces insensitive to how the emitter is cut
// into functions and how its branches are phrased:
//
//   - helpers that are not modelled emitters themselves are interpreted in place
//     (inline), with parameters bound to the symbolic arguments;
//   - a formatted argument computed by a small `if c { return A } … return B`
//     helper is expanded into ALT[c]{…A…}{…B…};
//   - early exits (return at function level, continue in a loop body) are
//     absorbed into the branches, so a guard, the inverted if/else and a switch
//     with continue arms agree;
//   - length tests are oriented, empty branches pruned, and whatever both arms
//     of an ALT start or end with is factored out.

// emitRoots are the emitter functions that have their own trace (and model);
// calls to them stay CALL nodes, every other in-module helper is inlined.
var emitRoots = map[string]bool{}

func init() {
	for _, n := range emitterFuncs {
		emitRoots[n] = true
	}
}

// bind maps the parameters (and receiver) of callee to the symbolic arguments of call.
func (e *emitter) bind(cf *FuncInfo, call *ast.CallExpr) (undo func()) {
	type sv struct {
		v   *types.Var
		old string
		had bool
	}
	var saved []sv
	set := func(v *types.Var, s string) {
		old, had := e.names[v]
		saved = append(saved, sv{v, old, had})
		e.names[v] = s
	}
	// evaluate argument symbols before rebinding (a helper may be called with its own parameters)
	var syms []string
	for _, a := range call.Args {
		syms = append(syms, e.sym(a))
	}
	rs := ""
	if rx := recvOf(call); rx != nil {
		rs = e.sym(rx)
	}
	i := 0
	for _, f := range cf.Decl.Type.Params.List {
		for _, n := range f.Names {
			if v, ok := cf.Info.Defs[n].(*types.Var); ok && i < len(syms) {
				set(v, syms[i])
			}
			i++
		}
	}
	if cf.Decl.Recv != nil {
		for _, f := range cf.Decl.Recv.List {
			for _, n := range f.Names {
				if v, ok := cf.Info.Defs[n].(*types.Var); ok && rs != "" {
					set(v, rs)
				}
			}
		}
	}
	return func() {
		for i := len(saved) - 1; i >= 0; i-- {
			if saved[i].had {
				e.names[saved[i].v] = saved[i].old
			} else {
				delete(e.names, saved[i].v)
			}
		}
	}
}

func (e *emitter) canInline(cf *FuncInfo) bool {
	return cf != nil && !emitRoots[cf.Name] && cf.Decl.Body != nil && e.inlineDepth < 4 && !e.inlining[cf]
}

func (e *emitter) inline(cf *FuncInfo, call *ast.CallExpr) []emNode {
	undo := e.bind(cf, call)
	defer undo()
	if e.inlining == nil {
		e.inlining = map[*FuncInfo]bool{}
	}
	e.inlining[cf] = true
	e.inlineDepth++
	body := e.block(cf.Decl.Body.List)
	e.inlineDepth--
	delete(e.inlining, cf)
	// a return inside the helper only leaves the helper
	return elimExits(body, "RETURN")
}

// touchesTables reports whether fn writes one of the tracked name tables.
func (c *Ctx) touchesTables(fn *FuncInfo, tracked map[string]bool) bool {
	found := false
	ast.Inspect(fn.Decl.Body, func(n ast.Node) bool {
		if as, ok := n.(*ast.AssignStmt); ok {
			for _, l := range as.Lhs {
				t := ast.Unparen(l)
				if ix, ok := t.(*ast.IndexExpr); ok {
					t = ix.X
				}
				if f := fn.selField(t); f != nil && tracked[f.Name()] {
					found = true
				}
			}
		}
		return true
	})
	return found
}

// elimExits removes early exits of the given kind (RETURN at function level,
// CONTINUE in a loop body) by absorbing the continuation into the branches:
// `ALT[c]{ X «exit» }{ Y } rest…` becomes `ALT[c]{ X }{ Y rest… }`, at any
// nesting depth of ALTs. Statements after an unconditional exit are dropped.
func elimExits(ns []emNode, kind string) []emNode {
	for i, n := range ns {
		if ef, ok := n.(*emEff); ok && ef.desc == kind {
			return ns[:i]
		}
		a, ok := n.(*emAlt)
		if !ok || !hasExit([]emNode{a}, kind) {
			continue
		}
		rest := ns[i+1:]
		a.then = elimExits(append(append([]emNode{}, a.then...), cloneNodes(rest)...), kind)
		a.els = elimExits(append(append([]emNode{}, a.els...), cloneNodes(rest)...), kind)
		return ns[:i+1]
	}
	return ns
}

func hasExit(ns []emNode, kind string) bool {
	for _, n := range ns {
		switch x := n.(type) {
		case *emEff:
			if x.desc == kind {
				return true
			}
		case *emAlt:
			if hasExit(x.then, kind) || hasExit(x.els, kind) {
				return true
			}
		}
	}
	return false
}

func cloneNodes(ns []emNode) []emNode {
	var out []emNode
	for _, n := range ns {
		switch x := n.(type) {
		case *emTok:
			out = append(out, &emTok{append([]string{}, x.toks...)})
		case *emEff:
			out = append(out, &emEff{x.desc})
		case *emAlt:
			out = append(out, &emAlt{cond: x.cond, then: cloneNodes(x.then), els: cloneNodes(x.els)})
		case *emLoop:
			out = append(out, &emLoop{shape: x.shape, body: cloneNodes(x.body)})
		}
	}
	return out
}

var lenEq0 = regexp.MustCompile(`^\(len\((.+)\)==0\)$`)
var lenNe0 = regexp.MustCompile(`^\(len\((.+)\)!=0\)$`)

// normalize brings a trace into canonical form.
func normalize(ns []emNode, top bool) []emNode {
	if top {
		ns = elimExits(ns, "RETURN")
	}
	var out []emNode
	for _, n := range ns {
		switch x := n.(type) {
		case *emLoop:
			x.body = normalize(elimExits(x.body, "CONTINUE"), false)
			if len(x.body) == 0 {
				continue
			}
			out = append(out, x)
		case *emAlt:
			x.then = normalize(x.then, false)
			x.els = normalize(x.els, false)
			if m := lenEq0.FindStringSubmatch(x.cond); m != nil {
				x.cond = "(len(" + m[1] + ")>0)"
				x.then, x.els = x.els, x.then
			} else if m := lenNe0.FindStringSubmatch(x.cond); m != nil {
				x.cond = "(len(" + m[1] + ")>0)"
			}
			if len(x.then) == 0 && len(x.els) == 0 {
				continue
			}
			pre, suf := factor(x)
			out = append(out, pre...)
			if len(x.then) > 0 || len(x.els) > 0 {
				out = append(out, x)
			}
			out = append(out, suf...)
		default:
			out = append(out, n)
		}
	}
	return mergeToks(out)
}

func mergeToks(ns []emNode) []emNode {
	var out []emNode
	for _, n := range ns {
		if t, ok := n.(*emTok); ok {
			if len(t.toks) == 0 {
				continue
			}
			if len(out) > 0 {
				if p, ok := out[len(out)-1].(*emTok); ok {
					out[len(out)-1] = &emTok{append(append([]string{}, p.toks...), t.toks...)}
					continue
				}
			}
		}
		out = append(out, n)
	}
	return out
}

// factor removes what both arms of a start (end) with — tokens, or whole
// structurally equal nodes — and returns it.
func factor(a *emAlt) (pre, suf []emNode) {
	if len(a.then) == 0 || len(a.els) == 0 {
		return nil, nil
	}
	same := func(x, y emNode) bool {
		_, t1 := x.(*emTok)
		_, t2 := y.(*emTok)
		if t1 || t2 {
			return false
		}
		return renderTrace([]emNode{x}) == renderTrace([]emNode{y})
	}
	for len(a.then) > 0 && len(a.els) > 0 {
		l1, l2 := a.then[len(a.then)-1], a.els[len(a.els)-1]
		if same(l1, l2) {
			suf = append([]emNode{l1}, suf...)
			a.then, a.els = a.then[:len(a.then)-1], a.els[:len(a.els)-1]
			continue
		}
		t1, ok1 := l1.(*emTok)
		t2, ok2 := l2.(*emTok)
		if !ok1 || !ok2 {
			break
		}
		n := 0
		for n < len(t1.toks) && n < len(t2.toks) && t1.toks[len(t1.toks)-1-n] == t2.toks[len(t2.toks)-1-n] {
			n++
		}
		if n == 0 {
			break
		}
		suf = append([]emNode{&emTok{append([]string{}, t1.toks[len(t1.toks)-n:]...)}}, suf...)
		r1, r2 := t1.toks[:len(t1.toks)-n], t2.toks[:len(t2.toks)-n]
		if len(r1) == 0 {
			a.then = a.then[:len(a.then)-1]
		} else {
			a.then[len(a.then)-1] = &emTok{r1}
		}
		if len(r2) == 0 {
			a.els = a.els[:len(a.els)-1]
		} else {
			a.els[len(a.els)-1] = &emTok{r2}
		}
		if len(r1) > 0 || len(r2) > 0 {
			break
		}
	}
	for len(a.then) > 0 && len(a.els) > 0 {
		f1, f2 := a.then[0], a.els[0]
		if same(f1, f2) {
			pre = append(pre, f1)
			a.then, a.els = a.then[1:], a.els[1:]
			continue
		}
		t1, ok1 := f1.(*emTok)
		t2, ok2 := f2.(*emTok)
		if !ok1 || !ok2 {
			break
		}
		n := 0
		for n < len(t1.toks) && n < len(t2.toks) && t1.toks[n] == t2.toks[n] {
			n++
		}
		if n == 0 {
			break
		}
		pre = append(pre, &emTok{append([]string{}, t1.toks[:n]...)})
		r1, r2 := t1.toks[n:], t2.toks[n:]
		if len(r1) == 0 {
			a.then = a.then[1:]
		} else {
			a.then[0] = &emTok{r1}
		}
		if len(r2) == 0 {
			a.els = a.els[1:]
		} else {
			a.els[0] = &emTok{r2}
		}
		if len(r1) > 0 || len(r2) > 0 {
			break
		}
	}
	return mergeToks(pre), mergeToks(suf)
}

// formatArgs renders the arguments; an argument that is a call to a small
// value-returning helper of the form `if c { return A } … return B` is
// expanded into ALT[c]{…A…}{…B…} so the helper and its inlined form agree.
func (e *emitter) formatArgs(format string, args []ast.Expr, done []string) []emNode {
	if len(args) == 0 {
		return []emNode{&emTok{tokenize(format, done)}}
	}
	a := args[0]
	with := func(s string) []string { return append(append([]string{}, done...), s) }
	if call, ok := ast.Unparen(a).(*ast.CallExpr); ok {
		if cf := e.c.FnOf(e.fi.callee(call)); e.canInline(cf) {
			if cases := retCases(cf); cases != nil {
				undo := e.bind(cf, call)
				if e.inlining == nil {
					e.inlining = map[*FuncInfo]bool{}
				}
				e.inlining[cf] = true
				e.inlineDepth++
				type rc struct {
					cond string
					neg  bool
					val  string
				}
				var rcs []rc
				for _, cs := range cases {
					r := rc{val: e.sym(cs.val)}
					if cs.cond != nil {
						r.cond, r.neg = e.cond(cs.cond)
					}
					rcs = append(rcs, r)
				}
				e.inlineDepth--
				delete(e.inlining, cf)
				undo()
				var build func(i int) []emNode
				build = func(i int) []emNode {
					if i == len(rcs)-1 || rcs[i].cond == "" {
						return e.formatArgs(format, args[1:], with(rcs[i].val))
					}
					th := e.formatArgs(format, args[1:], with(rcs[i].val))
					el := build(i + 1)
					if rcs[i].neg {
						th, el = el, th
					}
					return []emNode{&emAlt{cond: rcs[i].cond, then: th, els: el}}
				}
				return build(0)
			}
		}
	}
	return e.formatArgs(format, args[1:], with(e.sym(a)))
}

type retCase struct {
	cond ast.Expr // nil for the final unconditional return
	val  ast.Expr
}

// retCases recognises a helper whose body is `[if c { return A }]* return B`
// (single result, no other statements).
func retCases(cf *FuncInfo) []retCase {
	sig := cf.Obj.Type().(*types.Signature)
	if sig.Results().Len() != 1 {
		return nil
	}
	var out []retCase
	var walk func(list []ast.Stmt) bool
	walk = func(list []ast.Stmt) bool {
		for i, s := range list {
			switch s := s.(type) {
			case *ast.IfStmt:
				if s.Init != nil || len(s.Body.List) != 1 {
					return false
				}
				r, ok := s.Body.List[0].(*ast.ReturnStmt)
				if !ok || len(r.Results) != 1 {
					return false
				}
				out = append(out, retCase{s.Cond, r.Results[0]})
				if s.Else != nil {
					eb, ok := s.Else.(*ast.BlockStmt)
					if !ok || i != len(list)-1 {
						return false
					}
					return walk(eb.List)
				}
			case *ast.ReturnStmt:
				if len(s.Results) != 1 || i != len(list)-1 {
					return false
				}
				out = append(out, retCase{nil, s.Results[0]})
				return true
			default:
				return false
			}
		}
		return false
	}
	if !walk(cf.Decl.Body.List) {
		return nil
	}
	return out
}

var _ = strings.TrimSpace

// ---------------------------------------------------------------------------
// order of bookkeeping relative to emitted text

var varTok = regexp.MustCompile(`\b(m|n|SNAP)\d+\b`)

// effTargets returns the state a bookkeeping node writes (local names, table names).
func effTargets(n emNode) (targets []string, pure bool) {
	switch x := n.(type) {
	case *emTok:
		return nil, false
	case *emEff:
		d := x.desc
		switch {
		case strings.HasPrefix(d, "CALL "), d == "RETURN", d == "CONTINUE", d == "BREAK", d == "GOTO":
			return nil, false
		case strings.HasPrefix(d, "LOCAL "), strings.HasPrefix(d, "DEF "), strings.HasPrefix(d, "SNAP"):
			if m := varTok.FindString(d); m != "" {
				return []string{m}, true
			}
			return nil, false
		case strings.HasPrefix(d, "APPEND "), strings.HasPrefix(d, "SET "), strings.HasPrefix(d, "WRITE "):
			t := strings.Fields(d)[1]
			for _, sep := range []string{"<-", "[", "="} {
				if i := strings.Index(t, sep); i >= 0 {
					t = t[:i]
				}
			}
			if i := strings.LastIndex(t, "."); i >= 0 {
				t = t[i+1:]
			}
			return []string{t}, true
		case strings.HasPrefix(d, "SORT "):
			return []string{strings.TrimPrefix(d, "SORT ")}, true
		}
		return nil, false
	case *emAlt:
		var ts []string
		for _, c := range append(append([]emNode{}, x.then...), x.els...) {
			t, p := effTargets(c)
			if !p {
				return nil, false
			}
			ts = append(ts, t...)
		}
		return ts, true
	case *emLoop:
		var ts []string
		for _, c := range x.body {
			t, p := effTargets(c)
			if !p {
				return nil, false
			}
			ts = append(ts, t...)
		}
		return ts, true
	}
	return nil, false
}

// hoistEffects moves every pure bookkeeping node left past the token runs
// that precede it and do not mention what it writes: only the order of the
// emitted text (and of bookkeeping among itself) is significant.
func hoistEffects(ns []emNode) []emNode {
	for _, n := range ns {
		switch x := n.(type) {
		case *emAlt:
			x.then, x.els = hoistEffects(x.then), hoistEffects(x.els)
		case *emLoop:
			x.body = hoistEffects(x.body)
		}
	}
	out := append([]emNode{}, ns...)
	for i := 0; i < len(out); i++ {
		targets, pure := effTargets(out[i])
		if !pure {
			continue
		}
		j := i
		for j > 0 {
			t, ok := out[j-1].(*emTok)
			if !ok {
				break
			}
			txt := strings.Join(t.toks, " ")
			clash := false
			for _, tg := range targets {
				if tg != "" && strings.Contains(txt, tg) {
					clash = true
				}
			}
			if clash {
				break
			}
			out[j-1], out[j] = out[j], out[j-1]
			j--
		}
	}
	return mergeToks(out)
}

// renumber renames m/n/SNAP variables by order of first appearance in the trace.
func renumber(ns []emNode) {
	next := map[string]int{}
	mapping := map[string]string{}
	re := func(s string) string {
		return varTok.ReplaceAllStringFunc(s, func(v string) string {
			if r, ok := mapping[v]; ok {
				return r
			}
			kind := strings.TrimRight(v, "0123456789")
			next[kind]++
			r := kind + itoa(next[kind])
			mapping[v] = r
			return r
		})
	}
	var walk func(ns []emNode)
	walk = func(ns []emNode) {
		for _, n := range ns {
			switch x := n.(type) {
			case *emTok:
				for i := range x.toks {
					x.toks[i] = re(x.toks[i])
				}
			case *emEff:
				x.desc = re(x.desc)
			case *emAlt:
				x.cond = re(x.cond)
				walk(x.then)
				walk(x.els)
			case *emLoop:
				x.shape = re(x.shape)
				walk(x.body)
			}
		}
	}
	walk(ns)
}

// altFor builds the canonical branching for a condition: negations swap the
// arms, != is == with swapped arms, a||b and a&&b become nested ALTs over
// their operands (sorted by rendering, operands being side-effect free
// tests), so differently phrased but equivalent conditions agree.
func (e *emitter) altFor(cond ast.Expr, th, el []emNode) []emNode {
	cond = ast.Unparen(cond)
	switch x := cond.(type) {
	case *ast.CallExpr:
		// a predicate helper of the module: decide on what the helper decides on
		if cf := e.c.FnOf(e.fi.callee(x)); cf != nil && e.canInline(cf) && cf.Pkg == e.fi.Pkg {
			if sig := cf.Obj.Type().(*types.Signature); sig.Results().Len() == 1 && types.TypeString(sig.Results().At(0).Type(), nil) == "bool" {
				if ns, ok := e.predTree(cf, x, th, el); ok {
					return ns
				}
			}
		}
	case *ast.UnaryExpr:
		if x.Op == token.NOT {
			return e.altFor(x.X, el, th)
		}
	case *ast.BinaryExpr:
		switch x.Op {
		case token.LOR, token.LAND:
			ops := e.operands(x, x.Op)
			sort.SliceStable(ops, func(i, j int) bool { return e.condKey(ops[i]) < e.condKey(ops[j]) })
			return e.chain(ops, x.Op, th, el)
		case token.NEQ:
			return e.altFor(&ast.BinaryExpr{X: x.X, Op: token.EQL, Y: x.Y}, el, th)
		case token.GEQ:
			// one orientation for order comparisons: a >= b is the other arm of a < b
			return e.altFor(&ast.BinaryExpr{X: x.X, Op: token.LSS, Y: x.Y}, el, th)
		case token.LEQ:
			return e.altFor(&ast.BinaryExpr{X: x.X, Op: token.GTR, Y: x.Y}, el, th)
		case token.EQL:
			// orient: constant / nil on the right
			if e.isConstLike(x.X) && !e.isConstLike(x.Y) {
				return e.altFor(&ast.BinaryExpr{X: x.Y, Op: token.EQL, Y: x.X}, th, el)
			}
		}
	}
	if len(th) == 0 && len(el) == 0 {
		return nil
	}
	return []emNode{&emAlt{cond: e.sym(cond), then: th, els: el}}
}

func (e *emitter) isConstLike(x ast.Expr) bool {
	if tv, ok := e.fi.Info.Types[x]; ok && tv.Value != nil {
		return true
	}
	return e.fi.isNilIdent(x)
}

func (e *emitter) condKey(x ast.Expr) string {
	x = ast.Unparen(x)
	for {
		u, ok := x.(*ast.UnaryExpr)
		if !ok || u.Op != token.NOT {
			break
		}
		x = ast.Unparen(u.X)
	}
	if b, ok := x.(*ast.BinaryExpr); ok && b.Op == token.NEQ {
		x = &ast.BinaryExpr{X: b.X, Op: token.EQL, Y: b.Y}
	}
	return e.sym(x)
}

func (e *emitter) operands(x ast.Expr, op token.Token) []ast.Expr {
	x = ast.Unparen(x)
	if b, ok := x.(*ast.BinaryExpr); ok && b.Op == op {
		return append(e.operands(b.X, op), e.operands(b.Y, op)...)
	}
	return []ast.Expr{x}
}

func (e *emitter) chain(ops []ast.Expr, op token.Token, th, el []emNode) []emNode {
	if len(ops) == 1 {
		return e.altFor(ops[0], th, el)
	}
	if op == token.LOR {
		// a || rest: then on a, otherwise decide on rest
		return e.altFor(ops[0], th, e.chain(ops[1:], op, cloneNodes(th), el))
	}
	return e.altFor(ops[0], e.chain(ops[1:], op, th, cloneNodes(el)), el)
}

// stableCond reports whether a condition only reads values that cannot change
// during the emitter's run (parameters, their fields and pure calls on them).
func stableCond(c string) bool {
	if varTok.MatchString(c) {
		return false
	}
	for _, t := range []string{"paramNames", "localNames", "cleanupNames", ".values", ".imports", ".anonImports", ".buf"} {
		if strings.Contains(c, t) {
			return false
		}
	}
	return true
}

// simplifyKnown removes tests whose outcome is already decided by an
// enclosing test of the same (stable) condition, and orders directly nested
// tests of two stable conditions by their rendering (a decision-diagram normal
// form), so a switch over combined conditions and the equivalent nested ifs agree.
func simplifyKnown(ns []emNode, known map[string]bool) []emNode {
	var out []emNode
	for _, n := range ns {
		switch x := n.(type) {
		case *emAlt:
			if v, ok := known[x.cond]; ok && stableCond(x.cond) {
				if v {
					out = append(out, simplifyKnown(x.then, known)...)
				} else {
					out = append(out, simplifyKnown(x.els, known)...)
				}
				continue
			}
			if stableCond(x.cond) {
				kt := copyKnown(known)
				kt[x.cond] = true
				ke := copyKnown(known)
				ke[x.cond] = false
				x.then = simplifyKnown(x.then, kt)
				x.els = simplifyKnown(x.els, ke)
			} else {
				x.then = simplifyKnown(x.then, known)
				x.els = simplifyKnown(x.els, known)
			}
			// reorder ALT[b]{ALT[a]{X}{Y}}{ALT[a]{Z}{W}} with a<b into ALT[a]{ALT[b]{X}{Z}}{ALT[b]{Y}{W}}
			if len(x.then) == 1 && len(x.els) == 1 {
				t, ok1 := x.then[0].(*emAlt)
				e2, ok2 := x.els[0].(*emAlt)
				if ok1 && ok2 && t.cond == e2.cond && t.cond < x.cond && stableCond(t.cond) && stableCond(x.cond) {
					x = &emAlt{cond: t.cond,
						then: []emNode{&emAlt{cond: x.cond, then: t.then, els: e2.then}},
						els:  []emNode{&emAlt{cond: x.cond, then: t.els, els: e2.els}}}
				}
			}
			out = append(out, x)
		case *emLoop:
			x.body = simplifyKnown(x.body, known)
			out = append(out, x)
		default:
			out = append(out, n)
		}
	}
	return out
}

func copyKnown(m map[string]bool) map[string]bool {
	o := map[string]bool{}
	for k, v := range m {
		o[k] = v
	}
	return o
}

// inlineExprCall renders a call to a trivial helper — an unexported in-module
// function that no rule names, or a local closure, whose body is a single
// `return EXPR` — as EXPR with the parameters bound, so extracting such a
// helper (or hoisting a closure) does not change any rendering.
func (e *emitter) inlineExprCall(call *ast.CallExpr, d int) (string, bool) {
	if e.inlineDepth >= 4 || d > 10 {
		return "", false
	}
	// local closure
	if v := e.fi.varOf(call.Fun); v != nil {
		if sd := e.fi.singleDef(v); sd != nil && sd.idx < 0 {
			if lit, ok := ast.Unparen(sd.rhs).(*ast.FuncLit); ok && len(lit.Body.List) == 1 {
				if ret, ok := lit.Body.List[0].(*ast.ReturnStmt); ok && len(ret.Results) == 1 {
					var syms []string
					for _, a := range call.Args {
						syms = append(syms, e.symd(a, d+1))
					}
					type sv struct {
						v   *types.Var
						old string
						had bool
					}
					var saved []sv
					i := 0
					for _, f := range lit.Type.Params.List {
						for _, n := range f.Names {
							if pv, ok := e.fi.Info.Defs[n].(*types.Var); ok && i < len(syms) {
								old, had := e.names[pv]
								saved = append(saved, sv{pv, old, had})
								e.names[pv] = syms[i]
							}
							i++
						}
					}
					e.inlineDepth++
					r := e.symd(ret.Results[0], d+1)
					e.inlineDepth--
					for _, sx := range saved {
						if sx.had {
							e.names[sx.v] = sx.old
						} else {
							delete(e.names, sx.v)
						}
					}
					return r, true
				}
			}
		}
	}
	cf := e.c.FnOf(e.fi.callee(call))
	if cf == nil || cf.Obj.Exported() || emitRoots[cf.Name] || e.inlining[cf] || cf.Decl.Body == nil || len(cf.Decl.Body.List) != 1 {
		return "", false
	}
	ret, ok := cf.Decl.Body.List[0].(*ast.ReturnStmt)
	if !ok || len(ret.Results) != 1 {
		return "", false
	}
	undo := e.bind(cf, call)
	if e.inlining == nil {
		e.inlining = map[*FuncInfo]bool{}
	}
	e.inlining[cf] = true
	e.inlineDepth++
	r := e.symd(ret.Results[0], d+1)
	e.inlineDepth--
	delete(e.inlining, cf)
	undo()
	return r, true
}

// predTree expands `if helper(args) { th } else { el }` for a boolean helper
// whose body is made of local definitions, if statements, a type switch and
// returns: the result is the helper's own decision tree with th / el at its
// leaves (a `return true` leaf is th, `return false` is el, `return e` decides
// on e). ok is false when the body has another shape.
func (e *emitter) predTree(cf *FuncInfo, call *ast.CallExpr, th, el []emNode) ([]emNode, bool) {
	undo := e.bind(cf, call)
	defer undo()
	ast.Inspect(cf.Decl.Body, func(n ast.Node) bool {
		if ts, ok := n.(*ast.TypeSwitchStmt); ok {
			subj := typeSwitchSubject(ts)
			for _, st := range ts.Body.List {
				if o := cf.Info.Implicits[st]; o != nil {
					e.implicit[o] = subj
				}
			}
		}
		return true
	})
	if e.inlining == nil {
		e.inlining = map[*FuncInfo]bool{}
	}
	e.inlining[cf] = true
	e.inlineDepth++
	defer func() {
		e.inlineDepth--
		delete(e.inlining, cf)
	}()
	return e.predList(cf.Decl.Body.List, th, el, 0)
}

func (e *emitter) predList(list []ast.Stmt, th, el []emNode, depth int) ([]emNode, bool) {
	if len(list) == 0 || depth > 12 {
		return nil, false
	}
	rest := list[1:]
	join := func(a []ast.Stmt) []ast.Stmt { return append(append([]ast.Stmt{}, a...), rest...) }
	switch s := list[0].(type) {
	case *ast.ReturnStmt:
		if len(s.Results) != 1 {
			return nil, false
		}
		if id, ok := ast.Unparen(s.Results[0]).(*ast.Ident); ok && e.fi.Info.Uses[id] != nil && e.fi.Info.Uses[id].Pkg() == nil {
			switch id.Name {
			case "true":
				return cloneNodes(th), true
			case "false":
				return cloneNodes(el), true
			}
		}
		return e.altFor(s.Results[0], cloneNodes(th), cloneNodes(el)), true
	case *ast.AssignStmt:
		if s.Tok != token.DEFINE {
			return nil, false
		}
		return e.predList(rest, th, el, depth+1)
	case *ast.DeclStmt, *ast.EmptyStmt:
		return e.predList(rest, th, el, depth+1)
	case *ast.IfStmt:
		if s.Init != nil {
			if as, ok := s.Init.(*ast.AssignStmt); !ok || as.Tok != token.DEFINE {
				return nil, false
			}
		}
		thenT, ok := e.predList(join(s.Body.List), th, el, depth+1)
		if !ok {
			return nil, false
		}
		var elseList []ast.Stmt
		switch x := s.Else.(type) {
		case *ast.BlockStmt:
			elseList = join(x.List)
		case *ast.IfStmt:
			elseList = join([]ast.Stmt{x})
		default:
			elseList = rest
		}
		elseT, ok := e.predList(elseList, th, el, depth+1)
		if !ok {
			return nil, false
		}
		return e.altFor(s.Cond, thenT, elseT), true
	case *ast.TypeSwitchStmt:
		subj := e.sym(typeSwitchSubject(s))
		type cl struct {
			cond string
			body []emNode
		}
		var cls []cl
		var dflt []emNode
		hasDefault := false
		for _, st := range s.Body.List {
			cc := st.(*ast.CaseClause)
			body, ok := e.predList(join(cc.Body), th, el, depth+1)
			if !ok {
				return nil, false
			}
			if cc.List == nil {
				dflt, hasDefault = body, true
				continue
			}
			var parts []string
			for _, x := range cc.List {
				parts = append(parts, types.ExprString(x))
			}
			cls = append(cls, cl{subj + ".(type)∈{" + strings.Join(parts, ",") + "}", body})
		}
		if !hasDefault {
			d, ok := e.predList(rest, th, el, depth+1)
			if !ok {
				return nil, false
			}
			dflt = d
		}
		out := dflt
		for i := len(cls) - 1; i >= 0; i-- {
			if len(cls[i].body) == 0 && len(out) == 0 {
				continue
			}
			out = []emNode{&emAlt{cond: cls[i].cond, then: cls[i].body, els: out}}
		}
		return out, true
	}
	return nil, false
}

// flipFlags gives boolean flag locals one polarity: a local that starts false
// and is only ever set to true is replaced by its negation (starts true, set
// to false, tests swap their arms), so `first := true … if first {…; first =
// false}` and `done := false … if !done {…; done = true}` have the same trace.
func flipFlags(ns []emNode) []emNode {
	init := regexp.MustCompile(`^LOCAL ([mn]\d+):=false$`)
	flags := map[string]bool{}
	var scan func(ns []emNode)
	scan = func(ns []emNode) {
		for _, n := range ns {
			switch x := n.(type) {
			case *emEff:
				if m := init.FindStringSubmatch(x.desc); m != nil {
					flags[m[1]] = true
				}
			case *emAlt:
				scan(x.then)
				scan(x.els)
			case *emLoop:
				scan(x.body)
			}
		}
	}
	scan(ns)
	if len(flags) == 0 {
		return ns
	}
	// every other occurrence must be a bare test or an assignment of true
	uses := regexp.MustCompile(`\b[mn]\d+\b`)
	var check func(ns []emNode)
	check = func(ns []emNode) {
		for _, n := range ns {
			switch x := n.(type) {
			case *emEff:
				for _, v := range uses.FindAllString(x.desc, -1) {
					if flags[v] && x.desc != "LOCAL "+v+":=false" && x.desc != "LOCAL "+v+"=true" {
						delete(flags, v)
					}
				}
			case *emTok:
				for _, t := range x.toks {
					for _, v := range uses.FindAllString(t, -1) {
						delete(flags, v)
					}
				}
			case *emAlt:
				for _, v := range uses.FindAllString(x.cond, -1) {
					if flags[v] && x.cond != v {
						delete(flags, v)
					}
				}
				check(x.then)
				check(x.els)
			case *emLoop:
				for _, v := range uses.FindAllString(x.shape, -1) {
					delete(flags, v)
				}
				check(x.body)
			}
		}
	}
	check(ns)
	var flip func(ns []emNode)
	flip = func(ns []emNode) {
		for _, n := range ns {
			switch x := n.(type) {
			case *emEff:
				for v := range flags {
					switch x.desc {
					case "LOCAL " + v + ":=false":
						x.desc = "LOCAL " + v + ":=true"
					case "LOCAL " + v + "=true":
						x.desc = "LOCAL " + v + "=false"
					}
				}
			case *emAlt:
				if flags[x.cond] {
					x.then, x.els = x.els, x.then
				}
				flip(x.then)
				flip(x.els)
			case *emLoop:
				flip(x.body)
			}
		}
	}
	flip(ns)
	return ns
}
