package main

import (
	"fmt"
	"go/ast"
	"go/constant"
	"go/token"
	"go/types"
	"strings"
)

// classifyUnordered classifies the body executed once per element of an
// unordered collection (map range body, or typeutil.Map.Iterate callback
// body). keyVars are the variables bound to the element.
//
// Classes: search (only constant results / flags), collect (appends to a
// slice — must be sorted before use), keyed (writes only into maps / typeutil
// maps), diagnostic (adds to an error collector), worklist (pushes onto a
// stack processed with a visited set), leak (anything else).
func (fi *FuncInfo) classifyUnordered(body *ast.BlockStmt) (classes map[string]bool, collected []*types.Var, leaks []string) {
	classes = map[string]bool{}
	var stmts func(list []ast.Stmt)
	isConst := func(e ast.Expr) bool {
		if tv, ok := fi.Info.Types[e]; ok && tv.Value != nil {
			return true
		}
		return fi.isNilIdent(e)
	}
	stmts = func(list []ast.Stmt) {
		for _, s := range list {
			switch s := s.(type) {
			case *ast.IfStmt:
				if s.Init != nil {
					stmts([]ast.Stmt{s.Init})
				}
				stmts(s.Body.List)
				if s.Else != nil {
					if b, ok := s.Else.(*ast.BlockStmt); ok {
						stmts(b.List)
					} else {
						stmts([]ast.Stmt{s.Else})
					}
				}
			case *ast.ReturnStmt:
				for _, res := range s.Results {
					if !isConst(res) {
						leaks = append(leaks, "returns a value that depends on the element reached first: "+exprShort(res))
					}
				}
				classes["search"] = true
			case *ast.BranchStmt:
				classes["search"] = true
			case *ast.AssignStmt:
				for i, l := range s.Lhs {
					tgt := ast.Unparen(l)
					var rhs ast.Expr
					if i < len(s.Rhs) {
						rhs = s.Rhs[i]
					} else if len(s.Rhs) == 1 {
						rhs = s.Rhs[0]
					}
					if ix, ok := tgt.(*ast.IndexExpr); ok {
						if _, isMap := fi.Info.TypeOf(ix.X).Underlying().(*types.Map); isMap {
							classes["keyed"] = true
							continue
						}
						leaks = append(leaks, "writes a slice element: "+exprShort(l))
						continue
					}
					v := fi.varOf(tgt)
					if v == nil {
						if s.Tok == token.DEFINE {
							continue
						}
						leaks = append(leaks, "writes "+exprShort(l))
						continue
					}
					if s.Tok == token.DEFINE {
						continue // iteration-local
					}
					if ap := fi.isBuiltin(rhs, "append"); ap != nil && fi.varOf(ap.Args[0]) == v {
						classes["collect"] = true
						collected = append(collected, v)
						continue
					}
					if rhs != nil && isConst(rhs) {
						classes["search"] = true // idempotent flag
						continue
					}
					leaks = append(leaks, "assigns "+exprShort(l)+" = "+exprShort(rhs)+" (last-writer-wins depends on order)")
				}
			case *ast.ExprStmt:
				call, ok := s.X.(*ast.CallExpr)
				if !ok {
					leaks = append(leaks, "expression statement "+exprShort(s.X))
					continue
				}
				switch n := fi.calleeName(call); {
				case n == fnMapSet:
					classes["keyed"] = true
				case n == fnECAdd:
					classes["diagnostic"] = true
				case emitPrims[n] || n == "fmt.Fprintf" || strings.HasPrefix(n, "bytes.Buffer.Write") || strings.HasPrefix(n, "fmt.Print"):
					leaks = append(leaks, "writes output inside the unordered iteration: "+n)
				default:
					leaks = append(leaks, "calls "+n+" per element")
				}
			case *ast.DeclStmt, *ast.EmptyStmt:
			case *ast.SwitchStmt:
				for _, cc := range s.Body.List {
					stmts(cc.(*ast.CaseClause).Body)
				}
			case *ast.TypeSwitchStmt:
				for _, cc := range s.Body.List {
					body := cc.(*ast.CaseClause).Body
					// a default that panics is an exhaustiveness assertion, not an effect
					if len(body) == 1 && stmtTerminates(body[0]) {
						if _, isExpr := body[0].(*ast.ExprStmt); isExpr {
							continue
						}
					}
					stmts(body)
				}
			default:
				leaks = append(leaks, "statement of kind "+strings.TrimPrefix(typeName(s), "*ast."))
			}
		}
	}
	stmts(body.List)
	return
}

func typeName(x interface{}) string {
	switch x.(type) {
	case *ast.ForStmt:
		return "*ast.ForStmt"
	case *ast.RangeStmt:
		return "*ast.RangeStmt"
	case *ast.SwitchStmt:
		return "*ast.SwitchStmt"
	case *ast.TypeSwitchStmt:
		return "*ast.TypeSwitchStmt"
	case *ast.GoStmt:
		return "*ast.GoStmt"
	case *ast.DeferStmt:
		return "*ast.DeferStmt"
	}
	return "*ast.Stmt"
}

// sortedBeforeUse: after node `after`, the first statement of the same block
// that mentions v is a sort.* call on it.
func (fi *FuncInfo) sortedBeforeUse(v *types.Var, after ast.Stmt) bool {
	var list []ast.Stmt
	switch p := fi.parent[after].(type) {
	case *ast.BlockStmt:
		list = p.List
	case *ast.CaseClause:
		list = p.Body
	}
	seen := false
	for _, s := range list {
		if s == after {
			seen = true
			continue
		}
		if !seen {
			continue
		}
		mentions := false
		ast.Inspect(s, func(n ast.Node) bool {
			if id, ok := n.(*ast.Ident); ok && fi.Info.Uses[id] == v {
				mentions = true
			}
			return true
		})
		if !mentions {
			continue
		}
		if es, ok := s.(*ast.ExprStmt); ok {
			if cl, ok := es.X.(*ast.CallExpr); ok {
				n := fi.calleeName(cl)
				if (n == "sort.Strings" || n == "sort.Slice" || n == "sort.SliceStable" || n == "sort.Sort" || n == "sort.Stable") && fi.varOf(cl.Args[0]) == v {
					return true
				}
			}
		}
		return false
	}
	return false
}

func init() {
	register("C16.R1", "unordered iteration never reaches the output: every range over a Go map and every typeutil.Map Iterate/Keys/Outputs use in the module is a search, a collect-then-sort, a keyed insert or a diagnostic",
		func(c *Ctx, r *R) {
			suppress := map[string]string{
				"newObjectCache/range .Imports": "worklist: the order only changes the DFS order in which the import-path → package map is filled (a keyed insert guarded by a visited test)",
			}
			n := 0
			for _, fi := range c.all {
				fi.inspect(fi.Decl.Body, func(nd ast.Node) bool {
					switch x := nd.(type) {
					case *ast.RangeStmt:
						if _, isMap := fi.Info.TypeOf(x.X).Underlying().(*types.Map); !isMap {
							return true
						}
						n++
						r.Need(fi, fi.Name)
						k := fi.Name + "/range " + exprShort(x.X)
						if f := fi.selField(x.X); f != nil {
							if _, isId := ast.Unparen(x.X).(*ast.SelectorExpr).X.(*ast.Ident); isId {
								k = fi.Name + "/range ." + f.Name() // independent of the local's name
							}
						}
						if why, ok := suppress[k]; ok {
							// still verify the claimed shape: body only pushes onto a slice
							cls, _, leaks := fi.classifyUnordered(x.Body)
							if cls["collect"] && len(leaks) == 0 {
								r.Ok(k, x.Pos(), "named suppression: %s", why)
							} else {
								r.Bad(k, x.Pos(), "suppressed site no longer has the suppressed shape: %v", leaks)
							}
							return true
						}
						cls, coll, leaks := fi.classifyUnordered(x.Body)
						if len(leaks) > 0 {
							r.Bad(k, x.Pos(), "order-leaking map iteration: %s", strings.Join(leaks, "; "))
							return true
						}
						for _, v := range coll {
							if !fi.sortedBeforeUse(v, x) {
								r.Bad(k, x.Pos(), "elements are collected into %s but it is not sorted before its next use", v.Name())
								return true
							}
						}
						var cs []string
						for cl := range cls {
							cs = append(cs, cl)
						}
						r.Ok(k, x.Pos(), "order-insensitive: %s", strings.Join(cs, "+"))
					case *ast.CallExpr:
						name := fi.calleeName(x)
						switch name {
						case fnMapIterate:
							n++
							r.Need(fi, fi.Name)
							k := fi.Name + "/Iterate(" + exprShort(recvOf(x)) + ")"
							lit, _ := ast.Unparen(x.Args[0]).(*ast.FuncLit)
							if lit == nil {
								r.Undecided(k, x.Pos(), "callback is not a literal")
								return true
							}
							cls, coll, leaks := fi.classifyUnordered(lit.Body)
							if len(leaks) > 0 {
								r.Bad(k, x.Pos(), "order-leaking iteration: %s", strings.Join(leaks, "; "))
								return true
							}
							for _, v := range coll {
								if !fi.sortedBeforeUse(v, fi.stmtOf(x)) {
									r.Bad(k, x.Pos(), "elements are collected into %s but it is not sorted before its next use", v.Name())
									return true
								}
							}
							var cs []string
							for cl := range cls {
								cs = append(cs, cl)
							}
							r.Ok(k, x.Pos(), "order-insensitive: %s", strings.Join(cs, "+"))
						case fnMapKeys, pathW + ".ProviderSet.Outputs":
							n++
							r.Need(fi, fi.Name)
							k := fi.Name + "/" + name[strings.LastIndex(name, ".")+1:] + "(" + exprShort(recvOf(x)) + ")"
							par := fi.parent[x]
							switch p := par.(type) {
							case *ast.ReturnStmt:
								r.Ok(k, x.Pos(), "returned to the caller (documented as unordered)")
							case *ast.AssignStmt:
								v := fi.varOf(p.Lhs[0])
								r.Check(v != nil && fi.sortedBeforeUse(v, p), k, x.Pos(), "the key slice is sorted before its next use")
							case *ast.RangeStmt:
								// ranging directly over an unordered key list: the body must be order-insensitive …
								// gather (show only) starts a DFS per key and sorts groups afterwards
								if fi.Name == "gather" {
									r.Ok(k, x.Pos(), "show only: the groups built from this iteration are named and sorted before printing (not on the generation path)")
								} else {
									_, _, leaks := fi.classifyUnordered(p.Body)
									r.Check(len(leaks) == 0, k, x.Pos(), "ranging over unordered keys: %v", leaks)
								}
							default:
								r.Undecided(k, x.Pos(), "unrecognised use of an unordered key list")
							}
						}
					}
					return true
				})
			}
			r.Floor("unordered iteration sites", n, 12)
		})

	register("C16.R2", "no run-specific sources: nothing reachable from Generate reads the clock, randomness, the environment, the working directory, host or process identity; the printer is used without source positions",
		func(c *Ctx, r *R) {
			g := r.Need(c.Fn(c.W, "Generate"), "Generate")
			if g == nil {
				return
			}
			rr := c.reach(g)
			bad := 0
			for name, refs := range rr.ext {
				if runSpecific(name) {
					for _, ref := range refs {
						bad++
						r.Bad("Generate/run-specific:"+name+"@"+ref.from.Name, ref.pos.Pos(), "%s is reachable from Generate via %s", name, rr.chain(ref.from))
					}
				}
			}
			if bad == 0 {
				r.Ok("Generate/no-run-specific-source", g.Decl.Pos(), "%d in-module functions, %d external functions referenced; none is run-specific", len(rr.in), len(rr.ext))
			}
			// printer configuration
			for fi := range rr.in {
				fi.inspect(fi.Decl.Body, func(nd ast.Node) bool {
					if sel, ok := nd.(*ast.SelectorExpr); ok && sel.Sel.Name == "SourcePos" {
						r.Bad("printer/SourcePos@"+fi.Name, sel.Pos(), "printer emits //line directives with absolute file names")
					}
					if cl, ok := nd.(*ast.CompositeLit); ok {
						if t := fi.Info.TypeOf(cl); t != nil && types.TypeString(t, nil) == "go/printer.Config" {
							r.Undecided("printer/Config@"+fi.Name, cl.Pos(), "a custom printer.Config is used; its Mode was not analysed")
						}
					}
					return true
				})
			}
			hit := false
			for _, fi := range c.all {
				if fi.Pkg == c.Cmd && !hit {
					for _, cl := range fi.callsDeep(fi.Decl.Body) {
						if runSpecific(fi.calleeName(cl)) {
							hit = true
							r.Control("run-specific detector (os.Getwd / os.Environ in cmd/wire)", true, cl.Pos())
							break
						}
					}
				}
			}
			if !hit {
				r.Control("run-specific detector (os.Getwd / os.Environ in cmd/wire)", false, 0)
			}
		})

	register("C16.R3", "base names only: a file name, position, file list, working directory or output path reaches an emission site only through filepath.Base",
		func(c *Ctx, r *R) {
			n := 0
			tainted := func(s string) bool {
				for _, t := range []string{"Fset.File(", ".Filename", "GoFiles", "CompiledGoFiles", "OutputPath", ".Position(", "$wd", ".Dir", "Fset.Position"} {
					if strings.Contains(s, t) {
						return true
					}
				}
				return false
			}
			for _, name := range emitterFuncs {
				t := traceOf(c, r, name)
				if t == nil {
					continue
				}
				walkTrace(t.nodes, nil, func(nd emNode, _ []string) {
					tk, ok := nd.(*emTok)
					if !ok {
						return
					}
					for _, x := range tk.toks {
						for _, ph := range placeholders(x) {
							if !tainted(ph) {
								continue
							}
							n++
							r.Check(strings.HasPrefix(ph, "filepath.Base(") && strings.Count(ph, "filepath.Base(") == 1 && strings.HasSuffix(ph, ")"), name+"/path-placeholder#"+itoa(n), t.fi.Decl.Pos(), "location-derived text is reduced to its base name: ⟨%s⟩", ph)
						}
					}
				})
			}
			r.Floor("location-derived placeholders", n, 2)
		})

	register("C16.R5", "results of different packages share no memory: bytes appended onto a caller-supplied slice (the header) are copied by formatting before they are stored as a package's Content",
		func(c *Ctx, r *R) {
			g := r.Need(c.Fn(c.W, "Generate"), "Generate")
			if g == nil {
				return
			}
			n := 0
			g.inspect(g.Decl.Body, func(nd ast.Node) bool {
				as, ok := nd.(*ast.AssignStmt)
				if !ok || len(as.Rhs) != 1 {
					return true
				}
				ap := g.isBuiltin(as.Rhs[0], "append")
				if ap == nil {
					return true
				}
				// first argument rooted at a parameter (shared across the package loop)
				root := ap.Args[0]
				for {
					if sel, ok := ast.Unparen(root).(*ast.SelectorExpr); ok {
						root = sel.X
						continue
					}
					break
				}
				pv := g.varOf(root)
				if pv == nil || !g.isParam(pv) || g.enclosingLoop(as) == nil {
					return true
				}
				n++
				dst := g.varOf(as.Lhs[0])
				copied := false
				for _, cl := range g.callsTo("go/format.Source") {
					if startOf(cl) >= endOf(as) && g.varOf(cl.Args[0]) == dst && g.enclosingLoop(cl) == g.enclosingLoop(as) {
						copied = true
					}
				}
				r.Check(copied, "Generate/append-onto-"+exprShort(ap.Args[0]), as.Pos(), "the slice built by appending onto the caller's %s is re-allocated by format.Source before it can be stored (otherwise packages generated in one invocation overwrite each other)", exprShort(ap.Args[0]))
				return true
			})
			r.Floor("appends onto caller-supplied slices in the package loop", n, 1)
		})

	register("C16.R4", "canonical import paths: the import table is written and read under one key, the path with any vendor prefix stripped; the marker-package test strips likewise",
		func(c *Ctx, r *R) {
			qi := r.Need(c.Fn(c.W, "gen.qualifyImport"), "gen.qualifyImport")
			if qi != nil {
				keys := map[*types.Var]int{}
				qi.inspect(qi.Decl.Body, func(nd ast.Node) bool {
					ix, ok := nd.(*ast.IndexExpr)
					if !ok {
						return true
					}
					if f := qi.selField(ix.X); f != nil && f.Name() == "imports" {
						keys[qi.varOf(ix.Index)]++
					}
					return true
				})
				r.Check(len(keys) == 1, "imports/one-key-variable", qi.Decl.Pos(), "every access to gen.imports in qualifyImport uses the same key variable (%d variables)", len(keys))
				// … holding the same value at every access: it is not assigned between the first and the last of them
				for v := range keys {
					if v == nil {
						continue
					}
					first, last := 0, 0
					qi.inspect(qi.Decl.Body, func(nd ast.Node) bool {
						if ix, ok := nd.(*ast.IndexExpr); ok {
							if f := qi.selField(ix.X); f != nil && f.Name() == "imports" && qi.varOf(ix.Index) == v {
								if o := startOf(ix); first == 0 || o < first {
									first = o
								}
								if o := startOf(ix); o > last {
									last = o
								}
							}
						}
						return true
					})
					redefined := 0
					for _, d := range qi.defs[v] {
						if d.node != nil && qi.within(d.node, qi.Decl) && startOf(d.node) > first && startOf(d.node) < last {
							redefined++
						}
					}
					r.Check(redefined == 0, "imports/key-same-value", qi.Decl.Pos(), "the key variable %s is not assigned between the lookup and the store (%d assignments)", v.Name(), redefined)
				}
				for v := range keys {
					if v == nil {
						r.Bad("imports/key-is-variable", qi.Decl.Pos(), "import table key is not a variable")
						continue
					}
					// the key is computed from the path parameter: every source is either the path itself or the
					// path sliced after the LAST occurrence of "vendor/"
					var pathParam *types.Var
					for _, f := range qi.Decl.Type.Params.List {
						for _, nm := range f.Names {
							pathParam = qi.Info.Defs[nm].(*types.Var) // the last parameter is the path
						}
					}
					var kid *ast.Ident
					ast.Inspect(qi.Decl.Body, func(nd ast.Node) bool {
						if id, ok := nd.(*ast.Ident); ok && qi.Info.Uses[id] == v && kid == nil {
							kid = id
						}
						return true
					})
					stripped, other := false, 0
					if kid != nil {
						for _, src := range qi.valueSources(kid) {
							f := src.fi
							if pv := f.varOf(f.deref(src.expr)); pv == pathParam || f.varOf(src.expr) == pathParam {
								continue
							}
							if tp := f.isCall(src.expr, "strings.TrimPrefix"); tp != nil && (f.varOf(f.deref(tp.Args[0])) == pathParam || f.varOf(tp.Args[0]) == pathParam) {
								if tv, ok := f.Info.Types[tp.Args[1]]; ok && tv.Value != nil {
									continue // a leading constant prefix cut off (which one: the decision table below)
								}
							}
							se, ok := ast.Unparen(src.expr).(*ast.SliceExpr)
							if ok && se.High == nil && f.varOf(f.deref(se.X)) == pathParam || ok && se.High == nil && f.varOf(se.X) == pathParam {
								// Low = i + len("vendor/") with i := strings.LastIndex(path, "vendor/")
								usesLast := false
								ast.Inspect(se.Low, func(nd ast.Node) bool {
									if id, ok := nd.(*ast.Ident); ok {
										if iv, ok := f.Info.Uses[id].(*types.Var); ok {
											for _, d := range f.defs[iv] {
												if d.rhs != nil && f.isCall(d.rhs, "strings.LastIndex") != nil {
													usesLast = true
												}
											}
										}
									}
									return true
								})
								if usesLast {
									stripped = true
									continue
								}
								if tv, ok := f.Info.Types[se.Low]; ok && tv.Value != nil {
									continue // a leading "vendor/" cut off by its constant length (checked by the decision table below)
								}
							}
							other++
						}
					}
					r.Check(stripped && other == 0, "imports/key-unvendored", qi.Decl.Pos(), "the key is the path, with everything up to the last vendor/ component removed when present (%d unrecognised sources)", other)
					r.Check(keys[v] >= 2, "imports/read-and-written", qi.Decl.Pos(), "the table is both read and written under that key (%d accesses)", keys[v])
				}
			}
			// both strip sites cut at a path-segment boundary: the path is sliced after the last "vendor/"
			// only when that occurrence starts the path or follows a '/'
			for _, f := range []*FuncInfo{qi, c.Fn(c.W, "isWireImport")} {
				if f == nil {
					continue
				}
				// a site is path[low:] or strings.TrimPrefix(path, "vendor/") (which cuts 7 exactly when the prefix is there)
				type site struct {
					at   ast.Expr
					low  ast.Expr // nil for TrimPrefix
					trim bool
				}
				var sites []site
				f.inspect(f.Decl.Body, func(nd ast.Node) bool {
					switch x := nd.(type) {
					case *ast.SliceExpr:
						if isString(f.Info.TypeOf(x.X)) && x.High == nil && x.Low != nil && isPathParam(f, x.X) {
							sites = append(sites, site{at: x, low: x.Low})
						}
					case *ast.CallExpr:
						if f.calleeName(x) == "strings.TrimPrefix" && len(x.Args) == 2 && isPathParam(f, x.Args[0]) {
							if tv, ok := f.Info.Types[ast.Unparen(x.Args[1])]; ok && tv.Value != nil && tv.Value.ExactString() == `"vendor/"` {
								sites = append(sites, site{at: x, trim: true})
							}
						}
					}
					return true
				})
				// decision table over the abstract inputs that matter: j = index of the last "/vendor/"
				// element (absent, at 0, further in) and whether the path starts with "vendor/"
				var rows []string
				okT := len(sites) > 0
				for _, j := range []int{-1, 0, 5} {
					for _, h := range []bool{false, true} {
						env := vendorEnv{f: f, j: j, h: h}
						cut, fired := -1, 0
						for _, st := range sites {
							strip := true
							for _, g := range f.Guards(st.at) {
								if !env.concerns(g.Expr) {
									continue // e.g. the own-package early return
								}
								if !strip {
									break // an earlier test already failed: later ones are not evaluated
								}
								v, ok := env.evalBool(g.Expr)
								if !ok {
									okT = false
									rows = append(rows, "undecided: "+exprShort(g.Expr))
									strip = false
									continue
								}
								if g.Neg {
									v = !v
								}
								strip = strip && v
							}
							if strip && st.trim {
								if h {
									fired++
									cut = len("vendor/")
								}
								continue
							}
							if strip {
								fired++
								if lo, ok := env.evalInt(st.low); ok {
									cut = lo
								} else {
									okT = false
								}
							}
						}
						want := -1
						switch {
						case j != -1:
							want = j + len("/vendor/")
						case h:
							want = len("vendor/")
						}
						if fired > 1 || cut != want {
							okT = false
						}
						rows = append(rows, fmt.Sprintf("(last /vendor/ at %d, leading vendor/: %v) → cut %d", j, h, cut))
					}
				}
				pos := f.Decl.Pos()
				if len(sites) > 0 {
					pos = sites[0].at.Pos()
				}
				r.Check(okT, f.Name+"/vendor-strip-at-last-vendor-element", pos, "everything up to the last path ELEMENT named vendor is removed (\"/vendor/\" anywhere, or a leading \"vendor/\"), nothing otherwise — decision table: %s", strings.Join(rows, "; "))
			}
			iw := r.Need(c.Fn(c.W, "isWireImport"), "isWireImport")
			if iw != nil {
				okS, okC := false, false
				iw.inspect(iw.Decl.Body, func(nd ast.Node) bool {
					if cl, ok := nd.(*ast.CallExpr); ok && iw.calleeName(cl) == "strings.LastIndex" {
						okS = true
					}
					if lit, ok := nd.(*ast.BasicLit); ok && lit.Value == `"github.com/google/wire"` {
						okC = true
					}
					return true
				})
				r.Check(okS && okC, "isWireImport/unvendored-compare", iw.Decl.Pos(), "the marker package is recognised by its canonical path after vendor stripping")
			}
			// frame prints the table key (canonical path), never importInfo-internal data
			if t := traceOf(c, r, "gen.frame"); t != nil {
				r.Check(regexpMatch(`«SORT (m\d+)» import \( ¶ LOOP\[range m\d+ as k\d+,(v\d+)\]\{ ALT\[recv\.imports\[v\d+\]\.differs\]\{ ⟨recv\.imports\[v\d+\]\.name⟩ \}\{ \} ⟨q:v\d+⟩ ¶ \}`, t.text), "frame/prints-sorted-canonical-paths", t.fi.Decl.Pos(), "imports are printed from the sorted key list, quoting the canonical path")
			}
		})
}

// placeholders extracts the ⟨…⟩ contents of a token.
func placeholders(tok string) []string {
	var out []string
	for {
		i := strings.Index(tok, "⟨")
		if i < 0 {
			return out
		}
		j := strings.Index(tok[i:], "⟩")
		if j < 0 {
			return out
		}
		s := tok[i+len("⟨") : i+j]
		s = strings.TrimPrefix(s, "q:")
		out = append(out, s)
		tok = tok[i+j+len("⟩"):]
	}
}

func isString(t types.Type) bool {
	if t == nil {
		return false
	}
	b, ok := t.Underlying().(*types.Basic)
	return ok && b.Info()&types.IsString != 0
}

func containsCallTo(f *FuncInfo, e ast.Expr, name string) bool {
	hit := false
	ast.Inspect(e, func(nd ast.Node) bool {
		if x, ok := nd.(ast.Expr); ok {
			if f.isCall(f.deref(x), name) != nil {
				hit = true
			}
		}
		return true
	})
	return hit
}

// constSym prints an expression with constants folded to their values,
// single-assignment locals replaced by their definition and string
// parameters written P.
func constSym(f *FuncInfo, e ast.Expr) string {
	e = ast.Unparen(e)
	if tv, ok := f.Info.Types[e]; ok && tv.Value != nil {
		return tv.Value.ExactString()
	}
	switch x := e.(type) {
	case *ast.Ident:
		if v := f.varOf(x); v != nil {
			if f.isParam(v) && isString(v.Type()) {
				return "P"
			}
			if d := f.deref(x); d != ast.Expr(x) {
				return constSym(f, d)
			}
		}
		return x.Name
	case *ast.BinaryExpr:
		return "(" + constSym(f, x.X) + x.Op.String() + constSym(f, x.Y) + ")"
	case *ast.UnaryExpr:
		return x.Op.String() + constSym(f, x.X)
	case *ast.IndexExpr:
		return constSym(f, x.X) + "[" + constSym(f, x.Index) + "]"
	case *ast.CallExpr:
		var as []string
		for _, a := range x.Args {
			as = append(as, constSym(f, a))
		}
		n := f.calleeName(x)
		if i := strings.LastIndex(n, "."); i >= 0 {
			n = n[i+1:]
		}
		if n == "" {
			n = types.ExprString(x.Fun)
		}
		return n + "(" + strings.Join(as, ",") + ")"
	}
	return types.ExprString(e)
}

func isPathParam(f *FuncInfo, e ast.Expr) bool {
	for k := 0; k < 4; k++ {
		e = ast.Unparen(e)
		v := f.varOf(e)
		if v == nil {
			return false
		}
		if f.isParam(v) && isString(v.Type()) {
			if d := f.deref(e); d != e {
				e = d // a linked helper's parameter, bound to the caller's argument
				continue
			}
			return true
		}
		d := f.deref(e)
		if d == e {
			return false
		}
		e = d
	}
	return false
}

// vendorEnv evaluates conditions on where a path has its vendor element under
// one abstract input: j = strings.LastIndex(path, "/vendor/") and
// h = strings.HasPrefix(path, "vendor/").
type vendorEnv struct {
	f *FuncInfo
	j int
	h bool
}

func (v vendorEnv) concerns(e ast.Expr) bool {
	hit := false
	ast.Inspect(e, func(nd ast.Node) bool {
		x, ok := nd.(ast.Expr)
		if !ok {
			return true
		}
		if v.f.isCall(v.f.deref(x), "strings.LastIndex", "strings.Index", "strings.HasPrefix", "strings.Contains", "strings.HasSuffix") != nil {
			hit = true
		}
		switch y := x.(type) {
		case *ast.IndexExpr:
			if isPathParam(v.f, y.X) {
				hit = true
			}
		case *ast.SliceExpr:
			if isPathParam(v.f, y.X) {
				hit = true
			}
		}
		return true
	})
	return hit
}

func (v vendorEnv) constStr(e ast.Expr) (string, bool) {
	if tv, ok := v.f.Info.Types[ast.Unparen(e)]; ok && tv.Value != nil && tv.Value.Kind() == constant.String {
		return constant.StringVal(tv.Value), true
	}
	return "", false
}

func (v vendorEnv) evalInt(e ast.Expr) (int, bool) {
	e = ast.Unparen(e)
	if tv, ok := v.f.Info.Types[e]; ok && tv.Value != nil {
		if n, ok := constantInt(tv.Value); ok {
			return n, true
		}
		return 0, false
	}
	switch x := e.(type) {
	case *ast.Ident:
		if d := v.f.deref(x); d != ast.Expr(x) {
			return v.evalInt(d)
		}
	case *ast.CallExpr:
		if v.f.calleeName(x) == "strings.LastIndex" && len(x.Args) == 2 && isPathParam(v.f, x.Args[0]) {
			if s, ok := v.constStr(x.Args[1]); ok && s == "/vendor/" {
				return v.j, true
			}
		}
	case *ast.BinaryExpr:
		a, ok1 := v.evalInt(x.X)
		b, ok2 := v.evalInt(x.Y)
		if ok1 && ok2 {
			switch x.Op {
			case token.ADD:
				return a + b, true
			case token.SUB:
				return a - b, true
			}
		}
	}
	return 0, false
}

func (v vendorEnv) evalBool(e ast.Expr) (bool, bool) {
	e = ast.Unparen(e)
	switch x := e.(type) {
	case *ast.Ident:
		if d := v.f.deref(x); d != ast.Expr(x) {
			return v.evalBool(d)
		}
	case *ast.UnaryExpr:
		if x.Op == token.NOT {
			b, ok := v.evalBool(x.X)
			return !b, ok
		}
	case *ast.CallExpr:
		if len(x.Args) == 2 && isPathParam(v.f, x.Args[0]) {
			s, ok := v.constStr(x.Args[1])
			switch v.f.calleeName(x) {
			case "strings.HasPrefix":
				if ok && s == "vendor/" {
					return v.h, true
				}
			case "strings.Contains":
				if ok && s == "/vendor/" {
					return v.j != -1, true
				}
			}
		}
	case *ast.BinaryExpr:
		switch x.Op {
		case token.LAND:
			a, ok := v.evalBool(x.X)
			if !ok {
				return false, false
			}
			if !a {
				return false, true
			}
			return v.evalBool(x.Y)
		case token.LOR:
			a, ok := v.evalBool(x.X)
			if !ok {
				return false, false
			}
			if a {
				return true, true
			}
			return v.evalBool(x.Y)
		case token.EQL, token.NEQ, token.LSS, token.LEQ, token.GTR, token.GEQ:
			a, ok1 := v.evalInt(x.X)
			b, ok2 := v.evalInt(x.Y)
			if ok1 && ok2 {
				switch x.Op {
				case token.EQL:
					return a == b, true
				case token.NEQ:
					return a != b, true
				case token.LSS:
					return a < b, true
				case token.LEQ:
					return a <= b, true
				case token.GTR:
					return a > b, true
				case token.GEQ:
					return a >= b, true
				}
			}
		}
	}
	return false, false
}

func constantInt(v constant.Value) (int, bool) {
	if v.Kind() != constant.Int {
		return 0, false
	}
	n, ok := constant.Int64Val(v)
	return int(n), ok
}
