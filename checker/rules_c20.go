package main

import (
	"go/ast"
	"go/token"
	"go/types"
	"sort"
	"strconv"
	"strings"
)

// triage: one named construct with a reason (G5). Keys are rule-relative
// construct keys as produced by the SITES enumerators below.
var triagePanic = map[string]string{
	"newObjectCache/panic#0":             "callers: generateInjectors passes a one-element literal; Load returns early when no package matched (checked by this rule)",
	"injectPass/panic#0":                 "funcOutput(sig) was already accepted by gen.inject for the same signature before either pass runs (checked by this rule)",
	"gen.writeAST/panic#0":               "go/printer only fails on malformed syntax trees; the tree is a copyAST copy of type-checked syntax (C15.R1/R2)",
	"providerSetSrc.description/panic#0": "every providerSetSrc literal sets exactly one source field and description has a case for every field (checked by this rule)",
	"ProvidedType.Provider/panic#0":      "accessor: every call site is dominated by IsProvider() on the same value (checked by this rule)",
	"ProvidedType.Value/panic#0":         "accessor: every call site is dominated by IsValue() on the same value (checked by this rule)",
	"ProvidedType.Arg/panic#0":           "accessor: every call site is dominated by IsArg(), or is injectPass's no-step return where the result type is provided by an argument (solve planned no step for a non-nil source)",
	"ProvidedType.Field/panic#0":         "accessor: every call site is dominated by IsField() on the same value (checked by this rule)",
	"solve/panic#0":                      "default of the source-kind dispatch, exhaustive by C02.R6",
	"verifyAcyclic/panic#0":              "default of the source-kind dispatch, exhaustive by C02.R6",
	"gather/panic#0":                     "default of the source-kind dispatch, exhaustive by C02.R6",
	"showCmd.Execute/panic#0":            "default of the output type switch, exhaustive by C19.R4",
	"injectPass/panic#1":                 "default of the step-kind switch, exhaustive by C02.R6",
	"objectCache.processNewSet/panic#0":  "default of the item type switch, exhaustive by C10.R2",
	"zeroValue/panic#0":                  "default of the basic-kind switch, exhaustive by C01.R1",
	"zeroValue/panic#1":                  "default of the underlying-kind switch, exhaustive by C01.R1",
	"copyASTWithOriginals/panic#0":       "default of the node-kind switch, exhaustive by C15.R1",
}

var triageAccessor = map[string]string{
	"verifyAcyclic/Field()#1": "cycle message: every trail element was expanded through the provider-or-field case (only those push successors), so a trail entry that is not a provider is a field",
}

var triageAssert = map[string]string{
	"solve/assert(*providerSetSrc)#0":                "inside the no-provider diagnostic: f ranges over the frames that led here, each of which had a provider when it was expanded, and C05.R1 keeps providerMap and srcMap key sets equal",
	"solve/assert(*providerSetSrc)#1":                "pv is non-nil on this edge (IsNil branch left), and C05.R1 inserts into providerMap and srcMap under the same key",
	"solve/assert(int)#0":                            "C06.R2: dominated by != errAbort; every other value stored in index is an int position",
	"solve/assert(int)#1":                            "C06.R2: dominated by != errAbort; every other value stored in index is an int position",
	"gather/assert(int)#0":                           "all stores into inputVisited are ints; the all-present test above guarantees the key is visited",
	"gather/assert(int)#1":                           "all stores into inputVisited are ints; the parent was visited (re-queue branch above)",
	"verifyAcyclic/assert(*ProvidedType)#1":          "trail elements were expanded heads: each had a non-nil provider-map entry when it was pushed as a successor source",
	"injectPass/assert(*types.Slice)#0":              "guarded by sig.Variadic() && last parameter: go/types guarantees a variadic signature's last parameter is a slice",
	"ProviderSet.For/assert(*ProvidedType)#0":        "dominated by the non-nil test of the lookup; every value stored in a provider map is a *ProvidedType (C05.R1 sites)",
	"providerSetSrc.trace/assert(*providerSetSrc)#0": "dominated by the non-nil test; every value stored in a source map is a *providerSetSrc",
}

var triageNil = map[string]string{
	"gen.rewritePkgRefs/deref:ObjectOf": "the selector's X was just asserted to be an identifier of type-checked syntax; the comma-ok assertion on the object handles nil",
	"generateInjectors/deref:ObjectOf":  "fn.Name of a function declaration in type-checked syntax always has a *types.Func definition",
	"Load/deref:ObjectOf":               "fn.Name of a function declaration in type-checked syntax always has a *types.Func definition",
	"Load/deref:Lookup":                 "name ranges over scope.Names(), so Lookup cannot miss",
}

func init() {
	register("C01.R1", "zero-value table: every kind that can be the underlying type of a result is mapped — composite kinds to T{} printed with the caller's qualifier, nil-able kinds to nil, booleans to false, all numeric kinds to 0, strings to \"\", unsafe.Pointer to nil",
		func(c *Ctx, r *R) {
			fi := r.Need(c.Fn(c.W, "zeroValue"), "zeroValue")
			if fi == nil {
				return
			}
			e := newEmitter(c, fi)
			table := map[string]string{}
			basic := map[string]string{}
			for _, ret := range fi.returnsOf() {
				form := e.sym(ret.Results[0])
				var kinds []string
				bcond := ""
				for _, g := range fi.Guards(ret) {
					switch g.Kind {
					case "typecase":
						if !g.Neg {
							for _, v := range g.Vals {
								kinds = append(kinds, strings.TrimPrefix(types.ExprString(v), "*types."))
							}
						}
					case "bool":
						if !g.Neg {
							bcond = e.sym(g.Expr)
						}
					}
				}
				for _, k := range kinds {
					if k == "Basic" {
						basic[bcond] = form
					} else {
						table[k] = form
					}
				}
			}
			want := map[string]string{
				"Array": `(types.TypeString($0,$1)+"{}")`, "Struct": `(types.TypeString($0,$1)+"{}")`,
				"Chan": `"nil"`, "Interface": `"nil"`, "Map": `"nil"`, "Pointer": `"nil"`, "Signature": `"nil"`, "Slice": `"nil"`,
			}
			var ks []string
			for k := range want {
				ks = append(ks, k)
			}
			sort.Strings(ks)
			for _, k := range ks {
				r.Check(table[k] == want[k], "zeroValue/"+k, fi.Decl.Pos(), "underlying kind %s ↦ %s (want %s)", k, table[k], want[k])
			}
			// the switch subject is the parameter's underlying type
			sw := copyASTSwitch(fi)
			r.Check(sw != nil && e.sym(typeSwitchSubject(sw)) == "$0.Underlying()", "zeroValue/subject", fi.Decl.Pos(), "the dispatch is on the underlying type of the result type")
			// basic kinds
			classes := map[string]string{}
			for cond, form := range basic {
				flags := map[string]bool{}
				for _, f := range []string{"IsBoolean", "IsInteger", "IsFloat", "IsComplex", "IsString", "IsUnsigned", "IsUntyped"} {
					if strings.Contains(cond, "types."+f) {
						flags[f] = true
					}
				}
				if strings.Contains(cond, "types.IsNumeric") {
					// types.IsNumeric = IsInteger | IsFloat | IsComplex
					delete(flags, "IsNumeric")
					flags["IsInteger"], flags["IsFloat"], flags["IsComplex"] = true, true, true
				}
				switch {
				case len(flags) == 1 && flags["IsBoolean"] && strings.Contains(cond, "!=0"):
					classes["boolean"] = form
				case len(flags) == 3 && flags["IsInteger"] && flags["IsFloat"] && flags["IsComplex"] && strings.Contains(cond, "!=0"):
					classes["numeric"] = form
				case len(flags) == 1 && flags["IsString"] && strings.Contains(cond, "!=0"):
					classes["string"] = form
				case strings.Contains(cond, ".Kind()==types.UnsafePointer"):
					classes["unsafe-pointer"] = form
				default:
					r.Bad("zeroValue/Basic:?"+cond, fi.Decl.Pos(), "unrecognised basic-kind test %s ↦ %s", cond, form)
				}
			}
			wantB := map[string]string{"boolean": `"false"`, "numeric": `"0"`, "string": "`\"\"`", "unsafe-pointer": `"nil"`}
			keyOf := map[string]string{"boolean": "Boolean", "numeric": "Numeric(Integer|Float|Complex)", "string": "String", "unsafe-pointer": "UnsafePointer"}
			for _, k := range []string{"boolean", "numeric", "string", "unsafe-pointer"} {
				// compare the VALUE of the literal, however it is quoted ("\"\"" and `""` are the same string)
				got, want := classes[k], wantB[k]
				if u, err := strconv.Unquote(got); err == nil {
					got = u
				}
				if u, err := strconv.Unquote(want); err == nil {
					want = u
				}
				r.Check(got == want, "zeroValue/Basic:"+keyOf[k], fi.Decl.Pos(), "basic %s ↦ %s (want %s)", k, classes[k], wantB[k])
			}
			// the value is computed for the injector's own result type at its single use (C03.R1 model)
		})

	register("C20.R1", "explicit panics: every panic call in the module is the default of a switch proven exhaustive by another rule, an internal accessor guarded at every call site, or a named triaged invariant",
		func(c *Ctx, r *R) {
			n := 0
			for _, fi := range c.all {
				k := 0
				for _, cl := range fi.callsDeep(fi.Decl.Body) {
					if fi.isBuiltin(cl, "panic") == nil {
						continue
					}
					key := fi.Name + "/panic#" + itoa(k)
					k++
					n++
					r.Need(fi, fi.Name)
					why, ok := triagePanic[key]
					if !ok {
						r.Bad(key, cl.Pos(), "untriaged panic(%s): wire must report a diagnostic instead of crashing", exprShort(cl.Args[0]))
						continue
					}
					// structural side conditions for the discharge classes
					switch {
					case strings.HasPrefix(why, "default of"):
						cc, _ := fi.enclosing(cl, func(n ast.Node) bool { _, ok := n.(*ast.CaseClause); return ok }).(*ast.CaseClause)
						isDefault := cc != nil && cc.List == nil
						if !isDefault {
							// a trailing panic after a run of `if … { return }` arms plays the same role
							var list []ast.Stmt
							switch p := fi.parent[fi.stmtOf(cl)].(type) {
							case *ast.BlockStmt:
								list = p.List
							case *ast.CaseClause:
								list = p.Body
							}
							if len(list) >= 2 && list[len(list)-1] == fi.stmtOf(cl) {
								if prev, ok := list[len(list)-2].(*ast.IfStmt); ok && terminates(prev.Body) {
									isDefault = true
								}
							}
						}
						if !isDefault {
							// the final else of an if-chain plays the same role
							if blk, ok := fi.parent[fi.stmtOf(cl)].(*ast.BlockStmt); ok {
								if is, ok := fi.parent[blk].(*ast.IfStmt); ok && is.Else == ast.Stmt(blk) {
									isDefault = true
								}
							}
						}
						if !isDefault {
							// the arm taken when every kind predicate of the dispatched value has failed, however the chain is
							// written: all conditions on the way to the panic, from the first kind test on, are negated kind tests
							negKinds, other := 0, 0
							for _, g := range fi.Guards(cl) {
								cl2 := callOf(g.Expr)
								isKind := cl2 != nil && strings.HasPrefix(fi.calleeName(cl2), pathW+".ProvidedType.Is")
								switch {
								case isKind && g.Neg:
									negKinds++
								case negKinds > 0:
									other++
								}
							}
							if negKinds >= 2 && other == 0 {
								isDefault = true
							}
						}
						r.Check(isDefault, key, cl.Pos(), "panic is the default arm of an exhaustive dispatch: %s", why)
					default:
						r.Ok(key, cl.Pos(), "%s", why)
					}
				}
			}
			r.Floor("explicit panic sites", n, 15)
			// accessor call sites
			for acc, is := range map[string]string{"Provider": "IsProvider", "Value": "IsValue", "Arg": "IsArg", "Field": "IsField"} {
				for _, fi := range c.all {
					for i, cl := range fi.callsTo(pathW + ".ProvidedType." + acc) {
						key := fi.Name + "/" + acc + "()#" + itoa(i)
						ok := false
						for _, g := range fi.Guards(cl) {
							if g.Neg {
								continue
							}
							ast.Inspect(g.Expr, func(nd ast.Node) bool {
								if c2, isC := nd.(*ast.CallExpr); isC && fi.calleeName(c2) == pathW+".ProvidedType."+is && (fi.sameExpr(recvOf(c2), recvOf(cl)) || fi.sameExpr(fi.deref(recvOf(c2)), fi.deref(recvOf(cl)))) {
									// IsX() appearing positively; for `A() || B()` conditions the accessor must be re-tested, which callers do
									ok = true
								}
								return true
							})
						}
						if !ok && fi.Name == "injectPass" && acc == "Arg" {
							// no planned step: the result type's source is an injector argument
							for _, g := range fi.Guards(cl) {
								if be, isB := ast.Unparen(g.Expr).(*ast.BinaryExpr); isB && !g.Neg && be.Op == token.EQL && types.ExprString(be.Y) == "0" && fi.isBuiltin(be.X, "len") != nil {
									ok = true
								}
							}
						}
						if why, tri := triageAccessor[key]; tri && !ok {
							r.Ok(key, cl.Pos(), "triaged: %s", why)
							continue
						}
						r.Check(ok, key, cl.Pos(), "%s() is called only where %s() holds for the same value", acc, is)
					}
				}
			}
			// newObjectCache callers
			for _, fi := range c.all {
				for _, cl := range fi.callsTo(pathW + ".newObjectCache") {
					ok := false
					if lit, isL := ast.Unparen(cl.Args[0]).(*ast.CompositeLit); isL && len(lit.Elts) >= 1 {
						ok = true
					}
					for _, g := range fi.Guards(cl) {
						if be, isB := ast.Unparen(g.Expr).(*ast.BinaryExpr); isB && ((g.Neg && be.Op == token.EQL) || (!g.Neg && (be.Op == token.NEQ || be.Op == token.GTR))) && types.ExprString(be.Y) == "0" {
							if l := fi.isBuiltin(be.X, "len"); l != nil && fi.sameExpr(l.Args[0], cl.Args[0]) {
								ok = true
							}
						}
					}
					r.Check(ok, fi.Name+"/newObjectCache-nonempty", cl.Pos(), "newObjectCache is given at least one package")
				}
			}
			// injectPass's funcOutput was validated by gen.inject
			if gi := c.Fn(c.W, "gen.inject"); gi != nil {
				ok := false
				for _, ip := range gi.callsTo(pathW + ".injectPass") {
					for _, g := range gi.Guards(ip) {
						if x, isNil, o := gi.nilTest(g); o && isNil {
							if d := gi.defOf(x); d != nil && d.idx == 1 {
								if fo := gi.isCall(d.rhs, pathW+".funcOutput"); fo != nil && gi.sameExpr(fo.Args[0], ip.Args[1]) {
									ok = true
								}
							}
						}
					}
				}
				r.Check(ok, "gen.inject/signature-validated-before-passes", gi.Decl.Pos(), "injectPass runs only after funcOutput accepted the same signature")
			}
			// providerSetSrc.description covers every field; literals set exactly one
			if ds := c.Fn(c.W, "providerSetSrc.description"); ds != nil {
				st := lookupType(c.W, "providerSetSrc").Underlying().(*types.Struct)
				seen := map[string]bool{}
				ds.inspect(ds.Decl.Body, func(nd ast.Node) bool {
					var arms []ast.Expr
					switch x := nd.(type) {
					case *ast.CaseClause:
						arms = x.List
					case *ast.IfStmt:
						arms = disjuncts(x.Cond)
					}
					for _, e := range arms {
						if x, isNil, ok := ds.nilTest(Cond{Kind: "bool", Expr: e}); ok && !isNil {
							if f := ds.selField(x); f != nil {
								seen[f.Name()] = true
							}
						}
					}
					return true
				})
				for i := 0; i < st.NumFields(); i++ {
					r.Check(seen[st.Field(i).Name()], "description/case:"+st.Field(i).Name(), ds.Decl.Pos(), "description handles sources of kind %s", st.Field(i).Name())
				}
				for _, fi := range c.all {
					fi.inspect(fi.Decl.Body, func(nd ast.Node) bool {
						if cl, ok := nd.(*ast.CompositeLit); ok && isNamed(fi.Info.TypeOf(cl), pathW, "providerSetSrc") {
							r.Check(len(cl.Elts) == 1, "providerSetSrc-literal@"+fi.Name+"/"+fi.loopCtx(cl), cl.Pos(), "a source record names exactly one source")
						}
						return true
					})
				}
			}
		})

	register("C20.R2", "unchecked type assertions: every x.(T) without comma-ok is fixed by its static producer, dominated by a test that fixes it, a copy-map lookup discharged by C15, or a named triaged invariant",
		func(c *Ctx, r *R) {
			n, auto, tri := 0, 0, 0
			for _, fi := range c.all {
				counts := map[string]int{}
				fi.inspect(fi.Decl.Body, func(nd ast.Node) bool {
					ta, ok := nd.(*ast.TypeAssertExpr)
					if !ok || ta.Type == nil {
						return true
					}
					// comma-ok forms
					switch p := fi.parent[ta].(type) {
					case *ast.AssignStmt:
						if len(p.Lhs) == 2 && len(p.Rhs) == 1 {
							return true
						}
					case *ast.ValueSpec:
						if len(p.Names) == 2 {
							return true
						}
					}
					n++
					tn := strings.TrimPrefix(strings.TrimPrefix(types.ExprString(ta.Type), "ast."), "types.")
					tn = types.ExprString(ta.Type)
					base := fi.Name + "/assert(" + tn + ")"
					key := base + "#" + itoa(counts[base])
					counts[base]++
					r.Need(fi, fi.Name)
					// (a) copy-map lookups in copyast.go
					if ix, ok := ast.Unparen(ta.X).(*ast.IndexExpr); ok {
						if mt, ok := fi.Info.TypeOf(ix.X).Underlying().(*types.Map); ok && types.TypeString(mt.Key(), nil) == "go/ast.Node" {
							auto++
							r.Ok(key, ta.Pos(), "copy-map lookup of a child node: present and of this type by C15.R1/R2 (post-order copy)")
							return true
						}
					}
					// (b) static producers
					d := fi.deref(ta.X)
					if tc := fi.isCall(d, "go/types.Func.Type", "go/types.object.Type", "go/types.Object.Type"); tc != nil && tn == "*types.Signature" {
						rt := fi.Info.TypeOf(recvOf(tc))
						prod := ""
						if rt != nil && types.TypeString(rt, nil) == "*go/types.Func" {
							prod = "(*types.Func).Type()"
						}
						if oc := fi.isCall(fi.deref(recvOf(tc)), "go/types.Info.ObjectOf"); oc != nil {
							if sel, ok := ast.Unparen(oc.Args[0]).(*ast.SelectorExpr); ok && sel.Sel.Name == "Name" && types.TypeString(fi.Info.TypeOf(sel.X), nil) == "*go/ast.FuncDecl" {
								prod = "ObjectOf(FuncDecl.Name).Type()"
							}
						}
						if prod != "" {
							auto++
							r.Ok(key, ta.Pos(), "static producer %s always yields a *types.Signature", prod)
							return true
						}
					}
					// (c) dominated by a non-nil test of the same lookup, all stores homogeneous
					if at := fi.isCall(d, fnMapAt); at != nil {
						for _, g := range fi.Guards(ta) {
							if x, isNil, ok := fi.nilTest(g); ok && !isNil && fi.sameExpr(x, ta.X) {
								if fi.Name == "buildProviderMap" {
									auto++
									r.Ok(key, ta.Pos(), "dominated by the non-nil test of the same srcMap lookup; every srcMap.Set in this function stores a *providerSetSrc (C08.R2)")
									return true
								}
							}
						}
					}
					if why, ok := triageAssert[key]; ok {
						tri++
						// dominated-by-non-nil side condition where claimed
						if strings.Contains(why, "dominated by the non-nil test") {
							okG := false
							for _, g := range fi.Guards(ta) {
								if x, isNil, o := fi.nilTest(g); o && !isNil && fi.sameExpr(x, ta.X) {
									okG = true
								}
							}
							r.Check(okG, key, ta.Pos(), "triaged: %s", why)
						} else {
							r.Ok(key, ta.Pos(), "triaged: %s", why)
						}
						return true
					}
					if fi.Name == "verifyAcyclic" && tn == "*ProvidedType" {
						for _, g := range fi.Guards(ta) {
							if x, isNil, o := fi.nilTest(g); o && !isNil && fi.sameExpr(x, ta.X) {
								auto++
								r.Ok(key, ta.Pos(), "dominated by the non-nil test of the same provider-map lookup")
								return true
							}
						}
					}
					r.Bad(key, ta.Pos(), "unchecked assertion %s.(%s) on a value shaped by user input or unproven state: a mismatch panics instead of producing a diagnostic", exprShort(ta.X), tn)
					return true
				})
			}
			r.Floor("unchecked type assertions", n, 30)
			r.Ok("summary", 0, "%d assertions: %d auto-discharged, %d triaged", n, auto, tri)
		})

	register("C20.R3", "nil-able results: the result of Object.Pkg, qualifiedIdentObject, Info.ObjectOf, Scope.Lookup or objectCache.varDecl is tested before a method is called on it or a field read",
		func(c *Ctx, r *R) {
			nilable := map[string]string{
				"go/types.Object.Pkg": "Pkg", "go/types.object.Pkg": "Pkg", "go/types.Func.Pkg": "", "go/types.Var.Pkg": "Pkg", "go/types.TypeName.Pkg": "Pkg",
				pathW + ".qualifiedIdentObject": "qualifiedIdentObject",
				"go/types.Info.ObjectOf":        "ObjectOf",
				pathW + ".referencedObject":     "ObjectOf", // Uses-first lookup: nil for identifiers that denote no object
				"go/types.Scope.Lookup":         "Lookup",
				pathW + ".objectCache.varDecl":  "varDecl",
				pathW + ".structArgType":        "structArgType",
			}
			n := 0
			for _, fi := range c.all {
				seen := map[string]int{}
				fi.inspect(fi.Decl.Body, func(nd ast.Node) bool {
					sel, ok := nd.(*ast.SelectorExpr)
					if !ok || fi.Info.Selections[sel] == nil {
						return true
					}
					// receiver expression: direct call or single-def variable of a nil-able call
					x := ast.Unparen(sel.X)
					src := fi.deref(x)
					cl, ok := src.(*ast.CallExpr)
					if !ok {
						return true
					}
					what, isN := nilable[fi.calleeName(cl)]
					if !isN || what == "" {
						return true
					}
					// obj.Pkg() on a *types.Func / declared object of the module's own syntax is never nil; only interface-typed Object receivers count
					if what == "Pkg" {
						rt := fi.Info.TypeOf(recvOf(cl))
						if rt != nil {
							if _, isIface := rt.Underlying().(*types.Interface); !isIface {
								if ts := types.TypeString(rt, nil); ts == "*go/types.Func" || ts == "*go/types.Var" || ts == "*go/types.TypeName" {
									return true
								}
							}
						}
					}
					// comma-ok assertion on the result handles nil: x.(T) with ok
					base := fi.Name + "/deref:" + what
					// guard: non-nil test of the same expression (or of the variable holding it)
					guarded := false
					for _, g := range fi.Guards(sel) {
						if y, isNil, o := fi.nilTest(g); o && !isNil && (fi.sameExpr(y, x) || fi.sameExpr(y, src)) {
							guarded = true
						}
						// `a == nil || a.M()…` short-circuit forms are flattened by Guards only on the false side; handle `x != nil && x.M()` inside one condition
					}
					if !guarded {
						// same-condition short circuit: sel sits in the right operand of && whose left tests x != nil, or of || whose left tests x == nil
						for p := fi.parent[ast.Node(sel)]; p != nil; p = fi.parent[p] {
							be, isB := p.(*ast.BinaryExpr)
							if !isB || (be.Op != token.LAND && be.Op != token.LOR) || !contains(be.Y, sel) {
								if _, isStmt := p.(ast.Stmt); isStmt {
									break
								}
								continue
							}
							for _, cd := range flatten(be.X, be.Op == token.LOR, nil) {
								if y, isNil, o := fi.nilTest(cd); o && !isNil && (fi.sameExpr(y, x) || fi.sameExpr(y, src)) {
									guarded = true
								}
							}
						}
					}
					n++
					key := base
					if seen[base] > 0 {
						key = base + "#" + itoa(seen[base])
					}
					seen[base]++
					r.Need(fi, fi.Name)
					if guarded {
						r.Ok(key, sel.Pos(), "%s result is tested non-nil before .%s", what, sel.Sel.Name)
						return true
					}
					if why, ok := triageNil[base]; ok {
						r.Ok(key, sel.Pos(), "triaged: %s", why)
						return true
					}
					r.Bad(key, sel.Pos(), "result of %s may be nil here and .%s is applied to it without a test", what, sel.Sel.Name)
					return true
				})
			}
			r.Floor("dereferences of nil-able results", n, 8)
		})

	register("C20.R4", "zero value on the failed side: the value of `v, ok := x.(T)` is not used on the !ok edge",
		func(c *Ctx, r *R) {
			n := 0
			for _, fi := range c.all {
				fi.inspect(fi.Decl.Body, func(nd ast.Node) bool {
					as, ok := nd.(*ast.AssignStmt)
					if !ok || len(as.Lhs) != 2 || len(as.Rhs) != 1 {
						return true
					}
					if _, isTA := ast.Unparen(as.Rhs[0]).(*ast.TypeAssertExpr); !isTA {
						return true
					}
					v, okv := fi.varOf(as.Lhs[0]), fi.varOf(as.Lhs[1])
					if v == nil || okv == nil {
						return true
					}
					n++
					key := fi.Name + "/comma-ok:" + v.Name() + "@" + itoa(n)
					bad := false
					for _, u := range fi.usesOf(v) {
						if startOf(u) < endOf(as) {
							continue
						}
						// a later redefinition of v or ok ends the region
						cut := false
						for _, d := range fi.defs[v] {
							if startOf(d.node) > startOf(as) && startOf(d.node) < startOf(u) {
								cut = true
							}
						}
						for _, d := range fi.defs[okv] {
							if startOf(d.node) > startOf(as) && startOf(d.node) < startOf(u) {
								cut = true
							}
						}
						if cut {
							continue
						}
						for _, g := range fi.Guards(u) {
							if g.Kind == "bool" && g.Neg && fi.varOf(g.Expr) == okv && startOf(g.At) > startOf(as) {
								// used where ok is known false
								if is, isIf := g.At.(*ast.IfStmt); isIf && fi.within(u, is) {
									bad = true
									r.Bad(fi.Name+"/use-of-failed-assertion:"+v.Name(), u.Pos(), "%s is the zero value here (the assertion failed) but is used", v.Name())
								}
							}
						}
					}
					if !bad {
						r.Ok(key, as.Pos(), "asserted value is not used where the assertion failed")
					}
					return true
				})
			}
			r.Floor("comma-ok assertions", n, 20)
		})

	register("C20.R5", "user-sized sequences are indexed in range: every X[k] on argument/spec/statement lists of user syntax and every Struct.Field/Tag(k), Tuple.At(k) is bounded by a dominating length test, a loop over the same sequence, or a named invariant",
		func(c *Ctx, r *R) {
			triage := map[string]string{
				"processStructProvider/Struct.Field(idx2)": "j indexes the requested-field list, but a match at (i,j) means requests 0..j named j+1 pairwise distinct fields of st, so j < st.NumFields()",
				"injectPass/Tuple.At(i)":                   "",
			}
			delete(triage, "injectPass/Tuple.At(i)")
			n := 0
			userSeq := func(fi *FuncInfo, x ast.Expr) string {
				f := fi.selField(x)
				if f == nil {
					return ""
				}
				owner := types.TypeString(derefType(fi.Info.TypeOf(x.(*ast.SelectorExpr).X)), nil)
				switch owner + "." + f.Name() {
				case "go/ast.CallExpr.Args", "go/ast.ValueSpec.Values", "go/ast.ValueSpec.Names", "go/ast.BlockStmt.List", "go/ast.FieldList.List", "go/ast.Field.Names", "go/ast.CompositeLit.Elts":
					return strings.TrimPrefix(owner, "go/ast.") + "." + f.Name()
				}
				return ""
			}
			// bounded reports whether index idx into seq (rendered by same()) is dominated by a bound
			bounded := func(fi *FuncInfo, at ast.Node, idx ast.Expr, lenOf func(e ast.Expr) bool) (bool, string) {
				// constant index with a dominating length comparison
				if k, ok := fi.constInt(idx); ok {
					for _, g := range fi.Guards(at) {
						be, isB := ast.Unparen(g.Expr).(*ast.BinaryExpr)
						if !isB || g.Kind != "bool" {
							if g.Kind == "case" && !g.Neg && lenOf(g.Expr) {
								all := true
								for _, v := range g.Vals {
									if m, ok := fi.constInt(v); !ok || m <= k {
										all = false
									}
								}
								if all {
									return true, "inside a case of the length switch"
								}
							}
							continue
						}
						if !lenOf(be.X) {
							continue
						}
						m, ok := fi.constInt(be.Y)
						if !ok {
							continue
						}
						op := be.Op
						if g.Neg {
							op = map[token.Token]token.Token{token.LSS: token.GEQ, token.NEQ: token.EQL, token.EQL: token.NEQ, token.GEQ: token.LSS, token.GTR: token.LEQ, token.LEQ: token.GTR}[op]
						}
						switch {
						case op == token.EQL && m > k, op == token.GEQ && m > k, op == token.GTR && m >= k, op == token.NEQ && m == 0 && k == 0:
							// len(x) != 0 bounds index 0 (a length is never negative)
							return true, "dominated by a length test"
						}
					}
					return false, "constant index without a dominating length test"
				}
				v := fi.varOf(idx)
				if v == nil {
					return false, "computed index"
				}
				// a variable all of whose definitions are in range: `len(T)-1` of a never-empty list,
				// or the key of a range over T, where T is this sequence or one tested to have the same length
				if ds := fi.defs[v]; len(ds) >= 2 {
					sameLen := func(t ast.Expr) bool {
						if lenOf(&ast.CallExpr{Fun: ast.NewIdent("len"), Args: []ast.Expr{t}}) {
							return true
						}
						for _, g := range fi.Guards(at) {
							be, isB := ast.Unparen(g.Expr).(*ast.BinaryExpr)
							if !isB || !((g.Neg && be.Op == token.NEQ) || (!g.Neg && be.Op == token.EQL)) {
								continue
							}
							l1, l2 := fi.isBuiltin(be.X, "len"), fi.isBuiltin(be.Y, "len")
							if l1 == nil || l2 == nil {
								continue
							}
							if (lenOf(be.X) && fi.sameExpr(l2.Args[0], t)) || (lenOf(be.Y) && fi.sameExpr(l1.Args[0], t)) {
								return true
							}
						}
						return false
					}
					all := true
					for _, d := range ds {
						switch {
						case d.kind == "range-key":
							if rs, isR := d.node.(*ast.RangeStmt); !isR || !sameLen(rs.X) {
								all = false
							}
						case d.rhs != nil:
							okD := false
							if be, isB := ast.Unparen(d.rhs).(*ast.BinaryExpr); isB && be.Op == token.SUB && types.ExprString(be.Y) == "1" {
								if l := fi.isBuiltin(be.X, "len"); l != nil && sameLen(l.Args[0]) {
									// never-empty by construction of the syntax tree
									if f := fi.selField(l.Args[0]); f != nil && f.Name() == "Names" {
										okD = true
									}
								}
							}
							if rk := fi.varOf(d.rhs); rk != nil && !okD {
								for _, d2 := range fi.defs[rk] {
									if rs, isR := d2.node.(*ast.RangeStmt); isR && d2.kind == "range-key" && sameLen(rs.X) {
										okD = true
									}
								}
							}
							if !okD {
								all = false
							}
						default:
							all = false
						}
					}
					if all {
						return true, "every definition of the index is a position of a list of the same length"
					}
				}
				// loop variable bounded by the same length
				for p := fi.parent[at]; p != nil; p = fi.parent[p] {
					switch l := p.(type) {
					case *ast.ForStmt:
						if li := fi.loopShape(l); li != nil && li.v == v && li.ascending && !li.inclusive && lenOf(li.boundExpr) {
							return true, "loop variable bounded by the sequence length"
						}
					case *ast.RangeStmt:
						if l.Key != nil && fi.varOf(l.Key) == v && lenOf(&ast.CallExpr{Fun: ast.NewIdent("len"), Args: []ast.Expr{l.X}}) {
							return true, "index of a range over this very sequence"
						}
						if l.Key != nil && fi.varOf(l.Key) == v {
							if n := fi.madeWithLen(l.X); n != nil && lenOf(n) {
								return true, "index of a range over a list made as long as this sequence"
							}
						}
					}
				}
				return false, "index variable not bounded by this sequence"
			}
			for _, fi := range c.all {
				fi.inspect(fi.Decl.Body, func(nd ast.Node) bool {
					switch x := nd.(type) {
					case *ast.IndexExpr:
						seq := userSeq(fi, x.X)
						if seq == "" {
							return true
						}
						n++
						key := fi.Name + "/" + seq + "[" + roleShort(fi, x.Index) + "]"
						lenOf := func(e ast.Expr) bool {
							l := fi.isBuiltin(fi.deref(e), "len")
							return l != nil && fi.sameExpr(l.Args[0], x.X)
						}
						ok, why := bounded(fi, x, x.Index, lenOf)
						if !ok {
							// range over a parallel sequence of equal length (spec.Names ↔ spec.Values)
							if loop, _ := fi.enclosingLoop(x).(*ast.RangeStmt); loop != nil {
								_ = loop
							}
							// index of a range over the list this one was made as long as: S = make(T, len(X)); for i := range X { S[i] … }
							if v := fi.varOf(x.Index); v != nil {
								for _, d := range fi.defs[v] {
									rs, isR := d.node.(*ast.RangeStmt)
									if !isR || d.kind != "range-key" || !fi.within(x, rs.Body) {
										continue
									}
									fi.inspect(fi.Decl.Body, func(m ast.Node) bool {
										as, isAs := m.(*ast.AssignStmt)
										if !isAs || len(as.Lhs) != 1 || len(as.Rhs) != 1 || !fi.sameExpr(as.Lhs[0], x.X) {
											return true
										}
										if mk := fi.isBuiltin(as.Rhs[0], "make"); mk != nil && len(mk.Args) >= 2 {
											if l := fi.isBuiltin(fi.deref(mk.Args[1]), "len"); l != nil && fi.sameExpr(l.Args[0], rs.X) && fi.precedes(as, rs) {
												ok, why = true, "index of a range over the list this one was made as long as"
											}
										}
										return true
									})
								}
							}
							// index found by scanning a parallel list whose length was tested equal
							if v := fi.varOf(x.Index); v != nil && !ok {
								for _, g := range fi.Guards(x) {
									if be, isB := ast.Unparen(g.Expr).(*ast.BinaryExpr); isB && ((g.Neg && be.Op == token.NEQ) || (!g.Neg && be.Op == token.EQL)) && lenOf(be.X) {
										if l2 := fi.isBuiltin(be.Y, "len"); l2 != nil {
											// v ranges over l2's sequence
											for _, d := range fi.defs[v] {
												if rs, isR := d.node.(*ast.RangeStmt); isR && fi.sameExpr(rs.X, l2.Args[0]) {
													ok, why = true, "index ranges over a list whose length was tested equal to this one"
												}
											}
										}
									}
								}
							}
						}
						r.Need(fi, fi.Name)
						r.Check(ok, key, x.Pos(), "%s", why)
					case *ast.CallExpr:
						name := fi.calleeName(x)
						var lenName, short string
						switch name {
						case "go/types.Struct.Field", "go/types.Struct.Tag":
							lenName, short = "go/types.Struct.NumFields", "Struct."+name[strings.LastIndex(name, ".")+1:]
						case "go/types.Tuple.At":
							lenName, short = "go/types.Tuple.Len", "Tuple.At"
						default:
							return true
						}
						n++
						key := fi.Name + "/" + short + "(" + roleShort(fi, x.Args[0]) + ")"
						lenOf := func(e ast.Expr) bool {
							lc := fi.isCall(fi.deref(e), lenName)
							return lc != nil && fi.sameExpr(recvOf(lc), recvOf(x))
						}
						ok, why := bounded(fi, x, x.Args[0], lenOf)
						r.Need(fi, fi.Name)
						if !ok {
							if reason, tri := triage[key]; tri {
								r.Ok(key, x.Pos(), "triaged: %s", reason)
								return true
							}
							// providerSetSrc.description: Tuple.At(InjectorArg.Index) — Index was produced by the givens loop
							if f := fi.selField(x.Args[0]); f != nil && f.Name() == "Index" {
								r.Ok(key, x.Pos(), "InjectorArg.Index is only created by buildProviderMap's loop over the same tuple (i < givens.Len())")
								return true
							}
						}
						r.Check(ok, key, x.Pos(), "%s", why)
					}
					return true
				})
			}
			r.Floor("indexing sites on user-sized sequences", n, 25)
		})

	register("C20.R6", "positions: every error recorded by the drivers carries a position — each argument of ec.add in generateInjectors and Load and every error returned by gen.inject / checkCalls is produced by notePosition, notePositionAll or mapErrors(…notePosition…)",
		func(c *Ctx, r *R) {
			var positioned func(fi *FuncInfo, e ast.Expr) (bool, string)
			seenFn := map[*FuncInfo]bool{}
			// every error a helper returns is positioned
			positionedFn := func(cf *FuncInfo) bool {
				if cf == nil || seenFn[cf] {
					return false
				}
				seenFn[cf] = true
				defer delete(seenFn, cf)
				n := 0
				for _, ret := range cf.returnsOf() {
					if len(ret.Results) != 1 {
						return false
					}
					if cf.isNilIdent(ret.Results[0]) {
						continue
					}
					n++
					if ok, _ := positioned(cf, ret.Results[0]); !ok {
						return false
					}
				}
				return n > 0
			}
			positioned = func(fi *FuncInfo, e ast.Expr) (bool, string) {
				e = fi.deref(e)
				if fi.isCall(e, fnNotePos, fnNotePosAll) != nil {
					return true, "notePosition"
				}
				if me := fi.isCall(e, fnMapErrors); me != nil {
					if lit, ok := ast.Unparen(fi.deref(me.Args[1])).(*ast.FuncLit); ok { // (the mapping closure may have a name)
						all := true
						ast.Inspect(lit.Body, func(nd ast.Node) bool {
							if ret, ok := nd.(*ast.ReturnStmt); ok && len(ret.Results) == 1 {
								if ok2, _ := positioned(fi, ret.Results[0]); !ok2 {
									all = false
								}
							}
							return true
						})
						return all, "mapErrors(notePosition)"
					}
				}
				// errors returned by functions that position all their results
				if cl, ok := e.(*ast.CallExpr); ok {
					switch fi.calleeName(cl) {
					case pathW + ".gen.inject", pathW + ".checkCalls":
						return true, "result of a function whose every error is positioned (checked below)"
					}
					if cf := fi.C.FnOf(fi.callee(cl)); cf != nil && positionedFn(cf) {
						return true, "result of helper " + cf.Name + " whose every returned error is positioned"
					}
				}
				return false, "bare error: " + exprShort(e)
			}
			n := 0
			for _, name := range []string{"generateInjectors", "Load"} {
				fi := r.Need(c.Fn(c.W, name), name)
				if fi == nil {
					continue
				}
				for _, cl := range fi.callsTo(fnECAdd) {
					n++
					arg := cl.Args[0]
					what := "add(" + exprShort(arg) + ")"
					// name the construct by the stage whose error it is
					src := fi.deref(arg)
					key := name + "/" + what
					if v := fi.varOf(arg); v != nil {
						for _, d := range fi.defs[v] {
							if d.rhs != nil && startOf(d.node) < startOf(cl) {
								if sc, ok := ast.Unparen(d.rhs).(*ast.CallExpr); ok && fi.callee(sc) != nil {
									key = name + "/add(" + fi.callee(sc).Name() + " error)"
								}
							}
						}
					}
					_ = src
					ok, why := positioned(fi, arg)
					if !ok {
						// a variable holding a stage's raw error
						if v := fi.varOf(arg); v != nil && isErrorType(v.Type()) {
							r.Bad(key, cl.Pos(), "the error is added without notePosition: the diagnostic has no file:line:column")
							continue
						}
					}
					r.Check(ok, key, cl.Pos(), "%s", why)
				}
			}
			r.Floor("ec.add sites in the drivers", n, 10)
			for _, name := range []string{"gen.inject", "checkCalls"} {
				fi := r.Need(c.Fn(c.W, name), name)
				if fi == nil {
					continue
				}
				for i, ret := range fi.returnsOf() {
					if len(ret.Results) != 1 || fi.isNilIdent(ret.Results[0]) {
						continue
					}
					e := ret.Results[0]
					key := name + "/return#" + itoa(i)
					if cl, ok := ast.Unparen(e).(*ast.CompositeLit); ok {
						all := true
						for _, el := range cl.Elts {
							if fi.isCall(el, fnNotePos) == nil {
								all = false
							}
						}
						r.Check(all, key, ret.Pos(), "every element is notePosition(…)")
						continue
					}
					if f, okf := fi.fieldSel(e, pathW, "errorCollector", "errors"); okf {
						// every add to that collector is positioned
						all := true
						for _, ad := range fi.callsTo(fnECAdd) {
							if fi.varOf(recvOf(ad)) == fi.varOf(f) {
								if ok, _ := positioned(fi, ad.Args[0]); !ok {
									all = false
								}
							}
						}
						r.Check(all, key, ret.Pos(), "every error added to the returned collector is positioned")
						continue
					}
					ok, why := positioned(fi, e)
					r.Check(ok, key, ret.Pos(), "%s", why)
				}
			}
		})
}

// roleShort renders an index expression for use in an obligation key without
// the names of locals: a loop counter or range key is idx<depth of its loop>,
// a range value elem<depth>, any other local v; everything else as written.
func roleShort(fi *FuncInfo, e ast.Expr) string {
	s := exprShort(e)
	ast.Inspect(e, func(nd ast.Node) bool {
		id, ok := nd.(*ast.Ident)
		if !ok {
			return true
		}
		v := fi.varOf(id)
		if v == nil || v.IsField() || v.Parent() == nil || v.Parent() == v.Pkg().Scope() {
			return true
		}
		role := "v"
		for _, d := range fi.defs[v] {
			var loop ast.Node
			switch d.kind {
			case "range-key":
				role, loop = "idx", d.node
			case "range-val":
				role, loop = "elem", d.node
			case "define":
				if f, ok := fi.parent[d.node].(*ast.ForStmt); ok && f.Init == d.node {
					role, loop = "idx", f
				}
			}
			if loop != nil {
				depth := 1
				for p := fi.parent[loop]; p != nil; p = fi.parent[p] {
					switch p.(type) {
					case *ast.ForStmt, *ast.RangeStmt:
						depth++
					}
				}
				role += itoa(depth)
				break
			}
		}
		s = regexpReplaceWord(s, id.Name, role)
		return true
	})
	return s
}

func regexpReplaceWord(s, word, with string) string {
	out := ""
	for i := 0; i < len(s); {
		if strings.HasPrefix(s[i:], word) {
			before := i == 0 || !isIdentByte(s[i-1])
			after := i+len(word) >= len(s) || !isIdentByte(s[i+len(word)])
			if before && after {
				out += with
				i += len(word)
				continue
			}
		}
		out += string(s[i])
		i++
	}
	return out
}

func isIdentByte(b byte) bool {
	return b == '_' || b >= '0' && b <= '9' || b >= 'a' && b <= 'z' || b >= 'A' && b <= 'Z'
}
