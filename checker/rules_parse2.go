package main

import (
	"go/ast"
	"go/token"
	"go/types"
	"sort"
	"strings"
)

var caseFolders = map[string]bool{
	"strings.EqualFold": true, "strings.ToLower": true, "strings.ToUpper": true, "strings.Title": true, "strings.ToTitle": true,
	"unicode.ToLower": true, "unicode.ToUpper": true, "unicode.SimpleFold": true, "bytes.EqualFold": true,
	"golang.org/x/text/cases.Fold": true,
}

// fieldIdx matches st.Field(i) / st.Tag(i) and returns (st var, i var).
func (fi *FuncInfo) structIdxCall(e ast.Expr, method string) (*types.Var, *types.Var) {
	cl := fi.isCall(fi.deref(e), "go/types.Struct."+method)
	if cl == nil {
		return nil, nil
	}
	return fi.varOf(recvOf(cl)), fi.varOf(cl.Args[0])
}

func init() {
	register("C12.R1", "field names are matched exactly: the comparison that selects st.Field(i) in checkField is a plain == between the quoted/unquoted field name and the literal, over all fields; no case-folding function takes part",
		func(c *Ctx, r *R) {
			fi := r.Need(c.Fn(c.W, "checkField"), "checkField")
			if fi == nil {
				return
			}
			for _, cl := range fi.callsDeep(fi.Decl.Body) {
				if n := fi.calleeName(cl); caseFolders[n] {
					r.Bad("checkField/name-comparison", cl.Pos(), "%s takes part in field-name matching: names differing only in letter case are confused", n)
				}
			}
			n := 0
			for i, ret := range fi.returnsOf() {
				if len(ret.Results) != 2 || fi.isNilIdent(ret.Results[0]) {
					continue
				}
				n++
				st, iv := fi.structIdxCall(ret.Results[0], "Field")
				if st == nil || iv == nil {
					r.Undecided("checkField/success#"+itoa(i), ret.Pos(), "result is not st.Field(i)")
					continue
				}
				okCmp := false
				for _, g := range fi.Guards(ret) {
					be, ok := fi.expandLocals(g.Expr).(*ast.BinaryExpr)
					if !ok || g.Kind != "bool" || !((!g.Neg && be.Op == token.EQL) || (g.Neg && be.Op == token.NEQ)) {
						continue
					}
					side := func(e ast.Expr) string {
						s := ""
						ast.Inspect(e, func(nd ast.Node) bool {
							if cl, ok := nd.(*ast.CallExpr); ok {
								if nm := fi.isCall(cl, "go/types.Var.Name", "go/types.object.Name"); nm != nil {
									if s2, i2 := fi.structIdxCall(recvOf(nm), "Field"); s2 == st && i2 == iv {
										s = "field-name"
									}
								}
							}
							if f := fi.selField0(nd); f != nil && f.Name() == "Value" {
								s = "literal"
							}
							return true
						})
						return s
					}
					a, b := side(be.X), side(be.Y)
					if (a == "field-name" && b == "literal") || (a == "literal" && b == "field-name") {
						// both sides use only quoting/unquoting helpers
						pure := true
						for _, cl := range callsIn(be) {
							nmc := fi.calleeName(cl)
							if nmc != "strconv.Quote" && nmc != "strconv.Unquote" && !strings.HasPrefix(nmc, "go/types.") {
								pure = false
							}
						}
						okCmp = pure
					}
				}
				r.Check(okCmp, "checkField/name-comparison", ret.Pos(), "the selected field satisfies quote(st.Field(i).Name()) == literal exactly")
				// the scan covers every field
				loop, _ := fi.enclosingLoop(ret).(*ast.ForStmt)
				okLoop := false
				if loop != nil {
					if li := fi.loopShape(loop); li != nil && li.v == iv && li.ascending && !li.inclusive && li.from == "0" {
						if nf := fi.isCall(fi.deref(li.boundExpr), "go/types.Struct.NumFields"); nf != nil && fi.varOf(recvOf(nf)) == st {
							okLoop = true
						}
					}
				}
				r.Check(okLoop, "checkField/scan-all-fields", ret.Pos(), "every field index 0..NumFields()-1 is examined")
			}
			r.Floor("success returns of checkField", n, 1)
			// non-literal names are rejected
			okLit := false
			for _, ret := range fi.returnsOf() {
				if len(ret.Results) == 2 && fi.isNilIdent(ret.Results[0]) {
					for _, g := range fi.Guards(ret) {
						if g.Neg && fi.varOf(g.Expr) != nil {
							if d := fi.defs[fi.varOf(g.Expr)]; len(d) == 1 {
								if ta, ok := ast.Unparen(d[0].rhs).(*ast.TypeAssertExpr); ok && types.ExprString(ta.Type) == "*ast.BasicLit" {
									okLit = true
								}
							}
						}
					}
				}
			}
			r.Check(okLit, "checkField/non-literal-rejected", fi.Decl.Pos(), "a field name that is not a basic literal is rejected")
			// unknown names are rejected: the fall-through return is an error
			rets := fi.returnsOf()
			last := rets[len(rets)-1]
			r.Check(fi.isNilIdent(last.Results[0]) && !fi.isNilIdent(last.Results[1]) && fi.enclosingLoop(last) == nil, "checkField/unknown-rejected", last.Pos(), "when no field matches an error is returned")
			// positive control for the case-folding detector
			af := c.Fn(c.W, "allFields")
			hit := false
			if af != nil {
				for _, cl := range af.callsDeep(af.Decl.Body) {
					if caseFolders[af.calleeName(cl)] {
						hit = true
						r.Control("case-folding detector (allFields compares with \"*\", harmless)", true, cl.Pos())
					}
				}
			}
			if !hit {
				// the control is optional: the tree may legitimately have no case folding at all
				r.Ok("control:case-folding detector", 0, "no case-folding call anywhere in field handling")
			}
		})

	register("C12.R2", "the prevent tag is consulted at both entrances: a field reaches a struct provider's inputs or a field provider only past isPrevented(st.Tag(i)) for the same i; isPrevented tests the wire:\"-\" tag",
		func(c *Ctx, r *R) {
			cf := r.Need(c.Fn(c.W, "checkField"), "checkField")
			if cf != nil {
				for i, ret := range cf.returnsOf() {
					if len(ret.Results) != 2 || cf.isNilIdent(ret.Results[0]) {
						continue
					}
					st, iv := cf.structIdxCall(ret.Results[0], "Field")
					ok := false
					for _, g := range cf.Guards(ret) {
						if ip := cf.isCall(g.Expr, pathW+".isPrevented"); ip != nil && g.Neg {
							if s2, i2 := cf.structIdxCall(ip.Args[0], "Tag"); s2 == st && i2 == iv && st != nil {
								// the prevented edge returns an error
								is := g.At.(*ast.IfStmt)
								for _, root := range cf.otherEdgeRoots(is, ret) {
									for _, r2 := range cf.returnsOf() {
										if cf.within(r2, root) && cf.isNilIdent(r2.Results[0]) && !cf.isNilIdent(r2.Results[1]) {
											ok = true
										}
									}
								}
							}
						}
					}
					r.Check(ok, "checkField/prevented-rejected#"+itoa(i), ret.Pos(), "a named field is returned only when !isPrevented(st.Tag(i)); the prevented edge is an error")
				}
			}
			sp := r.Need(c.Fn(c.W, "processStructProvider"), "processStructProvider")
			if sp != nil {
				n := 0
				sp.inspect(sp.Decl.Body, func(nd ast.Node) bool {
					cl, ok := nd.(*ast.CompositeLit)
					if !ok || !isNamed(sp.Info.TypeOf(cl), pathW, "ProviderInput") {
						return true
					}
					n++
					var tv ast.Expr
					for _, el := range cl.Elts {
						if kv, ok := el.(*ast.KeyValueExpr); ok && kv.Key.(*ast.Ident).Name == "Type" {
							tv = kv.Value
						}
					}
					tc := sp.isCall(tv, "go/types.Var.Type", "go/types.object.Type")
					if tc == nil {
						r.Undecided("struct-input#"+itoa(n), cl.Pos(), "input type is not <field>.Type()")
						return true
					}
					src := recvOf(tc)
					// from checkField?
					if d := sp.defOf(src); d != nil && d.idx == 0 && sp.isCall(d.rhs, pathW+".checkField") != nil {
						r.Ok("struct-input#"+itoa(n)+"/named", cl.Pos(), "input comes from checkField (which rejects prevented fields)")
						return true
					}
					st, iv := sp.structIdxCall(src, "Field")
					ok2 := false
					for _, g := range sp.Guards(cl) {
						if ip := sp.isCall(g.Expr, pathW+".isPrevented"); ip != nil && g.Neg {
							if s2, i2 := sp.structIdxCall(ip.Args[0], "Tag"); s2 == st && i2 == iv && st != nil {
								ok2 = true
							}
						}
					}
					okLoop := false
					if loop, _ := sp.enclosingLoop(cl).(*ast.ForStmt); loop != nil {
						if li := sp.loopShape(loop); li != nil && li.v == iv && li.ascending && !li.inclusive && li.from == "0" {
							if nf := sp.isCall(sp.deref(li.boundExpr), "go/types.Struct.NumFields"); nf != nil && sp.varOf(recvOf(nf)) == st {
								okLoop = sp.loopComplete2(loop, loop.Cond) // the only exits are rejections
							}
						}
					}
					r.Check(ok2, "struct-input#"+itoa(n)+"/star-skips-prevented", cl.Pos(), "\"*\" takes st.Field(i) only when !isPrevented(st.Tag(i))")
					r.Check(okLoop, "struct-input#"+itoa(n)+"/star-all-fields", cl.Pos(), "\"*\" visits every field")
					return true
				})
				r.Floor("ProviderInput literals in processStructProvider", n, 2)
			}
			fo := r.Need(c.Fn(c.W, "processFieldsOf"), "processFieldsOf")
			if fo != nil {
				n := 0
				fo.inspect(fo.Decl.Body, func(nd ast.Node) bool {
					cl, ok := nd.(*ast.CompositeLit)
					if !ok || !isNamed(fo.Info.TypeOf(cl), pathW, "Field") {
						return true
					}
					n++
					for _, el := range cl.Elts {
						kv := el.(*ast.KeyValueExpr)
						if kv.Key.(*ast.Ident).Name != "Name" {
							continue
						}
						nc := fo.isCall(kv.Value, "go/types.Var.Name", "go/types.object.Name")
						ok2 := false
						if nc != nil {
							if d := fo.defOf(recvOf(nc)); d != nil && d.idx == 0 && fo.isCall(d.rhs, pathW+".checkField") != nil {
								ok2 = true
							}
						}
						r.Check(ok2, "field-provider#"+itoa(n)+"/via-checkField", cl.Pos(), "the selected field comes from checkField")
					}
					return true
				})
				r.Floor("Field literals in processFieldsOf", n, 1)
			}
			ip := r.Need(c.Fn(c.W, "isPrevented"), "isPrevented")
			if ip != nil {
				// one return: reflect.StructTag(<the parameter>).Get("wire") == "-" (operands in either order)
				okD := false
				if rets := ip.returnsOf(); len(rets) == 1 {
					if be, ok := ast.Unparen(rets[0].Results[0]).(*ast.BinaryExpr); ok && be.Op == token.EQL {
						l, rr := be.X, be.Y
						if tv, isC := ip.Info.Types[l]; isC && tv.Value != nil {
							l, rr = rr, l
						}
						tv, isC := ip.Info.Types[rr]
						if gc := ip.isCall(l, "reflect.StructTag.Get"); gc != nil && isC && tv.Value != nil && tv.Value.ExactString() == `"-"` {
							ktv, kc := ip.Info.Types[gc.Args[0]]
							if conv, ok := ast.Unparen(recvOf(gc)).(*ast.CallExpr); ok && len(conv.Args) == 1 && kc && ktv.Value != nil && ktv.Value.ExactString() == `"wire"` {
								if pv := ip.varOf(conv.Args[0]); pv != nil && ip.isParam(pv) {
									okD = true
								}
							}
						}
					}
				}
				r.Check(okD, "isPrevented/definition", ip.Decl.Pos(), "isPrevented(tag) is reflect.StructTag(tag).Get(\"wire\") == \"-\"")
			}
		})

	register("C12.R3", "both forms are provided: wire.Struct provides {S, *S}; wire.FieldsOf provides the field type plus a pointer to it exactly when the struct is reached through a pointer; Parent is the named struct-or-pointer type; solve takes the address exactly for the pointer form",
		func(c *Ctx, r *R) {
			sp := r.Need(c.Fn(c.W, "processStructProvider"), "processStructProvider")
			if sp != nil {
				n := 0
				sp.inspect(sp.Decl.Body, func(nd ast.Node) bool {
					cl, ok := nd.(*ast.CompositeLit)
					if !ok || !isNamed(sp.Info.TypeOf(cl), pathW, "Provider") {
						return true
					}
					n++
					for _, el := range cl.Elts {
						kv := el.(*ast.KeyValueExpr)
						switch kv.Key.(*ast.Ident).Name {
						case "Out":
							out, _ := ast.Unparen(kv.Value).(*ast.CompositeLit)
							ok2 := false
							if out != nil && len(out.Elts) == 2 {
								ec := sp.isCall(out.Elts[0], "go/types.Pointer.Elem")
								pv := sp.varOf(out.Elts[1])
								if ec != nil && pv != nil && sp.varOf(recvOf(ec)) == pv {
									if d := sp.singleDef(pv); d != nil && d.idx == 0 {
										if ta, ok := ast.Unparen(d.rhs).(*ast.TypeAssertExpr); ok && sp.argTypeOfAny(ta.X, 0) {
											ok2 = true
										}
									}
								}
							}
							r.Check(ok2, "Struct/Out", kv.Pos(), "Out = {elem of arg 0's pointer type, that pointer type}")
						case "IsStruct":
							id, _ := kv.Value.(*ast.Ident)
							r.Check(id != nil && id.Name == "true", "Struct/IsStruct", kv.Pos(), "marked as a struct provider")
						}
					}
					return true
				})
				r.Floor("Provider literal in processStructProvider", n, 1)
			}
			fo := r.Need(c.Fn(c.W, "processFieldsOf"), "processFieldsOf")
			if fo != nil {
				fo.inspect(fo.Decl.Body, func(nd ast.Node) bool {
					cl, ok := nd.(*ast.CompositeLit)
					if !ok || !isNamed(fo.Info.TypeOf(cl), pathW, "Field") {
						return true
					}
					for _, el := range cl.Elts {
						kv := el.(*ast.KeyValueExpr)
						switch kv.Key.(*ast.Ident).Name {
						case "Parent":
							ec := fo.isCall(fo.deref(kv.Value), "go/types.Pointer.Elem")
							ok2 := false
							if ec != nil {
								if d := fo.defOf(recvOf(ec)); d != nil && d.idx == 0 {
									if ta, ok := ast.Unparen(d.rhs).(*ast.TypeAssertExpr); ok && fo.argTypeOfAny(ta.X, 0) {
										ok2 = true
									}
								}
							}
							r.Check(ok2, "FieldsOf/Parent", kv.Pos(), "Parent is the element of arg 0's pointer type (S or *S as written)")
						case "Out":
							ov := fo.varOf(kv.Value)
							okDef, okApp := false, false
							var fieldVar *types.Var
							if ov != nil {
								for _, d := range fo.defs[ov] {
									switch d.kind {
									case "define":
										if l, ok := ast.Unparen(d.rhs).(*ast.CompositeLit); ok && len(l.Elts) == 1 {
											if tc := fo.isCall(l.Elts[0], "go/types.Var.Type", "go/types.object.Type"); tc != nil {
												fieldVar = fo.varOf(recvOf(tc))
												okDef = true
											}
										}
									case "assign":
										ap := fo.isBuiltin(d.rhs, "append")
										if ap == nil || len(ap.Args) != 2 || fo.varOf(ap.Args[0]) != ov {
											continue
										}
										np := fo.isCall(ap.Args[1], "go/types.NewPointer")
										if np == nil {
											continue
										}
										tc := fo.isCall(np.Args[0], "go/types.Var.Type", "go/types.object.Type")
										if tc == nil || fo.varOf(recvOf(tc)) != fieldVar {
											continue
										}
										// guarded exactly by the ptr-to-struct flag
										blk, _ := fo.parent[d.node].(*ast.BlockStmt)
										is, _ := fo.parent[blk].(*ast.IfStmt)
										if is == nil || is.Else != nil {
											continue
										}
										flag := fo.varOf(is.Cond)
										if flag == nil {
											continue
										}
										flagOK := true
										for _, fd := range fo.defs[flag] {
											id, _ := ast.Unparen(fd.rhs).(*ast.Ident)
											if fd.kind == "define" {
												flagOK = flagOK && id != nil && id.Name == "false"
											} else if fd.kind == "assign" {
												in := false
												for _, g := range fo.Guards(fd.node) {
													if g.Kind == "typecase" && !g.Neg && len(g.Vals) == 1 && types.ExprString(g.Vals[0]) == "*types.Pointer" {
														in = true
													}
													// comma-ok form: if p, isPtr := X.Underlying().(*types.Pointer); isPtr
													if g.Kind == "bool" && !g.Neg {
														if gv := fo.varOf(g.Expr); gv != nil {
															for _, gd := range fo.defs[gv] {
																if ta, ok := ast.Unparen(gd.rhs).(*ast.TypeAssertExpr); ok && gd.idx == 1 && types.ExprString(ta.Type) == "*types.Pointer" {
																	in = true
																}
															}
														}
													}
												}
												flagOK = flagOK && id != nil && id.Name == "true" && in
											} else {
												flagOK = false
											}
										}
										okApp = flagOK
									}
								}
							}
							r.Check(okDef, "FieldsOf/Out-field-type", kv.Pos(), "Out starts as {field type}")
							r.Check(okApp, "FieldsOf/Out-pointer-iff-ptr-to-struct", kv.Pos(), "a pointer to the field type is added exactly when arg 0 is a pointer to a pointer to a struct")
						}
					}
					return true
				})
			}
			// solve: ptrToField := len(f.Out) == 2 && types.Identical(curr.t, f.Out[1])
			a := findSolve(c, r)
			if a != nil {
				fi := a.fi
				found := false
				ast.Inspect(a.loop.Body, func(nd ast.Node) bool {
					kv, ok := nd.(*ast.KeyValueExpr)
					if !ok {
						return true
					}
					if id, ok := kv.Key.(*ast.Ident); !ok || id.Name != "ptrToField" {
						return true
					}
					cs := flatten(fi.deref(kv.Value), false, nil)
					lenOK, idOK := false, false
					for _, cd := range cs {
						if be, ok := ast.Unparen(cd.Expr).(*ast.BinaryExpr); ok && be.Op == token.EQL {
							if l := fi.isBuiltin(be.X, "len"); l != nil && fi.selField(l.Args[0]) != nil && fi.selField(l.Args[0]).Name() == "Out" {
								if lit, ok := be.Y.(*ast.BasicLit); ok && lit.Value == "2" {
									lenOK = true
								}
							}
						}
						if id := fi.isCall(cd.Expr, fnIdentical); id != nil {
							for i := 0; i < 2; i++ {
								if a.isCurrT(id.Args[i]) {
									if ix, ok := ast.Unparen(id.Args[1-i]).(*ast.IndexExpr); ok && fi.selField(ix.X) != nil && fi.selField(ix.X).Name() == "Out" {
										if lit, ok := ix.Index.(*ast.BasicLit); ok && lit.Value == "1" {
											idOK = true
										}
									}
								}
							}
						}
					}
					found = true
					r.Check(lenOK && idOK && len(cs) == 2, "solve/ptrToField", kv.Pos(), "address is taken iff the requested type is the field's pointer form (len(Out)==2 && Identical(curr.t, Out[1]))")
					return true
				})
				r.Check(found, "solve/ptrToField-present", a.loop.Pos(), "ptrToField is computed for field steps")
			}
		})

	register("C13.R1", "syntactic whitelist of processValue: the unconditional-accept list contains no call, unary or function-literal node; calls are accepted only as conversions, unary expressions only when not a receive; unknown node kinds are rejected; the walk is pruned only where it rejects; any rejection fails the value",
		func(c *Ctx, r *R) {
			fi := r.Need(c.Fn(c.W, "processValue"), "processValue")
			if fi == nil {
				return
			}
			allowed := map[string]bool{}
			for _, t := range []string{"ArrayType", "BasicLit", "BinaryExpr", "ChanType", "CompositeLit", "FuncType", "Ident", "IndexExpr", "IndexListExpr", "InterfaceType", "KeyValueExpr", "MapType", "ParenExpr", "SelectorExpr", "SliceExpr", "StarExpr", "StructType", "TypeAssertExpr", "Ellipsis", "Field", "FieldList", "Comment", "CommentGroup"} {
				allowed["*ast."+t] = true
			}
			var insp *ast.CallExpr
			for _, cl := range fi.callsDeep(fi.Decl.Body) {
				if fi.calleeName(cl) == "go/ast.Inspect" {
					insp = cl
				}
			}
			if insp == nil {
				r.Bad("inspect", fi.Decl.Pos(), "ast.Inspect over the value expression not found")
				return
			}
			lit, _ := ast.Unparen(insp.Args[1]).(*ast.FuncLit)
			var sw *ast.TypeSwitchStmt
			if lit != nil {
				for _, s := range lit.Body.List {
					if t, ok := s.(*ast.TypeSwitchStmt); ok {
						sw = t
					}
				}
			}
			if sw == nil {
				r.Bad("inspect/type-switch", insp.Pos(), "node-kind switch not found at the top of the callback")
				return
			}
			// the flag: a bool variable captured by the callback, initialised true outside, only ever set false inside
			var flag *types.Var
			ast.Inspect(lit.Body, func(nd ast.Node) bool {
				if as, ok := nd.(*ast.AssignStmt); ok && len(as.Lhs) == 1 && as.Tok == token.ASSIGN {
					if id, ok := ast.Unparen(as.Rhs[0]).(*ast.Ident); ok && id.Name == "false" {
						if v := fi.varOf(as.Lhs[0]); v != nil && flag == nil {
							flag = v
						}
					}
				}
				return true
			})
			if flag == nil {
				r.Bad("flag", lit.Pos(), "the callback never records a rejection")
				return
			}
			isFalse := func(e ast.Expr) bool { id, ok := ast.Unparen(e).(*ast.Ident); return ok && id.Name == "false" }
			isTrue := func(e ast.Expr) bool { id, ok := ast.Unparen(e).(*ast.Ident); return ok && id.Name == "true" }
			setsFalse := func(s ast.Stmt) bool {
				as, ok := s.(*ast.AssignStmt)
				return ok && len(as.Lhs) == 1 && fi.varOf(as.Lhs[0]) == flag && isFalse(as.Rhs[0])
			}
			// rejects(list): conditions (nil = unconditional) under which the flag is cleared
			type rej struct{ cond ast.Expr }
			rejects := func(list []ast.Stmt) []rej {
				var out []rej
				for _, s := range list {
					if setsFalse(s) {
						out = append(out, rej{nil})
					}
					if is, ok := s.(*ast.IfStmt); ok && is.Else == nil {
						for _, s2 := range is.Body.List {
							if setsFalse(s2) {
								c := is.Cond
								// `if _, isFunc := x.(T); isFunc` → the assertion is the condition
								if v := fi.varOf(c); v != nil {
									for _, d := range fi.defs[v] {
										if d.idx == 1 && d.rhs != nil {
											c = d.rhs
										}
									}
								}
								out = append(out, rej{c})
							}
						}
					}
				}
				return out
			}
			// every return of the callback: false only right after clearing the flag; otherwise true or the flag itself
			ast.Inspect(lit.Body, func(nd ast.Node) bool {
				if fl, ok := nd.(*ast.FuncLit); ok && fl != lit {
					return false
				}
				ret, ok := nd.(*ast.ReturnStmt)
				if !ok || len(ret.Results) != 1 {
					return true
				}
				switch {
				case isTrue(ret.Results[0]), fi.varOf(ret.Results[0]) == flag:
				case isFalse(ret.Results[0]):
					paired := false
					for _, s := range fi.precedingSimple(ret, fi.parent[ret]) {
						if setsFalse(s) {
							paired = true
						}
					}
					r.Check(paired, "prune-only-on-reject@"+itoa(len(r.Obs)), ret.Pos(), "the walk is pruned (return false) only immediately after recording a rejection — otherwise nested calls/receives would go unexamined")
				default:
					r.Undecided("callback-return@"+itoa(len(r.Obs)), ret.Pos(), "unrecognised callback result %s", exprShort(ret.Results[0]))
				}
				return true
			})
			lastRet, _ := lit.Body.List[len(lit.Body.List)-1].(*ast.ReturnStmt)
			okWalk := lastRet != nil && len(lastRet.Results) == 1 && (isTrue(lastRet.Results[0]) || fi.varOf(lastRet.Results[0]) == flag)
			r.Check(okWalk, "walk-continues", lit.Pos(), "accepted nodes are descended into")
			hasDefault, okCall, okUnary := false, false, false
			for _, s := range sw.Body.List {
				cc := s.(*ast.CaseClause)
				rs := rejects(cc.Body)
				if len(rs) == 0 {
					// a rejection nested more deeply still makes the case conditional
					ast.Inspect(cc, func(nd ast.Node) bool {
						if st, ok := nd.(ast.Stmt); ok && setsFalse(st) && len(rs) == 0 {
							rs = append(rs, rej{ast.NewIdent("nested")})
						}
						return true
					})
				}
				if cc.List == nil {
					hasDefault = true
					r.Check(len(rs) >= 1 && rs[0].cond == nil, "default-rejects", cc.Pos(), "unknown node kinds fail the value")
					continue
				}
				for _, e := range cc.List {
					nm := types.ExprString(e)
					if nm == "nil" {
						continue
					}
					switch {
					case len(rs) == 0:
						r.Check(allowed[nm], "accept:"+nm, cc.Pos(), "unconditionally accepted node kind %s cannot call a function, receive from a channel or run code", nm)
					case nm == "*ast.CallExpr":
						okCall = callRejection(fi, cc, setsFalse)
					case nm == "*ast.UnaryExpr":
						for _, rj := range rs {
							if be, ok := ast.Unparen(fi.orient(rj.cond)).(*ast.BinaryExpr); ok && be.Op == token.EQL {
								if sel, ok := ast.Unparen(be.X).(*ast.SelectorExpr); ok && sel.Sel.Name == "Op" && types.ExprString(be.Y) == "token.ARROW" {
									okUnary = len(rs) == 1
								}
							}
						}
					default:
						r.Bad("conditional:"+nm, cc.Pos(), "node kind %s has a hand-written acceptance rule the checker does not know", nm)
					}
				}
			}
			// the other direction: type syntax is accepted wholesale. The walk visits the children of the type
			// nodes it accepts, so every node kind that occurs only inside a type must be accepted too, or
			// struct{…}{…}, []interface{}{…}, [...]T{…} and G[A, B]{…} are refused although nothing in them can run.
			accepted := map[string]bool{}
			for _, s := range sw.Body.List {
				cc := s.(*ast.CaseClause)
				if len(rejects(cc.Body)) > 0 {
					continue
				}
				nested := false
				ast.Inspect(cc, func(nd ast.Node) bool {
					if st, ok := nd.(ast.Stmt); ok && setsFalse(st) {
						nested = true
					}
					return true
				})
				if nested {
					continue
				}
				for _, e := range cc.List {
					accepted[types.ExprString(e)] = true
				}
			}
			for _, t := range []string{"ArrayType", "ChanType", "FuncType", "InterfaceType", "MapType", "StructType", "FieldList", "Field", "Ellipsis", "IndexListExpr", "Comment", "CommentGroup"} {
				r.Check(accepted["*ast."+t], "type-syntax:*ast."+t, sw.Pos(), "type syntax node %s is accepted (it occurs inside the type of a composite literal, conversion or assertion and cannot execute)", t)
			}
			r.Check(hasDefault, "default-present", sw.Pos(), "the node-kind switch has a default")
			r.Check(okCall, "call-only-conversion", sw.Pos(), "a call node is rejected exactly when its Fun is not a type expression and has a function type, defined function types included (only conversions and constant-folded builtins pass)")
			r.Check(okUnary, "unary-not-receive", sw.Pos(), "a unary node is rejected exactly when its operator is <-")
			// the flag starts true and its final value decides: success is dominated by it (directly, or
			// through a single-call-site helper that returns it)
			okInit := false
			for _, d := range fi.defs[flag] {
				if d.kind == "define" && isTrue(d.rhs) {
					okInit = true
				}
				if d.kind == "assign" && !isFalse(d.rhs) {
					r.Bad("flag-reset", d.node.Pos(), "the whitelist flag is set back to a non-false value")
				}
			}
			r.Check(okInit, "flag-init", fi.Decl.Pos(), "the whitelist flag is initialised true and only ever set false")
			n := 0
			for i, ret := range fi.returnsOf() {
				if len(ret.Results) != 2 || fi.isNilIdent(ret.Results[0]) {
					continue
				}
				n++
				ok := false
				for _, g := range fi.Guards(ret) {
					if g.Kind != "bool" || g.Neg {
						continue
					}
					if fi.varOf(g.Expr) == flag && startOf(g.At) >= endOf(insp) {
						ok = true
					}
					if cl, isCall := ast.Unparen(g.Expr).(*ast.CallExpr); isCall {
						if h := c.linked[cl]; h != nil && fi.within(insp, h.Decl) {
							all := true
							for _, hr := range h.returnsOf() {
								if len(hr.Results) != 1 || fi.varOf(hr.Results[0]) != flag {
									all = false
								}
							}
							ok = all
						}
					}
				}
				r.Check(ok, "success#"+itoa(i)+"/whitelist-passed", ret.Pos(), "success is dominated by the whitelist verdict computed by the walk")
				var exprV ast.Expr
				if u, ok := ast.Unparen(ret.Results[0]).(*ast.UnaryExpr); ok {
					if cl, ok := u.X.(*ast.CompositeLit); ok {
						for _, el := range cl.Elts {
							if kv, ok := el.(*ast.KeyValueExpr); ok && kv.Key.(*ast.Ident).Name == "expr" {
								exprV = kv.Value
							}
						}
					}
				}
				r.Check(exprV != nil && fi.sameExpr(exprV, insp.Args[0]), "success#"+itoa(i)+"/same-expression", ret.Pos(), "the expression stored is the one that was walked")
			}
			r.Floor("success returns of processValue", n, 1)
		})

	register("C13.R2", "interface refusals: wire.Value rejects an argument whose underlying type is an interface; wire.InterfaceValue requires types.Implements(type of arg 1, interface of arg 0) and provides that interface type",
		func(c *Ctx, r *R) {
			fi := r.Need(c.Fn(c.W, "processValue"), "processValue")
			if fi != nil {
				for i, ret := range fi.returnsOf() {
					if len(ret.Results) != 2 || fi.isNilIdent(ret.Results[0]) {
						continue
					}
					ok := false
					for _, g := range fi.Guards(ret) {
						if !g.Neg || fi.varOf(g.Expr) == nil {
							continue
						}
						for _, d := range fi.defs[fi.varOf(g.Expr)] {
							ta, isTA := ast.Unparen(d.rhs).(*ast.TypeAssertExpr)
							if !isTA || d.idx != 1 || types.ExprString(ta.Type) != "*types.Interface" {
								continue
							}
							if uc := fi.isCall(ta.X, "go/types.Type.Underlying"); uc != nil && fi.argTypeOfAny(recvOf(uc), 0) {
								ok = true
							}
						}
					}
					r.Check(ok, "Value/success#"+itoa(i)+"/not-interface", ret.Pos(), "success is dominated by 'the argument's underlying type is not an interface'")
				}
			}
			iv := r.Need(c.Fn(c.W, "processInterfaceValue"), "processInterfaceValue")
			if iv != nil {
				n := 0
				for i, ret := range iv.returnsOf() {
					if len(ret.Results) != 2 || iv.isNilIdent(ret.Results[0]) {
						continue
					}
					n++
					gs := iv.Guards(ret)
					var impl *ast.CallExpr
					for _, g := range gs {
						if cl := iv.isCall(g.Expr, fnImplements); cl != nil && !g.Neg {
							impl = cl
						}
					}
					if impl == nil {
						r.Bad("InterfaceValue/success#"+itoa(i)+"/implements", ret.Pos(), "success is not dominated by types.Implements")
						continue
					}
					r.Check(iv.argTypeOfAny(impl.Args[0], 1), "InterfaceValue/success#"+itoa(i)+"/implements-arg1", impl.Pos(), "Implements is applied to the static type of argument 1")
					// method set = underlying interface of the element of arg 0's pointer type; Out is that element
					var out ast.Expr
					if u, ok := ast.Unparen(ret.Results[0]).(*ast.UnaryExpr); ok {
						if cl, ok := u.X.(*ast.CompositeLit); ok {
							for _, el := range cl.Elts {
								if kv, ok := el.(*ast.KeyValueExpr); ok && kv.Key.(*ast.Ident).Name == "Out" {
									out = kv.Value
								}
							}
						}
					}
					msOK := false
					if d := iv.defOf(impl.Args[1]); d != nil && d.idx == 0 && out != nil {
						if ta, ok := ast.Unparen(d.rhs).(*ast.TypeAssertExpr); ok {
							if uc := iv.isCall(ta.X, "go/types.Type.Underlying"); uc != nil && iv.sameExpr(recvOf(uc), out) && iv.okTested(gs, d) {
								msOK = true
							}
						}
					}
					r.Check(msOK, "InterfaceValue/success#"+itoa(i)+"/interface", ret.Pos(), "the method set tested is the underlying interface of the provided type Out")
					ifOK := false
					if out != nil {
						if ec := iv.isCall(iv.deref(out), "go/types.Pointer.Elem"); ec != nil {
							if d := iv.defOf(recvOf(ec)); d != nil && d.idx == 0 {
								if ta, ok := ast.Unparen(d.rhs).(*ast.TypeAssertExpr); ok && iv.argTypeOfAny(ta.X, 0) && iv.okTested(gs, d) {
									ifOK = true
								}
							}
						}
					}
					r.Check(ifOK, "InterfaceValue/success#"+itoa(i)+"/out", ret.Pos(), "Out is the element of argument 0's pointer type")
				}
				r.Floor("success returns of processInterfaceValue", n, 1)
			}
		})

	register("C13.R3", "visibility is checked for every value: each value step passes accessibleFrom(its info, its expression, destination package) with the error collected; accessibleFrom examines every identifier and rejects unexported foreign and non-package-scope objects under no other condition",
		func(c *Ctx, r *R) {
			n := 0
			for _, fi := range c.all {
				for _, cl := range fi.callsTo(pathW + ".accessibleFrom") {
					n++
					r.Need(fi, fi.Name)
					k := fi.Name + "/accessibleFrom"
					f0, f1 := fi.selField(cl.Args[0]), fi.selField(cl.Args[1])
					r.Check(f0 != nil && f0.Name() == "valueTypeInfo" && f1 != nil && f1.Name() == "valueExpr" && fi.sameExpr(cl.Args[0].(*ast.SelectorExpr).X, cl.Args[1].(*ast.SelectorExpr).X), k+"/args", cl.Pos(), "applied to the step's own expression and type info")
					// guarded only by kind == valueExpr, inside a complete loop over the calls
					loop := fi.enclosingLoop(cl)
					extra := 0
					kindOK := false
					if loop != nil {
						for _, g := range fi.GuardsWithin(cl, loop) {
							if be, ok := ast.Unparen(g.Expr).(*ast.BinaryExpr); ok && ((!g.Neg && be.Op == token.EQL) || (g.Neg && be.Op == token.NEQ)) {
								if f := fi.selField(be.X); f != nil && f.Name() == "kind" && types.ExprString(be.Y) == "valueExpr" {
									kindOK = true
									continue
								}
							}
							extra++
						}
					}
					r.Check(loop != nil && kindOK && extra == 0 && fi.loopComplete(loop), k+"/every-value-step", cl.Pos(), "runs for every step of kind valueExpr, under no other condition")
					// the third argument is the destination package path
					dst := fi.canon(cl.Args[2], 0)
					r.Check(strings.Contains(dst, "PkgPath") || strings.HasPrefix(dst, "param:"), k+"/destination", cl.Pos(), "destination is the injector package's path (%s)", dst)
				}
			}
			r.Floor("accessibleFrom call sites", n, 1)
			af := r.Need(c.Fn(c.W, "accessibleFrom"), "accessibleFrom")
			if af == nil {
				return
			}
			var lit *ast.FuncLit
			for _, cl := range af.callsDeep(af.Decl.Body) {
				if af.calleeName(cl) == "go/ast.Inspect" {
					lit, _ = ast.Unparen(cl.Args[1]).(*ast.FuncLit)
					r.Check(af.varOf(cl.Args[0]) != nil && af.isParam(af.varOf(cl.Args[0])), "walk/whole-expression", cl.Pos(), "the walk starts at the expression passed in")
				}
			}
			if lit == nil {
				r.Bad("walk", af.Decl.Pos(), "ast.Inspect callback not found")
				return
			}
			// error variable
			var errVar *types.Var
			for _, ret := range af.returnsOf() {
				errVar = af.varOf(ret.Results[0])
			}
			if errVar == nil {
				r.Bad("error-var", af.Decl.Pos(), "accessibleFrom does not return its error variable")
				return
			}
			// returns of the callback: `false` only when the error variable is set
			ast.Inspect(lit.Body, func(nd ast.Node) bool {
				ret, ok := nd.(*ast.ReturnStmt)
				if !ok || len(ret.Results) != 1 {
					return true
				}
				if types.ExprString(ret.Results[0]) != "false" {
					return true
				}
				okStop := false
				for _, g := range af.GuardsWithin(ret, lit.Body) {
					if x, isNil, o := af.nilTest(g); o && !isNil && af.varOf(x) == errVar {
						okStop = true
					}
				}
				for _, s := range af.precedingSimple(ret, lit.Body) {
					if as, ok := s.(*ast.AssignStmt); ok && af.varOf(as.Lhs[0]) == errVar {
						okStop = true
					}
				}
				r.Check(okStop, "walk/prune-only-after-error@"+af.loopCtx(ret)+itoa(len(r.Obs)), ret.Pos(), "the walk is pruned only once an error has been recorded")
				return true
			})
			// the two rejections and their guards
			type rej struct {
				as    *ast.AssignStmt
				conds []Cond
			}
			var rejs []rej
			ast.Inspect(lit.Body, func(nd ast.Node) bool {
				as, ok := nd.(*ast.AssignStmt)
				if ok && len(as.Lhs) == 1 && af.varOf(as.Lhs[0]) == errVar {
					rejs = append(rejs, rej{as, af.GuardsWithin(as, lit.Body)})
				}
				return true
			})
			// semantic classification of an atomic condition (no source text is compared)
			classify := func(g Cond) string {
				neg := ""
				if g.Neg {
					neg = "!"
				}
				if x, isNil, ok := af.nilTest(g); ok {
					d := af.deref(x)
					what := "?"
					switch {
					case af.varOf(x) == errVar:
						what = "err"
					case af.isCall(d, "go/types.Object.Pkg", "go/types.object.Pkg") != nil:
						what = "obj.Pkg()"
					case af.isCall(d, "go/types.Object.Parent", "go/types.object.Parent") != nil:
						what = "obj.Parent()"
					case af.isCall(d, "go/types.Info.ObjectOf", pathW+".referencedObject") != nil:
						what = "obj" // an identifier that denotes no object has nothing to reject (and nothing to ask)
					case af.isCall(d, "go/types.Info.TypeOf") != nil, af.Info.TypeOf(x) != nil && types.TypeString(af.Info.TypeOf(x), nil) == "go/types.Type":
						what = "type"
					case isErrorType(af.Info.TypeOf(x)) && af.C.failureRet[callOf(d)] != nil:
						what = "helper-error" // the error of a helper analysed in place: its own conditions follow
					}
					if isNil {
						return what + "==nil"
					}
					return what + "!=nil"
				}
				if g.Loop {
					return "loop"
				}
				// start <= pos && pos < end on positions: the object is declared inside the expression being moved
				if be, ok := ast.Unparen(g.Expr).(*ast.BinaryExpr); ok && be.Op == token.LAND {
					isPosCmp := func(e ast.Expr) bool {
						c, ok := ast.Unparen(e).(*ast.BinaryExpr)
						if !ok || (c.Op != token.LEQ && c.Op != token.LSS && c.Op != token.GEQ && c.Op != token.GTR) {
							return false
						}
						tx, ty := af.Info.TypeOf(c.X), af.Info.TypeOf(c.Y)
						return tx != nil && ty != nil && types.TypeString(tx, nil) == "go/token.Pos" && types.TypeString(ty, nil) == "go/token.Pos"
					}
					if isPosCmp(be.X) && isPosCmp(be.Y) {
						return neg + "declared-inside"
					}
				}
				// one half of it, when the test was split into nested or flattened conditions
				if c, ok := ast.Unparen(g.Expr).(*ast.BinaryExpr); ok && !g.Neg && (c.Op == token.LEQ || c.Op == token.LSS || c.Op == token.GEQ || c.Op == token.GTR) {
					tx, ty := af.Info.TypeOf(c.X), af.Info.TypeOf(c.Y)
					if tx != nil && ty != nil && types.TypeString(tx, nil) == "go/token.Pos" && types.TypeString(ty, nil) == "go/token.Pos" {
						return "pos-bound"
					}
				}
				// the object is a struct field or a method (a member a type literal declares): any boolean
				// combination that is true exactly for isFunc ∨ (isVar ∧ IsField())
				{
					used := map[string]bool{}
					atom := func(e ast.Expr) (string, bool) {
						if cl := af.isCall(e, "go/types.Var.IsField"); cl != nil {
							used["isField"] = true
							return "isField", true
						}
						if v := af.varOf(e); v != nil {
							if d := af.singleDef(v); d != nil && d.idx == 1 {
								if ta, ok := ast.Unparen(d.rhs).(*ast.TypeAssertExpr); ok && ta.Type != nil {
									switch types.TypeString(af.Info.TypeOf(ta.Type), nil) {
									case "*go/types.Func":
										used["isFunc"] = true
										return "isFunc", true
									case "*go/types.Var":
										used["isVar"] = true
										return "isVar", true
									}
								}
							}
						}
						return "", false
					}
					member, decided := true, true
					for _, fn := range []bool{false, true} {
						for _, vr := range []bool{false, true} {
							for _, fl := range []bool{false, true} {
								if fn && vr {
									continue // an object is not both
								}
								v, ok := evalCond(g.Expr, map[string]bool{"isFunc": fn, "isVar": vr, "isField": fl}, atom)
								if !ok {
									decided = false
								}
								if g.Neg {
									v = !v
								}
								if v != (fn || vr && fl) {
									member = false
								}
							}
						}
					}
					if decided && member && used["isFunc"] && used["isVar"] && used["isField"] {
						return "type-literal-member"
					}
				}
				if x, ne, ok := af.lenTest(g); ok && ne {
					if f := af.selField(x); f != nil && f.Name() == "Elts" {
						return "literal-has-elements"
					}
				}
				if cl := af.isCall(g.Expr, "go/types.Var.Exported", "go/types.object.Exported", "go/types.Object.Exported"); cl != nil {
					return neg + "field.Exported()"
				}
				if cl := af.isCall(g.Expr, "go/ast.IsExported"); cl != nil {
					if f := af.selField(cl.Args[0]); f != nil && f.Name() == "Name" {
						return neg + "IsExported(ident.Name)"
					}
				}
				if be, ok := ast.Unparen(g.Expr).(*ast.BinaryExpr); ok && (be.Op == token.NEQ || be.Op == token.EQL) {
					op := "!="
					if (be.Op == token.EQL) != g.Neg {
						op = "=="
					}
					side := func(e ast.Expr) string {
						d := af.deref(e)
						switch {
						case af.isCall(d, "go/types.Package.Path") != nil:
							return "pkg.Path()"
						case af.isCall(d, "go/types.Package.Scope") != nil:
							return "pkg.Scope()"
						case af.isCall(d, "go/types.Object.Parent", "go/types.object.Parent") != nil:
							return "obj.Parent()"
						case af.varOf(e) != nil && af.isParam(af.varOf(e)) && types.TypeString(af.varOf(e).Type(), nil) == "string":
							return "wantPkg"
						}
						return "?"
					}
					a, b := side(be.X), side(be.Y)
					if a > b {
						a, b = b, a
					}
					return a + op + b
				}
				if v := af.varOf(g.Expr); v != nil && types.TypeString(v.Type(), nil) == "bool" {
					// the comma-ok of "is the first element a key: value pair" carries meaning: its polarity is kept
					if d := af.singleDef(v); d != nil && d.idx == 1 {
						if ta, ok := ast.Unparen(d.rhs).(*ast.TypeAssertExpr); ok && ta.Type != nil && types.TypeString(af.Info.TypeOf(ta.Type), nil) == "*go/ast.KeyValueExpr" {
							return neg + "keyed"
						}
					}
					return neg + "ok"
				}
				return neg + "?(" + types.ExprString(g.Expr) + ")"
			}
			var unexported, scope, literal, member bool
			for _, rj := range rejs {
				var all, core []string
				for _, g := range rj.conds {
					s := classify(g)
					all = append(all, s)
					if s == "err==nil" || s == "ok" || s == "!ok" || s == "obj.Pkg()!=nil" || s == "obj!=nil" || s == "type!=nil" || s == "loop" || s == "literal-has-elements" || s == "helper-error!=nil" || s == "!declared-inside" {
						continue
					}
					// "the other rejection did not fire" (its if-body ends the callback)
					if is, ok := g.At.(*ast.IfStmt); ok && g.Neg && !af.within(rj.as, is.Body) {
						other := false
						for _, o := range rejs {
							if o.as != rj.as && af.within(o.as, is.Body) {
								other = true
							}
						}
						if other {
							continue
						}
					}
					core = append(core, s)
				}
				// both halves of the position test make the whole
				if nb := strings.Count(" "+strings.Join(core, "  ")+" ", " pos-bound "); nb == 2 {
					var c2 []string
					for _, x := range core {
						if x != "pos-bound" {
							c2 = append(c2, x)
						}
					}
					core = append(c2, "declared-inside")
				}
				sort.Strings(core)
				got := strings.Join(all, " ∧ ")
				switch strings.Join(core, " ∧ ") {
				case "!field.Exported() ∧ declared-inside ∧ pkg.Path()!=wantPkg ∧ type-literal-member":
					member = true
					r.Ok("reject/type-literal-member", rj.as.Pos(), "an unexported field or method name that a type literal of the expression declares is rejected when the expression moves to another package (there it is a different type) — under exactly: %s", got)
				case "!IsExported(ident.Name) ∧ pkg.Path()!=wantPkg":
					unexported = true
					r.Check(strings.Contains(got, "!declared-inside"), "reject/unexported-foreign/not-own-declarations", rj.as.Pos(), "names the expression itself declares (parameters of a function type, fields of a struct type) are exempt: they move with it")
					r.Ok("reject/unexported-foreign", rj.as.Pos(), "an identifier is rejected when it is unexported and belongs to another package — under exactly: %s", got)
				case "!field.Exported() ∧ !keyed ∧ pkg.Path()!=wantPkg":
					literal = true
					// every field is looked at: the enclosing loop runs over all of the struct's fields
					allFields := false
					for l := af.enclosingLoop(rj.as); l != nil; l = af.enclosingLoop(l) {
						switch x := l.(type) {
						case *ast.ForStmt:
							if li := af.loopShape(x); li != nil && li.ascending && !li.inclusive && li.from == "0" && af.isCall(af.deref(li.boundExpr), "go/types.Struct.NumFields") != nil {
								allFields = true
							}
						case *ast.RangeStmt:
							allFields = true
						}
					}
					// (the test may sit in a helper analysed in place: its loop is among the conditions of the rejection)
					for _, g := range rj.conds {
						if fs, ok := g.At.(*ast.ForStmt); ok && g.Loop {
							if li := af.loopShape(fs); li != nil && li.ascending && !li.inclusive && li.from == "0" && af.isCall(af.deref(li.boundExpr), "go/types.Struct.NumFields") != nil {
								allFields = true
							}
						}
					}
					r.Check(allFields, "reject/unkeyed-literal/every-field", rj.as.Pos(), "the unexported-field test visits every field of the struct (from the first one)")
					// the literal's recorded type may be *T (an element literal with elided type in []*T{{…}})
					through := false
					af.inspect(lit.Body, func(nd ast.Node) bool {
						if as2, ok := nd.(*ast.AssignStmt); ok && len(as2.Lhs) == 1 && len(as2.Rhs) == 1 && as2.Tok == token.ASSIGN {
							if af.isCall(as2.Rhs[0], "go/types.Pointer.Elem") != nil && af.Info.TypeOf(as2.Lhs[0]) != nil && types.TypeString(af.Info.TypeOf(as2.Lhs[0]), nil) == "go/types.Type" {
								through = true
							}
						}
						return true
					})
					r.Check(through, "reject/unkeyed-literal/through-pointer", rj.as.Pos(), "the struct is found through a pointer type too (element literals of []*T / map[K]*T)")
					r.Ok("reject/unkeyed-literal-unexported-field", rj.as.Pos(), "an unkeyed struct literal is rejected when the struct has an unexported field of another package — under exactly: %s", got)
				case "obj.Parent()!=nil ∧ obj.Parent()!=pkg.Scope()":
					scope = true
					r.Check(strings.Contains(got, "!declared-inside"), "reject/not-package-scope/not-own-declarations", rj.as.Pos(), "names the expression itself declares are exempt: they move with it")
					r.Ok("reject/not-package-scope", rj.as.Pos(), "a declared object is rejected when it is not at package scope — under exactly: %s", got)
				default:
					r.Bad("reject/unknown-condition", rj.as.Pos(), "rejection under an unrecognised or narrowed condition: %s", got)
				}
			}
			r.Check(unexported, "reject/unexported-foreign-present", lit.Pos(), "the unexported-foreign rejection exists with its exact guard")
			r.Check(scope, "reject/not-package-scope-present", lit.Pos(), "the not-package-scope rejection exists with its exact guard")
			r.Check(member, "reject/type-literal-member-present", lit.Pos(), "a type literal declaring unexported field or method names is not moved into another package")
			r.Check(literal, "reject/unkeyed-literal-present", lit.Pos(), "an unkeyed literal of a struct with unexported fields of another package is rejected (it mentions no identifier the other tests could see)")
		})
}

// argTypeOfAny matches info.TypeOf(<call>.Args[k]) for any *ast.CallExpr parameter.
func (fi *FuncInfo) argTypeOfAny(e ast.Expr, k int) bool {
	for _, f := range fi.Decl.Type.Params.List {
		for _, nm := range f.Names {
			if v, ok := fi.Info.Defs[nm].(*types.Var); ok && types.TypeString(v.Type(), nil) == "*go/ast.CallExpr" {
				if fi.argTypeOf(e, v, k) {
					return true
				}
			}
		}
	}
	return false
}

// callRejection decides the *ast.CallExpr case of the value filter: the one
// rejection in the clause must be reached exactly when the callee (<node>.Fun)
// is not a type expression (Info.Types[Fun].IsType() is false) and the
// UNDERLYING type of the callee is a signature. Looking at the type without
// Underlying lets calls through values of defined function types pass;
// leaving out the IsType test rejects conversions to function types.
func callRejection(fi *FuncInfo, cc *ast.CaseClause, setsFalse func(ast.Stmt) bool) bool {
	var sites []ast.Stmt
	ast.Inspect(cc, func(nd ast.Node) bool {
		if st, ok := nd.(ast.Stmt); ok && setsFalse(st) {
			sites = append(sites, st)
		}
		return true
	})
	if len(sites) != 1 {
		return false
	}
	isFun := func(e ast.Expr) bool {
		sel, ok := ast.Unparen(e).(*ast.SelectorExpr)
		return ok && sel.Sel.Name == "Fun"
	}
	// tvOfFun: info.Types[<node>.Fun], possibly through a local
	tvOfFun := func(e ast.Expr) bool {
		ix, ok := ast.Unparen(fi.deref(e)).(*ast.IndexExpr)
		if !ok || !isFun(ix.Index) {
			return false
		}
		f := fi.selField(ix.X)
		return f != nil && f.Name() == "Types"
	}
	typeOfFun := func(e ast.Expr) bool {
		e = ast.Unparen(fi.deref(e))
		if tc := fi.isCall(e, "go/types.Info.TypeOf"); tc != nil && isFun(tc.Args[0]) {
			return true
		}
		if sel, ok := e.(*ast.SelectorExpr); ok && sel.Sel.Name == "Type" && tvOfFun(sel.X) {
			return true
		}
		return false
	}
	notType, underSig, other := false, false, 0
	for _, g := range fi.GuardsWithin(sites[0], cc) {
		if g.Kind != "bool" {
			other++
			continue
		}
		ex := ast.Unparen(g.Expr)
		// !tv.IsType()
		if cl, ok := ex.(*ast.CallExpr); ok && g.Neg {
			if sel, ok := ast.Unparen(cl.Fun).(*ast.SelectorExpr); ok && sel.Sel.Name == "IsType" && tvOfFun(sel.X) {
				notType = true
				continue
			}
		}
		// tv.Type != nil / TypeOf(...) != nil
		if x, isNil, ok := fi.nilTest(g); ok && !isNil && typeOfFun(x) {
			continue
		}
		// isFunc from `_, isFunc := T.Underlying().(*types.Signature)`
		if v := fi.varOf(ex); v != nil && !g.Neg {
			okSig := false
			for _, d := range fi.defs[v] {
				if d.idx != 1 || d.rhs == nil {
					continue
				}
				if ta, ok := ast.Unparen(d.rhs).(*ast.TypeAssertExpr); ok && types.ExprString(ta.Type) == "*types.Signature" {
					if uc := fi.isCall(ta.X, "go/types.Type.Underlying"); uc != nil && typeOfFun(recvOf(uc)) {
						okSig = true
					}
				}
			}
			if okSig {
				underSig = true
				continue
			}
		}
		other++
	}
	return notType && underSig && other == 0
}

func callOf(e ast.Expr) *ast.CallExpr {
	c, _ := ast.Unparen(e).(*ast.CallExpr)
	return c
}
