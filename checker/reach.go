package main

import (
	"go/ast"
	"go/types"
	"sort"
)

// reachResult is the set of in-module functions reachable from some roots by
// following every reference to a function object (calls, method values,
// function values), plus the external functions referenced on the frontier.
type reachResult struct {
	in   map[*FuncInfo]bool
	ext  map[string][]extRef // external callee name → where referenced
	path map[*FuncInfo]*FuncInfo
}

type extRef struct {
	from *FuncInfo
	pos  ast.Node
}

func (c *Ctx) reach(roots ...*FuncInfo) *reachResult {
	rr := &reachResult{in: map[*FuncInfo]bool{}, ext: map[string][]extRef{}, path: map[*FuncInfo]*FuncInfo{}}
	var work []*FuncInfo
	for _, r := range roots {
		if r != nil && !rr.in[r] {
			rr.in[r] = true
			work = append(work, r)
		}
	}
	for len(work) > 0 {
		fi := work[len(work)-1]
		work = work[:len(work)-1]
		ast.Inspect(fi.Decl, func(n ast.Node) bool {
			id, ok := n.(*ast.Ident)
			if !ok {
				return true
			}
			f, ok := fi.Info.Uses[id].(*types.Func)
			if !ok {
				return true
			}
			if cf := c.FnOf(f); cf != nil {
				if !rr.in[cf] {
					rr.in[cf] = true
					rr.path[cf] = fi
					work = append(work, cf)
				}
				return true
			}
			// interface methods declared in the module: all implementations in the module
			if f.Pkg() != nil && (f.Pkg().Path() == pathW || f.Pkg().Path() == pathCmd || f.Pkg().Path() == pathRoot) {
				return true
			}
			rr.ext[qualFuncName(f)] = append(rr.ext[qualFuncName(f)], extRef{fi, id})
			return true
		})
	}
	return rr
}

func (rr *reachResult) names() []string {
	var out []string
	for f := range rr.in {
		out = append(out, f.Name)
	}
	sort.Strings(out)
	return out
}

// chain renders how fn was reached.
func (rr *reachResult) chain(fn *FuncInfo) string {
	s := fn.Name
	for p := rr.path[fn]; p != nil; p = rr.path[p] {
		s = p.Name + " → " + s
	}
	return s
}
