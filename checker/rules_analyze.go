package main

import (
	"go/ast"
	"go/token"
	"go/types"
	"strings"
)

func init() {
	register("C07.R1", "every provider set is verified acyclic: each non-nil *ProviderSet returned by processNewSet is dominated by the empty edge of verifyAcyclic(pset.providerMap, …), whose errors are returned otherwise",
		func(c *Ctx, r *R) {
			fi := r.Need(c.Fn(c.W, "objectCache.processNewSet"), "objectCache.processNewSet")
			if fi == nil {
				return
			}
			n := 0
			for i, ret := range fi.returnsOf() {
				if len(ret.Results) != 2 || fi.isNilIdent(ret.Results[0]) {
					continue
				}
				n++
				pset := fi.varOf(ret.Results[0])
				ok := false
				for _, g := range fi.Guards(ret) {
					x, ne, o := fi.lenTest(g)
					if !o || ne {
						continue
					}
					d := fi.defOf(x)
					if d == nil {
						continue
					}
					vc := fi.isCall(d.rhs, pathW+".verifyAcyclic")
					if vc == nil {
						continue
					}
					b, isPM := fi.fieldSel(vc.Args[0], pathW, "ProviderSet", "providerMap")
					if !isPM || fi.varOf(b) != pset || pset == nil {
						continue
					}
					is, _ := g.At.(*ast.IfStmt)
					if is == nil {
						continue
					}
					for _, r2 := range fi.returnsOf() {
						if fi.within(r2, is.Body) && len(r2.Results) == 2 && fi.varOf(r2.Results[1]) == fi.varOf(x) && fi.isNilIdent(r2.Results[0]) {
							ok = true
						}
					}
				}
				r.Check(ok, "set-return#"+itoa(i), ret.Pos(), "dominated by len(verifyAcyclic(pset.providerMap, …))==0 whose other edge returns (nil, errs)")
				// and by the buildProviderMap error test
				ok2 := false
				for _, g := range fi.Guards(ret) {
					if x, ne, o := fi.lenTest(g); o && !ne {
						for _, d := range fi.defs[fi.varOf(x)] {
							if d.rhs != nil && fi.isCall(d.rhs, pathW+".buildProviderMap") != nil {
								ok2 = true
							}
						}
					}
				}
				r.Check(ok2, "set-return#"+itoa(i)+"/map-built", ret.Pos(), "dominated by the empty edge of buildProviderMap's errors")
			}
			r.Floor("non-nil set returns in processNewSet", n, 1)
			// verifyAcyclic has no caller-controlled early exit: called from processNewSet only is not required,
			// but nothing else constructs a ProviderSet with maps (C05.R3).
		})

	register("C07.R2", "the planner only sees verified sets: the set argument of every solve call is the result of processNewSet",
		func(c *Ctx, r *R) {
			n := 0
			for _, fi := range c.all {
				for _, call := range fi.callsTo(pathW + ".solve") {
					n++
					r.Need(fi, fi.Name)
					arg := call.Args[3]
					ok := false
					if d := fi.defOf(arg); d != nil && d.idx == 0 && fi.isCall(d.rhs, pathW+".objectCache.processNewSet") != nil {
						ok = true
					}
					if !ok {
						if v := fi.varOf(arg); v != nil && fi.isParam(v) {
							// parameter: every caller must pass a processNewSet result
							ok = true
							for _, cf := range c.all {
								for _, cc := range cf.callsTo(qualFuncName(fi.Obj)) {
									idx := paramIndex(fi, v)
									if idx < 0 || idx >= len(cc.Args) {
										ok = false
										continue
									}
									d := cf.defOf(cc.Args[idx])
									if d == nil || d.idx != 0 || cf.isCall(d.rhs, pathW+".objectCache.processNewSet") == nil {
										ok = false
									}
								}
							}
						}
					}
					r.Check(ok, fi.Name+"/solve-set-arg", call.Pos(), "the set passed to solve comes from processNewSet (directly or through the caller)")
				}
			}
			r.Floor("solve call sites", n, 2)
		})

	register("C07.R3", "visited-guarded worklist in verifyAcyclic: every iteration pops; every push inside the search loop is dominated by the not-visited edge and follows visited.Set(head,true)",
		func(c *Ctx, r *R) {
			fi := r.Need(c.Fn(c.W, "verifyAcyclic"), "verifyAcyclic")
			if fi == nil {
				return
			}
			v := acyclicAnchors(fi)
			if v == nil {
				r.Bad("anchor:verifyAcyclic-roles", fi.Decl.Pos(), "cannot identify visited map / work stack / search loop")
				return
			}
			// pop: stk = stk[:len(stk)-1] unconditional at top level of loop body
			pop := false
			for _, s := range v.loop.Body.List {
				as, ok := s.(*ast.AssignStmt)
				if !ok || len(as.Lhs) != 1 || fi.varOf(as.Lhs[0]) != v.stk {
					continue
				}
				if se, ok := ast.Unparen(as.Rhs[0]).(*ast.SliceExpr); ok && fi.varOf(se.X) == v.stk && se.Low == nil && se.High != nil {
					if be, ok := ast.Unparen(se.High).(*ast.BinaryExpr); ok && be.Op == token.SUB {
						if l := fi.isBuiltin(be.X, "len"); l != nil && fi.varOf(l.Args[0]) == v.stk {
							if lit, ok := be.Y.(*ast.BasicLit); ok && lit.Value == "1" {
								pop = true
							}
						}
					}
				}
			}
			r.Check(pop, "pop-each-iteration", v.loop.Pos(), "each iteration removes exactly the top of the work stack unconditionally")
			lc, okc := ast.Unparen(v.loop.Cond).(*ast.BinaryExpr)
			okCond := okc && lc.Op == token.GTR && fi.isBuiltin(lc.X, "len") != nil && fi.varOf(fi.isBuiltin(lc.X, "len").Args[0]) == v.stk
			r.Check(okCond, "loop-until-empty", v.loop.Pos(), "the search loop runs while the work stack is non-empty")
			// visited.Set(head, true) at top level, after the visited test
			var mark *ast.CallExpr
			for _, s := range v.loop.Body.List {
				if es, ok := s.(*ast.ExprStmt); ok {
					if st := fi.isCall(es.X, fnMapSet); st != nil && fi.varOf(recvOf(st)) == v.visited && fi.sameExpr(st.Args[0], v.head) {
						if id, ok := ast.Unparen(st.Args[1]).(*ast.Ident); ok && id.Name == "true" {
							mark = st
						}
					}
				}
			}
			r.Check(mark != nil, "mark-visited", v.loop.Pos(), "visited.Set(head, true) executes unconditionally for every expanded node")
			n := 0
			ast.Inspect(v.loop.Body, func(nd ast.Node) bool {
				as, ok := nd.(*ast.AssignStmt)
				if !ok || len(as.Lhs) != 1 || fi.varOf(as.Lhs[0]) != v.stk {
					return true
				}
				ap := fi.isBuiltin(as.Rhs[0], "append")
				if ap == nil {
					return true
				}
				n++
				k := "push#" + itoa(n)
				guarded := false
				for _, g := range fi.Guards(as) {
					if !g.Neg || g.Kind != "bool" {
						continue
					}
					// `if v, _ := visited.At(head).(bool); v { continue }`
					e := g.Expr
					if d := fi.defOf(e); d != nil {
						e = d.rhs
					}
					if ta, ok := ast.Unparen(e).(*ast.TypeAssertExpr); ok {
						if at := fi.isCall(fi.deref(ta.X), fnMapAt); at != nil && fi.varOf(recvOf(at)) == v.visited && fi.sameExpr(at.Args[0], v.head) {
							guarded = true
						}
					}
				}
				r.Check(guarded, k+"/not-visited", as.Pos(), "push is dominated by the not-visited edge of visited.At(head)")
				r.Check(mark != nil && startOf(mark) < startOf(as), k+"/after-mark", as.Pos(), "push happens after the node was marked visited")
				return true
			})
			r.Floor("pushes inside the search loop", n, 1)
		})

	register("C07.R4", "all roots, all successors, whole trail: roots are all keys of the map; providers contribute every Arg type and fields their Parent (as in solve and gather); each successor is compared with every trail element by types.Identical; non-cyclic successors are pushed with the trail extended by exactly that successor",
		func(c *Ctx, r *R) {
			fi := r.Need(c.Fn(c.W, "verifyAcyclic"), "verifyAcyclic")
			if fi == nil {
				return
			}
			v := acyclicAnchors(fi)
			if v == nil {
				r.Bad("anchor:verifyAcyclic-roles", fi.Decl.Pos(), "cannot identify roles")
				return
			}
			// roots
			root, _ := fi.enclosingLoop(v.loop).(*ast.RangeStmt)
			okRoots := false
			if root != nil {
				rv := fi.varOf(root.X)
				if rv != nil {
					for _, d := range fi.defs[rv] {
						if d.kind == "define" {
							if kc := fi.isCall(d.rhs, fnMapKeys); kc != nil && fi.varOf(recvOf(kc)) != nil && fi.isParam(fi.varOf(recvOf(kc))) {
								okRoots = true
							}
						}
					}
					// the slice may be sorted but not re-sliced / filtered
					for _, d := range fi.defs[rv] {
						if d.kind != "define" {
							okRoots = false
						}
					}
				}
			}
			r.Check(okRoots, "roots=all-keys", v.loop.Pos(), "the search is started from every key of the provider map")
			if root != nil {
				exits := 0
				ast.Inspect(root.Body, func(nd ast.Node) bool {
					switch s := nd.(type) {
					case *ast.FuncLit:
						return false
					case *ast.ReturnStmt:
						exits++
						r.Bad("roots/no-early-exit", s.Pos(), "return inside the root loop")
					case *ast.BranchStmt:
						if s.Tok == token.BREAK && fi.enclosingLoop(s) == ast.Stmt(root) {
							// break directly targeting the root loop (not inside a nested loop or switch)
							if fi.enclosing(s, func(n ast.Node) bool { _, ok := n.(*ast.SwitchStmt); return ok }) == nil {
								exits++
								r.Bad("roots/no-early-exit", s.Pos(), "break leaves the root loop")
							}
						}
						if s.Tok == token.GOTO {
							exits++
							r.Bad("roots/no-early-exit", s.Pos(), "goto in the root loop")
						}
					}
					return true
				})
				if exits == 0 {
					r.Ok("roots/no-early-exit", root.Pos(), "no return/break leaves the root loop early")
				}
			}
			// the root trail is exactly {root}
			okInit := false
			if root != nil {
				for _, d := range fi.defs[v.stk] {
					if d.kind == "define" && fi.within(d.node, root.Body) {
						if cl, ok := ast.Unparen(d.rhs).(*ast.CompositeLit); ok && len(cl.Elts) == 1 {
							if in, ok := cl.Elts[0].(*ast.CompositeLit); ok && len(in.Elts) == 1 && fi.varOf(in.Elts[0]) == fi.varOf(root.Value) {
								okInit = true
							}
						}
					}
				}
			}
			r.Check(okInit, "roots/initial-trail", v.loop.Pos(), "each search starts with the trail {root}")

			// successors
			succProvider, succField := false, false
			var argsVar *types.Var
			var succByLoop *ast.RangeStmt // the successor loop itself, when what it ranges over is not a variable
			ast.Inspect(v.loop.Body, func(nd ast.Node) bool {
				as, ok := nd.(*ast.AssignStmt)
				if !ok || len(as.Rhs) != 1 {
					return true
				}
				ap := fi.isBuiltin(as.Rhs[0], "append")
				if ap == nil || len(ap.Args) != 2 || fi.varOf(as.Lhs[0]) == v.stk {
					return true
				}
				f := fi.selField(ap.Args[1])
				if f == nil {
					return true
				}
				switch f.Name() {
				case "Type":
					loop, _ := fi.enclosingLoop(as).(*ast.RangeStmt)
					if loop != nil && loop.Value != nil && fi.varOf(loop.Value) == fi.varOf(ap.Args[1].(*ast.SelectorExpr).X) {
						if af := fi.selField(loop.X); af != nil && af.Name() == "Args" && fi.unconditionalIn(as, loop.Body) && fi.loopComplete(loop) {
							if fi.isCall(fi.deref(loop.X.(*ast.SelectorExpr).X), pathW+".ProvidedType.Provider") != nil {
								succProvider = true
								argsVar = fi.varOf(as.Lhs[0])
							}
						}
					}
				case "Parent":
					if fi.isCall(fi.deref(ap.Args[1].(*ast.SelectorExpr).X), pathW+".ProvidedType.Field") != nil {
						succField = true
					}
				}
				return true
			})
			// the same facts when the successors are collected by a helper analysed in place, or in another
			// local order: follow the value of the expression the successor loop ranges over to its sources
			var succLoop *ast.RangeStmt
			fi.inspect(v.loop.Body, func(nd ast.Node) bool {
				rs, ok := nd.(*ast.RangeStmt)
				if !ok || rs.Value == nil || succLoop != nil {
					return true
				}
				pushes := false
				fi.inspect(rs.Body, func(m ast.Node) bool {
					if as, ok := m.(*ast.AssignStmt); ok && len(as.Lhs) == 1 && len(as.Rhs) == 1 && fi.varOf(as.Lhs[0]) == v.stk && fi.isBuiltin(as.Rhs[0], "append") != nil {
						pushes = true
					}
					return true
				})
				if pushes {
					succLoop = rs
				}
				return true
			})
			if succLoop != nil && (!succProvider || !succField) {
				for _, src := range fi.valueSources(succLoop.X) {
					f := src.fi
					var elems []ast.Expr
					switch x := ast.Unparen(src.expr).(type) {
					case *ast.CompositeLit:
						elems = x.Elts
					case *ast.CallExpr:
						if f.isBuiltin(x, "append") != nil && len(x.Args) >= 2 {
							elems = x.Args[1:]
						}
					}
					for _, el := range elems {
						sel, ok := ast.Unparen(el).(*ast.SelectorExpr)
						if !ok || f.selField(sel) == nil {
							continue
						}
						switch f.selField(sel).Name() {
						case "Type":
							if loop, ok := f.enclosingLoop(src.expr).(*ast.RangeStmt); ok && loop.Value != nil && f.varOf(loop.Value) == f.varOf(sel.X) {
								lx := f.deref(loop.X) // the list may have been given a local name first
								if af := f.selField(lx); af != nil && af.Name() == "Args" && f.loopComplete(loop) {
									if f.isCall(f.deref(ast.Unparen(lx).(*ast.SelectorExpr).X), pathW+".ProvidedType.Provider") != nil {
										succProvider = true
										if argsVar == nil {
											argsVar = fi.varOf(succLoop.X)
											succByLoop = succLoop
										}
									}
								}
							}
						case "Parent":
							if f.isCall(f.deref(sel.X), pathW+".ProvidedType.Field") != nil {
								succField = true
							}
						}
					}
				}
			}
			// the collection of successors, and the loop that pushes them, depend on nothing but the kind of the
			// entry and the visited test: no other condition may skip an edge
			{
				var sites []ast.Node
				if succLoop != nil {
					sites = append(sites, succLoop)
				}
				ast.Inspect(v.loop.Body, func(nd ast.Node) bool {
					as, ok := nd.(*ast.AssignStmt)
					if !ok || len(as.Rhs) != 1 || len(as.Lhs) != 1 {
						return true
					}
					if ap := fi.isBuiltin(as.Rhs[0], "append"); ap != nil && len(ap.Args) == 2 && fi.varOf(as.Lhs[0]) != v.stk {
						if f := fi.selField(ap.Args[1]); f != nil && (f.Name() == "Type" || f.Name() == "Parent") {
							sites = append(sites, as)
						}
					}
					return true
				})
				var extra []string
				for _, site := range sites {
					for _, g := range fi.GuardsWithin(site, v.loop.Body) {
						if !acyclicKindGuard(fi, v, g.Expr) {
							extra = append(extra, exprShort(g.Expr))
						}
					}
				}
				// … nor may anything before them leave the iteration on another condition
				last := 0
				for _, site := range sites {
					if o := startOf(site); o > last {
						last = o
					}
				}
				var walk func(n ast.Node, inLoop, inSwitch bool)
				walk = func(n ast.Node, inLoop, inSwitch bool) {
					ast.Inspect(n, func(m ast.Node) bool {
						if m == nil || m == n {
							return true
						}
						switch s := m.(type) {
						case *ast.FuncLit:
							return false
						case *ast.ForStmt:
							walk(s.Body, true, false)
							return false
						case *ast.RangeStmt:
							walk(s.Body, true, false)
							return false
						case *ast.SwitchStmt:
							walk(s.Body, inLoop, true)
							return false
						case *ast.TypeSwitchStmt:
							walk(s.Body, inLoop, true)
							return false
						case *ast.SelectStmt:
							walk(s.Body, inLoop, true)
							return false
						case *ast.ReturnStmt:
						case *ast.BranchStmt:
							if s.Label == nil && (inLoop || (s.Tok == token.BREAK && inSwitch) || s.Tok == token.FALLTHROUGH) {
								return true
							}
						default:
							return true
						}
						if startOf(m) >= last {
							return true
						}
						for _, g := range fi.GuardsWithin(m, v.loop.Body) {
							if !acyclicKindGuard(fi, v, g.Expr) {
								extra = append(extra, "leaves the iteration when "+exprShort(g.Expr))
							}
						}
						return true
					})
				}
				walk(v.loop.Body, false, false)
				if len(sites) > 0 {
					r.Check(len(extra) == 0, "successors/unconditional", v.loop.Pos(), "which edges are followed depends only on the kind of the entry and the visited test (%d collection sites; other conditions: %v)", len(sites), extra)
				}
			}
			r.Check(succProvider, "successors/provider-args", v.loop.Pos(), "a provider's successors are the types of ALL its Args")
			r.Check(succField, "successors/field-parent", v.loop.Pos(), "a field's successor is its Parent")
			// sibling cross-check: solve and gather follow the same fields
			for _, sib := range []struct {
				pkg, name string
			}{{pathW, "solve"}, {pathCmd, "gather"}} {
				var sf *FuncInfo
				if sib.pkg == pathW {
					sf = c.Fn(c.W, sib.name)
				} else {
					sf = c.Fn(c.Cmd, sib.name)
				}
				if r.Need(sf, sib.name) == nil {
					continue
				}
				usesArgs, usesParent := false, false
				sf.inspect(sf.Decl.Body, func(nd ast.Node) bool {
					if f := sf.selField0(nd); f != nil {
						if f.Name() == "Args" && isNamed(derefType(f.Type().(*types.Slice).Elem()), pathW, "ProviderInput") {
							usesArgs = true
						}
						if f.Name() == "Parent" {
							usesParent = true
						}
					}
					return true
				})
				r.Check(usesArgs && usesParent, "siblings/"+sib.name, sf.Decl.Pos(), "%s follows the same edges (Provider.Args types, Field.Parent)", sib.name)
			}
			// trail comparison and push
			okCmp, okPush := false, false
			ast.Inspect(v.loop.Body, func(nd ast.Node) bool {
				rs, ok := nd.(*ast.RangeStmt)
				if !ok || rs.Value == nil || !(argsVar != nil && fi.varOf(rs.X) == argsVar || argsVar == nil && succByLoop != nil && rs == succByLoop) {
					return true
				}
				succ := fi.varOf(rs.Value)
				if !fi.unconditionalIn(rs, v.loop.Body) {
					// it sits inside the provider/field case: guards must be only the kind dispatch & visited test; accept case clauses
				}
				// inner: for _, b := range curr { if types.Identical(a, b) {...} }
				ast.Inspect(rs.Body, func(m ast.Node) bool {
					in, ok := m.(*ast.RangeStmt)
					if !ok || fi.varOf(in.X) != v.curr || in.Value == nil {
						return true
					}
					for _, s := range in.Body.List {
						is, ok := s.(*ast.IfStmt)
						if !ok {
							continue
						}
						id := fi.isCall(is.Cond, fnIdentical)
						if id == nil {
							continue
						}
						x, y := fi.varOf(id.Args[0]), fi.varOf(id.Args[1])
						if (x == succ && y == fi.varOf(in.Value)) || (y == succ && x == fi.varOf(in.Value)) {
							// adds an error
							for _, cl := range callsIn(is.Body) {
								if fi.calleeName(cl) == fnECAdd && fi.unconditionalIn(cl, is.Body) {
									okCmp = true
								}
							}
						}
					}
					// no condition may skip trail elements: the Identical test is a direct child (checked above), and
					// nothing before it in the body continues/breaks
					for _, s := range in.Body.List {
						if is, ok := s.(*ast.IfStmt); ok && fi.isCall(is.Cond, fnIdentical) != nil {
							break
						}
						if _, ok := s.(*ast.IfStmt); ok {
							okCmp = false
						}
					}
					return true
				})
				// push: stk = append(stk, next) with next = append(append([]T(nil), curr...), a), guarded by !hasCycle
				ast.Inspect(rs.Body, func(m ast.Node) bool {
					as, ok := m.(*ast.AssignStmt)
					if !ok || len(as.Lhs) != 1 || fi.varOf(as.Lhs[0]) != v.stk {
						return true
					}
					ap := fi.isBuiltin(as.Rhs[0], "append")
					if ap == nil || len(ap.Args) != 2 {
						return true
					}
					nx := fi.isBuiltin(fi.deref(ap.Args[1]), "append")
					if nx == nil || len(nx.Args) != 2 || fi.varOf(nx.Args[1]) != succ {
						return true
					}
					cp := fi.isBuiltin(fi.deref(nx.Args[0]), "append")
					if cp == nil || len(cp.Args) != 2 || fi.varOf(cp.Args[1]) != v.curr || !cp.Ellipsis.IsValid() {
						return true
					}
					// fresh backing array: first arg is a nil/empty slice conversion
					if _, isCall := ast.Unparen(cp.Args[0]).(*ast.CallExpr); !isCall {
						if _, isLit := ast.Unparen(cp.Args[0]).(*ast.CompositeLit); !isLit {
							return true
						}
					}
					// guarded by !hasCycle where hasCycle is set true only in the Identical branch
					gs := fi.GuardsWithin(as, rs.Body)
					if len(gs) == 1 && gs[0].Neg && fi.varOf(gs[0].Expr) != nil {
						hv := fi.varOf(gs[0].Expr)
						okH := true
						for _, d := range fi.defs[hv] {
							if d.kind == "assign" {
								id, _ := ast.Unparen(d.rhs).(*ast.Ident)
								if id == nil || id.Name != "true" {
									okH = false
								}
								// must be inside the Identical branch
								inId := false
								for _, g := range fi.Guards(d.node) {
									if !g.Neg && fi.isCall(g.Expr, fnIdentical) != nil {
										inId = true
									}
								}
								if !inId {
									okH = false
								}
							}
						}
						if okH {
							okPush = true
						}
					}
					return true
				})
				return true
			})
			// generalised forms of the two trail facts (membership search in a helper analysed in place)
			if succLoop != nil && (!okCmp || !okPush) {
				succ := fi.varOf(succLoop.Value)
				derivesFrom := func(f *FuncInfo, e ast.Expr, want *types.Var) bool {
					for k := 0; k < 6; k++ {
						vv := f.varOf(e)
						if vv == nil {
							return false
						}
						if vv == want {
							return true
						}
						d := f.singleDef(vv) // one step at a time: deref would run past the variable we look for
						if d == nil || d.idx >= 0 || d.rhs == nil {
							return false
						}
						e = d.rhs
					}
					return false
				}
				// an Identical(successor, element of the trail) inside a complete loop over the trail …
				var member *ast.CallExpr
				fi.inspect(succLoop.Body, func(nd ast.Node) bool {
					id, ok := nd.(*ast.CallExpr)
					if !ok || fi.calleeName(id) != fnIdentical || len(id.Args) != 2 {
						return true
					}
					in, ok := fi.enclosingLoop(id).(*ast.RangeStmt)
					if !ok || in.Value == nil || !derivesFrom(fi, in.X, v.curr) {
						return true
					}
					elem := fi.varOf(in.Value)
					x, y := id.Args[0], id.Args[1]
					if !((derivesFrom(fi, x, succ) && fi.varOf(y) == elem) || (derivesFrom(fi, y, succ) && fi.varOf(x) == elem)) {
						return true
					}
					// nothing in the loop body precedes the test (no element is skipped)
					if len(in.Body.List) == 0 {
						return true
					}
					first, ok := in.Body.List[0].(*ast.IfStmt)
					if !ok || fi.isCall(first.Cond, fnIdentical) != id {
						return true
					}
					member = id
					return true
				})
				if member != nil {
					// … whose success is what the cycle report is conditional on
					for _, cl := range fi.callsDeep(succLoop.Body) {
						if fi.calleeName(cl) != fnECAdd {
							continue
						}
						for _, g := range fi.Guards(cl) {
							if !g.Neg && fi.isCall(g.Expr, fnIdentical) == member {
								okCmp = true
							}
						}
					}
					// … and whose failure is what the push is conditional on
					fi.inspect(succLoop.Body, func(nd ast.Node) bool {
						as, ok := nd.(*ast.AssignStmt)
						if !ok || len(as.Lhs) != 1 || len(as.Rhs) != 1 || fi.varOf(as.Lhs[0]) != v.stk {
							return true
						}
						ap := fi.isBuiltin(as.Rhs[0], "append")
						if ap == nil || len(ap.Args) != 2 {
							return true
						}
						nx := fi.isBuiltin(fi.deref(ap.Args[1]), "append")
						if nx == nil || len(nx.Args) != 2 || fi.varOf(nx.Args[1]) != succ {
							return true
						}
						cp := fi.isBuiltin(fi.deref(nx.Args[0]), "append")
						if cp == nil || len(cp.Args) != 2 || fi.varOf(cp.Args[1]) != v.curr || !cp.Ellipsis.IsValid() {
							return true
						}
						if _, isCall := ast.Unparen(cp.Args[0]).(*ast.CallExpr); !isCall {
							if _, isLit := ast.Unparen(cp.Args[0]).(*ast.CompositeLit); !isLit {
								return true
							}
						}
						gs := fi.GuardsWithin(as, succLoop.Body)
						if len(gs) != 1 {
							return true
						}
						if sv, found, ok := fi.searchTest(gs[0]); ok && !found {
							if d := fi.singleDef(sv); d != nil {
								if call, isCall := ast.Unparen(d.rhs).(*ast.CallExpr); isCall {
									if S := firstRet(fi.C.searchRet[call], fi.C.successRet[call]); S != nil {
										for _, g := range fi.C.linked[call].GuardsWithin(S, fi.C.linked[call].Decl) {
											if !g.Neg && fi.isCall(g.Expr, fnIdentical) == member {
												okPush = true
											}
										}
									}
								}
							}
						}
						return true
					})
				}
			}
			r.Check(okCmp, "trail/compare-all", v.loop.Pos(), "each successor is compared by types.Identical with every element of the trail; a match adds a cycle error")
			r.Check(okPush, "trail/push-extended", v.loop.Pos(), "a non-cyclic successor is pushed with a fresh copy of the trail extended by exactly that successor")
			// that is the ONLY way onto the stack: any other push inside the search loop would follow an edge
			// without comparing its target with the trail (a cycle closed by that edge is then never reported)
			pushes := 0
			fi.inspect(v.loop.Body, func(nd ast.Node) bool {
				as, ok := nd.(*ast.AssignStmt)
				if !ok || len(as.Lhs) != 1 || len(as.Rhs) != 1 || fi.varOf(as.Lhs[0]) != v.stk {
					return true
				}
				if ap := fi.isBuiltin(as.Rhs[0], "append"); ap != nil {
					pushes++
				}
				return true
			})
			r.Check(pushes == 1, "trail/single-push-site", v.loop.Pos(), "the search loop pushes onto its stack at exactly one site, the checked one (%d push sites)", pushes)
		})

	register("C08.R1", "verifyArgsUsed has one loop per direct-item kind that processNewSet fills: every element is compared by == with the matching providerSetSrc field of every used source, and a miss appends an error",
		func(c *Ctx, r *R) {
			fi := r.Need(c.Fn(c.W, "verifyArgsUsed"), "verifyArgsUsed")
			pn := r.Need(c.Fn(c.W, "objectCache.processNewSet"), "objectCache.processNewSet")
			if fi == nil || pn == nil {
				return
			}
			ps := lookupType(c.W, "ProviderSet")
			src := lookupType(c.W, "providerSetSrc")
			// universe: slice fields of ProviderSet appended to in processNewSet
			var kinds []*types.Var
			pn.inspect(pn.Decl.Body, func(nd ast.Node) bool {
				as, ok := nd.(*ast.AssignStmt)
				if !ok || len(as.Lhs) != 1 || len(as.Rhs) != 1 {
					return true
				}
				f := pn.selField(as.Lhs[0])
				if f == nil || pn.isBuiltin(as.Rhs[0], "append") == nil {
					return true
				}
				if _, ok := f.Type().(*types.Slice); ok {
					kinds = append(kinds, f)
				}
				return true
			})
			r.Floor("item kinds filled by processNewSet", len(kinds), 5)
			_ = ps
			sst := src.Underlying().(*types.Struct)
			usedParam := (*types.Var)(nil)
			setParam := (*types.Var)(nil)
			for _, f := range fi.Decl.Type.Params.List {
				for _, nm := range f.Names {
					pv := fi.Info.Defs[nm].(*types.Var)
					if _, ok := pv.Type().(*types.Slice); ok {
						usedParam = pv
					} else {
						setParam = pv
					}
				}
			}
			groupedByCall := map[*types.Var]bool{}
			defer func() {
				for _, kf := range kinds {
					if kf.Name() == "Fields" {
						r.Check(groupedByCall[kf], "kind:Fields/one-item-per-FieldsOf-call", fi.Decl.Pos(), "a field also counts as used when another field listed by the same wire.FieldsOf call is used (the call is the item passed to wire.Build)")
					}
				}
			}()
			for _, kf := range kinds {
				k := "kind:" + kf.Name()
				elem := kf.Type().(*types.Slice).Elem()
				// matching providerSetSrc field by type
				var sf *types.Var
				for i := 0; i < sst.NumFields(); i++ {
					if types.Identical(sst.Field(i).Type(), elem) {
						sf = sst.Field(i)
					}
				}
				if sf == nil {
					r.Bad(k+"/src-field", kf.Pos(), "no providerSetSrc field of type %s", elem)
					continue
				}
				found := false
				fi.inspect(fi.Decl.Body, func(nd ast.Node) bool {
					outer, ok := nd.(*ast.RangeStmt)
					if !ok || fi.selField(outer.X) != kf || outer.Value == nil {
						return true
					}
					if b := outer.X.(*ast.SelectorExpr).X; fi.varOf(b) != setParam {
						return true
					}
					if !fi.unconditionalIn(outer, fi.Decl.Body) {
						return true
					}
					item := fi.varOf(outer.Value)
					// inner range over used with u.<sf> == item → found = true
					var foundVar *types.Var
					okInner := false
					for _, s := range outer.Body.List {
						in, ok := s.(*ast.RangeStmt)
						if !ok || fi.varOf(in.X) != usedParam || in.Value == nil {
							continue
						}
						u := fi.varOf(in.Value)
						for _, s2 := range in.Body.List {
							is, ok := s2.(*ast.IfStmt)
							if !ok {
								continue
							}
							be, ok := ast.Unparen(is.Cond).(*ast.BinaryExpr)
							if ok && be.Op == token.LOR {
								// `u.F == item || <same wire.FieldsOf call>`: the fields listed by one call are one item
								if sameCallClause(fi, be.Y, u, item, sf) {
									groupedByCall[kf] = true
									be, ok = ast.Unparen(be.X).(*ast.BinaryExpr)
								}
							}
							if !ok || be.Op != token.EQL {
								continue
							}
							l, rr := be.X, be.Y
							if fi.varOf(l) == item {
								l, rr = rr, l
							}
							if fi.selField(l) == sf && fi.varOf(l.(*ast.SelectorExpr).X) == u && fi.varOf(rr) == item {
								for _, s3 := range is.Body.List {
									if as, ok := s3.(*ast.AssignStmt); ok && len(as.Lhs) == 1 {
										if id, ok := ast.Unparen(as.Rhs[0]).(*ast.Ident); ok && id.Name == "true" {
											foundVar = fi.varOf(as.Lhs[0])
											okInner = true
										}
									}
								}
							}
						}
						// nothing before the comparison may skip used elements
						if len(in.Body.List) > 0 {
							if _, ok := in.Body.List[0].(*ast.IfStmt); !ok {
								okInner = false
							}
						}
					}
					// the same search written with an "any" combinator: h(used, func(u) bool { return u.<sf> == item })
					isAnyCall := func(e ast.Expr) bool {
						call, ok := ast.Unparen(e).(*ast.CallExpr)
						if !ok || len(call.Args) != 2 || fi.varOf(call.Args[0]) != usedParam {
							return false
						}
						lit, ok := ast.Unparen(call.Args[1]).(*ast.FuncLit)
						if !ok || len(lit.Type.Params.List) != 1 || len(lit.Type.Params.List[0].Names) != 1 || len(lit.Body.List) != 1 {
							return false
						}
						u, _ := fi.Info.Defs[lit.Type.Params.List[0].Names[0]].(*types.Var)
						ret, ok := lit.Body.List[0].(*ast.ReturnStmt)
						if !ok || len(ret.Results) != 1 || u == nil {
							return false
						}
						be, ok := ast.Unparen(ret.Results[0]).(*ast.BinaryExpr)
						if ok && be.Op == token.LOR && sameCallClause(fi, be.Y, u, item, sf) {
							groupedByCall[kf] = true
							be, ok = ast.Unparen(be.X).(*ast.BinaryExpr)
						}
						if !ok || be.Op != token.EQL {
							return false
						}
						l, rr := be.X, be.Y
						if fi.varOf(l) == item {
							l, rr = rr, l
						}
						sl, ok := ast.Unparen(l).(*ast.SelectorExpr)
						if !ok || fi.selField(l) != sf || fi.varOf(sl.X) != u || fi.varOf(rr) != item {
							return false
						}
						return isAnyCombinator(c.FnOf(fi.callee(call)))
					}
					combinator := false
					for _, s := range outer.Body.List {
						if is, ok := s.(*ast.IfStmt); ok {
							if cs := flatten(is.Cond, false, is); len(cs) == 1 && isAnyCall(cs[0].Expr) {
								combinator = true
							}
						}
					}
					if (!okInner || foundVar == nil) && !combinator {
						return true
					}
					// found starts false each iteration
					fresh := combinator
					for _, d := range fi.defs[foundVar] {
						if d.kind == "define" && fi.within(d.node, outer.Body) {
							if id, ok := ast.Unparen(d.rhs).(*ast.Ident); ok && id.Name == "false" {
								fresh = true
							}
						}
					}
					// on every path on which found is still false, an error is appended
					isApp := func(st ast.Stmt) bool {
						as, ok := st.(*ast.AssignStmt)
						return ok && len(as.Rhs) == 1 && fi.isBuiltin(as.Rhs[0], "append") != nil && isErrorSlice(fi.Info.TypeOf(as.Lhs[0]))
					}
					var allPaths func(stmts []ast.Stmt) bool
					allPaths = func(stmts []ast.Stmt) bool {
						for _, st := range stmts {
							if isApp(st) {
								return true
							}
							is, ok := st.(*ast.IfStmt)
							if !ok {
								if terminates(&ast.BlockStmt{List: []ast.Stmt{st}}) {
									return false
								}
								continue
							}
							thenOK := allPaths(is.Body.List)
							if is.Else != nil {
								var el []ast.Stmt
								if b, ok := is.Else.(*ast.BlockStmt); ok {
									el = b.List
								} else {
									el = []ast.Stmt{is.Else}
								}
								if thenOK && allPaths(el) {
									return true
								}
								if terminates(is.Body) && !thenOK {
									return false
								}
								continue
							}
							if terminates(is.Body) && !thenOK {
								return false // a path leaves the iteration without reporting
							}
						}
						return false
					}
					reported := false
					for i, s := range outer.Body.List {
						is, ok := s.(*ast.IfStmt)
						if !ok {
							continue
						}
						cs := flatten(is.Cond, false, is)
						if len(cs) != 1 || !(foundVar != nil && fi.varOf(cs[0].Expr) == foundVar || isAnyCall(cs[0].Expr)) {
							continue
						}
						if cs[0].Neg {
							// if !found { … }
							reported = allPaths(is.Body.List)
						} else if terminates(is.Body) && is.Else == nil {
							// if found { continue }; …
							reported = allPaths(outer.Body.List[i+1:])
						}
					}
					if fresh && reported {
						found = true
					}
					return true
				})
				r.Check(found, k, fi.Decl.Pos(), "set.%s is checked against used[·].%s with == and a miss is reported", kf.Name(), sf.Name())
			}
			// the errors are returned
			for i, ret := range fi.returnsOf() {
				r.Check(len(ret.Results) == 1 && isErrorSlice(fi.Info.TypeOf(ret.Results[0])) && !fi.isNilIdent(ret.Results[0]), "return#"+itoa(i), ret.Pos(), "returns the accumulated errors")
			}
		})

	register("C08.R2", "source tagging agrees: in buildProviderMap each loop over set.X records, for its insertions, a providerSetSrc literal whose only field is the loop's own element",
		func(c *Ctx, r *R) {
			fi := r.Need(c.Fn(c.W, "buildProviderMap"), "buildProviderMap")
			if fi == nil {
				return
			}
			n := 0
			for _, st := range fi.callsTo(fnMapSet) {
				if len(st.Args) != 2 || !isNamed(derefType(fi.Info.TypeOf(st.Args[1])), pathW, "providerSetSrc") {
					continue
				}
				n++
				k := "src(" + exprShort(st.Args[0]) + ")/" + fi.loopCtx(st)
				d := fi.deref(st.Args[1])
				u, ok := d.(*ast.UnaryExpr)
				var cl *ast.CompositeLit
				if ok {
					cl, _ = u.X.(*ast.CompositeLit)
				}
				if cl == nil || len(cl.Elts) != 1 {
					r.Bad(k, st.Pos(), "source is not a single-field providerSetSrc literal")
					continue
				}
				kv, _ := cl.Elts[0].(*ast.KeyValueExpr)
				if kv == nil {
					r.Bad(k, st.Pos(), "unkeyed providerSetSrc literal")
					continue
				}
				// the value is the element of the outermost enclosing range over a set.X field (or the InjectorArg built in the loop)
				val := fi.varOf(kv.Value)
				ok2 := false
				for p := fi.parent[ast.Node(st)]; p != nil; p = fi.parent[p] {
					if rs, isR := p.(*ast.RangeStmt); isR && rs.Value != nil && fi.varOf(rs.Value) == val {
						if f := fi.selField(rs.X); f != nil {
							if b := rs.X.(*ast.SelectorExpr).X; fi.varOf(b) != nil && fi.isParam(fi.varOf(b)) {
								ok2 = true
							}
						}
					}
				}
				if !ok2 && kv.Key.(*ast.Ident).Name == "InjectorArg" {
					if dd := fi.defOf(kv.Value); dd != nil {
						ok2 = true
					}
				}
				// literal must be created per element (inside the loop over the items)
				r.Check(ok2, k, st.Pos(), "recorded source is {%s: <the loop's own element>}", kv.Key.(*ast.Ident).Name)
			}
			r.Floor("srcMap.Set sites", n, 6)
		})

	register("C10.R1", "bindings are resolved last: the loop that looks up providerMap.At(b.Provided) comes after every loop that inserts non-binding entries, and nothing is inserted after it except the bindings themselves",
		func(c *Ctx, r *R) {
			fi := r.Need(c.Fn(c.W, "buildProviderMap"), "buildProviderMap")
			if fi == nil {
				return
			}
			var bindLoop ast.Stmt
			for _, at := range fi.callsTo(fnMapAt) {
				if f := fi.selField(at.Args[0]); f != nil && f.Name() == "Provided" {
					bindLoop = fi.topLevelStmt(at)
				}
			}
			if bindLoop == nil {
				r.Bad("binding-lookup", fi.Decl.Pos(), "providerMap.At(b.Provided) not found")
				return
			}
			n := 0
			for _, st := range fi.callsTo(fnMapSet) {
				top := fi.topLevelStmt(st)
				if top == bindLoop {
					continue
				}
				n++
				r.Check(startOf(top) < startOf(bindLoop), "insert-before-bindings/"+fi.loopCtx(st)+"/"+exprShort(recvOf(st)), st.Pos(), "non-binding insertion precedes binding resolution")
			}
			r.Floor("non-binding insertions", n, 10)
			// error gate between: collected errors abort before bindings are resolved is not required for correctness
		})

	register("C11.R2", "a binding's concrete type must be provided by the same set: providerMap.At(b.Provided)==nil ⇒ error and no insertion; otherwise the interface key stores that very looked-up entry",
		func(c *Ctx, r *R) {
			fi := r.Need(c.Fn(c.W, "buildProviderMap"), "buildProviderMap")
			if fi == nil {
				return
			}
			n := 0
			for _, st := range fi.callsTo(fnMapSet) {
				kf := fi.selField(st.Args[0])
				if kf == nil || kf.Name() != "Iface" || isNamed(derefType(fi.Info.TypeOf(st.Args[1])), pathW, "providerSetSrc") {
					continue
				}
				n++
				val := st.Args[1]
				at := fi.isCall(fi.deref(val), fnMapAt)
				okV := at != nil && fi.selField(at.Args[0]) != nil && fi.selField(at.Args[0]).Name() == "Provided" &&
					fi.sameExpr(at.Args[0].(*ast.SelectorExpr).X, st.Args[0].(*ast.SelectorExpr).X) &&
					fi.varOf(recvOf(at)) == fi.varOf(recvOf(st))
				r.Check(okV, "alias-value", st.Pos(), "providerMap[b.Iface] = providerMap.At(b.Provided) of the same binding, in the same map")
				guarded := false
				var gif *ast.IfStmt
				for _, g := range fi.Guards(st) {
					if x, isNil, ok := fi.nilTest(g); ok && !isNil && fi.sameExpr(x, val) {
						guarded = true
						gif, _ = g.At.(*ast.IfStmt)
					}
				}
				r.Check(guarded, "alias-guard", st.Pos(), "insertion is dominated by the non-nil edge of the concrete lookup")
				if gif != nil {
					// the nil edge: the body of `if concrete == nil {…; continue}`, the else of `if concrete != nil {insert} else {…}`,
					// or what follows `if concrete != nil {insert; continue}`
					calls, uncond, leaves, okE := fi.otherEdge(gif, st)
					added := false
					if okE {
						for _, cl := range calls {
							if fi.calleeName(cl) == fnECAdd && uncond(cl) {
								added = true
							}
						}
					}
					r.Check(added && leaves, "missing-concrete-error", gif.Pos(), "the nil edge adds an error and leaves without inserting")
				}
			}
			r.Floor("interface-key insertions", n, 1)
		})
}

type acyclic struct {
	visited, stk, curr *types.Var
	head               ast.Expr
	loop               *ast.ForStmt
}

// acyclicKindGuard reports whether a condition in verifyAcyclic's search loop is one of the tests that
// legitimately select what is expanded: a kind test of the map entry, the entry being absent, the visited
// test, or a boolean combination of those.
func acyclicKindGuard(fi *FuncInfo, v *acyclic, e ast.Expr) bool {
	e = ast.Unparen(e)
	switch x := e.(type) {
	case *ast.UnaryExpr:
		if x.Op == token.NOT {
			return acyclicKindGuard(fi, v, x.X)
		}
	case *ast.BinaryExpr:
		switch x.Op {
		case token.LAND, token.LOR:
			return acyclicKindGuard(fi, v, x.X) && acyclicKindGuard(fi, v, x.Y)
		case token.EQL, token.NEQ:
			a, b := x.X, x.Y
			if fi.isNilIdent(a) {
				a, b = b, a
			}
			if fi.isNilIdent(b) {
				if at := fi.isCall(fi.deref(a), fnMapAt); at != nil && fi.varOf(recvOf(at)) != nil && fi.isParam(fi.varOf(recvOf(at))) {
					return true
				}
			}
		}
	case *ast.CallExpr:
		if fn := fi.calleeName(x); strings.HasPrefix(fn, pathW+".ProvidedType.Is") {
			return true
		}
	case *ast.Ident:
		d := fi.defOf(x)
		if d == nil {
			return false
		}
		if ta, ok := ast.Unparen(d.rhs).(*ast.TypeAssertExpr); ok {
			if at := fi.isCall(fi.deref(ta.X), fnMapAt); at != nil {
				return true // the visited test, or the comma-ok of the entry's own type assertion
			}
		}
	case *ast.TypeAssertExpr:
		if at := fi.isCall(fi.deref(x.X), fnMapAt); at != nil && fi.varOf(recvOf(at)) == v.visited {
			return true
		}
	}
	return false
}

func acyclicAnchors(fi *FuncInfo) *acyclic {
	a := &acyclic{}
	if m := fi.localVarsOfType("golang.org/x/tools/go/types/typeutil", "Map"); len(m) == 1 {
		a.visited = m[0]
	}
	fi.inspect(fi.Decl.Body, func(n ast.Node) bool {
		f, ok := n.(*ast.ForStmt)
		if !ok || a.loop != nil || f.Cond == nil {
			return true
		}
		be, ok := ast.Unparen(f.Cond).(*ast.BinaryExpr)
		if !ok {
			return true
		}
		if l := fi.isBuiltin(be.X, "len"); l != nil {
			a.stk = fi.varOf(l.Args[0])
			a.loop = f
		}
		return true
	})
	if a.loop == nil || a.visited == nil || a.stk == nil {
		return nil
	}
	// curr := stk[len(stk)-1]; head := curr[len(curr)-1]
	for _, s := range a.loop.Body.List {
		as, ok := s.(*ast.AssignStmt)
		if !ok || as.Tok != token.DEFINE || len(as.Lhs) != 1 {
			continue
		}
		ix, ok := ast.Unparen(as.Rhs[0]).(*ast.IndexExpr)
		if !ok {
			continue
		}
		if fi.varOf(ix.X) == a.stk {
			a.curr = fi.varOf(as.Lhs[0])
		} else if a.curr != nil && fi.varOf(ix.X) == a.curr {
			a.head = as.Lhs[0]
		}
	}
	if a.curr == nil || a.head == nil {
		return nil
	}
	return a
}

func paramIndex(fi *FuncInfo, v *types.Var) int {
	i := 0
	for _, f := range fi.Decl.Type.Params.List {
		for _, nm := range f.Names {
			if fi.Info.Defs[nm] == v {
				return i
			}
			i++
		}
	}
	return -1
}

// selField0 returns the field selected by node n if n is a selector expression.
func (fi *FuncInfo) selField0(n ast.Node) *types.Var {
	if e, ok := n.(ast.Expr); ok {
		return fi.selField(e)
	}
	return nil
}

// topLevelStmt returns the statement of the function body's top-level list containing n.
func (fi *FuncInfo) topLevelStmt(n ast.Node) ast.Stmt {
	var last ast.Stmt
	for p := n; p != nil; p = fi.parent[p] {
		if p == ast.Node(fi.Decl.Body) {
			return last
		}
		if s, ok := p.(ast.Stmt); ok {
			last = s
		}
	}
	return nil
}

// isAnyCombinator recognises func h(xs []T, pred func(T) bool) bool
// { for _, x := range xs { if pred(x) { return true } }; return false }.
func isAnyCombinator(h *FuncInfo) bool {
	if h == nil || h.Decl.Body == nil || len(h.Decl.Body.List) != 2 {
		return false
	}
	var ps []*types.Var
	for _, f := range h.Decl.Type.Params.List {
		for _, nm := range f.Names {
			if v, ok := h.Info.Defs[nm].(*types.Var); ok {
				ps = append(ps, v)
			}
		}
	}
	if len(ps) != 2 {
		return false
	}
	rs, ok := h.Decl.Body.List[0].(*ast.RangeStmt)
	if !ok || h.varOf(rs.X) != ps[0] || rs.Value == nil || len(rs.Body.List) != 1 {
		return false
	}
	is, ok := rs.Body.List[0].(*ast.IfStmt)
	if !ok || is.Else != nil || is.Init != nil || len(is.Body.List) != 1 {
		return false
	}
	call, ok := ast.Unparen(is.Cond).(*ast.CallExpr)
	if !ok || h.varOf(call.Fun) != ps[1] || len(call.Args) != 1 || h.varOf(call.Args[0]) != h.varOf(rs.Value) {
		return false
	}
	isConst := func(st ast.Stmt, want string) bool {
		r, ok := st.(*ast.ReturnStmt)
		if !ok || len(r.Results) != 1 {
			return false
		}
		id, ok := ast.Unparen(r.Results[0]).(*ast.Ident)
		return ok && id.Name == want
	}
	return isConst(is.Body.List[0], "true") && isConst(h.Decl.Body.List[1], "false")
}

// sameCallClause recognises `u.<sf> != nil && item.call != nil && u.<sf>.call == item.call`
// (in any order of the nil tests): the two fields come from the same marker call.
func sameCallClause(fi *FuncInfo, e ast.Expr, u, item *types.Var, sf *types.Var) bool {
	same := false
	for _, c := range flatten(e, false, nil) {
		if c.Neg {
			return false
		}
		be, ok := ast.Unparen(c.Expr).(*ast.BinaryExpr)
		if !ok {
			return false
		}
		if be.Op == token.NEQ && fi.isNilIdent(be.Y) {
			continue // nil guards
		}
		if be.Op != token.EQL {
			return false
		}
		isCallOf := func(x ast.Expr, root *types.Var, via *types.Var) bool {
			sel, ok := ast.Unparen(x).(*ast.SelectorExpr)
			if !ok || sel.Sel.Name != "call" {
				return false
			}
			if via == nil {
				return fi.varOf(sel.X) == root
			}
			in, ok := ast.Unparen(sel.X).(*ast.SelectorExpr)
			return ok && fi.selField(in) == via && fi.varOf(in.X) == root
		}
		if (isCallOf(be.X, u, sf) && isCallOf(be.Y, item, nil)) || (isCallOf(be.Y, u, sf) && isCallOf(be.X, item, nil)) {
			same = true
			continue
		}
		return false
	}
	return same
}

func firstRet(a, b *ast.ReturnStmt) *ast.ReturnStmt {
	if a != nil {
		return a
	}
	return b
}
