package main

import (
	"go/ast"
	"go/types"
	"sort"
	"strings"
)

func init() {
	register("C15.R1", "node-kind exhaustiveness: copyAST has a case for every concrete ast.Node type of the go/ast the repository builds against (except File and Package, which cannot occur below a declaration); children are copied before parents",
		func(c *Ctx, r *R) {
			fi := r.Need(copierFn(c), "copyAST")
			if fi == nil {
				return
			}
			astPkg := importedPkg(c.W, "go/ast")
			if astPkg == nil {
				r.Bad("anchor:go/ast", 0, "go/ast not in the import closure")
				return
			}
			nodeIface, _ := astPkg.Scope().Lookup("Node").Type().Underlying().(*types.Interface)
			var universe []string
			for _, nm := range astPkg.Scope().Names() {
				tn, ok := astPkg.Scope().Lookup(nm).(*types.TypeName)
				if !ok || !tn.Exported() || tn.IsAlias() {
					continue
				}
				if _, isStruct := tn.Type().Underlying().(*types.Struct); !isStruct {
					continue
				}
				if types.Implements(types.NewPointer(tn.Type()), nodeIface) && nm != "File" && nm != "Package" {
					universe = append(universe, nm)
				}
			}
			sort.Strings(universe)
			r.Floor("concrete ast.Node types", len(universe), 54)
			sw := copyASTSwitch(fi)
			if sw == nil {
				r.Bad("switch", fi.Decl.Pos(), "node-kind type switch not found in the astutil.Apply callback")
				return
			}
			cases := map[string]*ast.CaseClause{}
			for _, s := range sw.Body.List {
				cc := s.(*ast.CaseClause)
				for _, e := range cc.List {
					cases[strings.TrimPrefix(types.ExprString(e), "*ast.")] = cc
				}
			}
			for _, u := range universe {
				r.Check(cases[u] != nil, "copyAST/case:*ast."+u, sw.Pos(), "node kind *ast.%s is copied", u)
			}
			// post-order: astutil.Apply(original, nil, post)
			for _, cl := range fi.callsDeep(fi.Decl.Body) {
				if fi.calleeName(cl) == "golang.org/x/tools/go/ast/astutil.Apply" {
					_, isLit := ast.Unparen(cl.Args[2]).(*ast.FuncLit)
					r.Check(fi.isNilIdent(cl.Args[1]) && isLit, "post-order", cl.Pos(), "the copier runs as the post-order callback (children are in the map before their parent is built)")
				}
			}
		})

	register("C15.R2", "field completeness: each case of copyAST sets every non-position field of the node struct, plus the semantic positions (CallExpr.Ellipsis, TypeSpec.Assign, GenDecl.Lparen/Rparen), from the same-named field of the original",
		func(c *Ctx, r *R) {
			fi := r.Need(copierFn(c), "copyAST")
			if fi == nil {
				return
			}
			sw := copyASTSwitch(fi)
			if sw == nil {
				r.Bad("switch", fi.Decl.Pos(), "node-kind type switch not found")
				return
			}
			var nodeIface *types.Interface
			if ap := c.W.Types.Imports(); ap != nil {
				for _, im := range ap {
					if im.Path() == "go/ast" {
						if o := im.Scope().Lookup("Node"); o != nil {
							nodeIface, _ = o.Type().Underlying().(*types.Interface)
						}
					}
				}
			}
			if nodeIface == nil {
				r.Bad("ast.Node", fi.Decl.Pos(), "go/ast.Node not found among the package's imports")
			}
			semanticPos := map[string]bool{"CallExpr.Ellipsis": true, "TypeSpec.Assign": true, "GenDecl.Lparen": true, "GenDecl.Rparen": true}
			exceptions := map[string]string{
				"CompositeLit.Incomplete": "only set by the parser for syntactically broken input, which never type-checks",
				"BasicLit.Kind":           "",
			}
			delete(exceptions, "BasicLit.Kind")
			checked := 0
			for _, s := range sw.Body.List {
				cc := s.(*ast.CaseClause)
				if len(cc.List) != 1 {
					continue
				}
				tname := strings.TrimPrefix(types.ExprString(cc.List[0]), "*ast.")
				if tname == "nil" || tname == "Ident" {
					// identifiers keep their identity by design (types.Info is keyed by them)
					continue
				}
				pt, ok := fi.Info.TypeOf(cc.List[0]).(*types.Pointer)
				if !ok {
					continue
				}
				st, ok := pt.Elem().Underlying().(*types.Struct)
				if !ok {
					continue
				}
				nodeVar := fi.Info.Implicits[cc]
				// collect fields set: literal keys and later assignments v.F = …
				set := map[string]ast.Expr{}
				var litVar *types.Var
				for _, stx := range cc.Body {
					ast.Inspect(stx, func(nd ast.Node) bool {
						switch n := nd.(type) {
						case *ast.CompositeLit:
							if t := fi.Info.TypeOf(n); t != nil && types.Identical(t, pt.Elem()) {
								for _, el := range n.Elts {
									if kv, ok := el.(*ast.KeyValueExpr); ok {
										set[kv.Key.(*ast.Ident).Name] = kv.Value
									} else {
										set["?unkeyed"] = el
									}
								}
							}
						case *ast.AssignStmt:
							for i, l := range n.Lhs {
								// v := &ast.X{…} / new(ast.X)
								if v := fi.varOf(l); v != nil && types.Identical(v.Type(), pt) {
									litVar = v
								}
								tgt := ast.Unparen(l)
								if ix, ok := tgt.(*ast.IndexExpr); ok {
									tgt = ix.X
								}
								if sel, ok := tgt.(*ast.SelectorExpr); ok && litVar != nil && fi.varOf(sel.X) == litVar && i < len(n.Rhs) {
									// element stores (v.F[i] = m[node.F[i]]) carry the provenance; keep the most specific
									if _, isIx := ast.Unparen(l).(*ast.IndexExpr); isIx || set[sel.Sel.Name] == nil {
										set[sel.Sel.Name] = n.Rhs[i]
									}
								}
							}
						}
						return true
					})
				}
				for i := 0; i < st.NumFields(); i++ {
					f := st.Field(i)
					key := tname + "." + f.Name()
					isPos := types.TypeString(f.Type(), nil) == "go/token.Pos"
					if isPos && !semanticPos[key] {
						continue
					}
					if why, ok := exceptions[key]; ok {
						r.Ok("copyAST/"+key, cc.Pos(), "named exception: %s", why)
						continue
					}
					checked++
					v, ok := set[f.Name()]
					if !ok {
						r.Bad("copyAST/"+key, cc.Pos(), "field %s of *ast.%s is not copied", f.Name(), tname)
						continue
					}
					// the value derives from node.<same field>
					from := false
					var look func(e ast.Node, depth int)
					look = func(e ast.Node, depth int) {
						ast.Inspect(e, func(nd ast.Node) bool {
							if sel, ok := nd.(*ast.SelectorExpr); ok && sel.Sel.Name == f.Name() {
								if id, ok := ast.Unparen(sel.X).(*ast.Ident); ok && fi.Info.ObjectOf(id) == nodeVar {
									from = true
								}
							}
							// the element variable of a loop over the original's field stands for that field's elements
							if id, ok := nd.(*ast.Ident); ok && depth < 3 {
								if vv, ok := fi.Info.Uses[id].(*types.Var); ok {
									for _, d := range fi.defs[vv] {
										if rs, ok := d.node.(*ast.RangeStmt); ok && d.kind == "range-val" {
											look(rs.X, depth+1)
										}
									}
								}
							}
							return true
						})
					}
					look(v, 0)
					r.Check(from, "copyAST/"+key, cc.Pos(), "%s is copied from the original's %s", key, f.Name())
					// a child that is itself a node is taken from the copy map (deep copy): sharing
					// a subtree with the loaded syntax lets the later in-place rewrite edit the original
					et := f.Type()
					if sl, ok := et.(*types.Slice); ok {
						et = sl.Elem()
					}
					if from && nodeIface != nil && types.Implements(et, nodeIface) {
						deep := false
						// e denotes (an element of) the original's field: node.F, node.F[i], or the element variable
						// of a loop over node.F
						var isOrig func(e ast.Expr, depth int) bool
						isOrig = func(e ast.Expr, depth int) bool {
							switch x := ast.Unparen(e).(type) {
							case *ast.IndexExpr:
								return isOrig(x.X, depth)
							case *ast.SelectorExpr:
								if id, ok := ast.Unparen(x.X).(*ast.Ident); ok && x.Sel.Name == f.Name() && fi.Info.ObjectOf(id) == nodeVar {
									return true
								}
							case *ast.Ident:
								if vv, ok := fi.Info.Uses[x].(*types.Var); ok && depth < 3 {
									for _, d := range fi.defs[vv] {
										if rs, ok := d.node.(*ast.RangeStmt); ok && d.kind == "range-val" && isOrig(rs.X, depth+1) {
											return true
										}
									}
								}
							}
							return false
						}
						ast.Inspect(v, func(nd ast.Node) bool {
							switch a := nd.(type) {
							case *ast.CallExpr:
								hasMap, hasOrig := false, false
								for _, arg := range a.Args {
									if isCopyMap(fi.Info.TypeOf(arg)) {
										hasMap = true
									}
									if isOrig(arg, 0) {
										hasOrig = true
									}
								}
								if hasMap && hasOrig {
									deep = true
								}
							case *ast.IndexExpr:
								if isCopyMap(fi.Info.TypeOf(a.X)) && isOrig(a.Index, 0) {
									deep = true
								}
							}
							return true
						})
						r.Check(deep, "copyAST/"+key+"/deep", cc.Pos(), "child node(s) %s are looked up in the copy map, not shared with the original tree", key)
					}
				}
			}
			r.Floor("node fields checked", checked, 120)
		})

	register("C15.R3", "selection of copied declarations: a declaration is skipped iff it is an injector function or an import declaration; every other declaration of every injector file reaches writeAST exactly once, in slice order",
		func(c *Ctx, r *R) {
			modelCheck(c, r, "copyNonInjectorDecls")
			// the files passed are exactly the files in which an injector was generated, in order
			g := r.Need(c.Fn(c.W, "Generate"), "Generate")
			if g != nil {
				ok := false
				for _, cl := range g.callsTo(pathW + ".copyNonInjectorDecls") {
					if d := g.defOf(cl.Args[1]); d != nil && d.idx == 0 && g.isCall(d.rhs, pathW+".generateInjectors") != nil {
						ok = true
					}
				}
				r.Check(ok, "Generate/files-from-generateInjectors", g.Decl.Pos(), "the copier receives the injector files reported by generateInjectors")
			}
		})

	register("C15.R4", "map lookups in the copier cannot miss: every helper that reads the copy map returns nil for a nil key and is otherwise applied to a child of the node being copied (present because of post-order + C15.R1/R2)",
		func(c *Ctx, r *R) {
			n := 0
			for _, fi := range c.all {
				if fi.Pkg != c.W || !strings.HasSuffix(fi.Name, "FromMap") {
					continue
				}
				n++
				r.Need(fi, fi.Name)
				// shape: if key == nil { return nil }; return m[key].(T)
				okNil := false
				for _, ret := range fi.returnsOf() {
					if fi.isNilIdent(ret.Results[0]) {
						for _, g := range fi.Guards(ret) {
							if x, isNil, ok := fi.nilTest(g); ok && isNil && fi.varOf(x) != nil && fi.isParam(fi.varOf(x)) {
								okNil = true
							}
						}
					}
				}
				r.Check(okNil, fi.Name+"/nil-key", fi.Decl.Pos(), "an absent optional child yields nil instead of a failed assertion")
			}
			r.Floor("map-reading helpers", n, 9)
		})

	register("C15.R5", "qualifiers are rewritten through the import table: an unqualified identifier is replaced iff its object lives at package scope of a package with a different import PATH than the destination; a selector iff its X is a package name; the new qualifier is qualifyImport(name, path) of the imported package and the selected name is unchanged; the rewrite operates on a copy",
		func(c *Ctx, r *R) {
			fi := r.Need(c.Fn(c.W, "gen.rewritePkgRefs"), "gen.rewritePkgRefs")
			if fi == nil {
				return
			}
			e := newEmitter(c, fi)
			// node = copyAST(node) before any Apply
			var copyPos, firstApply ast.Node
			var applies []*ast.CallExpr
			for _, cl := range fi.callsDeep(fi.Decl.Body) {
				switch fi.calleeName(cl) {
				case pathW + ".copyAST", pathW + ".copyASTWithOriginals":
					copyPos = cl
				case "golang.org/x/tools/go/ast/astutil.Apply":
					if firstApply == nil {
						firstApply = cl
					}
					applies = append(applies, cl)
				}
			}
			okCopy := copyPos != nil && firstApply != nil && startOf(copyPos) < startOf(firstApply)
			if okCopy {
				as, _ := fi.parent[copyPos].(*ast.AssignStmt)
				cc := copyPos.(*ast.CallExpr)
				okCopy = as != nil && fi.varOf(as.Lhs[0]) == fi.varOf(cc.Args[0]) && fi.varOf(cc.Args[0]) != nil
				for _, ap := range applies {
					okCopy = okCopy && fi.varOf(ap.Args[0]) == fi.varOf(cc.Args[0])
				}
			}
			r.Check(okCopy, "operates-on-copy", fi.Decl.Pos(), "the node is replaced by copyAST(node) before any rewriting, and every rewrite is applied to that copy")
			if len(applies) == 0 {
				return
			}
			lit, _ := ast.Unparen(applies[0].Args[1]).(*ast.FuncLit)
			if lit == nil {
				r.Bad("first-pass", applies[0].Pos(), "first rewrite pass is not a function literal")
				return
			}
			// Replace calls in the first pass
			nIdent, nSel := 0, 0
			for _, cl := range callsIn(lit.Body) {
				if fi.calleeName(cl) != "golang.org/x/tools/go/ast/astutil.Cursor.Replace" {
					continue
				}
				var conds []string
				for _, g := range fi.GuardsWithin(cl, lit.Body) {
					s := e.sym(g.Expr)
					// a re-assigned flag (`x, ok := …` twice) is read at the test: use its latest definition before it
					if v := fi.varOf(g.Expr); v != nil && fi.singleDef(v) == nil {
						var best *defSite
						for i := range fi.defs[v] {
							d := &fi.defs[v][i]
							if d.rhs != nil && startOf(d.node) < startOf(g.At) && (best == nil || startOf(d.node) > startOf(best.node)) {
								best = d
							}
						}
						if best != nil {
							s = e.sym(best.rhs)
							if best.idx >= 0 {
								s += "#" + itoa(best.idx)
							}
						}
					}
					if g.Kind == "typecase" {
						var ts []string
						for _, v := range g.Vals {
							ts = append(ts, types.ExprString(v))
						}
						s = "case " + strings.Join(ts, ",")
						if g.Neg {
							continue
						}
					} else if g.Neg {
						s = "!" + s
					}
					conds = append(conds, s)
				}
				repl := e.sym(cl.Args[0])
				cs := strings.Join(conds, " ∧ ")
				switch {
				case strings.HasPrefix(cs, "case *ast.Ident"):
					nIdent++
					wantC := regexpMatch(`^case \*ast\.Ident ∧ (?:!\((.+)==nil\)|\((.+)!=nil\)) ∧ \((.+)\.Pkg\(\)!=nil\) ∧ \((.+)\.Parent\(\)==(.+)\.Pkg\(\)\.Scope\(\)\) ∧ \((.+)\.Pkg\(\)\.Path\(\)!=recv\.pkg\.PkgPath\)$`, cs)
					r.Check(wantC, "ident/replaced-iff-foreign-package-scope", cl.Pos(), "replaced exactly when the object is non-nil, has a package, is declared at that package's scope and that package's PATH differs from the destination's — got: %s", cs)
					wantR := regexpMatch(`^&ast\.SelectorExpr\{X:ast\.NewIdent\(recv\.qualifyImport\((.+)\.Pkg\(\)\.Name\(\),(.+)\.Pkg\(\)\.Path\(\)\)\),Sel:ast\.NewIdent\((.+)\.Name\)\}$`, repl)
					r.Check(wantR, "ident/replacement", cl.Pos(), "replacement is qualifyImport(pkg.Name(), pkg.Path()).<same name> — got: %s", repl)
				case strings.HasPrefix(cs, "case *ast.SelectorExpr"):
					nSel++
					wantC := regexpMatch(`^case \*ast\.SelectorExpr ∧ (.+)\.X\.\(\*ast\.Ident\)#1 ∧ \$0\.ObjectOf\((.+)\.X\.\(\*ast\.Ident\)#0\)\.\(\*types\.PkgName\)#1$`, cs)
					r.Check(wantC, "selector/replaced-iff-package-qualifier", cl.Pos(), "replaced exactly when X is an identifier denoting an imported package — got: %s", cs)
					wantR := regexpMatch(`^&ast\.SelectorExpr\{X:ast\.NewIdent\(recv\.qualifyImport\((.+)\.Imported\(\)\.Name\(\),(.+)\.Imported\(\)\.Path\(\)\)\),Sel:ast\.NewIdent\((.+)\.Sel\.Name\)\}$`, repl)
					r.Check(wantR, "selector/replacement", cl.Pos(), "replacement is qualifyImport(imported.Name(), imported.Path()).<same selected name> — got: %s", repl)
				default:
					r.Bad("first-pass/unknown-replacement", cl.Pos(), "unexpected replacement under: %s", cs)
				}
			}
			r.Check(nIdent == 1 && nSel == 1, "first-pass/two-replacements", lit.Pos(), "one replacement for unqualified identifiers and one for qualified identifiers (%d, %d)", nIdent, nSel)
			// qualifyImport: same package → "", otherwise a stable alias keyed by the un-vendored path
			qi := r.Need(c.Fn(c.W, "gen.qualifyImport"), "gen.qualifyImport")
			if qi != nil {
				eq := newEmitter(c, qi)
				first := qi.returnsOf()[0]
				gs := qi.Guards(first)
				r.Check(len(gs) == 1 && (eq.sym(gs[0].Expr) == "($1==recv.pkg.PkgPath)" || eq.sym(gs[0].Expr) == "(recv.pkg.PkgPath==$1)") && !gs[0].Neg && types.ExprString(first.Results[0]) == `""`, "qualifyImport/own-package-unqualified", first.Pos(), "the destination package's own objects get an empty qualifier, decided by import path")
			}
		})
}

func init() {
	register("C15.R6", "type information is looked up with original syntax: a types.Info map keyed by non-identifier nodes (Scopes, Types, Selections, Implicits) or Info.TypeOf is never applied to a node of the copied tree — copyAST only preserves the identity of identifiers — unless the node is first mapped back to its original",
		func(c *Ctx, r *R) {
			fi := r.Need(c.Fn(c.W, "gen.rewritePkgRefs"), "gen.rewritePkgRefs")
			if fi == nil {
				return
			}
			// the root of the copied tree and (when present) the copy→original map
			var copyRoot, originals *types.Var
			for _, cl := range fi.callsDeep(fi.Decl.Body) {
				n := fi.calleeName(cl)
				if n != pathW+".copyAST" && n != pathW+".copyASTWithOriginals" {
					continue
				}
				if as, ok := fi.parent[cl].(*ast.AssignStmt); ok {
					copyRoot = fi.varOf(as.Lhs[0])
					if len(as.Lhs) == 2 {
						originals = fi.varOf(as.Lhs[1])
					}
				}
			}
			if copyRoot == nil {
				r.Bad("copy-root", fi.Decl.Pos(), "the copied tree is not bound to a variable")
				return
			}
			infoMaps := map[string]bool{"Scopes": true, "Types": true, "Selections": true, "Implicits": true, "Instances": false}
			// a key is a node of the copy if it derives from Cursor.Node()/Parent() inside an Apply over the copy
			fromCopy := func(e ast.Expr) bool {
				found := false
				ast.Inspect(e, func(nd ast.Node) bool {
					if cl, ok := nd.(*ast.CallExpr); ok {
						if n := fi.calleeName(cl); n == "golang.org/x/tools/go/ast/astutil.Cursor.Node" || n == "golang.org/x/tools/go/ast/astutil.Cursor.Parent" {
							// inside a callback of Apply(copyRoot, …)
							for p := fi.parent[ast.Node(cl)]; p != nil; p = fi.parent[p] {
								if ap, ok := p.(*ast.CallExpr); ok && fi.calleeName(ap) == "golang.org/x/tools/go/ast/astutil.Apply" && fi.varOf(ap.Args[0]) == copyRoot {
									found = true
								}
							}
						}
					}
					if id, ok := nd.(*ast.Ident); ok {
						if v, ok := fi.Info.Uses[id].(*types.Var); ok {
							if d := fi.singleDef(v); d != nil && d.rhs != e {
								if cl := fi.isCall(d.rhs, "golang.org/x/tools/go/ast/astutil.Cursor.Node"); cl != nil {
									found = true
								}
							}
						}
					}
					return true
				})
				return found
			}
			mappedBack := func(e ast.Expr) bool {
				ix, ok := ast.Unparen(e).(*ast.IndexExpr)
				return ok && originals != nil && fi.varOf(ix.X) == originals
			}
			n := 0
			fi.inspect(fi.Decl.Body, func(nd ast.Node) bool {
				switch x := nd.(type) {
				case *ast.IndexExpr:
					f := fi.selField(x.X)
					if f == nil || !infoMaps[f.Name()] || !fi.typeIs(x.X.(*ast.SelectorExpr).X, "go/types", "Info") {
						return true
					}
					n++
					k := "Info." + f.Name() + "[" + exprShort(x.Index) + "]"
					if mappedBack(x.Index) {
						r.Ok(k, x.Pos(), "key is mapped back to the original node first")
					} else {
						r.Check(!fromCopy(x.Index), k, x.Pos(), "Info.%s is keyed by original nodes; a node of the copied tree never matches (the lookup silently yields nothing)", f.Name())
					}
				case *ast.CallExpr:
					if fi.calleeName(x) == "go/types.Info.TypeOf" && len(x.Args) == 1 {
						if _, isIdent := fi.Info.TypeOf(x.Args[0]).(*types.Pointer); isIdent && types.TypeString(fi.Info.TypeOf(x.Args[0]), nil) == "*go/ast.Ident" {
							return true
						}
						n++
						r.Check(!fromCopy(x.Args[0]) || mappedBack(x.Args[0]), "Info.TypeOf("+exprShort(x.Args[0])+")", x.Pos(), "TypeOf is applied to original syntax")
					}
				}
				return true
			})
			r.Floor("node-keyed type-information lookups in rewritePkgRefs", n, 2)
		})
}

// copyASTSwitch finds the type switch inside copyAST's astutil.Apply callback.
func copyASTSwitch(fi *FuncInfo) *ast.TypeSwitchStmt {
	var sw *ast.TypeSwitchStmt
	fi.inspect(fi.Decl.Body, func(n ast.Node) bool {
		if s, ok := n.(*ast.TypeSwitchStmt); ok && sw == nil {
			sw = s
		}
		return true
	})
	return sw
}

// copierFn returns the function that holds the per-node-kind copy switch:
// copyAST itself, or the function it delegates to.
func copierFn(c *Ctx) *FuncInfo {
	for _, name := range []string{"copyAST", "copyASTWithOriginals"} {
		if fi := c.Fn(c.W, name); fi != nil && copyASTSwitch(fi) != nil {
			return fi
		}
	}
	return c.Fn(c.W, "copyAST")
}

func isCopyMap(t types.Type) bool {
	return t != nil && types.TypeString(t, nil) == "map[go/ast.Node]go/ast.Node"
}
