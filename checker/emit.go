package main

import (
	"fmt"
	"go/ast"
	"go/token"
	"go/types"
	"sort"
	"strconv"
	"strings"
)

// EMIT engine: an abstract interpreter over the structured body of an emitter
// function. It produces the function's *emission trace*: the sequence of
// generated-code tokens (from the constant format strings) with every
// formatted argument replaced by the canonical symbolic expression it is
// computed from, structured by ALT[cond]{…}{…} for branches and LOOP[shape]{…}
// for loops, plus the bookkeeping effects the emitted text depends on
// (appends to the name tables, length snapshots). Nothing is executed; the
// trace is a finite description of what the emitter writes on every input.

type emNode interface{}
type emTok struct{ toks []string }
type emAlt struct {
	cond      string
	then, els []emNode
}
type emLoop struct {
	shape string
	body  []emNode
}
type emEff struct{ desc string }

type emitter struct {
	c      *Ctx
	fi     *FuncInfo
	names  map[*types.Var]string
	nSnap  int
	depth  int
	issues []string
	// tracked state: fields whose appends / length reads are effects
	tracked map[string]bool
	// emit sites seen (for floors)
	sites    int
	implicit map[types.Object]ast.Expr
	nDef     int
	nMulti   int

	inlineDepth int
	inlining    map[*FuncInfo]bool
}

var emitPrims = map[string]bool{
	pathW + ".gen.p":         true,
	pathW + ".injectorGen.p": true,
}

func newEmitter(c *Ctx, fi *FuncInfo) *emitter {
	e := &emitter{c: c, fi: fi, names: map[*types.Var]string{}, tracked: map[string]bool{"paramNames": true, "localNames": true, "cleanupNames": true, "values": true, "imports": true, "anonImports": true}}
	if fi.Decl.Recv != nil {
		for _, f := range fi.Decl.Recv.List {
			for _, n := range f.Names {
				if v, ok := fi.Info.Defs[n].(*types.Var); ok {
					e.names[v] = "recv"
				}
			}
		}
	}
	i := 0
	for _, f := range fi.Decl.Type.Params.List {
		for _, n := range f.Names {
			if v, ok := fi.Info.Defs[n].(*types.Var); ok {
				e.names[v] = "$" + strconv.Itoa(i)
			}
			i++
		}
	}
	// the symbolic variable of a type switch stands for its subject
	e.implicit = map[types.Object]ast.Expr{}
	ast.Inspect(fi.Decl.Body, func(n ast.Node) bool {
		if ts, ok := n.(*ast.TypeSwitchStmt); ok {
			subj := typeSwitchSubject(ts)
			for _, st := range ts.Body.List {
				if o := fi.Info.Implicits[st]; o != nil {
					e.implicit[o] = subj
				}
			}
		}
		return true
	})
	return e
}

func (e *emitter) run() []emNode {
	ns := hoistEffects(normalize(simplifyKnown(e.block(e.fi.Decl.Body.List), map[string]bool{}), true))
	renumber(ns)
	ns = hoistEffects(normalize(simplifyKnown(flipFlags(ns), map[string]bool{}), true))
	renumber(ns)
	return ns
}

func (e *emitter) block(list []ast.Stmt) []emNode {
	var out []emNode
	for _, s := range list {
		out = append(out, e.stmt(s)...)
	}
	return out
}

func (e *emitter) stmt(s ast.Stmt) []emNode {
	fi := e.fi
	switch s := s.(type) {
	case *ast.ExprStmt:
		if call, ok := ast.Unparen(s.X).(*ast.CallExpr); ok {
			return e.call(call)
		}
	case *ast.AssignStmt:
		return e.assign(s)
	case *ast.DeclStmt:
		return nil
	case *ast.IfStmt:
		var out []emNode
		if s.Init != nil {
			out = append(out, e.stmt(s.Init)...)
		}
		th := e.block(s.Body.List)
		var el []emNode
		switch x := s.Else.(type) {
		case *ast.BlockStmt:
			el = e.block(x.List)
		case *ast.IfStmt:
			el = e.stmt(x)
		}
		if len(th) == 0 && len(el) == 0 {
			return out
		}
		return append(out, e.altFor(s.Cond, th, el)...)
	case *ast.SwitchStmt:
		var out []emNode
		if s.Init != nil {
			out = append(out, e.stmt(s.Init)...)
		}
		type cl struct {
			conds []ast.Expr // disjuncts (tagless) or case values (tagged)
			body  []emNode
		}
		var cls []cl
		var def []emNode
		for _, st := range s.Body.List {
			cc := st.(*ast.CaseClause)
			body := e.block(cc.Body)
			if cc.List == nil {
				def = body
				continue
			}
			cls = append(cls, cl{cc.List, body})
		}
		// nested ALT chain
		rest := def
		for i := len(cls) - 1; i >= 0; i-- {
			if len(cls[i].body) == 0 && len(rest) == 0 {
				continue
			}
			if s.Tag != nil {
				var parts []string
				for _, x := range cls[i].conds {
					parts = append(parts, "("+e.sym(s.Tag)+"=="+e.sym(x)+")")
				}
				sort.Strings(parts)
				rest = []emNode{&emAlt{cond: strings.Join(parts, "||"), then: cls[i].body, els: rest}}
				continue
			}
			var or ast.Expr = cls[i].conds[0]
			for _, x := range cls[i].conds[1:] {
				or = &ast.BinaryExpr{X: or, Op: token.LOR, Y: x}
			}
			rest = e.altFor(or, cls[i].body, rest)
		}
		return append(out, rest...)
	case *ast.ForStmt:
		shape := "for"
		if li := fi.loopShape(s); li != nil {
			e.depth++
			nm := "i" + strconv.Itoa(e.depth)
			e.names[li.v] = nm
			op := map[bool]string{true: "<", false: ">"}[li.ascending]
			if li.inclusive {
				op += "="
			}
			step := map[bool]string{true: "++", false: "--"}[li.ascending]
			shape = fmt.Sprintf("for %s:=%s; %s%s%s; %s%s", nm, e.sym(li.fromExpr), nm, op, e.sym(li.boundExpr), nm, step)
			body := e.block(s.Body.List)
			e.depth--
			if len(body) == 0 {
				return nil
			}
			return []emNode{&emLoop{shape: shape, body: body}}
		}
		e.issues = append(e.issues, "unrecognised for-loop shape at "+e.c.Pos(s.Pos()))
		body := e.block(s.Body.List)
		if len(body) == 0 {
			return nil
		}
		return []emNode{&emLoop{shape: "for?", body: body}}
	case *ast.RangeStmt:
		e.depth++
		k, v := "_", "_"
		if s.Key != nil {
			if kv := fi.varOf(s.Key); kv != nil {
				k = "k" + strconv.Itoa(e.depth)
				e.names[kv] = k
			}
		}
		if s.Value != nil {
			if vv := fi.varOf(s.Value); vv != nil {
				v = "v" + strconv.Itoa(e.depth)
				e.names[vv] = v
			}
		}
		shape := fmt.Sprintf("range %s as %s,%s", e.sym(s.X), k, v)
		if _, isMap := fi.Info.TypeOf(s.X).Underlying().(*types.Map); isMap {
			shape = "MAPRANGE " + shape
		}
		body := e.block(s.Body.List)
		e.depth--
		if len(body) == 0 {
			return nil
		}
		return []emNode{&emLoop{shape: shape, body: body}}
	case *ast.ReturnStmt:
		return []emNode{&emEff{"RETURN"}}
	case *ast.BranchStmt:
		return []emNode{&emEff{strings.ToUpper(s.Tok.String())}}
	case *ast.BlockStmt:
		return e.block(s.List)
	case *ast.TypeSwitchStmt:
		var out []emNode
		var rest []emNode
		type cl struct {
			cond string
			body []emNode
		}
		var cls []cl
		subj := e.sym(typeSwitchSubject(s))
		for _, st := range s.Body.List {
			cc := st.(*ast.CaseClause)
			body := e.block(cc.Body)
			if cc.List == nil {
				rest = body
				continue
			}
			var parts []string
			for _, x := range cc.List {
				parts = append(parts, types.ExprString(x))
			}
			cls = append(cls, cl{subj + ".(type)∈{" + strings.Join(parts, ",") + "}", body})
		}
		for i := len(cls) - 1; i >= 0; i-- {
			if len(cls[i].body) == 0 && len(rest) == 0 {
				continue
			}
			rest = []emNode{&emAlt{cond: cls[i].cond, then: cls[i].body, els: rest}}
		}
		return append(out, rest...)
	}
	return nil
}

// cond renders a condition, pulling a leading negation out.
func (e *emitter) cond(x ast.Expr) (string, bool) {
	x = ast.Unparen(x)
	if u, ok := x.(*ast.UnaryExpr); ok && u.Op == token.NOT {
		c, n := e.cond(u.X)
		return c, !n
	}
	return e.sym(x), false
}

func (e *emitter) assign(s *ast.AssignStmt) []emNode {
	fi := e.fi
	var out []emNode
	for i, l := range s.Lhs {
		var rhs ast.Expr
		if len(s.Rhs) == len(s.Lhs) {
			rhs = s.Rhs[i]
		} else if len(s.Rhs) == 1 {
			rhs = s.Rhs[0]
		}
		// writes to tracked tables
		tgt := ast.Unparen(l)
		if ix, ok := tgt.(*ast.IndexExpr); ok {
			if f := fi.selField(ix.X); f != nil && e.tracked[f.Name()] {
				out = append(out, &emEff{"SET " + e.sym(ix.X) + "[" + e.sym(ix.Index) + "]=" + e.sym(rhs)})
				continue
			}
		}
		if f := fi.selField(tgt); f != nil && e.tracked[f.Name()] {
			if ap := fi.isBuiltin(rhs, "append"); ap != nil && fi.selField(ap.Args[0]) == f && len(ap.Args) == 2 {
				out = append(out, &emEff{"APPEND " + e.sym(tgt) + "<-" + e.sym(ap.Args[1])})
			} else {
				out = append(out, &emEff{"WRITE " + e.sym(tgt) + "=" + e.sym(rhs)})
			}
			continue
		}
		// results of the name inventors are values computed once: give them a name
		if v := fi.varOf(tgt); v != nil && rhs != nil && len(s.Rhs) == len(s.Lhs) && fi.singleDef(v) != nil {
			if fi.isCall(rhs, pathW+".disambiguate", pathW+".typeVariableName") != nil {
				e.nDef++
				nm := "n" + strconv.Itoa(e.nDef)
				out = append(out, &emEff{"DEF " + nm + "=" + e.sym(rhs)})
				e.names[v] = nm
				continue
			}
		}
		// length snapshots of tracked tables
		if v := fi.varOf(tgt); v != nil && rhs != nil && len(s.Rhs) == len(s.Lhs) {
			if ln := fi.isBuiltin(rhs, "len"); ln != nil {
				if f := fi.selField(ln.Args[0]); f != nil && e.tracked[f.Name()] && f.Name() != "values" && f.Name() != "imports" && f.Name() != "anonImports" {
					e.nSnap++
					nm := "SNAP" + strconv.Itoa(e.nSnap)
					e.names[v] = nm
					out = append(out, &emEff{nm + "=len(" + e.sym(ln.Args[0]) + ")"})
					continue
				}
			}
			// multiply-assigned locals are state: record each write
			if fi.singleDef(v) == nil && len(fi.defs[v]) > 1 && s.Tok != token.DEFINE {
				out = append(out, &emEff{"LOCAL " + e.sym(tgt) + "=" + e.sym(rhs)})
			} else if fi.singleDef(v) == nil && len(fi.defs[v]) > 1 {
				out = append(out, &emEff{"LOCAL " + e.sym(tgt) + ":=" + e.sym(rhs)})
			}
		}
	}
	// calls with effects on the right-hand side that emit (rare)
	return out
}

func (e *emitter) call(call *ast.CallExpr) []emNode {
	fi := e.fi
	name := fi.calleeName(call)
	switch {
	case emitPrims[name]:
		e.sites++
		return e.format(call.Args[0], call.Args[1:], "")
	case name == "fmt.Fprintf" && e.isBuf(call.Args[0]):
		e.sites++
		return e.format(call.Args[1], call.Args[2:], "")
	case isBufWrite(name) && e.isBuf(recvOf(call)):
		e.sites++
		return e.concat(call.Args[0])
	}
	// in-module helper (not one of the modelled emitters) that emits or touches the
	// name tables: interpreted in place with its parameters bound to the arguments
	if cf := e.c.FnOf(fi.callee(call)); e.canInline(cf) && (e.c.emits(cf) || e.c.touchesTables(cf, e.tracked)) {
		return e.inline(cf, call)
	}
	// in-module callee that itself emits: keep as a CALL node
	if cf := e.c.FnOf(fi.callee(call)); cf != nil && e.c.emits(cf) {
		var args []string
		for _, a := range call.Args {
			args = append(args, e.sym(a))
		}
		r := ""
		if rx := recvOf(call); rx != nil && fi.Info.Selections[ast.Unparen(call.Fun).(*ast.SelectorExpr)] != nil {
			r = e.sym(rx) + "."
		}
		return []emNode{&emEff{"CALL " + r + cf.Name[strings.LastIndex(cf.Name, ".")+1:] + "(" + strings.Join(args, ",") + ")"}}
	}
	// ordering-relevant library effects
	switch name {
	case "sort.Strings", "sort.Slice", "sort.Sort", "sort.Stable", "sort.SliceStable":
		return []emNode{&emEff{"SORT " + e.sym(call.Args[0])}}
	}
	return nil
}

func (e *emitter) isBuf(x ast.Expr) bool {
	t := e.fi.Info.TypeOf(x)
	return t != nil && (isNamed(derefType(t), "bytes", "Buffer") || isNamed(derefType(t), "strings", "Builder"))
}

// isBufWrite: appending text to an in-memory buffer of either standard kind.
func isBufWrite(name string) bool {
	switch name {
	case "bytes.Buffer.WriteString", "bytes.Buffer.Write", "strings.Builder.WriteString", "strings.Builder.Write":
		return true
	}
	return false
}

// emits reports whether fn (transitively, depth-bounded) contains an emit primitive call.
func (c *Ctx) emits(fn *FuncInfo) bool {
	return c.emitsDepth(fn, 0, map[*FuncInfo]bool{})
}

func (c *Ctx) emitsDepth(fn *FuncInfo, d int, seen map[*FuncInfo]bool) bool {
	if fn == nil || seen[fn] || d > 4 {
		return false
	}
	seen[fn] = true
	for _, cl := range callsIn(fn.Decl.Body) {
		n := fn.calleeName(cl)
		if emitPrims[n] || n == "go/printer.Fprint" {
			return true
		}
		if (n == "fmt.Fprintf" || isBufWrite(n)) && fn.Pkg == c.W {
			return true
		}
		if cf := c.FnOf(fn.callee(cl)); cf != nil && c.emitsDepth(cf, d+1, seen) {
			return true
		}
	}
	return false
}

// concat handles buf.WriteString("a" + x + "b").
func (e *emitter) concat(x ast.Expr) []emNode {
	x = ast.Unparen(x)
	if be, ok := x.(*ast.BinaryExpr); ok && be.Op == token.ADD {
		return append(e.concat(be.X), e.concat(be.Y)...)
	}
	if s, ok := e.constString(x); ok {
		return []emNode{&emTok{tokenize(s, nil)}}
	}
	return []emNode{&emTok{[]string{"⟨" + e.sym(x) + "⟩"}}}
}

func (e *emitter) constString(x ast.Expr) (string, bool) {
	tv, ok := e.fi.Info.Types[x]
	if !ok || tv.Value == nil {
		return "", false
	}
	s, err := strconv.Unquote(tv.Value.ExactString())
	if err != nil {
		return "", false
	}
	return s, true
}

func (e *emitter) format(f ast.Expr, args []ast.Expr, _ string) []emNode {
	s, ok := e.constString(f)
	if !ok {
		e.issues = append(e.issues, "non-constant format string at "+e.c.Pos(f.Pos()))
		return []emNode{&emTok{[]string{"⟨FORMAT:" + e.sym(f) + "⟩"}}}
	}
	return e.formatArgs(s, args, nil)
}

// tokenize splits a format string into generated-code tokens; verbs are
// replaced by ⟨sym⟩ placeholders (⟨q:sym⟩ for %q). Whitespace is dropped,
// newlines become ¶, a // comment is kept as a single token up to the newline
// (with its placeholders).
func tokenize(s string, syms []string) []string {
	var toks []string
	next := 0
	ph := func(verb byte) string {
		v := "?"
		if next < len(syms) {
			v = syms[next]
		}
		next++
		if verb == 'q' {
			return "⟨q:" + v + "⟩"
		}
		return "⟨" + v + "⟩"
	}
	i := 0
	isIdent := func(c byte) bool {
		return c == '_' || (c >= 'a' && c <= 'z') || (c >= 'A' && c <= 'Z') || (c >= '0' && c <= '9')
	}
	for i < len(s) {
		c := s[i]
		switch {
		case c == '\n':
			toks = append(toks, "¶")
			i++
		case c == ' ' || c == '\t' || c == '\r':
			i++
		case c == '%' && i+1 < len(s):
			if s[i+1] == '%' {
				toks = append(toks, "%")
			} else {
				toks = append(toks, ph(s[i+1]))
			}
			i += 2
		case c == '/' && i+1 < len(s) && s[i+1] == '/':
			j := i
			var sb strings.Builder
			for j < len(s) && s[j] != '\n' {
				if s[j] == '%' && j+1 < len(s) && s[j+1] != '%' {
					sb.WriteString(ph(s[j+1]))
					j += 2
					continue
				}
				sb.WriteByte(s[j])
				j++
			}
			toks = append(toks, strings.Join(strings.Fields(sb.String()), " "))
			i = j
		case c == '"' || c == '`':
			j := i + 1
			for j < len(s) && s[j] != c {
				if s[j] == '\\' {
					j++
				}
				j++
			}
			if j < len(s) {
				j++
			}
			toks = append(toks, s[i:j])
			i = j
		case isIdent(c):
			j := i
			for j < len(s) && isIdent(s[j]) {
				j++
			}
			toks = append(toks, s[i:j])
			i = j
		default:
			// operators: longest match of a few multi-char ones
			ops := []string{"...", ":=", "!=", "==", "<=", ">=", "&&", "||", "<-", "++", "--"}
			matched := false
			for _, op := range ops {
				if strings.HasPrefix(s[i:], op) {
					toks = append(toks, op)
					i += len(op)
					matched = true
					break
				}
			}
			if !matched {
				toks = append(toks, string(c))
				i++
			}
		}
	}
	return toks
}

// sym renders the canonical symbolic form of an expression in the emitter's
// naming (receiver = recv, parameters = $name, loop variables by depth,
// snapshots by number, single-assignment locals substituted).
func (e *emitter) sym(x ast.Expr) string {
	return e.symd(x, 0)
}

func shortPkg(p string) string {
	switch p {
	case pathW:
		return ""
	case pathCmd:
		return "main."
	}
	if i := strings.LastIndex(p, "/"); i >= 0 {
		p = p[i+1:]
	}
	return p + "."
}

func (e *emitter) symd(x ast.Expr, d int) string {
	fi := e.fi
	if x == nil {
		return ""
	}
	if d > 12 {
		return "…"
	}
	x = ast.Unparen(x)
	switch x := x.(type) {
	case *ast.Ident:
		switch o := fi.Info.ObjectOf(x).(type) {
		case *types.Var:
			if nm, ok := e.names[o]; ok {
				return nm
			}
			if o.IsField() {
				return o.Name()
			}
			if subj, ok := e.implicit[o]; ok {
				return e.symd(subj, d+1)
			}
			if sd := fi.singleDef(o); sd != nil {
				if sd.idx < 0 {
					return e.symd(sd.rhs, d+1)
				}
				return e.symd(sd.rhs, d+1) + "#" + strconv.Itoa(sd.idx)
			}
			if o.Pkg() != nil && o.Parent() == o.Pkg().Scope() {
				return shortPkg(o.Pkg().Path()) + o.Name()
			}
			// a local assigned more than once: named by order of first mention
			e.nMulti++
			e.names[o] = "m" + strconv.Itoa(e.nMulti)
			return e.names[o]
		case *types.Const:
			if o.Pkg() != nil {
				return shortPkg(o.Pkg().Path()) + o.Name()
			}
			return o.Name()
		case *types.Func:
			return shortPkg(o.Pkg().Path()) + funcName(o)
		case *types.Nil:
			return "nil"
		case *types.TypeName:
			return types.TypeString(o.Type(), func(p *types.Package) string { return p.Name() })
		case *types.Builtin:
			return o.Name()
		}
		return x.Name
	case *ast.BasicLit:
		return x.Value
	case *ast.SelectorExpr:
		if fi.Info.Selections[x] != nil {
			return e.symd(x.X, d+1) + "." + x.Sel.Name
		}
		return e.symd(x.Sel, d+1)
	case *ast.CallExpr:
		if r, ok := e.inlineExprCall(x, d); ok {
			return r
		}
		var args []string
		for _, a := range x.Args {
			args = append(args, e.symd(a, d+1))
		}
		if x.Ellipsis.IsValid() && len(args) > 0 {
			args[len(args)-1] += "..."
		}
		fn := ""
		if sel, ok := ast.Unparen(x.Fun).(*ast.SelectorExpr); ok && fi.Info.Selections[sel] != nil {
			mn := sel.Sel.Name
			if f := fi.callee(x); f != nil {
				if a, ok := funcAlias[f]; ok {
					mn = a[strings.LastIndex(a, ".")+1:]
				}
			}
			fn = e.symd(sel.X, d+1) + "." + mn
		} else if f := fi.callee(x); f != nil {
			pk := ""
			if f.Pkg() != nil {
				pk = shortPkg(f.Pkg().Path())
			}
			fn = pk + funcName(f)
		} else {
			fn = e.symd(x.Fun, d+1)
		}
		return fn + "(" + strings.Join(args, ",") + ")"
	case *ast.IndexExpr:
		return e.symd(x.X, d+1) + "[" + e.symd(x.Index, d+1) + "]"
	case *ast.SliceExpr:
		return e.symd(x.X, d+1) + "[" + e.symd(x.Low, d+1) + ":" + e.symd(x.High, d+1) + "]"
	case *ast.StarExpr:
		return "*" + e.symd(x.X, d+1)
	case *ast.UnaryExpr:
		return x.Op.String() + e.symd(x.X, d+1)
	case *ast.BinaryExpr:
		if o, ok := fi.orient(x).(*ast.BinaryExpr); ok {
			x = o // constants and nil on the right, however the comparison was written
		}
		return "(" + e.symd(x.X, d+1) + x.Op.String() + e.symd(x.Y, d+1) + ")"
	case *ast.TypeAssertExpr:
		if x.Type == nil {
			return e.symd(x.X, d+1) + ".(type)"
		}
		return e.symd(x.X, d+1) + ".(" + types.ExprString(x.Type) + ")"
	case *ast.CompositeLit:
		var el []string
		elts := x.Elts
		// a keyed struct literal describes the same value whatever order its fields are written in: declaration order
		if t := fi.Info.TypeOf(x); t != nil {
			if st, ok := t.Underlying().(*types.Struct); ok {
				idx := map[string]int{}
				for i := 0; i < st.NumFields(); i++ {
					idx[st.Field(i).Name()] = i
				}
				keyed := len(elts) > 0
				for _, l := range elts {
					kv, ok := l.(*ast.KeyValueExpr)
					if !ok {
						keyed = false
						break
					}
					if id, ok := kv.Key.(*ast.Ident); !ok || idx[id.Name] == 0 && st.NumFields() > 0 && st.Field(0).Name() != id.Name {
						keyed = false
						break
					}
				}
				if keyed {
					elts = append([]ast.Expr{}, elts...)
					sort.SliceStable(elts, func(i, j int) bool {
						return idx[elts[i].(*ast.KeyValueExpr).Key.(*ast.Ident).Name] < idx[elts[j].(*ast.KeyValueExpr).Key.(*ast.Ident).Name]
					})
				}
			}
		}
		for _, l := range elts {
			el = append(el, e.symd(l, d+1))
		}
		return types.TypeString(fi.Info.TypeOf(x), func(p *types.Package) string { return p.Name() }) + "{" + strings.Join(el, ",") + "}"
	case *ast.KeyValueExpr:
		k := ""
		if id, ok := x.Key.(*ast.Ident); ok {
			k = id.Name
		} else {
			k = e.symd(x.Key, d+1)
		}
		return k + ":" + e.symd(x.Value, d+1)
	case *ast.FuncLit:
		// single-return closures render as their result expression over positional parameters
		saved := map[*types.Var]string{}
		i := 0
		for _, f := range x.Type.Params.List {
			for _, n := range f.Names {
				if v, ok := fi.Info.Defs[n].(*types.Var); ok {
					saved[v] = e.names[v]
					e.names[v] = "fp" + strconv.Itoa(i)
				}
				i++
			}
		}
		body := "…"
		if len(x.Body.List) == 1 {
			if ret, ok := x.Body.List[0].(*ast.ReturnStmt); ok && len(ret.Results) == 1 {
				body = e.symd(ret.Results[0], d+1)
			}
		}
		for v := range saved {
			delete(e.names, v)
		}
		return "func{" + body + "}"
	}
	return types.ExprString(x)
}

// render prints a trace in canonical single-line form.
func renderTrace(ns []emNode) string {
	var sb strings.Builder
	var w func(ns []emNode)
	w = func(ns []emNode) {
		for _, n := range ns {
			switch n := n.(type) {
			case *emTok:
				for _, t := range n.toks {
					sb.WriteString(t)
					sb.WriteByte(' ')
				}
			case *emEff:
				sb.WriteString("«" + n.desc + "» ")
			case *emAlt:
				sb.WriteString("ALT[" + n.cond + "]{ ")
				w(n.then)
				sb.WriteString("}{ ")
				w(n.els)
				sb.WriteString("} ")
			case *emLoop:
				sb.WriteString("LOOP[" + n.shape + "]{ ")
				w(n.body)
				sb.WriteString("} ")
			}
		}
	}
	w(ns)
	return strings.TrimSpace(sb.String())
}

// walkTrace visits every node with the stack of enclosing ALT/LOOP labels.
func walkTrace(ns []emNode, ctx []string, f func(n emNode, ctx []string)) {
	for _, n := range ns {
		f(n, ctx)
		switch n := n.(type) {
		case *emAlt:
			walkTrace(n.then, append(append([]string{}, ctx...), "ALT+["+n.cond+"]"), f)
			walkTrace(n.els, append(append([]string{}, ctx...), "ALT-["+n.cond+"]"), f)
		case *emLoop:
			walkTrace(n.body, append(append([]string{}, ctx...), "LOOP["+n.shape+"]"), f)
		}
	}
}
