package main

import (
	"fmt"
	"go/ast"
	"go/constant"
	"go/token"
	"go/types"
	"sort"
	"strconv"
	"strings"
)

var fileMutators = map[string]bool{
	"io/ioutil.WriteFile": true, "os.WriteFile": true, "os.Create": true, "os.OpenFile": true, "os.Remove": true, "os.RemoveAll": true,
	"os.Rename": true, "os.Mkdir": true, "os.MkdirAll": true, "os.Chmod": true, "os.Truncate": true, "os.Symlink": true, "os.Link": true,
	"os.MkdirTemp": true, "os.CreateTemp": true, "io/ioutil.TempFile": true, "io/ioutil.TempDir": true, "os.Chtimes": true, "os.Chown": true,
	"os/exec.Command": true, "os/exec.CommandContext": true,
}

var fileReaders = map[string]bool{
	"os.Open": true, "os.ReadFile": true, "io/ioutil.ReadFile": true, "os.Stat": true, "os.Lstat": true, "io/ioutil.ReadDir": true,
	"os.ReadDir": true, "path/filepath.Walk": true, "path/filepath.WalkDir": true, "path/filepath.Glob": true, "os.OpenFile": true, "os.Readlink": true,
	"path/filepath.EvalSymlinks": true,
}

var runSpecific = func(name string) bool {
	for _, p := range []string{"time.", "math/rand.", "math/rand/v2.", "crypto/rand.", "runtime."} {
		if strings.HasPrefix(name, p) {
			return true
		}
	}
	switch name {
	case "os.Getwd", "os.Getenv", "os.LookupEnv", "os.Environ", "os.Hostname", "os.Getpid", "os.Getppid", "os.Executable", "os.UserHomeDir", "os.TempDir", "os.Getuid", "os/user.Current", "path/filepath.Abs":
		return true
	}
	return false
}

// constVal returns the integer value of a constant expression.
func (fi *FuncInfo) constInt(e ast.Expr) (int64, bool) {
	tv, ok := fi.Info.Types[e]
	if !ok {
		// a literal synthesised by a normal form has no recorded type
		if lit, isLit := e.(*ast.BasicLit); isLit && lit.Kind == token.INT {
			if v, err := strconv.ParseInt(lit.Value, 0, 64); err == nil {
				return v, true
			}
		}
	}
	if !ok || tv.Value == nil || tv.Value.Kind() != constant.Int {
		return 0, false
	}
	v, ok := constant.Int64Val(tv.Value)
	return v, ok
}

// errorConds classifies the guards of n: does any of them assert that an
// error occurred (err != nil, len(errs) > 0, !success)?
func (fi *FuncInfo) errorGuard(gs []Cond) (bool, string) {
	for _, g := range gs {
		if x, isNil, ok := fi.nilTest(g); ok && !isNil {
			if t := fi.Info.TypeOf(x); t != nil && isErrorType(t) {
				return true, exprShort(x) + " != nil"
			}
		}
		if x, ne, ok := fi.lenTest(g); ok && ne {
			if t := fi.Info.TypeOf(x); t != nil && isErrorSlice(t) {
				return true, "len(" + exprShort(x) + ") > 0"
			}
		}
		if g.Kind == "bool" && g.Neg {
			if v := fi.varOf(g.Expr); v != nil && fi.isFlag(v, true) {
				return true, "!success"
			}
		}
	}
	return false, ""
}

func init() {
	register("C17.R1", "diff status ladder: every return of diffCmd.Execute reached on an error condition yields 2, on a difference 1, otherwise 0",
		func(c *Ctx, r *R) {
			fi := r.Need(c.Fn(c.Cmd, "diffCmd.Execute"), "diffCmd.Execute")
			if fi == nil {
				return
			}
			// what is compared: the bytes on disk and the bytes gen would write, unmodified
			cmp := 0
			fi.inspect(fi.Decl.Body, func(nd ast.Node) bool {
				cl, ok := nd.(*ast.CompositeLit)
				if !ok || !isNamed(fi.Info.TypeOf(cl), "github.com/pmezard/go-difflib/difflib", "UnifiedDiff") {
					return true
				}
				cmp++
				strip := func(e ast.Expr) ast.Expr {
					for i := 0; i < 6; i++ {
						e = ast.Unparen(fi.deref(e))
						call, ok := e.(*ast.CallExpr)
						if !ok || len(call.Args) != 1 {
							return e
						}
						if tv, ok := fi.Info.Types[call.Fun]; ok && tv.IsType() && isString(tv.Type) {
							e = call.Args[0] // string(x)
							continue
						}
						if fi.calleeName(call) == "github.com/pmezard/go-difflib/difflib.SplitLines" {
							e = call.Args[0]
							continue
						}
						return e
					}
					return e
				}
				for _, el := range cl.Elts {
					kv, ok := el.(*ast.KeyValueExpr)
					if !ok {
						continue
					}
					switch kv.Key.(*ast.Ident).Name {
					case "A":
						src := strip(kv.Value)
						okA := false
						if d := fi.defOf(src); d != nil && d.idx == 0 {
							if rc := fi.isCall(d.rhs, "io/ioutil.ReadFile", "os.ReadFile"); rc != nil {
								if f := fi.selField(rc.Args[0]); f != nil && f.Name() == "OutputPath" {
									okA = true
								}
							}
						}
						r.Check(okA, "compared/on-disk-bytes", kv.Pos(), "the left side of the comparison is exactly what ReadFile(out.OutputPath) returned (no normalisation) — got %s", exprShort(src))
					case "B":
						src := strip(kv.Value)
						f := fi.selField(src)
						r.Check(f != nil && f.Name() == "Content", "compared/generated-bytes", kv.Pos(), "the right side is exactly the result's Content, the bytes Commit would write — got %s", exprShort(src))
					}
				}
				return true
			})
			r.Check(cmp == 1, "compared/site", fi.Decl.Pos(), "one comparison site (%d)", cmp)
			n := 0
			for i, ret := range fi.returnsOf() {
				n++
				v, ok := fi.constInt(ret.Results[0])
				if !ok {
					r.Undecided("diffCmd.Execute/return#"+itoa(i), ret.Pos(), "status is not a constant")
					continue
				}
				gs := fi.Guards(ret)
				isErr, why := fi.errorGuard(gs)
				hadDiff := false
				for _, g := range gs {
					if g.Kind == "bool" && !g.Neg && fi.varOf(g.Expr) != nil && fi.isFlag(fi.varOf(g.Expr), false) {
						hadDiff = true
					}
				}
				switch {
				case isErr:
					r.Check(v == 2, "diffCmd.Execute/return-on-error", ret.Pos(), "return under %s yields %d (must be 2: comparison could not be completed)", why, v)
				case hadDiff:
					okS := false
					for _, g := range gs {
						if sv := fi.varOf(g.Expr); sv != nil && fi.isFlag(sv, true) && !g.Neg && g.Kind == "bool" {
							okS = true
						}
					}
					r.Check(v == 1 && okS, "diffCmd.Execute/return-on-diff", ret.Pos(), "return under hadDiff yields %d (must be 1) and is dominated by success [%v]: a failed package takes precedence over a difference", v, okS)
				default:
					r.Check(v == 0, "diffCmd.Execute/return-clean#"+itoa(i), ret.Pos(), "return without error or difference yields %d (must be 0)", v)
				}
			}
			r.Floor("returns of diffCmd.Execute", n, 6)
			// the final ladder: !success → 2 before hadDiff → 1 before 0
			rets := fi.returnsOf()
			last := rets[len(rets)-1]
			gs := fi.Guards(last)
			okS, okD := false, false
			for _, g := range gs {
				if v := fi.varOf(g.Expr); v != nil && g.Kind == "bool" {
					if fi.isFlag(v, true) && !g.Neg {
						okS = true
					}
					if fi.isFlag(v, false) && g.Neg {
						okD = true
					}
				}
			}
			r.Check(okS && okD, "diffCmd.Execute/success-requires-both", last.Pos(), "status 0 requires success ∧ ¬hadDiff")
			// hadDiff is set exactly when the computed diff is non-empty; a missing file reads as empty
			set := false
			fi.inspect(fi.Decl.Body, func(nd ast.Node) bool {
				as, ok := nd.(*ast.AssignStmt)
				if !ok || len(as.Lhs) != 1 || fi.varOf(as.Lhs[0]) == nil || !fi.isFlag(fi.varOf(as.Lhs[0]), false) || as.Tok == token.DEFINE {
					return true
				}
				for _, g := range fi.Guards(as) {
					if be, ok := ast.Unparen(g.Expr).(*ast.BinaryExpr); ok && !g.Neg && be.Op == token.NEQ && types.ExprString(be.Y) == `""` {
						if d := fi.defOf(be.X); d != nil && fi.isCall(d.rhs, "github.com/pmezard/go-difflib/difflib.GetUnifiedDiffString") != nil {
							set = true
						}
					}
				}
				return true
			})
			r.Check(set, "diffCmd.Execute/hadDiff-iff-nonempty-diff", fi.Decl.Pos(), "hadDiff is set when the unified diff of current vs generated content is non-empty")
		})

	register("C17.R2", "gen and diff status: success is cleared when a package has errors and when a write/diff fails; status 0 after the loop requires success; every return on an error condition is non-zero",
		func(c *Ctx, r *R) {
			for _, name := range []string{"genCmd.Execute", "diffCmd.Execute"} {
				fi := r.Need(c.Fn(c.Cmd, name), name)
				if fi == nil {
					continue
				}
				onErrs, onOp := false, false
				fi.inspect(fi.Decl.Body, func(nd ast.Node) bool {
					as, ok := nd.(*ast.AssignStmt)
					if !ok || len(as.Lhs) != 1 || as.Tok == token.DEFINE || fi.varOf(as.Lhs[0]) == nil || !fi.isFlag(fi.varOf(as.Lhs[0]), true) {
						return true
					}
					if id, ok := ast.Unparen(as.Rhs[0]).(*ast.Ident); !ok || id.Name != "false" {
						r.Bad(name+"/success-only-cleared", as.Pos(), "success is assigned something other than false")
						return true
					}
					gs := fi.Guards(as)
					for _, g := range gs {
						if x, ne, ok := fi.lenTest(g); ok && ne {
							if f := fi.selField(x); f != nil && f.Name() == "Errs" {
								// … under that condition alone: whatever else is true of the package
								// (it may also carry content, when only formatting failed)
								if loop := fi.enclosingLoop(as); loop != nil && len(fi.GuardsWithin(as, loop)) == 1 {
									onErrs = true
								}
							}
						}
						if x, isNil, ok := fi.nilTest(g); ok && !isNil && isErrorType(fi.Info.TypeOf(x)) {
							onOp = true
						}
					}
					return true
				})
				r.Check(onErrs, name+"/cleared-on-package-errors", fi.Decl.Pos(), "success=false whenever a package's result carries errors, under no further condition")
				r.Check(onOp, name+"/cleared-on-operation-error", fi.Decl.Pos(), "success=false when writing/diffing a package's output fails")
				for i, ret := range fi.returnsOf() {
					v, ok := fi.constInt(ret.Results[0])
					if !ok {
						continue
					}
					if isErr, why := fi.errorGuard(fi.Guards(ret)); isErr {
						r.Check(v != 0, name+"/nonzero-on-error#"+itoa(i), ret.Pos(), "return under %s yields %d", why, v)
					}
				}
				// every return of status 0 is dominated by success (there is one; it may be written as the fall-through
				// after `if !success {…; return failure}` or as `if success {return 0}` before the failure exit)
				zeros, okS := 0, true
				var zeroPos token.Pos = fi.Decl.Pos()
				for _, ret := range fi.returnsOf() {
					v, ok := fi.constInt(ret.Results[0])
					if !ok || v != 0 {
						continue
					}
					// … once the flag exists (nothing was attempted before it is declared: `if len(outs) == 0 {return 0}`)
					inScope := false
					for v2 := range fi.defs {
						if fi.isFlag(v2, true) {
							for _, d := range fi.defs[v2] {
								if fi.precedes(d.node, ret) {
									inScope = true
								}
							}
						}
					}
					if !inScope {
						continue
					}
					zeros++
					zeroPos = ret.Pos()
					dom := false
					for _, g := range fi.Guards(ret) {
						if v := fi.varOf(g.Expr); v != nil && fi.isFlag(v, true) && !g.Neg {
							dom = true
						}
					}
					if !dom {
						okS = false
					}
				}
				r.Check(okS && zeros > 0, name+"/zero-requires-success", zeroPos, "the final status 0 is dominated by success")
			}
			for _, name := range []string{"checkCmd.Execute", "showCmd.Execute"} {
				fi := r.Need(c.Fn(c.Cmd, name), name)
				if fi == nil {
					continue
				}
				for i, ret := range fi.returnsOf() {
					v, ok := fi.constInt(ret.Results[0])
					if !ok {
						continue
					}
					isErr, why := fi.errorGuard(fi.Guards(ret))
					if isErr {
						r.Check(v != 0, name+"/nonzero-on-error#"+itoa(i), ret.Pos(), "return under %s yields %d", why, v)
					} else {
						// status 0 must be dominated by the empty-errors edge of Load
						okG := false
						for _, g := range fi.Guards(ret) {
							if x, ne, ok := fi.lenTest(g); ok && !ne && isErrorSlice(fi.Info.TypeOf(x)) {
								okG = true
							}
						}
						r.Check(v == 0 && okG, name+"/zero-requires-no-errors#"+itoa(i), ret.Pos(), "status 0 is dominated by len(errs)==0 of Load's result")
					}
				}
			}
		})

	register("C17.R3", "per-package isolation: the loops over packages in Generate, genCmd.Execute and diffCmd.Execute have no early exit; a failing package continues with the next",
		func(c *Ctx, r *R) {
			type site struct {
				pkg  string
				name string
			}
			n := 0
			for _, s := range []site{{pathW, "Generate"}, {pathCmd, "genCmd.Execute"}, {pathCmd, "diffCmd.Execute"}} {
				var fi *FuncInfo
				if s.pkg == pathW {
					fi = c.Fn(c.W, s.name)
				} else {
					fi = c.Fn(c.Cmd, s.name)
				}
				if r.Need(fi, s.name) == nil {
					continue
				}
				fi.inspect(fi.Decl.Body, func(nd ast.Node) bool {
					rs, ok := nd.(*ast.RangeStmt)
					if !ok {
						return true
					}
					t := fi.Info.TypeOf(rs.X)
					sl, ok := t.(*types.Slice)
					if !ok {
						return true
					}
					et := types.TypeString(derefType(sl.Elem()), nil)
					if et != "golang.org/x/tools/go/packages.Package" && et != pathW+".GenerateResult" {
						return true
					}
					n++
					exits := fi.loopExits(rs)
					r.Check(len(exits) == 0, s.name+"/package-loop", rs.Pos(), "loop over %s has no return/break (%d early exits)", exprShort(rs.X), len(exits))
					return true
				})
			}
			r.Floor("package loops", n, 3)
			// Generate produces one result per loaded package
			g := c.Fn(c.W, "Generate")
			if g != nil {
				ok := false
				g.inspect(g.Decl.Body, func(nd ast.Node) bool {
					if mk := g.isBuiltin0(nd, "make"); mk != nil && len(mk.Args) == 2 {
						if l := g.isBuiltin(mk.Args[1], "len"); l != nil && types.TypeString(g.Info.TypeOf(mk), nil) == "[]"+pathW+".GenerateResult" {
							ok = true
						}
					}
					return true
				})
				r.Check(ok, "Generate/one-result-per-package", g.Decl.Pos(), "the result slice has one entry per loaded package")
			}
		})

	register("C17.R4", "write discipline: the only file-mutating call reachable from the commands is the WriteFile in GenerateResult.Commit, reached only from gen, writing OutputPath=<dir of the package's files>/<prefix>wire_gen.go and only non-empty Content; diff, check and show reach no file mutation",
		func(c *Ctx, r *R) {
			for _, cmd := range []string{"genCmd.Execute", "diffCmd.Execute", "checkCmd.Execute", "showCmd.Execute"} {
				fi := r.Need(c.Fn(c.Cmd, cmd), cmd)
				if fi == nil {
					continue
				}
				rr := c.reach(fi)
				var muts []string
				for name, refs := range rr.ext {
					if fileMutators[name] {
						for _, ref := range refs {
							muts = append(muts, name+" in "+rr.chain(ref.from))
							okSite := cmd == "genCmd.Execute" && ref.from.Name == "GenerateResult.Commit" && (name == "io/ioutil.WriteFile" || name == "os.WriteFile" || name == "os.Create" || name == "os.OpenFile") // how it writes: C16.R9
							r.Check(okSite, cmd+"/mutation:"+name+"@"+ref.from.Name, ref.pos.Pos(), "file mutation %s reachable via %s", name, rr.chain(ref.from))
						}
					}
				}
				sort.Strings(muts)
				if cmd == "genCmd.Execute" {
					r.Check(len(muts) == 1, cmd+"/single-writer", fi.Decl.Pos(), "exactly one file-mutating call site is reachable from gen (%v)", muts)
				} else {
					r.Check(len(muts) == 0, cmd+"/read-only", fi.Decl.Pos(), "no file-mutating call is reachable from %s (%d in-module functions analysed)", cmd, len(rr.in))
				}
			}
			// positive control: the detector sees the write in Commit
			cm := r.Need(c.Fn(c.W, "GenerateResult.Commit"), "GenerateResult.Commit")
			if cm != nil {
				ws := cm.fileWrites()
				r.Control("file-mutation detector (WriteFile in Commit)", len(ws) > 0, cm.Decl.Pos())
				if len(ws) > 0 {
					w := ws[0]
					var f0, f1 *types.Var
					f0 = cm.selField(w.path)
					if w.data != nil {
						f1 = cm.selField(cm.deref(w.data))
					}
					r.Check(w.whole && f0 != nil && f0.Name() == "OutputPath" && f1 != nil && f1.Name() == "Content", "Commit/writes-OutputPath-Content", w.site.Pos(), "Commit writes the whole Content to OutputPath (truncating write)")
					okG := false
					for _, g := range cm.Guards(w.site) {
						if x, ne, ok := cm.lenTest(g); ok && ne && cm.selField(x) != nil && cm.selField(x).Name() == "Content" {
							okG = true
						}
					}
					r.Check(okG, "Commit/only-non-empty", w.site.Pos(), "nothing is written when Content is empty (failed or injector-less package)")
				}
			}
			// Commit is called only from genCmd.Execute
			for _, fi := range c.all {
				for _, cl := range fi.callsTo(pathW + ".GenerateResult.Commit") {
					r.Check(fi.Name == "genCmd.Execute", "Commit-caller:"+fi.Name, cl.Pos(), "Commit is called from gen only")
				}
			}
			// OutputPath derivation
			g := r.Need(c.Fn(c.W, "Generate"), "Generate")
			if g != nil {
				n := 0
				g.inspect(g.Decl.Body, func(nd ast.Node) bool {
					as, ok := nd.(*ast.AssignStmt)
					if !ok {
						return true
					}
					for i, l := range as.Lhs {
						if f := g.selField(l); f != nil && f.Name() == "OutputPath" {
							n++
							e := newEmitter(c, g)
							s := e.sym(as.Rhs[i])
							r.Check(regexpMatch(`^filepath\.Join\(detectOutputDir\((.+)\.GoFiles\)#0,\(\$4\.PrefixOutputFile\+"wire_gen\.go"\)\)$`, s) || regexpMatch(`^filepath\.Join\(detectOutputDir\((.+)\.GoFiles\)#0,\((.+)\.PrefixOutputFile\+"wire_gen\.go"\)\)$`, s),
								"Generate/OutputPath", as.Pos(), "OutputPath = Join(dir of the package's Go files, prefix+\"wire_gen.go\") — got %s", s)
						}
					}
					return true
				})
				r.Check(n == 1, "Generate/OutputPath-single-assignment", g.Decl.Pos(), "OutputPath is assigned once (%d)", n)
			}
			// detectOutputDir: all files in one directory
			dd := r.Need(c.Fn(c.W, "detectOutputDir"), "detectOutputDir")
			if dd != nil {
				ok := false
				for _, ret := range dd.returnsOf() {
					if dd.isNilIdent(ret.Results[1]) {
						continue
					}
					for _, g := range dd.Guards(ret) {
						if be, isB := ast.Unparen(g.Expr).(*ast.BinaryExpr); isB && be.Op == token.NEQ && !g.Neg {
							if dd.isCall(dd.deref(be.X), "path/filepath.Dir") != nil || dd.isCall(dd.deref(be.Y), "path/filepath.Dir") != nil {
								ok = true
							}
						}
					}
				}
				r.Check(ok, "detectOutputDir/conflicting-dirs-rejected", dd.Decl.Pos(), "files spread over several directories are an error, not a guess")
			}
		})

	register("C17.R5", "no output for packages without injectors: the bytes stored as Content are frame's result (empty when nothing was generated), optionally formatted; anything prepended (the header) is added only when that result is non-empty",
		func(c *Ctx, r *R) {
			g := r.Need(c.Fn(c.W, "Generate"), "Generate")
			if g == nil {
				return
			}
			var src *types.Var
			g.inspect(g.Decl.Body, func(nd ast.Node) bool {
				if as, ok := nd.(*ast.AssignStmt); ok {
					for i, l := range as.Lhs {
						if f := g.selField(l); f != nil && f.Name() == "Content" && i < len(as.Rhs) {
							src = g.varOf(as.Rhs[i])
						}
					}
				}
				return true
			})
			if src == nil {
				r.Bad("Content-source", g.Decl.Pos(), "Content is not assigned from a local variable")
				return
			}
			fromFrame := false
			for _, d := range g.defs[src] {
				k := "Content-source/def:" + exprShort(d.rhs)
				switch {
				case d.kind == "define" && g.isCall(d.rhs, pathW+".gen.frame") != nil:
					fromFrame = true
					r.Ok(k, d.node.Pos(), "starts as frame's result")
				case g.isBuiltin(d.rhs, "append") != nil:
					ok := false
					for _, gd := range g.Guards(d.node) {
						if x, ne, o := g.lenTest(gd); o && ne && g.varOf(x) == src {
							ok = true
						}
					}
					r.Check(ok, "Content-source/prepend-only-when-non-empty", d.node.Pos(), "bytes are prepended/appended to the generated source only when it is non-empty (otherwise a package without injectors would get a file)")
				default:
					// formatted source: must derive from format.Source(src)
					okF := false
					if dd := g.defOf(d.rhs); dd != nil {
						if fc := g.isCall(dd.rhs, "go/format.Source"); fc != nil && g.varOf(fc.Args[0]) == src {
							okF = true
						}
					}
					r.Check(okF, k, d.node.Pos(), "replaced only by its own gofmt'd form")
				}
			}
			r.Check(fromFrame, "Content-source/frame", g.Decl.Pos(), "the stored bytes originate from gen.frame")
			// frame returns nothing when no injector wrote to the buffer
			if t := traceOf(c, r, "gen.frame"); t != nil {
				r.Check(strings.HasPrefix(t.text, "ALT[(recv.buf.Len()==0)]{ }{ "), "frame/empty-when-nothing-generated", t.fi.Decl.Pos(), "frame returns nothing when the body buffer is empty")
				fr := c.Fn(c.W, "gen.frame")
				first := fr.returnsOf()[0]
				r.Check(fr.isNilIdent(first.Results[0]), "frame/empty-result-is-nil", first.Pos(), "the empty result is nil")
			}
		})

	register("C18.R1", "tag agreement: the loader always runs with the wireinject tag (user tags are appended, never replace it) and every non-empty output carries the !wireinject constraint before its package clause",
		func(c *Ctx, r *R) {
			ld := r.Need(c.Fn(c.W, "load"), "load")
			if ld != nil {
				found := false
				localOneSep, localAppends := false, 0
				var flagsField ast.Expr
				ld.inspect(ld.Decl.Body, func(nd ast.Node) bool {
					kv, ok := nd.(*ast.KeyValueExpr)
					if !ok {
						return true
					}
					if id, ok := kv.Key.(*ast.Ident); !ok || id.Name != "BuildFlags" {
						return true
					}
					cl, _ := ast.Unparen(kv.Value).(*ast.CompositeLit)
					if cl != nil && len(cl.Elts) >= 1 {
						for _, el := range cl.Elts {
							if s, ok := newEmitter(c, ld).constString(el); ok && s == "-tags=wireinject" {
								found = true
							}
							// a local that starts as the constant and is only ever extended with " " + more
							if v := ld.varOf(el); v != nil {
								okV := false
								for _, d := range ld.defs[v] {
									switch d.kind {
									case "define":
										if s, ok := newEmitter(c, ld).constString(d.rhs); ok && s == "-tags=wireinject" {
											okV = true
										}
									case "opassign":
										ext, one := tagAppend(ld, d.node.(*ast.AssignStmt))
										if !ext {
											okV = false
										}
										localOneSep = localOneSep || one
										localAppends++
									default:
										okV = false
									}
								}
								if okV {
									found = true
								}
							}
						}
					}
					flagsField = kv.Value
					return true
				})
				r.Check(found, "load/tags-include-wireinject", ld.Decl.Pos(), "BuildFlags is initialised with -tags=wireinject")
				if localAppends > 0 {
					r.Check(localOneSep, "load/tags-one-separator", ld.Decl.Pos(), "each user tag is appended after a comma, the list having been split on commas and spaces (the go tool rejects a list that mixes separators, which made the documented -tags a,b unusable)")
				}
				_ = flagsField
				// later writes to BuildFlags only extend element 0 with += " " + tags
				ld.inspect(ld.Decl.Body, func(nd ast.Node) bool {
					as, ok := nd.(*ast.AssignStmt)
					if !ok {
						return true
					}
					for _, l := range as.Lhs {
						tgt := ast.Unparen(l)
						if ix, ok := tgt.(*ast.IndexExpr); ok {
							tgt = ix.X
						}
						if f := ld.selField(tgt); f != nil && f.Name() == "BuildFlags" {
							okA, oneSep := tagAppend(ld, as)
							r.Check(okA, "load/tags-only-extended", as.Pos(), "user tags are appended to the wireinject tag, never replacing it")
							r.Check(oneSep, "load/tags-one-separator", as.Pos(), "each user tag is appended after a comma, the list having been split on commas and spaces (the go tool rejects a list that mixes separators, which made the documented -tags a,b unusable)")
						}
					}
					return true
				})
				// the config is what packages.Load receives
				okUse := false
				for _, cl := range ld.callsTo("golang.org/x/tools/go/packages.Load") {
					if d := ld.defOf(cl.Args[0]); d != nil {
						okUse = true
					}
				}
				r.Check(okUse, "load/config-used", ld.Decl.Pos(), "packages.Load runs with that configuration")
			}
			t := traceOf(c, r, "gen.frame")
			if t != nil {
				// top-level token order: constraint comment before `package`
				top := spineToks(t.nodes)
				ci, pi := -1, -1
				for i, x := range top {
					if strings.HasPrefix(x, "//+build !wireinject") || strings.HasPrefix(x, "//go:build !wireinject") {
						if ci < 0 {
							ci = i
						}
					}
					if x == "package" && pi < 0 {
						pi = i
					}
				}
				r.Check(ci >= 0 && pi > ci, "frame/constraint-before-package", t.fi.Decl.Pos(), "the !wireinject build constraint is emitted unconditionally, before the package clause")
				// a blank line separates it from the package clause (otherwise it is a doc comment, not a constraint)
				okBlank := ci >= 0 && ci+2 < len(top) && top[ci+1] == "¶" && top[ci+2] == "¶"
				r.Check(okBlank, "frame/constraint-followed-by-blank-line", t.fi.Decl.Pos(), "the constraint line is followed by a blank line")
			}
			// every caller of load passes the user's tags through
			for _, fi := range c.all {
				for _, cl := range fi.callsTo(pathW + ".load") {
					e := newEmitter(c, fi)
					s := e.sym(cl.Args[3])
					r.Check(strings.HasSuffix(s, ".Tags") || strings.HasPrefix(s, "$"), "load-caller:"+fi.Name+"/tags", cl.Pos(), "%s forwards the tags option (%s)", fi.Name, s)
				}
			}
		})

	register("C18.R2", "no reads: nothing reachable from Generate opens, reads, lists or stats files itself — prior output can only be seen through the loader, which runs with wireinject set",
		func(c *Ctx, r *R) {
			g := r.Need(c.Fn(c.W, "Generate"), "Generate")
			if g == nil {
				return
			}
			rr := c.reach(g)
			bad := 0
			for name, refs := range rr.ext {
				if fileReaders[name] || fileMutators[name] {
					for _, ref := range refs {
						bad++
						r.Bad("Generate/file-access:"+name+"@"+ref.from.Name, ref.pos.Pos(), "%s is reachable from Generate via %s", name, rr.chain(ref.from))
					}
				}
			}
			if bad == 0 {
				r.Ok("Generate/no-file-access", g.Decl.Pos(), "%d in-module functions reachable from Generate reference %d external functions; none reads or writes files", len(rr.in), len(rr.ext))
			}
			r.Floor("in-module functions reachable from Generate", len(rr.in), 40)
			// positive control: the same detector sees ReadFile in cmd/wire
			hit := false
			for _, fi := range c.all {
				if fi.Pkg == c.Cmd {
					for _, cl := range fi.callsDeep(fi.Decl.Body) {
						if fileReaders[fi.calleeName(cl)] {
							hit = true
							r.Control("file-read detector (ReadFile in cmd/wire)", true, cl.Pos())
							return
						}
					}
				}
			}
			if !hit {
				r.Control("file-read detector (ReadFile in cmd/wire)", false, 0)
			}
		})

	register("C18.R3", "whole-file overwrite on every successful generation: in gen, Commit runs for every package with non-empty Content under no other condition, and gen itself never reads the existing output (the only file gen reads is the header file)",
		func(c *Ctx, r *R) {
			fi := r.Need(c.Fn(c.Cmd, "genCmd.Execute"), "genCmd.Execute")
			if fi == nil {
				return
			}
			n := 0
			for _, cl := range fi.callsTo(pathW + ".GenerateResult.Commit") {
				n++
				loop := fi.enclosingLoop(cl)
				if loop == nil {
					r.Bad("Commit/in-package-loop", cl.Pos(), "Commit is not called from the loop over packages")
					continue
				}
				extra := 0
				var extras []string
				for _, g := range fi.GuardsWithin(cl, loop) {
					if x, ne, ok := fi.lenTest(g); ok && ne {
						if f := fi.selField(x); f != nil && f.Name() == "Content" {
							continue
						}
					}
					extra++
					extras = append(extras, exprShort(g.Expr))
				}
				r.Check(extra == 0, "Commit/unconditional-for-non-empty-content", cl.Pos(), "every package with generated content is written, whatever is on disk (extra conditions: %v)", extras)
				rv := fi.varOf(recvOf(cl))
				rs, _ := loop.(*ast.RangeStmt)
				r.Check(rs != nil && rv != nil && fi.varOf(rs.Value) == rv, "Commit/of-this-package", cl.Pos(), "the result committed is the loop's own element")
			}
			r.Floor("Commit calls in gen", n, 1)
			rr := c.reach(fi)
			for name, refs := range rr.ext {
				if !fileReaders[name] {
					continue
				}
				for _, ref := range refs {
					if cl, ok := ref.from.parent[ref.pos].(*ast.CallExpr); ok && ref.from.opensForWritingOnly(cl) {
						continue // write-only open: nothing is read
					} else if cl, ok := ref.pos.(*ast.CallExpr); ok && ref.from.opensForWritingOnly(cl) {
						continue
					} else if sel, ok := ref.from.parent[ref.pos].(*ast.SelectorExpr); ok {
						if cl, ok := ref.from.parent[sel].(*ast.CallExpr); ok && ref.from.opensForWritingOnly(cl) {
							continue
						}
					}
					r.Check(ref.from.Name == "newGenerateOptions", "gen/file-read:"+name+"@"+ref.from.Name, ref.pos.Pos(), "gen reads %s only for the header file (via %s)", name, rr.chain(ref.from))
				}
			}
		})

	register("C18.R4", "diff = gen: both commands build their options with the same function, forward tags the same way and call Generate with the same working directory, environment and package patterns",
		func(c *Ctx, r *R) {
			sig := map[string][]string{}
			for _, name := range []string{"genCmd.Execute", "diffCmd.Execute"} {
				fi := r.Need(c.Fn(c.Cmd, name), name)
				if fi == nil {
					continue
				}
				e := newEmitter(c, fi)
				for _, cl := range fi.callsTo(pathW + ".Generate") {
					var args []string
					for _, a := range cl.Args {
						args = append(args, e.sym(a))
					}
					sig[name] = args
				}
				// opts.Tags = cmd.tags
				okT := false
				fi.inspect(fi.Decl.Body, func(nd ast.Node) bool {
					if as, ok := nd.(*ast.AssignStmt); ok && len(as.Lhs) == 1 {
						if f := fi.selField(as.Lhs[0]); f != nil && f.Name() == "Tags" {
							if f2 := fi.selField(as.Rhs[0]); f2 != nil && f2.Name() == "tags" && fi.unconditionalIn(as, fi.Decl.Body) == false {
								okT = true
							} else if f2 != nil && f2.Name() == "tags" {
								okT = true
							}
						}
					}
					return true
				})
				r.Check(okT, name+"/tags-forwarded", fi.Decl.Pos(), "opts.Tags = cmd.tags")
			}
			a, b := sig["genCmd.Execute"], sig["diffCmd.Execute"]
			r.Check(len(a) == 5 && len(b) == 5 && strings.Join(a, "|") == strings.Join(b, "|"), "same-Generate-call", 0, "gen: Generate(%s); diff: Generate(%s)", strings.Join(a, ", "), strings.Join(b, ", "))
			if len(a) == 5 {
				r.Check(a[1] == "os.Getwd()#0" && a[2] == "os.Environ()" && a[3] == "main.packages($1)" && strings.HasPrefix(a[4], "main.newGenerateOptions(recv.headerFile)#0"), "Generate-call/inputs", 0, "working directory, environment, patterns and header-file options are the invocation's own (%v)", a)
			}
		})

	register("C19.R1", "error-class inclusion: every rejection template reachable from Generate (other than output-path and formatting errors) is reachable from Load",
		func(c *Ctx, r *R) {
			g, l := r.Need(c.Fn(c.W, "Generate"), "Generate"), r.Need(c.Fn(c.W, "Load"), "Load")
			if g == nil || l == nil {
				return
			}
			templates := func(rr *reachResult) map[string]string {
				out := map[string]string{}
				for fi := range rr.in {
					for _, cl := range fi.callsDeep(fi.Decl.Body) {
						n := fi.calleeName(cl)
						if n != "fmt.Errorf" && n != "errors.New" {
							continue
						}
						if s, ok := newEmitter(c, fi).constString(fi.deref(cl.Args[0])); ok {
							out[s] = fi.Name
						} else {
							out["<non-constant in "+fi.Name+">"] = fi.Name
						}
					}
				}
				return out
			}
			tg, tl := templates(c.reach(g)), templates(c.reach(l))
			allowed := map[string]bool{"detectOutputDir": true}
			var keys []string
			for k := range tg {
				keys = append(keys, k)
			}
			sort.Strings(keys)
			missing := 0
			for _, k := range keys {
				if _, ok := tl[k]; ok || allowed[tg[k]] {
					continue
				}
				missing++
				r.Bad("Load/missing-rejections", 0, "gen can reject with %q (in %s) but check cannot", k, tg[k])
			}
			if missing == 0 {
				r.Ok("Load/missing-rejections", l.Decl.Pos(), "all %d rejection templates reachable from Generate are reachable from Load (%d there)", len(tg), len(tl))
			}
			r.Floor("rejection templates reachable from Generate", len(tg), 40)
		})

	register("C19.R2", "same front half: gen's and check's per-function loops call findInjectorBuild, injectorFuncSignature, processNewSet, solve and the per-call checks in that order, each skipping the function on failure after recording the error",
		func(c *Ctx, r *R) {
			order := []string{pathW + ".findInjectorBuild", pathW + ".injectorFuncSignature", pathW + ".objectCache.processNewSet", pathW + ".solve", pathW + ".checkCalls"}
			for _, name := range []string{"generateInjectors", "Load"} {
				fi := r.Need(c.Fn(c.W, name), name)
				if fi == nil {
					continue
				}
				seq := func(f *FuncInfo) []string {
					var out []string
					for _, cl := range f.callsDeep(f.Decl.Body) {
						n := f.calleeName(cl)
						for _, o := range order {
							if n == o {
								out = append(out, o)
							}
						}
					}
					return out
				}
				got := seq(fi)
				if name == "generateInjectors" {
					// solve and checkCalls are reached through gen.inject
					pos := -1
					for i, cl := range fi.callsDeep(fi.Decl.Body) {
						if fi.calleeName(cl) == pathW+".gen.inject" {
							pos = i
						}
					}
					if pos >= 0 {
						got = append(got, seq(c.Fn(c.W, "gen.inject"))...)
					}
				}
				// the set is built with the injector's own parameters, always
				for _, cl := range fi.callsDeep(fi.Decl.Body) {
					if fi.calleeName(cl) != pathW+".objectCache.processNewSet" || len(cl.Args) < 4 {
						continue
					}
					okA := false
					if u, ok := ast.Unparen(fi.deref(cl.Args[3])).(*ast.UnaryExpr); ok && u.Op == token.AND {
						if lit, ok := u.X.(*ast.CompositeLit); ok && isNamed(fi.Info.TypeOf(lit), pathW, "InjectorArgs") {
							for _, el := range lit.Elts {
								if kv, ok := el.(*ast.KeyValueExpr); ok && kv.Key.(*ast.Ident).Name == "Tuple" {
									if d := fi.defOf(kv.Value); d != nil && d.idx == 0 && fi.isCall(d.rhs, pathW+".injectorFuncSignature") != nil {
										okA = true
									}
								}
							}
						}
					}
					r.Check(okA, name+"/set-built-with-injector-parameters", cl.Pos(), "processNewSet always receives &InjectorArgs{Tuple: <the parameters injectorFuncSignature returned>} (so parameter conflicts and bindings to parameters are judged alike by gen and check)")
				}
				r.Check(strings.Join(got, ",") == strings.Join(order, ","), name+"/pipeline-order", fi.Decl.Pos(), "pipeline: %s", strings.ReplaceAll(strings.Join(got, " → "), pathW+".", ""))
				// each stage's failure records and continues
				for _, cl := range fi.callsDeep(fi.Decl.Body) {
					n := fi.calleeName(cl)
					isStage := false
					for _, o := range order {
						if n == o {
							isStage = true
						}
					}
					if n == pathW+".gen.inject" {
						isStage = true
					}
					if !isStage {
						continue
					}
					// find the if testing its error and check body: ec.add + continue
					var is *ast.IfStmt
					for p := fi.parent[ast.Node(cl)]; p != nil; p = fi.parent[p] {
						if s, ok := p.(*ast.IfStmt); ok && contains(s.Init, cl) {
							is = s
							break
						}
						if s, ok := p.(*ast.AssignStmt); ok {
							if pi, ok := fi.parent[s].(*ast.IfStmt); ok && pi.Init == ast.Stmt(s) {
								is = pi
								break
							}
							// next sibling if
							blk, _ := fi.parent[s].(*ast.BlockStmt)
							if blk != nil {
								for i, st := range blk.List {
									if st == ast.Stmt(s) && i+1 < len(blk.List) {
										is, _ = blk.List[i+1].(*ast.IfStmt)
									}
								}
							}
							break
						}
					}
					short := n[strings.LastIndex(n, ".")+1:]
					// the stage runs for every candidate function: its only guards are the success edges of earlier stages
					if loop := fi.enclosingLoop(cl); loop != nil {
						for _, g := range fi.GuardsWithin(cl, loop) {
							okG := false
							if x, ne, ok := fi.lenTest(g); ok && !ne && isErrorSlice(fi.Info.TypeOf(x)) {
								okG = true
							}
							if x, isNil, ok := fi.nilTest(g); ok {
								t := fi.Info.TypeOf(x)
								if isNil && t != nil && isErrorType(t) {
									okG = true
								}
								if !isNil && t != nil && types.TypeString(t, nil) == "*go/ast.CallExpr" {
									okG = true // a wire.Build call was found
								}
							}
							if v := fi.varOf(g.Expr); v != nil && !g.Neg && g.Kind == "bool" {
								if d := fi.defs[v]; len(d) >= 1 && d[0].rhs != nil {
									if ta, ok := ast.Unparen(d[0].rhs).(*ast.TypeAssertExpr); ok && types.ExprString(ta.Type) == "*ast.FuncDecl" {
										okG = true // the declaration is a function
									}
								}
							}
							if !okG {
								r.Bad(name+"/stage:"+short+"/unconditional", cl.Pos(), "stage %s is skipped under an extra condition: %s", short, exprShort(g.Expr))
							}
						}
					}
					// later stage calls of the same loop body (by position)
					laterStages := func(after int, except ast.Node) int {
						k := 0
						for _, c3 := range fi.callsDeep(fi.Decl.Body) {
							n3 := fi.calleeName(c3)
							st := n3 == pathW+".gen.inject"
							for _, o := range order {
								if n3 == o {
									st = true
								}
							}
							if st && startOf(c3) >= after && fi.enclosingLoop(c3) == fi.enclosingLoop(cl) && (except == nil || !fi.within(c3, except)) {
								k++
							}
						}
						return k
					}
					if is == nil {
						// `ec.add(stage(…)...)`: whatever it returns is recorded; fine when no stage follows
						if par, ok := fi.parent[ast.Node(cl)].(*ast.CallExpr); ok && fi.calleeName(par) == fnECAdd && par.Ellipsis.IsValid() && laterStages(endOf(cl), nil) == 0 {
							r.Ok(name+"/stage:"+short, cl.Pos(), "the errors of the last stage %s are recorded directly", short)
							continue
						}
						r.Bad(name+"/stage:"+short, cl.Pos(), "no error test follows the stage")
						continue
					}
					added := false
					for _, c2 := range callsIn(is.Body) {
						if fi.calleeName(c2) == fnECAdd {
							added = true
						}
					}
					// "skips": the failing branch ends the iteration, or every later stage sits in the else branch
					skips := terminates(is.Body)
					if !skips && is.Else != nil && laterStages(endOf(is.Body), is.Else) == 0 {
						skips = true
					}
					// … or nothing at all follows the failing branch in this iteration (the last stage, tested at the
					// end of the loop body or in the last arm of a chain that ends it)
					if !skips && laterStages(endOf(is.Body), nil) == 0 {
						if loop := fi.enclosingLoop(is); loop != nil {
							tail := true
							for _, c3 := range fi.callsDeep(loop) {
								if startOf(c3) >= endOf(is) && !fi.within(c3, is) {
									tail = false // something runs after the if statement in the same iteration
								}
							}
							if tail {
								skips = true
							}
						}
					}
					r.Check(added && skips, name+"/stage:"+short, is.Pos(), "a failing %s records its errors and skips to the next function", short)
				}
			}
		})

	register("C19.R3", "set variables are visited: check/show evaluate every package-scope variable whose type is wire.ProviderSet (and nothing else: a type alias for it is not a set), whether or not an injector uses it, recording its errors",
		func(c *Ctx, r *R) {
			fi := r.Need(c.Fn(c.W, "Load"), "Load")
			if fi == nil {
				return
			}
			ok := false
			fi.inspect(fi.Decl.Body, func(nd ast.Node) bool {
				rs, isR := nd.(*ast.RangeStmt)
				if !isR || fi.isCall(rs.X, "go/types.Scope.Names") == nil {
					return true
				}
				// inside: obj := scope.Lookup(name); if !isProviderSetType(obj.Type()) {continue}; oc.get(obj)
				var get *ast.CallExpr
				for _, cl := range callsIn(rs.Body) {
					if fi.calleeName(cl) == pathW+".objectCache.get" {
						get = cl
					}
				}
				if get == nil {
					return true
				}
				// the only filters: the object is a variable (a type alias for wire.ProviderSet has that type too), of ProviderSet type
				gs := fi.GuardsWithin(get, rs.Body)
				isSetType, isVar, other := false, false, 0
				for _, g := range gs {
					switch {
					case !g.Neg && fi.isCall(g.Expr, pathW+".isProviderSetType") != nil:
						isSetType = true
					case !g.Neg && fi.varOf(g.Expr) != nil:
						okV := false
						for _, d := range fi.defs[fi.varOf(g.Expr)] {
							if ta, isTA := ast.Unparen(d.rhs).(*ast.TypeAssertExpr); isTA && d.idx == 1 && types.ExprString(ta.Type) == "*types.Var" {
								okV = true
							}
						}
						if okV {
							isVar = true
						} else {
							other++
						}
					default:
						other++
					}
				}
				okG := isSetType && isVar && other == 0
				lk := fi.isCall(fi.deref(get.Args[0]), "go/types.Scope.Lookup")
				okL := lk != nil && fi.varOf(lk.Args[0]) == fi.varOf(rs.Value)
				okExit := true
				for _, e := range fi.loopExits(rs) {
					_ = e
					okExit = false
				}
				if okG && okL && okExit {
					ok = true
				}
				return true
			})
			r.Check(ok, "Load/every-set-variable", fi.Decl.Pos(), "for every VARIABLE in the package scope of ProviderSet type, oc.get is called (no other filter, no early exit)")
			// isProviderSetType: named type ProviderSet of the wire package
			ip := r.Need(c.Fn(c.W, "isProviderSetType"), "isProviderSetType")
			if ip != nil {
				e := newEmitter(c, ip)
				rets := ip.returnsOf()
				s := e.sym(rets[len(rets)-1].Results[0])
				// … decided as a truth table over: the type is a named type; its object has a package; that package is
				// wire (by import path, vendoring removed); its name is ProviderSet
				sawWire := false
				atom := func(e ast.Expr) (string, bool) {
					e = ast.Unparen(e)
					if v := ip.varOf(e); v != nil {
						if d := ip.singleDef(v); d != nil && d.idx == 1 {
							if ta, ok := ast.Unparen(d.rhs).(*ast.TypeAssertExpr); ok && ta.Type != nil && types.TypeString(ip.Info.TypeOf(ta.Type), nil) == "*go/types.Named" {
								return "named", true
							}
						}
					}
					if cl := ip.isCall(e, pathW+".isWireImport"); cl != nil {
						sawWire = true
						return "wire", true
					}
					if be, ok := e.(*ast.BinaryExpr); ok && (be.Op == token.EQL || be.Op == token.NEQ) {
						if ip.isNilIdent(be.Y) && ip.isCall(be.X, "go/types.Object.Pkg", "go/types.object.Pkg", "go/types.TypeName.Pkg") != nil {
							return "pkg", be.Op == token.NEQ
						}
						if lit, ok := be.Y.(*ast.BasicLit); ok && lit.Value == `"ProviderSet"` && ip.isCall(be.X, "go/types.Object.Name", "go/types.object.Name", "go/types.TypeName.Name") != nil {
							return "name", be.Op == token.EQL
						}
					}
					return "", false
				}
				okDef := true
				for m := 0; m < 16; m++ {
					env := map[string]bool{"named": m&1 != 0, "pkg": m&2 != 0, "wire": m&4 != 0, "name": m&8 != 0}
					v, ok := ip.evalBoolFunc(env, atom)
					if !ok || v != (m == 15) {
						okDef = false
					}
				}
				r.Check(okDef && sawWire, "isProviderSetType/definition", ip.Decl.Pos(), "a type is a provider set iff it is the named type ProviderSet of the wire package (%s)", s)
			}
			// the packages loop skips only the wire package itself
			okPk := false
			fi.inspect(fi.Decl.Body, func(nd ast.Node) bool {
				rs, isR := nd.(*ast.RangeStmt)
				if !isR || types.TypeString(fi.Info.TypeOf(rs.X), nil) != "[]*golang.org/x/tools/go/packages.Package" {
					return true
				}
				conts := 0
				for _, s := range rs.Body.List {
					if is, ok := s.(*ast.IfStmt); ok && terminates(is.Body) {
						conts++
						if fi.isCall(is.Cond, pathW+".isWireImport") != nil {
							okPk = true
						}
					}
				}
				if conts != 1 {
					okPk = false
				}
				return true
			})
			r.Check(okPk, "Load/all-packages", fi.Decl.Pos(), "every matched package is examined; only the marker package itself is skipped")
		})

	register("C19.R5", "show's list of included sets: gather walks every import transitively with a visited set and records each named set other than the shown one, identified by package path AND variable name",
		func(c *Ctx, r *R) {
			fi := r.Need(c.Fn(c.Cmd, "gather"), "gather")
			if fi == nil {
				return
			}
			var loop *ast.ForStmt
			fi.inspect(fi.Decl.Body, func(nd ast.Node) bool {
				f, ok := nd.(*ast.ForStmt)
				if !ok || loop != nil || f.Cond == nil {
					return true
				}
				if be, ok := ast.Unparen(f.Cond).(*ast.BinaryExpr); ok {
					if l := fi.isBuiltin(fi.deref(be.X), "len"); l != nil && types.TypeString(fi.Info.TypeOf(l.Args[0]), nil) == "[]*"+pathW+".ProviderSet" {
						loop = f
					}
				}
				// however the loop condition is spelled: the loop that pushes the imports of a set onto a list of sets
				if loop == nil {
					for _, as := range callsIn(f.Body) {
						if ap := fi.isBuiltin(as, "append"); ap != nil && ap.Ellipsis.IsValid() && len(ap.Args) == 2 {
							if fl := fi.selField(ap.Args[1]); fl != nil && fl.Name() == "Imports" && types.TypeString(fi.Info.TypeOf(ap.Args[0]), nil) == "[]*"+pathW+".ProviderSet" {
								loop = f
							}
						}
					}
				}
				return true
			})
			if loop == nil {
				r.Bad("imports-walk", fi.Decl.Pos(), "worklist over provider sets not found")
				return
			}
			recorded, pushed, visitedGuard := false, false, false
			ast.Inspect(loop.Body, func(nd ast.Node) bool {
				as, ok := nd.(*ast.AssignStmt)
				if !ok {
					return true
				}
				if ix, ok := ast.Unparen(as.Lhs[0]).(*ast.IndexExpr); ok && types.TypeString(fi.Info.TypeOf(ix.X), nil) == "map[string]struct{}" {
					// decision table over (named, same package path, same variable name)
					atom := func(e ast.Expr) (string, bool) {
						be, ok := ast.Unparen(e).(*ast.BinaryExpr)
						if !ok || (be.Op != token.EQL && be.Op != token.NEQ) {
							return "", false
						}
						fx, fy := fi.selField(be.X), fi.selField(be.Y)
						name := ""
						switch {
						case fx != nil && fy != nil && (fx.Name() == "PkgPath" && fy.Name() == "ImportPath" || fx.Name() == "ImportPath" && fy.Name() == "PkgPath"):
							name = "samePath"
						case fx != nil && fy != nil && fx.Name() == "VarName" && fy.Name() == "VarName":
							name = "sameName"
						case fx != nil && fx.Name() == "VarName" && types.ExprString(be.Y) == `""`:
							name = "unnamed"
						default:
							return "", false
						}
						return name, be.Op == token.EQL
					}
					var eval func(e ast.Expr, env map[string]bool) (bool, bool)
					eval = func(e ast.Expr, env map[string]bool) (bool, bool) {
						e = ast.Unparen(e)
						if u, ok := e.(*ast.UnaryExpr); ok && u.Op == token.NOT {
							v, ok := eval(u.X, env)
							return !v, ok
						}
						if be, ok := e.(*ast.BinaryExpr); ok && (be.Op == token.LAND || be.Op == token.LOR) {
							x, ok1 := eval(be.X, env)
							y, ok2 := eval(be.Y, env)
							if !ok1 || !ok2 {
								return false, false
							}
							if be.Op == token.LAND {
								return x && y, true
							}
							return x || y, true
						}
						if n, eq := atom(e); n != "" {
							return env[n] == eq, true
						}
						return false, false
					}
					okC := true
					got := ""
					for _, named := range []bool{false, true} {
						for _, sp := range []bool{false, true} {
							for _, sn := range []bool{false, true} {
								env := map[string]bool{"unnamed": !named, "samePath": sp, "sameName": sn}
								rec := true
								for _, g := range fi.GuardsWithin(as, loop.Body) {
									is, isIf := g.At.(*ast.IfStmt)
									if !isIf {
										continue
									}
									v, ok := eval(g.Expr, env)
									if !ok && !fi.within(as, is.Body) {
										// an earlier `if … {continue}`: the visited test is the one allowed condition that is not about the name
										look := g.Expr
										if d := fi.defOf(g.Expr); d != nil && d.idx == 1 {
											look = d.rhs
										}
										if ix, isIx := ast.Unparen(look).(*ast.IndexExpr); isIx && strings.HasPrefix(types.TypeString(fi.Info.TypeOf(ix.X), nil), "map[*") {
											continue
										}
									}
									if !ok {
										okC = false
										got += " undecided:" + exprShort(g.Expr)
										continue
									}
									if g.Neg {
										v = !v
									}
									rec = rec && v
								}
								if rec != (named && !(sp && sn)) {
									okC = false
								}
								got += fmt.Sprintf(" (named=%v,samePath=%v,sameName=%v)→%v", named, sp, sn, rec)
							}
						}
					}
					recorded = true
					r.Check(okC, "imports-walk/recorded-iff-named-and-not-self", as.Pos(), "a visited set is listed iff it is named and is not the shown set itself (same package path AND same variable name) — got: %s", got)
				}
				if ap := fi.isBuiltin(as.Rhs[0], "append"); ap != nil && ap.Ellipsis.IsValid() {
					if f := fi.selField(ap.Args[1]); f != nil && f.Name() == "Imports" && fi.unconditionalIn(as, loop.Body) == false {
						// allowed guard: not visited
						pushed = true
					} else if f != nil && f.Name() == "Imports" {
						pushed = true
					}
				}
				return true
			})
			for _, s := range loop.Body.List {
				// `if _, found := visited[curr]; found {continue}` (the lookup in the init, or in a statement before)
				if is, ok := s.(*ast.IfStmt); ok && terminates(is.Body) {
					cs := flatten(is.Cond, false, is)
					if len(cs) != 1 || cs[0].Neg {
						continue
					}
					var look ast.Expr
					if d := fi.defOf(cs[0].Expr); d != nil && d.idx == 1 {
						look = d.rhs
					} else if d == nil {
						look = cs[0].Expr
					}
					if look == nil {
						continue
					}
					if ix, ok := ast.Unparen(look).(*ast.IndexExpr); ok && strings.HasPrefix(types.TypeString(fi.Info.TypeOf(ix.X), nil), "map[*") {
						visitedGuard = true
					}
				}
			}
			r.Check(recorded, "imports-walk/records", loop.Pos(), "named sets are recorded")
			r.Check(pushed, "imports-walk/follows-all-imports", loop.Pos(), "every import of a visited set is pushed")
			r.Check(visitedGuard, "imports-walk/visited-guard", loop.Pos(), "a set is expanded once")
		})

	register("C19.R4", "show's dispatches are exhaustive: the type switch over a group's outputs has a case for every type gather stores there",
		func(c *Ctx, r *R) {
			ga := r.Need(c.Fn(c.Cmd, "gather"), "gather")
			sh := r.Need(c.Fn(c.Cmd, "showCmd.Execute"), "showCmd.Execute")
			if ga == nil || sh == nil {
				return
			}
			stored := map[string]bool{}
			for _, st := range ga.callsTo(fnMapSet) {
				rx := recvOf(st)
				isOut := false
				if f := ga.selField(rx); f != nil && f.Name() == "outputs" {
					isOut = true
				}
				if v := ga.varOf(rx); v != nil {
					// a local that becomes a group's outputs (the value of the outputs: key of an outGroup literal)
					ga.inspect(ga.Decl.Body, func(nd ast.Node) bool {
						if kv, ok := nd.(*ast.KeyValueExpr); ok {
							if k, ok := kv.Key.(*ast.Ident); ok && k.Name == "outputs" && ga.varOf(kv.Value) == v {
								isOut = true
							}
						}
						return true
					})
				}
				if isOut {
					stored[types.TypeString(ga.Info.TypeOf(st.Args[1]), nil)] = true
				}
			}
			cases := map[string]bool{}
			sh.inspect(sh.Decl.Body, func(nd ast.Node) bool {
				if ts, ok := nd.(*ast.TypeSwitchStmt); ok {
					for _, s := range ts.Body.List {
						for _, e := range s.(*ast.CaseClause).List {
							cases[types.TypeString(sh.Info.TypeOf(e), nil)] = true
						}
					}
				}
				return true
			})
			var ks []string
			for k := range stored {
				ks = append(ks, k)
			}
			sort.Strings(ks)
			for _, k := range ks {
				r.Check(cases[k], "show/output-case:"+k, sh.Decl.Pos(), "a stored output of type %s has a case", k)
			}
			r.Floor("output value types stored by gather", len(ks), 3)
		})
}

// isBuiltin0 is isBuiltin for an arbitrary node.
func (fi *FuncInfo) isBuiltin0(n ast.Node, name string) *ast.CallExpr {
	if e, ok := n.(ast.Expr); ok {
		return fi.isBuiltin(e, name)
	}
	return nil
}

// tagAppend classifies `x += sep + y`: ext reports that x is only extended
// (sep is "," or " "); one reports the form that keeps one separator
// throughout — a comma before each element of the user's list split with
// strings.FieldsFunc.
func tagAppend(ld *FuncInfo, as *ast.AssignStmt) (ext, one bool) {
	if as.Tok != token.ADD_ASSIGN || len(as.Rhs) != 1 {
		return false, false
	}
	be, isB := ast.Unparen(as.Rhs[0]).(*ast.BinaryExpr)
	if !isB || be.Op != token.ADD {
		return false, false
	}
	tv, isC := ld.Info.Types[be.X]
	if !isC || tv.Value == nil || (tv.Value.ExactString() != `","` && tv.Value.ExactString() != `" "`) {
		return false, false
	}
	if tv.Value.ExactString() == `","` {
		if v := ld.varOf(be.Y); v != nil {
			for _, d := range ld.defs[v] {
				if d.kind == "range-val" && ld.isCall(d.rhs, "strings.FieldsFunc") != nil {
					one = true
				}
			}
		}
	}
	return true, one
}

// isFlag reports whether v is a boolean flag local of fi that starts as init
// and is otherwise only ever assigned the opposite constant (success := true …
// success = false; hadDiff := false … hadDiff = true). The variable's name
// plays no part.
func (fi *FuncInfo) isFlag(v *types.Var, init bool) bool {
	if v == nil || types.TypeString(v.Type(), nil) != "bool" || fi.isParam(v) {
		return false
	}
	want := map[bool]string{true: "true", false: "false"}
	defined, flipped := false, false
	for _, d := range fi.defs[v] {
		id, _ := ast.Unparen(d.rhs).(*ast.Ident)
		if id == nil {
			return false
		}
		switch d.kind {
		case "define":
			if id.Name != want[init] || defined {
				return false
			}
			defined = true
		case "assign":
			if id.Name != want[!init] {
				return false
			}
			flipped = true
		default:
			return false
		}
	}
	return defined && flipped
}
