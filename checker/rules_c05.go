package main

import (
	"go/ast"
	"go/types"
)

// findAtGuard searches the branch outcomes dominating n for a test
// `M.At(K) ==/!= nil` (possibly through a single-assignment local such as
// `if prev := M.At(K); prev != nil`) with recvOK(M), K structurally equal to
// key and stable up to n, asserting nil-ness == wantNil.
func (fi *FuncInfo) findAtGuard(n ast.Node, recvOK func(ast.Expr) bool, key ast.Expr, wantNil bool) (*Cond, *ast.CallExpr) {
	gs := fi.Guards(n)
	for i := len(gs) - 1; i >= 0; i-- {
		g := gs[i]
		x, isNil, ok := fi.nilTest(g)
		if !ok || isNil != wantNil {
			continue
		}
		at := fi.isCall(fi.deref(x), fnMapAt)
		if at == nil || len(at.Args) != 1 || !recvOK(recvOf(at)) {
			continue
		}
		if !fi.sameExpr(at.Args[0], key) {
			continue
		}
		if !fi.stableBetween(key, at, n) {
			continue
		}
		return &gs[i], at
	}
	return nil, nil
}

// otherBranch returns the block executed when cond g (established at an if
// statement) does NOT hold.
func otherBranch(g *Cond, fi *FuncInfo, n ast.Node) ast.Node {
	is, ok := g.At.(*ast.IfStmt)
	if !ok {
		return nil
	}
	if fi.within(n, is.Body) {
		return is.Else
	}
	if is.Else != nil && fi.within(n, is.Else) {
		return is.Body
	}
	// n follows the if: the terminating branch is the other one
	if terminates(is.Body) {
		return is.Body
	}
	return is.Else
}

func init() {
	register("C05.R1", "every Set on the provider/source map under construction is dominated by the nil edge of At(sameKey) whose other edge unconditionally adds bindingConflictError and never reaches the Set; paired Sets share the key",
		func(c *Ctx, r *R) {
			fi := r.Need(c.Fn(c.W, "buildProviderMap"), "buildProviderMap")
			if fi == nil {
				return
			}
			maps := fi.localVarsOfType("golang.org/x/tools/go/types/typeutil", "Map")
			isMap := func(e ast.Expr) bool {
				v := fi.varOf(e)
				if v == nil {
					return false
				}
				for _, m := range maps {
					if m == v {
						return true
					}
				}
				return false
			}
			ecs := fi.collectorVars()
			sets := fi.callsTo(fnMapSet)
			n := 0
			type pairKey struct {
				blk ast.Node
			}
			byBlock := map[ast.Node][]*ast.CallExpr{}
			for _, s := range sets {
				if !isMap(recvOf(s)) {
					continue
				}
				n++
				key := s.Args[0]
				k := "Set(" + exprShort(recvOf(s)) + ",key=" + exprShort(key) + ")/" + fi.loopCtx(s)
				blk := fi.enclosing(s, func(n ast.Node) bool { _, ok := n.(*ast.BlockStmt); return ok })
				byBlock[blk] = append(byBlock[blk], s)
				g, at := fi.findAtGuard(s, isMap, key, true)
				if g == nil {
					r.Bad(k, s.Pos(), "insertion is not dominated by the nil edge of a duplicate test At(%s) on the maps under construction", exprShort(key))
					continue
				}
				ob := otherBranch(g, fi, s)
				// `if At(k) == nil { Set…; continue }` followed by the conflict report: the other edge is what
				// follows the if statement in its block
				var obRest []ast.Stmt
				var obTop ast.Node
				obBefore := map[ast.Node]bool{}
				if is := g.At.(*ast.IfStmt); ob == nil && is.Else == nil && fi.within(s, is.Body) && terminates(is.Body) {
					var list []ast.Stmt
					switch p := fi.parent[is].(type) {
					case *ast.BlockStmt:
						list, obTop = p.List, p
					case *ast.CaseClause:
						list, obTop = p.Body, p
					}
					for i, st := range list {
						if st == ast.Stmt(is) {
							obRest = list[i+1:]
							for _, b := range list[:i+1] {
								obBefore[b] = true
							}
						}
					}
				}
				if ob == nil && len(obRest) == 0 {
					r.Bad(k, s.Pos(), "duplicate test at %s has no branch for the conflicting case", c.Pos(at.Pos()))
					continue
				}
				// the conflicting branch must unconditionally add bindingConflictError to the collector
				found := false
				var obCalls []*ast.CallExpr
				if ob != nil {
					obCalls = callsIn(ob)
				}
				for _, st := range obRest {
					obCalls = append(obCalls, callsIn(st)...)
				}
				unconditional := func(call *ast.CallExpr) bool {
					if ob != nil {
						return fi.unconditionalIn(call, ob)
					}
					for _, g2 := range fi.GuardsWithin(call, obTop) {
						if !obBefore[g2.At] {
							return false
						}
					}
					return !fi.inNestedLoopOrLit(call, obTop)
				}
				for _, call := range obCalls {
					if fi.calleeName(call) != fnECAdd {
						continue
					}
					rv := fi.varOf(recvOf(call))
					okRecv := false
					for _, e := range ecs {
						if e == rv {
							okRecv = true
						}
					}
					if !okRecv || len(call.Args) != 1 || fi.isCall(fi.deref(call.Args[0]), pathW+".bindingConflictError") == nil {
						continue
					}
					if unconditional(call) {
						found = true
					}
				}
				if !found {
					r.Bad(k, s.Pos(), "the non-nil edge of the duplicate test at %s does not unconditionally add bindingConflictError to the collector", c.Pos(at.Pos()))
					continue
				}
				// the conflicting branch must not fall through to the Set
				if blkOb, ok := ob.(*ast.BlockStmt); ok && !fi.within(s, g.At.(*ast.IfStmt).Body) && !(g.At.(*ast.IfStmt).Else != nil && fi.within(s, g.At.(*ast.IfStmt).Else)) && !terminates(blkOb) {
					r.Bad(k, s.Pos(), "the conflict branch at %s falls through to the insertion", c.Pos(at.Pos()))
					continue
				}
				r.Ok(k, s.Pos(), "guarded by At(%s)==nil at %s; conflict edge adds bindingConflictError and leaves", exprShort(key), c.Pos(at.Pos()))
			}
			r.Floor("Set sites on maps under construction", n, 12)
			// pairing: each block inserts into both maps with the same key
			for blk, ss := range byBlock {
				recvs := map[*types.Var]string{}
				for _, s := range ss {
					recvs[fi.varOf(recvOf(s))] = fi.canon(s.Args[0], 0)
				}
				k := "pair@" + exprShort(ss[0].Args[0]) + "/" + fi.loopCtx(ss[0])
				if len(recvs) != len(maps) || len(maps) != 2 {
					r.Bad(k, blk.Pos(), "insertion does not update both maps (%d of %d)", len(recvs), len(maps))
					continue
				}
				same := true
				var first string
				for _, v := range recvs {
					if first == "" {
						first = v
					} else if v != first {
						same = false
					}
				}
				r.Check(same, k, blk.Pos(), "both maps are updated under the same key")
			}
			// both maps are the function's results
			for _, ret := range fi.returnsOf() {
				if len(ret.Results) == 3 && !fi.isNilIdent(ret.Results[0]) {
					r.Check(isMap(ret.Results[0]) && isMap(ret.Results[1]) && fi.varOf(ret.Results[0]) != fi.varOf(ret.Results[1]),
						"result-maps", ret.Pos(), "the two guarded maps are the ones returned")
				}
			}
		})

	register("C05.R4", "nothing is skipped: in every loop of buildProviderMap the insertion is reached for every element except on the conflict edge (and, for bindings, the missing-concrete edge) — no other condition filters what enters the maps",
		func(c *Ctx, r *R) {
			fi := r.Need(c.Fn(c.W, "buildProviderMap"), "buildProviderMap")
			if fi == nil {
				return
			}
			n := 0
			for _, st := range fi.callsTo(fnMapSet) {
				loop := fi.enclosingLoop(st)
				var top ast.Node
				if loop != nil {
					top = loopBody(loop)
				} else if lit, ok := fi.enclosing(st, func(n ast.Node) bool { _, ok := n.(*ast.FuncLit); return ok }).(*ast.FuncLit); ok {
					top = lit.Body
				}
				if top == nil {
					continue
				}
				n++
				k := "reach(" + exprShort(recvOf(st)) + ",key=" + exprShort(st.Args[0]) + ")/" + fi.loopCtx(st)
				var extra []string
				for _, g := range fi.GuardsWithin(st, top) {
					if x, isNil, ok := fi.nilTest(g); ok {
						if at := fi.isCall(fi.deref(x), fnMapAt); at != nil {
							if isNil && fi.sameExpr(at.Args[0], st.Args[0]) {
								continue // duplicate test, nil edge
							}
							if !isNil && fi.selField(at.Args[0]) != nil && fi.selField(at.Args[0]).Name() == "Provided" {
								continue // binding: concrete type is provided
							}
						}
					}
					extra = append(extra, exprShort(g.Expr))
				}
				// outer loops up to the function body must be unfiltered too (e.g. range p.Out inside range set.Providers)
				for p := fi.enclosingLoop(loopOrLit(fi, st)); p != nil; p = fi.enclosingLoop(p) {
					inner := fi.stmtOf(loopOrLit(fi, st))
					for _, g := range fi.GuardsWithin(inner, loopBody(p)) {
						extra = append(extra, exprShort(g.Expr))
					}
					break
				}
				r.Check(len(extra) == 0, k, st.Pos(), "insertion is skipped only on a conflict (extra conditions: %v)", extra)
				if loop != nil {
					r.Check(len(fi.loopExits(loop)) == 0, k+"/no-early-exit", st.Pos(), "the loop visits every element")
				}
			}
			r.Floor("insertions checked for reachability", n, 12)
		})

	register("C05.R1b", "bindingConflictError never returns nil (the collector drops nil errors): every return is notePosition of a freshly constructed error",
		func(c *Ctx, r *R) {
			fi := r.Need(c.Fn(c.W, "bindingConflictError"), "bindingConflictError")
			if fi == nil {
				return
			}
			fresh := func(e ast.Expr) bool {
				e = fi.deref(e)
				if fi.isCall(e, "errors.New", "fmt.Errorf") != nil {
					return true
				}
				if u, ok := e.(*ast.UnaryExpr); ok {
					if _, ok := u.X.(*ast.CompositeLit); ok {
						return true
					}
				}
				return false
			}
			for i, ret := range fi.returnsOf() {
				k := "return#" + itoa(i)
				if len(ret.Results) != 1 {
					r.Undecided(k, ret.Pos(), "unexpected result arity")
					continue
				}
				e := fi.deref(ret.Results[0])
				if np := fi.isCall(e, fnNotePos); np != nil && len(np.Args) == 2 {
					r.Check(fresh(np.Args[1]), k, ret.Pos(), "returns notePosition(_, freshly constructed error)")
				} else {
					r.Check(fresh(e), k, ret.Pos(), "returns a freshly constructed error")
				}
			}
			// notePosition returns nil only for a nil argument
			np := r.Need(c.Fn(c.W, "notePosition"), "notePosition")
			if np == nil {
				return
			}
			for i, ret := range np.returnsOf() {
				k := "notePosition.return#" + itoa(i)
				if len(ret.Results) == 1 && np.isNilIdent(ret.Results[0]) {
					ok := false
					for _, g := range np.Guards(ret) {
						if g.Kind == "typecase" && !g.Neg && len(g.Vals) == 1 && np.isNilIdent(g.Vals[0]) {
							ok = true
						}
						if x, isNil, o := np.nilTest(g); o && isNil && np.isParam(np.varOf(x)) {
							ok = true
						}
					}
					r.Check(ok, k, ret.Pos(), "nil is returned only when the error argument is nil")
				} else {
					r.Ok(k, ret.Pos(), "non-nil result")
				}
			}
			// errorCollector.add keeps every non-nil error
			add := r.Need(c.Fn(c.W, "errorCollector.add"), "errorCollector.add")
			if add != nil {
				apps := 0
				for _, call := range add.callsDeep(add.Decl.Body) {
					if add.isBuiltin(call, "append") == nil {
						continue
					}
					apps++
					gs := add.Guards(call)
					ok := len(gs) == 1
					if ok {
						_, isNil, o := add.nilTest(gs[0])
						ok = o && !isNil
					}
					r.Check(ok, "collector-keeps-non-nil", call.Pos(), "errorCollector.add appends every error under the single condition e != nil")
				}
				r.Floor("append in errorCollector.add", apps, 1)
			}
		})

	register("C05.R2", "imported sets contribute their whole provider map: the imports loop iterates every import's providerMap without filtering and inserts the callback's own (key,value)",
		func(c *Ctx, r *R) {
			fi := r.Need(c.Fn(c.W, "buildProviderMap"), "buildProviderMap")
			if fi == nil {
				return
			}
			n := 0
			for _, it := range fi.callsTo(fnMapIterate) {
				recv := recvOf(it)
				base, ok := fi.fieldSel(recv, pathW, "ProviderSet", "providerMap")
				if !ok {
					continue
				}
				n++
				k := "Iterate(" + exprShort(recv) + ")"
				// base must be the range value over set.Imports of the parameter set
				loop, _ := fi.enclosingLoop(it).(*ast.RangeStmt)
				okLoop := false
				if loop != nil && loop.Value != nil && fi.varOf(loop.Value) == fi.varOf(base) {
					if b2, ok := fi.fieldSel(loop.X, pathW, "ProviderSet", "Imports"); ok && fi.varOf(b2) != nil && fi.isParam(fi.varOf(b2)) {
						okLoop = true
					}
				}
				if !r.Check(okLoop, k+"/range", it.Pos(), "iterates the providerMap of each element of the parameter set's Imports") {
					continue
				}
				r.Check(len(fi.GuardsWithin(it, loop)) == 0, k+"/unfiltered", it.Pos(), "no condition filters which imports are merged")
				lit, _ := ast.Unparen(it.Args[0]).(*ast.FuncLit)
				if lit == nil || len(lit.Type.Params.List) == 0 {
					r.Undecided(k+"/callback", it.Pos(), "callback is not a function literal")
					continue
				}
				var params []*types.Var
				for _, f := range lit.Type.Params.List {
					for _, nm := range f.Names {
						params = append(params, fi.Info.Defs[nm].(*types.Var))
					}
				}
				sets := 0
				for _, s := range callsIn(lit.Body) {
					if fi.calleeName(s) != fnMapSet {
						continue
					}
					sets++
					okKV := len(params) == 2 && fi.varOf(s.Args[0]) == params[0]
					if isNamed(derefType(fi.Info.TypeOf(recvOf(s))), "golang.org/x/tools/go/types/typeutil", "Map") && fi.varOf(recvOf(s)) != nil && fi.varOf(recvOf(s)).Name() != "" {
						// provider map receives the callback's value unchanged; the source map receives the import's source
					}
					r.Check(okKV, k+"/Set("+exprShort(recvOf(s))+")", s.Pos(), "inserted key is the callback's key parameter")
					if fi.varOf(s.Args[1]) == params[1] {
						r.Ok(k+"/value-forwarded", s.Pos(), "the imported ProvidedType value is forwarded unchanged")
					}
				}
				r.Floor("Set calls in import callback", sets, 2)
				fw := false
				for _, o := range r.Obs {
					if o.Key == k+"/value-forwarded" {
						fw = true
					}
				}
				r.Check(fw, k+"/value", it.Pos(), "one insertion forwards the callback's value parameter")
			}
			r.Floor("Iterate over imported providerMap", n, 1)
		})

	register("C05.R3", "ProviderSet.providerMap/srcMap are written only by processNewSet from buildProviderMap's results; no Set/Delete on them elsewhere in the module",
		func(c *Ctx, r *R) {
			ps := lookupType(c.W, "ProviderSet")
			pm, sm := structField(ps, "providerMap"), structField(ps, "srcMap")
			if pm == nil || sm == nil {
				r.Bad("anchor:ProviderSet.providerMap/srcMap", 0, "fields not found")
				return
			}
			writes := 0
			for _, fi := range c.all {
				r.Need(fi, fi.Name)
				fi.inspect(fi.Decl.Body, func(n ast.Node) bool {
					switch n := n.(type) {
					case *ast.AssignStmt:
						for i, l := range n.Lhs {
							f := fi.selField(l)
							if f != pm && f != sm {
								continue
							}
							writes++
							k := "write:" + fi.Name + "/" + f.Name()
							var rhs ast.Expr
							if len(n.Rhs) == 1 {
								rhs = n.Rhs[0]
							} else if i < len(n.Rhs) {
								rhs = n.Rhs[i]
							}
							want := 0
							if f == sm {
								want = 1
							}
							okW := fi.Name == "objectCache.processNewSet" && fi.isCall(rhs, pathW+".buildProviderMap") != nil && len(n.Rhs) == 1 && i == want
							if !okW && fi.Name == "objectCache.processNewSet" {
								// through locals: m, s, errs := buildProviderMap(…); pset.providerMap = m
								if d := fi.defOf(rhs); d != nil && d.idx == want && fi.isCall(d.rhs, pathW+".buildProviderMap") != nil {
									okW = true
								}
							}
							r.Check(okW, k, n.Pos(), "assigned from result %d of buildProviderMap in processNewSet", want)
						}
					case *ast.CompositeLit:
						if isNamed(derefType(fi.Info.TypeOf(n)), pathW, "ProviderSet") {
							for _, el := range n.Elts {
								if kv, ok := el.(*ast.KeyValueExpr); ok {
									if id, ok := kv.Key.(*ast.Ident); ok && (id.Name == "providerMap" || id.Name == "srcMap") {
										writes++
										r.Bad("literal:"+fi.Name+"/"+id.Name, kv.Pos(), "ProviderSet literal sets %s directly", id.Name)
									}
								}
							}
						}
					case *ast.CallExpr:
						nm := fi.calleeName(n)
						if nm == fnMapSet || nm == fnMapDelete {
							if f := fi.selField(recvOf(n)); f == pm || f == sm {
								r.Bad("mutation:"+fi.Name+"/"+f.Name(), n.Pos(), "%s called on a finished set's %s", nm, f.Name())
							}
						}
						if nm == fnMapDelete && fi.Name == "buildProviderMap" {
							r.Bad("delete:"+fi.Name, n.Pos(), "entries are deleted from a map under construction")
						}
					}
					return true
				})
			}
			r.Floor("writes to providerMap/srcMap", writes, 2)
			// positive control for the mutation detector: buildProviderMap does call Set
			bp := c.Fn(c.W, "buildProviderMap")
			hit := bp != nil && len(bp.callsTo(fnMapSet)) > 0
			var p = ast.Node(nil)
			if hit {
				p = bp.callsTo(fnMapSet)[0]
				r.Control("Map.Set detector", true, p.Pos())
			} else {
				r.Control("Map.Set detector", false, 0)
			}
		})
}

// loopOrLit returns the innermost loop or function literal containing n.
func loopOrLit(fi *FuncInfo, n ast.Node) ast.Node {
	for p := fi.parent[n]; p != nil; p = fi.parent[p] {
		switch p.(type) {
		case *ast.ForStmt, *ast.RangeStmt, *ast.FuncLit:
			return p
		}
	}
	return n
}
