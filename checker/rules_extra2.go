package main

import (
	"go/ast"
	"go/token"
	"go/types"
	"sort"
	"strings"
)

// Rules written after the probing round (DESIGN.md §5, F17–F33): each finds,
// from the source alone, the construct whose absence or wrong form was the
// defect.

func init() {
	register("C01.R9", "names of another package printed by the emitters are exported: every string the step record carries for printing (the provider / struct type / selected field name, and the literal's field names — computed from the record's type) is tested with ast.IsExported in the per-call checks shared by gen and check, whenever the step's package is not the injector's",
		func(c *Ctx, r *R) {
			fi := r.Need(c.Fn(c.W, "checkCalls"), "checkCalls")
			callT := lookupType(c.W, "call")
			if fi == nil || callT == nil {
				r.Bad("anchor:call", token.NoPos, "type call not found")
				return
			}
			// universe: string and []string fields of the step record
			var names []string
			st := callT.Underlying().(*types.Struct)
			for i := 0; i < st.NumFields(); i++ {
				switch types.TypeString(st.Field(i).Type(), nil) {
				case "string", "[]string":
					names = append(names, st.Field(i).Name())
				}
			}
			sort.Strings(names)
			r.Floor("printable name fields of call", len(names), 2)
			covered := map[string]bool{}
			// the injector's package path: the string parameter handed on to accessibleFrom as the destination package
			var pkgParam *types.Var
			for _, cl := range fi.callsTo(pathW + ".accessibleFrom") {
				if len(cl.Args) == 3 {
					if v := fi.varOf(cl.Args[2]); v != nil && fi.isParam(v) {
						pkgParam = v
					}
				}
			}
			found := false
			for _, add := range fi.callsTo(fnECAdd) {
				loop := fi.enclosingLoop(add)
				if loop == nil {
					continue
				}
				var exported *ast.CallExpr
				foreign, other := false, []string{}
				for _, g := range fi.Guards(add) {
					if g.Kind != "bool" {
						continue
					}
					if cl := fi.isCall(g.Expr, "go/ast.IsExported"); cl != nil && g.Neg {
						exported = cl
						continue
					}
					if be, ok := ast.Unparen(g.Expr).(*ast.BinaryExpr); ok {
						isPath := func(e ast.Expr) bool {
							pc := fi.isCall(fi.deref(e), "go/types.Package.Path")
							if pc == nil {
								return false
							}
							f := fi.selField(recvOf(pc))
							return f != nil && f.Name() == "pkg"
						}
						if (be.Op == token.NEQ) != g.Neg && (isPath(be.X) && fi.varOf(be.Y) == pkgParam || isPath(be.Y) && fi.varOf(be.X) == pkgParam) && pkgParam != nil {
							foreign = true
							continue
						}
						// benign: kind != valueExpr (values have their own check), c.pkg != nil, n != ""
						if f := fi.selField(be.X); f != nil && f.Name() == "kind" && types.ExprString(be.Y) == "valueExpr" && (be.Op == token.NEQ) != g.Neg {
							continue
						}
						if f := fi.selField(be.X); f != nil && f.Name() == "pkg" && fi.isNilIdent(be.Y) && (be.Op == token.NEQ) != g.Neg {
							continue
						}
						if types.ExprString(be.Y) == `""` && (be.Op == token.NEQ) != g.Neg {
							continue
						}
					}
					if g.Loop {
						continue
					}
					other = append(other, exprShort(g.Expr))
				}
				if exported == nil {
					continue
				}
				found = true
				// what the tested name ranges over: the fields of the step record read inside the loop
				// (including a helper analysed in place that collects the printed names)
				onCall := func(e ast.Expr) *types.Var {
					sel, ok := ast.Unparen(e).(*ast.SelectorExpr)
					if !ok {
						return nil
					}
					if t := fi.Info.TypeOf(sel.X); t == nil || !isNamed(derefType(t), pathW, "call") {
						return nil
					}
					return fi.selField(sel)
				}
				fi.inspect(loop, func(nd ast.Node) bool {
					switch x := nd.(type) {
					case *ast.CompositeLit:
						// a name placed in a list of names
						for _, el := range x.Elts {
							if kv, ok := el.(*ast.KeyValueExpr); ok {
								el = kv.Value
							}
							if f := onCall(el); f != nil && isString(f.Type()) {
								covered[f.Name()] = true
							}
						}
					case *ast.RangeStmt:
						// a list of names each of which is added to the list
						if f := onCall(x.X); f != nil {
							adds := false
							ast.Inspect(x.Body, func(m ast.Node) bool {
								if as, ok := m.(*ast.AssignStmt); ok && len(as.Rhs) == 1 && fi.isBuiltin(as.Rhs[0], "append") != nil {
									adds = true
								}
								return true
							})
							if adds {
								covered[f.Name()] = true
							}
						}
					case *ast.CallExpr:
						if fi.isBuiltin(x, "append") != nil && x.Ellipsis.IsValid() {
							if f := onCall(x.Args[len(x.Args)-1]); f != nil {
								covered[f.Name()] = true
							}
						}
					}
					return true
				})
				// field names are attributed to the package that declares the FIELD (the type name may be a local
				// alias of, or defined from, another package's struct)
				fieldPkg := false
				fi.inspect(loop, func(nd ast.Node) bool {
					if cl, ok := nd.(*ast.CallExpr); ok && (fi.calleeName(cl) == "go/types.Var.Pkg" || fi.calleeName(cl) == "go/types.object.Pkg") {
						if fc := fi.isCall(fi.deref(recvOf(cl)), "go/types.Struct.Field"); fc != nil {
							fieldPkg = true
						}
					}
					return true
				})
				r.Check(fieldPkg, "export-test/field-names-by-declaring-package", add.Pos(), "the package compared for a field name is the one that declares the field")
				r.Check(foreign, "export-test/only-for-other-packages", add.Pos(), "the test applies exactly when the step's package differs from the injector's")
				r.Check(len(other) == 0, "export-test/no-further-condition", add.Pos(), "no further condition limits the test (%v)", other)
			}
			r.Check(found, "export-test/present", fi.Decl.Pos(), "checkCalls reports a step whose printed name is not exported")
			for _, n := range names {
				r.Check(covered[n], "export-test/covers:"+n, fi.Decl.Pos(), "call.%s is among the names tested", n)
			}
		})

	register("C12.R6", "blank fields are never injected: the \"*\" form skips a field named _ and no field argument matches one (a blank field cannot be named in a literal or a selector)",
		func(c *Ctx, r *R) {
			isBlankTest := func(fi *FuncInfo, g Cond) (neg bool, ok bool) {
				be, isB := ast.Unparen(g.Expr).(*ast.BinaryExpr)
				if !isB || (be.Op != token.EQL && be.Op != token.NEQ) {
					return false, false
				}
				x, y := be.X, be.Y
				if types.ExprString(x) == `"_"` {
					x, y = y, x
				}
				if types.ExprString(y) != `"_"` || fi.isCall(fi.deref(x), "go/types.Var.Name", "go/types.object.Name") == nil {
					return false, false
				}
				// true when the condition says "is blank"
				return (be.Op == token.EQL) == g.Neg, true
			}
			// every place that turns a struct's i-th field into an input of a struct provider
			n := 0
			for _, fi := range c.all {
				if fi.Pkg != c.W {
					continue
				}
				fi := fi
				fi.inspect(fi.Decl.Body, func(nd ast.Node) bool {
					cl, ok := nd.(*ast.CompositeLit)
					if !ok || !isNamed(fi.Info.TypeOf(cl), pathW, "ProviderInput") {
						return true
					}
					for _, el := range cl.Elts {
						kv, ok := el.(*ast.KeyValueExpr)
						if !ok || kv.Key.(*ast.Ident).Name != "FieldName" {
							continue
						}
						nc := fi.isCall(kv.Value, "go/types.Var.Name", "go/types.object.Name")
						if nc == nil || fi.isCall(fi.deref(recvOf(nc)), "go/types.Struct.Field") == nil {
							continue // a field chosen by name goes through checkField (below)
						}
						n++
						r.Need(fi, fi.Name)
						okB := false
						for _, g := range fi.Guards(cl) {
							if notBlank, ok := isBlankTest(fi, g); ok && notBlank {
								okB = true
							}
						}
						r.Check(okB, "all-fields/skips-blank@"+fi.Name, cl.Pos(), "a field enumerated from the struct becomes an input only when its name is not _")
					}
					return true
				})
			}
			r.Floor("field enumerations that build provider inputs", n, 2)
			if cf := r.Need(c.Fn(c.W, "checkField"), "checkField"); cf != nil {
				n := 0
				for _, ret := range cf.returnsOf() {
					if len(ret.Results) != 2 || !cf.isNilIdent(ret.Results[1]) {
						continue
					}
					n++
					okB := false
					for _, g := range cf.Guards(ret) {
						if notBlank, ok := isBlankTest(cf, g); ok && notBlank {
							okB = true
						}
					}
					r.Check(okB, "named/never-blank", ret.Pos(), "a field is returned for a name only when the field is not _")
				}
				r.Floor("successful returns of checkField", n, 1)
			}
		})

	register("C10.R6", "injector recognition ignores parentheses: in findInjectorBuild, every syntactic match on the statement, the panic argument and the callee is made on an unparenthesised expression — a failed match there is silent (the function is simply not an injector and is copied as written)",
		func(c *Ctx, r *R) {
			fi := r.Need(c.Fn(c.W, "findInjectorBuild"), "findInjectorBuild")
			if fi == nil {
				return
			}
			unparen := func(e ast.Expr) bool {
				return fi.isCall(fi.deref(e), "golang.org/x/tools/go/ast/astutil.Unparen", "go/ast.Unparen") != nil
			}
			n := 0
			fi.inspect(fi.Decl.Body, func(nd ast.Node) bool {
				switch x := nd.(type) {
				case *ast.TypeAssertExpr:
					if x.Type == nil {
						return true
					}
					if t := fi.Info.TypeOf(x.X); t != nil && types.TypeString(t, nil) == "go/ast.Expr" {
						n++
						r.Check(unparen(x.X), "match#"+itoa(n)+":"+types.ExprString(x.Type), x.Pos(), "the expression matched against %s has its parentheses removed first", types.ExprString(x.Type))
					}
				case *ast.CallExpr:
					if fi.calleeName(x) == pathW+".qualifiedIdentObject" && len(x.Args) == 2 {
						n++
						r.Check(unparen(x.Args[1]), "callee#"+itoa(n), x.Pos(), "the callee handed to qualifiedIdentObject has its parentheses removed first")
					}
				}
				return true
			})
			r.Floor("syntactic matches in findInjectorBuild", n, 4)
		})

	register("C15.R7", "moved code is resolved by what an identifier REFERS to: accessibleFrom and rewritePkgRefs resolve the identifiers they visit with a Uses-first lookup — Info.ObjectOf returns the field, not the type, for the type name of an embedded field, which leaves it unqualified / unchecked / unrenamed",
		func(c *Ctx, r *R) {
			if ro := r.Need(c.Fn(c.W, "referencedObject"), "referencedObject"); ro != nil {
				rets := ro.returnsOf()
				okU := len(rets) == 2
				if okU {
					first, last := rets[0], rets[1]
					ix1, _ := ast.Unparen(ro.deref(first.Results[0])).(*ast.IndexExpr)
					ix2, _ := ast.Unparen(last.Results[0]).(*ast.IndexExpr)
					okU = ix1 != nil && ix2 != nil && ro.selField(ix1.X) != nil && ro.selField(ix1.X).Name() == "Uses" && ro.selField(ix2.X) != nil && ro.selField(ix2.X).Name() == "Defs"
					if okU {
						okU = false
						for _, g := range ro.Guards(first) {
							if _, isNil, ok := ro.nilTest(g); ok && !isNil {
								okU = true
							}
						}
					}
				}
				r.Check(okU, "referencedObject/uses-first", ro.Decl.Pos(), "referencedObject returns Uses[id] when present, else Defs[id]")
			}
			n := 0
			for _, name := range []string{"accessibleFrom", "gen.rewritePkgRefs"} {
				fi := r.Need(c.Fn(c.W, name), name)
				if fi == nil {
					continue
				}
				k := 0
				for _, cl := range fi.callsTo("go/types.Info.ObjectOf") {
					// the argument is the node a tree walk is visiting (an identifier obtained by asserting the walk's
					// node), as opposed to a sub-expression known not to be an embedded field (the X of a selector)
					arg := ast.Unparen(cl.Args[0])
					if d := fi.defOf(arg); d != nil {
						if ta, ok := ast.Unparen(d.rhs).(*ast.TypeAssertExpr); ok {
							if sel, isSel := ast.Unparen(ta.X).(*ast.SelectorExpr); isSel && sel.Sel.Name == "X" {
								continue
							}
						}
					}
					k++
					r.Bad(fi.Name+"/ObjectOf#"+itoa(k), cl.Pos(), "a visited identifier is resolved with Info.ObjectOf: for the type name of an embedded field this yields the field (Parent()==nil), so the identifier is treated as a field name")
				}
				for range fi.callsTo(pathW + ".referencedObject") {
					n++
				}
			}
			r.Floor("Uses-first resolutions", n, 2)
		})

	register("C14.R6", "a renamed local cannot take a name visible where it is declared: the candidate name is looked up from the scope that declares the identifier being renamed (obj.Parent().LookupParent) — the scopes entered so far do not include a function's own scope once its body is reached",
		func(c *Ctx, r *R) {
			fi := r.Need(c.Fn(c.W, "gen.rewritePkgRefs"), "gen.rewritePkgRefs")
			if fi == nil {
				return
			}
			ok := false
			for _, cl := range fi.callsTo("go/types.Scope.LookupParent") {
				if pc := fi.isCall(fi.deref(recvOf(cl)), "go/types.Object.Parent", "go/types.object.Parent"); pc != nil {
					// inside the collision predicate handed to disambiguate, with a result that makes it report a collision
					inPred := false
					for p := fi.parent[ast.Node(cl)]; p != nil; p = fi.parent[p] {
						if lit, isLit := p.(*ast.FuncLit); isLit {
							if call, isCall := fi.parent[lit].(*ast.CallExpr); isCall && fi.calleeName(call) == pathW+".disambiguate" {
								inPred = true
							}
							break
						}
					}
					if inPred {
						ok = true
					}
				}
			}
			r.Check(ok, "rename/declaring-scope-consulted", fi.Decl.Pos(), "the collision predicate looks the candidate up from obj.Parent()")
		})

	register("C17.R8", "a package with nothing to analyse is not a failure: Generate derives an output directory only for packages that have Go files (a directory with only test files has none), so it cannot fail for them with an unpositioned error that check does not report",
		func(c *Ctx, r *R) {
			fi := r.Need(c.Fn(c.W, "Generate"), "Generate")
			if fi == nil {
				return
			}
			n := 0
			for _, cl := range fi.callsTo(pathW + ".detectOutputDir") {
				n++
				okG := false
				for _, g := range fi.Guards(cl) {
					if x, ne, ok := fi.lenTest(g); ok && ne {
						if f := fi.selField(x); f != nil && f.Name() == "GoFiles" && fi.sameExpr(x, cl.Args[0]) {
							okG = true
						}
					}
				}
				r.Check(okG, "Generate/output-dir-only-with-files", cl.Pos(), "detectOutputDir is reached only with a non-empty file list")
			}
			r.Floor("detectOutputDir calls", n, 1)
		})

	register("C19.R7", "show names every set variable by its own package: the key under which Load records a provider-set variable is (path of the package being scanned, name of the variable), not the identity stored inside the set (which is the aliased set's for var A = other.B)",
		func(c *Ctx, r *R) {
			fi := r.Need(c.Fn(c.W, "Load"), "Load")
			if fi == nil {
				return
			}
			n := 0
			fi.inspect(fi.Decl.Body, func(nd ast.Node) bool {
				cl, ok := nd.(*ast.CompositeLit)
				if !ok || !isNamed(fi.Info.TypeOf(cl), pathW, "ProviderSetID") {
					return true
				}
				n++
				for _, el := range cl.Elts {
					kv, ok := el.(*ast.KeyValueExpr)
					if !ok {
						continue
					}
					switch kv.Key.(*ast.Ident).Name {
					case "ImportPath":
						okP := false
						if sel, ok := ast.Unparen(kv.Value).(*ast.SelectorExpr); ok && sel.Sel.Name == "PkgPath" {
							if v := fi.varOf(sel.X); v != nil {
								for _, d := range fi.defs[v] {
									if d.kind == "range-val" && types.TypeString(fi.Info.TypeOf(d.rhs), nil) == "[]*golang.org/x/tools/go/packages.Package" {
										okP = true
									}
								}
							}
						}
						r.Check(okP, "Sets-key/ImportPath", kv.Pos(), "ImportPath is the PkgPath of the package whose scope is being scanned — got %s", exprShort(kv.Value))
					case "VarName":
						okN := false
						if v := fi.varOf(kv.Value); v != nil {
							for _, d := range fi.defs[v] {
								if d.kind == "range-val" && fi.isCall(d.rhs, "go/types.Scope.Names") != nil {
									okN = true
								}
							}
						}
						r.Check(okN, "Sets-key/VarName", kv.Pos(), "VarName is the scope name being visited — got %s", exprShort(kv.Value))
					}
				}
				return true
			})
			r.Floor("ProviderSetID literals in Load", n, 1)
		})

	register("C10.R7", "the object cache only ever holds package-level declarations: its (import path, name) key is consulted after objects of any other scope — parameters, locals, fields, methods — have been rejected, so such an object cannot be answered with a package-level namesake",
		func(c *Ctx, r *R) {
			fi := r.Need(c.Fn(c.W, "objectCache.get"), "objectCache.get")
			if fi == nil {
				return
			}
			n := 0
			fi.inspect(fi.Decl.Body, func(nd ast.Node) bool {
				ix, ok := nd.(*ast.IndexExpr)
				if !ok {
					return true
				}
				if f := fi.selField(ix.X); f == nil || f.Name() != "objects" {
					return true
				}
				n++
				okG := false
				// an access inside a deferred closure happens under what held when the defer statement ran
				var at ast.Node = ix
				for p := fi.parent[ast.Node(ix)]; p != nil; p = fi.parent[p] {
					if lit, isLit := p.(*ast.FuncLit); isLit {
						if call, isCall := fi.parent[lit].(*ast.CallExpr); isCall {
							if ds, isDefer := fi.parent[call].(*ast.DeferStmt); isDefer {
								at = ds
							}
						}
						break
					}
				}
				for _, g := range fi.Guards(at) {
					be, isB := ast.Unparen(g.Expr).(*ast.BinaryExpr)
					if !isB {
						continue
					}
					// established: obj.Parent() == obj.Pkg().Scope()
					eq := (be.Op == token.EQL && !g.Neg) || (be.Op == token.NEQ && g.Neg)
					isParent := func(e ast.Expr) bool {
						return fi.isCall(fi.deref(e), "go/types.Object.Parent", "go/types.object.Parent") != nil
					}
					isPkgScope := func(e ast.Expr) bool {
						sc := fi.isCall(fi.deref(e), "go/types.Package.Scope")
						return sc != nil && fi.isCall(fi.deref(recvOf(sc)), "go/types.Object.Pkg", "go/types.object.Pkg") != nil
					}
					if eq && (isParent(be.X) && isPkgScope(be.Y) || isParent(be.Y) && isPkgScope(be.X)) {
						okG = true
					}
				}
				r.Check(okG, "cache-access#"+itoa(n)+"/package-level-only", ix.Pos(), "the cache is read or written only for an object whose parent scope is its package's scope")
				return true
			})
			r.Floor("cache accesses", n, 2)
		})
	_ = strings.Contains
	register("C16.R6", "files are visited in a fixed order: the loop of generateInjectors that looks for injectors (and thereby decides the order of sections and the first-come allocation of import aliases and value names) ranges over the package's files sorted by name — the loader's order is the command line's when the package is named as a list of files",
		func(c *Ctx, r *R) {
			fi := r.Need(c.Fn(c.W, "generateInjectors"), "generateInjectors")
			if fi == nil {
				return
			}
			n := 0
			fi.inspect(fi.Decl.Body, func(nd ast.Node) bool {
				rs, ok := nd.(*ast.RangeStmt)
				if !ok || types.TypeString(fi.Info.TypeOf(rs.X), nil) != "[]*go/ast.File" {
					return true
				}
				n++
				v := fi.varOf(rs.X)
				sorted := false
				if v != nil {
					for _, cl := range fi.callsTo("sort.Slice", "sort.SliceStable") {
						if fi.varOf(cl.Args[0]) != v || startOf(cl) > startOf(rs) || !fi.unconditionalIn(cl, fi.Decl.Body) {
							continue
						}
						// the comparison is on file names
						if lit, ok := ast.Unparen(cl.Args[1]).(*ast.FuncLit); ok {
							names := 0
							ast.Inspect(lit, func(m ast.Node) bool {
								if c2, ok := m.(*ast.CallExpr); ok && fi.calleeName(c2) == "go/token.File.Name" {
									names++
								}
								return true
							})
							if names >= 2 {
								sorted = true
							}
						}
					}
				}
				r.Check(sorted, "generateInjectors/files-sorted-by-name", rs.Pos(), "the files are sorted by name before they are visited")
				return true
			})
			r.Floor("file loops in generateInjectors", n, 1)
		})
	register("C10.R9", "marker calls and type names are recognised through parentheses: qualifiedIdentObject — the one place that turns the syntax of a callee or a type operand into the object it names — removes parentheses before it matches identifier / pkg.Name",
		func(c *Ctx, r *R) {
			fi := r.Need(c.Fn(c.W, "qualifiedIdentObject"), "qualifiedIdentObject")
			if fi == nil {
				return
			}
			// every match of the parameter's syntax (type switch or assertions) is made on an expression that went
			// through Unparen: directly, through a local, or because the parameter itself was reassigned first
			var param *types.Var
			for _, f := range fi.Decl.Type.Params.List {
				for _, nm := range f.Names {
					if v, ok := fi.Info.Defs[nm].(*types.Var); ok && types.TypeString(v.Type(), nil) == "go/ast.Expr" {
						param = v
					}
				}
			}
			reassigned := token.NoPos // position after which the parameter holds Unparen(parameter)
			fi.inspect(fi.Decl.Body, func(nd ast.Node) bool {
				as, ok := nd.(*ast.AssignStmt)
				if ok && len(as.Lhs) == 1 && len(as.Rhs) == 1 && as.Tok == token.ASSIGN && fi.varOf(as.Lhs[0]) == param && param != nil {
					if cl := fi.isCall(as.Rhs[0], "golang.org/x/tools/go/ast/astutil.Unparen", "go/ast.Unparen"); cl != nil && fi.varOf(cl.Args[0]) == param && fi.unconditionalIn(as, fi.Decl.Body) {
						reassigned = as.End()
					}
				}
				return true
			})
			n := 0
			check := func(subj ast.Expr, at token.Pos, what string) {
				if subj == nil {
					return
				}
				root := unparenArg(fi, subj)
				if fi.varOf(root) != param || param == nil {
					return
				}
				n++
				okU := fi.isCall(fi.deref(subj), "golang.org/x/tools/go/ast/astutil.Unparen", "go/ast.Unparen") != nil
				if !okU && reassigned.IsValid() && at > reassigned && fi.varOf(subj) == param {
					okU = true
				}
				r.Check(okU, "qualifiedIdentObject/unparen"+what, at, "the expression is unparenthesised before it is matched")
			}
			fi.inspect(fi.Decl.Body, func(nd ast.Node) bool {
				switch x := nd.(type) {
				case *ast.TypeSwitchStmt:
					var subj ast.Expr
					switch a := x.Assign.(type) {
					case *ast.AssignStmt:
						if ta, ok := ast.Unparen(a.Rhs[0]).(*ast.TypeAssertExpr); ok {
							subj = ta.X
						}
					case *ast.ExprStmt:
						if ta, ok := ast.Unparen(a.X).(*ast.TypeAssertExpr); ok {
							subj = ta.X
						}
					}
					check(subj, x.Pos(), "")
					return true
				case *ast.TypeAssertExpr:
					if x.Type != nil {
						k := ""
						if n > 0 {
							k = "#" + itoa(n)
						}
						check(x.X, x.Pos(), k)
					}
				}
				return true
			})
			r.Floor("syntax matches in qualifiedIdentObject", n, 1)
		})
	register("C19.R8", "show lists every type a group provides: the outputs of a group are not collected under their printed form — types.TypeString is not injective (unexported fields of two packages print alike), so a map keyed by it silently drops a type, and which one depends on iteration order",
		func(c *Ctx, r *R) {
			fi := r.Need(c.Fn(c.Cmd, "showCmd.Execute"), "showCmd.Execute")
			if fi == nil {
				return
			}
			n, bad := 0, 0
			fi.inspect(fi.Decl.Body, func(nd ast.Node) bool {
				cl, ok := nd.(*ast.CallExpr)
				if !ok || fi.calleeName(cl) != "go/types.TypeString" {
					return true
				}
				n++
				// used as a map key (store or lookup)?
				for p := fi.parent[ast.Node(cl)]; p != nil; p = fi.parent[p] {
					if ix, ok := p.(*ast.IndexExpr); ok && contains(ix.Index, cl) {
						if _, isMap := fi.Info.TypeOf(ix.X).Underlying().(*types.Map); isMap {
							bad++
							r.Bad("show/outputs-keyed-by-printed-type#"+itoa(bad), cl.Pos(), "a provided type is filed under its printed form")
						}
					}
					if _, isStmt := p.(ast.Stmt); isStmt {
						break
					}
				}
				return true
			})
			if bad == 0 {
				r.Ok("show/outputs-keyed-by-printed-type", fi.Decl.Pos(), "no map is keyed by a printed type (%d uses of TypeString examined)", n)
			}
			r.Floor("TypeString uses in show", n, 1)
		})
	register("C10.R10", "every package that can declare a set or a provider is known to the object cache: newObjectCache's worklist registers a package exactly when it is taken off the stack for the first time and then pushes ALL its imports — a package registered when it is pushed is skipped when popped, and whatever it imports is never reached",
		func(c *Ctx, r *R) {
			fi := r.Need(c.Fn(c.W, "newObjectCache"), "newObjectCache")
			if fi == nil {
				return
			}
			var loop *ast.ForStmt
			fi.inspect(fi.Decl.Body, func(nd ast.Node) bool {
				if f, ok := nd.(*ast.ForStmt); ok && loop == nil && f.Cond != nil {
					loop = f
				}
				return true
			})
			if loop == nil {
				r.Bad("worklist", fi.Decl.Pos(), "worklist loop not found")
				return
			}
			// the popped element
			var popped *types.Var
			for _, s := range loop.Body.List {
				if as, ok := s.(*ast.AssignStmt); ok && as.Tok == token.DEFINE && len(as.Lhs) == 1 {
					if _, isIx := ast.Unparen(as.Rhs[0]).(*ast.IndexExpr); isIx {
						popped = fi.varOf(as.Lhs[0])
					}
				}
			}
			writes, okWrite := 0, true
			fi.inspect(loop.Body, func(nd ast.Node) bool {
				as, ok := nd.(*ast.AssignStmt)
				if !ok || len(as.Lhs) != 1 {
					return true
				}
				ix, ok := ast.Unparen(as.Lhs[0]).(*ast.IndexExpr)
				if !ok {
					return true
				}
				if f := fi.selField(ix.X); f == nil || f.Name() != "packages" {
					return true
				}
				writes++
				if popped == nil || fi.varOf(as.Rhs[0]) != popped {
					okWrite = false
				}
				return true
			})
			r.Check(writes == 1 && okWrite, "worklist/registered-when-popped", loop.Pos(), "the package map is written once per iteration, with the package just taken off the stack (%d writes)", writes)
			// all imports of the popped package are pushed, unconditionally
			okPush := false
			fi.inspect(loop.Body, func(nd ast.Node) bool {
				rs, ok := nd.(*ast.RangeStmt)
				if !ok {
					return true
				}
				f := fi.selField(rs.X)
				if f == nil || f.Name() != "Imports" || popped == nil || fi.varOf(rs.X.(*ast.SelectorExpr).X) != popped {
					return true
				}
				for _, s := range rs.Body.List {
					if as, ok := s.(*ast.AssignStmt); ok && len(as.Rhs) == 1 {
						if ap := fi.isBuiltin(as.Rhs[0], "append"); ap != nil && len(ap.Args) == 2 && fi.varOf(ap.Args[1]) == fi.varOf(rs.Value) && fi.loopComplete(rs) {
							okPush = true
						}
					}
				}
				return true
			})
			r.Check(okPush, "worklist/all-imports-pushed", loop.Pos(), "every import of a newly registered package is pushed, under no condition")
		})
	register("C16.R8", "generation never writes into the loaded syntax: copies keep the identity of identifiers (types.Info is keyed by them), so an identifier of a copy IS the loaded one — rewritePkgRefs may replace nodes through the cursor but never assigns to a field of a node it did not create itself, or one package's output would depend on what was generated before it in the same run",
		func(c *Ctx, r *R) {
			n := 0
			for _, name := range []string{"gen.rewritePkgRefs", "gen.writeAST", "copyNonInjectorDecls", "accessibleFrom"} {
				fi := c.Fn(c.W, name)
				if fi == nil {
					continue
				}
				r.Need(fi, name)
				bad := 0
				fi.inspect(fi.Decl.Body, func(nd ast.Node) bool {
					as, ok := nd.(*ast.AssignStmt)
					if !ok {
						return true
					}
					for _, l := range as.Lhs {
						sel, ok := ast.Unparen(l).(*ast.SelectorExpr)
						if !ok || fi.selField(sel) == nil {
							continue
						}
						t := fi.Info.TypeOf(sel.X)
						if t == nil {
							continue
						}
						nt, ok := derefType(t).(*types.Named)
						if !ok || nt.Obj().Pkg() == nil || nt.Obj().Pkg().Path() != "go/ast" {
							continue
						}
						n++
						// allowed: the node was created here (a local bound to &ast.T{…} / ast.NewIdent(…))
						created := false
						if d := fi.defOf(sel.X); d != nil {
							src := ast.Unparen(d.rhs)
							if u, ok := src.(*ast.UnaryExpr); ok && u.Op == token.AND {
								_, created = u.X.(*ast.CompositeLit)
							}
							if fi.isCall(src, "go/ast.NewIdent") != nil {
								created = true
							}
						}
						if !created {
							bad++
							r.Bad(name+"/writes-shared-node#"+itoa(bad), as.Pos(), "a field of a syntax node that was not created here is assigned (%s): identifiers of a copy are the loaded ones", exprShort(l))
						}
					}
					return true
				})
				if bad == 0 {
					r.Ok(name+"/no-writes-to-shared-nodes", fi.Decl.Pos(), "no field of a go/ast node obtained from the walk is assigned")
				}
			}
		})

	register("C19.R9", "in show's grouping, −1 is the only value that means \"supplied from outside\": every decision on a visited-index (inputVisited.At(t).(int)) separates −1 from the group indices 0, 1, 2, … — group 0 is a group like any other",
		func(c *Ctx, r *R) {
			fi := r.Need(c.Fn(c.Cmd, "gather"), "gather")
			if fi == nil {
				return
			}
			n := 0
			idx := map[*types.Var]bool{}
			fi.inspect(fi.Decl.Body, func(nd ast.Node) bool {
				as, ok := nd.(*ast.AssignStmt)
				if !ok || len(as.Lhs) != 1 || len(as.Rhs) != 1 {
					return true
				}
				if ta, ok := ast.Unparen(as.Rhs[0]).(*ast.TypeAssertExpr); ok && types.ExprString(ta.Type) == "int" {
					if fi.isCall(ta.X, "golang.org/x/tools/go/types/typeutil.Map.At") != nil {
						if v := fi.varOf(as.Lhs[0]); v != nil {
							idx[v] = true
						}
					}
				}
				return true
			})
			fi.inspect(fi.Decl.Body, func(nd ast.Node) bool {
				be, ok := nd.(*ast.BinaryExpr)
				if !ok {
					return true
				}
				switch be.Op {
				case token.EQL, token.NEQ, token.LSS, token.LEQ, token.GTR, token.GEQ:
				default:
					return true
				}
				v := fi.varOf(be.X)
				if v == nil || !idx[v] {
					return true
				}
				k, isConst := fi.constInt(be.Y)
				if !isConst {
					return true
				}
				n++
				ok2 := (be.Op == token.EQL || be.Op == token.NEQ) && k == -1 || (be.Op == token.LSS || be.Op == token.GEQ) && k == 0 || (be.Op == token.LEQ || be.Op == token.GTR) && k == -1
				r.Check(ok2, "gather/sentinel-test#"+itoa(n), be.Pos(), "the test separates −1 from the indices ≥ 0 (%s)", exprShort(be))
				return true
			})
			r.Floor("decisions on a visited index", n, 2)
		})

	register("C06.R6", "a cached failure stays a failure: when the object cache answers from its table it returns the errors recorded with the entry — dropping them hands the caller a nil or half-built item as if it were usable",
		func(c *Ctx, r *R) {
			fi := r.Need(c.Fn(c.W, "objectCache.get"), "objectCache.get")
			if fi == nil {
				return
			}
			n := 0
			for _, ret := range fi.returnsOf() {
				if len(ret.Results) != 2 {
					continue
				}
				f := fi.selField(ret.Results[0])
				if f == nil || f.Name() != "val" {
					continue
				}
				n++
				// the error result derives from the same entry's errs
				okE := false
				ast.Inspect(ret.Results[1], func(m ast.Node) bool {
					if e, ok := m.(ast.Expr); ok {
						if f2 := fi.selField(e); f2 != nil && f2.Name() == "errs" {
							okE = true
						}
					}
					return true
				})
				r.Check(okE, "cache-hit/returns-recorded-errors", ret.Pos(), "the cache hit returns the entry's recorded errors with its value")
			}
			r.Floor("cache-hit returns", n, 1)
		})
	register("C10.R11", "marker calls are recognised by the object the callee denotes, however it is spelled: outside qualifiedIdentObject nothing matches the syntax of a call's Fun against *ast.SelectorExpr or *ast.Ident — a dot-imported wire makes every marker a bare identifier, an import alias changes the qualifier, parentheses wrap either",
		func(c *Ctx, r *R) {
			n, bad := 0, 0
			for _, fi := range c.all {
				if fi.Pkg != c.W || fi.Name == "qualifiedIdentObject" {
					continue
				}
				fi := fi
				fi.inspect(fi.Decl.Body, func(nd ast.Node) bool {
					ta, ok := nd.(*ast.TypeAssertExpr)
					if !ok || ta.Type == nil {
						return true
					}
					f := fi.selField(unparenArg(fi, ta.X))
					if f == nil || f.Name() != "Fun" {
						return true
					}
					n++
					switch types.ExprString(ta.Type) {
					case "*ast.SelectorExpr", "*ast.Ident":
						bad++
						r.Need(fi, fi.Name)
						r.Bad(fi.Name+"/callee-matched-by-spelling#"+itoa(bad), ta.Pos(), "the callee of a call is matched against %s: a dot-imported or parenthesised marker is then not recognised", types.ExprString(ta.Type))
					}
					return true
				})
			}
			if bad == 0 {
				r.Ok("callee-matched-by-object", token.NoPos, "no function matches a call's Fun against an identifier or selector shape (%d assertions on Fun examined)", n)
			}
			// the one resolver is used where the markers are recognised
			for _, name := range []string{"objectCache.processExpr", "bindShouldUsePointer", "findInjectorBuild"} {
				if fi := r.Need(c.Fn(c.W, name), name); fi != nil {
					r.Check(len(fi.callsTo(pathW+".qualifiedIdentObject")) > 0, name+"/resolves-callee-by-object", fi.Decl.Pos(), "%s resolves callees with qualifiedIdentObject", name)
				}
			}
		})
}

// unparenArg returns the argument of an Unparen call (through locals), or e itself.
func unparenArg(fi *FuncInfo, e ast.Expr) ast.Expr {
	if cl := fi.isCall(fi.deref(e), "golang.org/x/tools/go/ast/astutil.Unparen", "go/ast.Unparen"); cl != nil {
		return cl.Args[0]
	}
	return e
}
