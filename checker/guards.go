package main

import (
	"go/ast"
	"go/token"
	"go/types"
	"strings"
)

// A Cond is a branch outcome known to hold when control reaches a node, in
// structured code (no goto): the edge of an if / switch / for that dominates
// the node.
type Cond struct {
	Kind string     // "bool": Expr is a boolean expression; "case": Expr is the switch tag and Vals the case values; "typecase": Expr is the type-switch subject, Vals the type expressions
	Expr ast.Expr   // condition or tag
	Vals []ast.Expr // case values for Kind case / typecase (nil entry = `nil` type case)
	Neg  bool       // the condition is known FALSE (for case: tag equals none of Vals)
	At   ast.Node   // the if / switch / for statement that establishes it
	Loop bool       // established by a loop header (holds at body entry)
}

// Guards returns the branch outcomes that dominate n inside fi, innermost
// last. The walk stops at a function-literal boundary unless n is in the
// declaration's own body; closure reports whether a boundary was crossed.
func (fi *FuncInfo) Guards(n ast.Node) []Cond {
	return fi.guardsUpTo(n, nil)
}

// GuardsWithin returns the outcomes established strictly inside top (a node
// containing n): the additional conditions n is subject to relative to top.
func (fi *FuncInfo) GuardsWithin(n, top ast.Node) []Cond {
	return fi.guardsUpTo(n, top)
}

func (fi *FuncInfo) guardsUpTo(n ast.Node, top ast.Node) []Cond {
	var rev [][]Cond
	child := n
	for p := fi.parent[child]; p != nil; child, p = p, fi.parent[p] {
		if child == top {
			break
		}
		if _, isLit := p.(*ast.FuncLit); isLit {
			// conditions outside a closure do not hold when it is later called,
			// but they did hold when it was created; rules that care use
			// enclosing() explicitly. Stop here.
			break
		}
		var cs []Cond
		switch p := p.(type) {
		case *ast.IfStmt:
			if child == p.Body {
				cs = flatten(p.Cond, false, p)
			} else if child == p.Else {
				cs = flatten(p.Cond, true, p)
			}
		case *ast.BlockStmt:
			cs = fi.siblingConds(p.List, child)
		case *ast.CaseClause:
			cs = fi.siblingConds(p.Body, child)
			if p != top {
				cs = append(fi.caseConds(p), cs...)
			}
		case *ast.CommClause:
			cs = fi.siblingConds(p.Body, child)
		case *ast.ForStmt:
			if child == p.Body && p.Cond != nil {
				cs = flatten(p.Cond, false, p)
				for i := range cs {
					cs[i].Loop = true
				}
			}
		}
		if len(cs) > 0 {
			rev = append(rev, cs)
		}
		if p == top {
			break
		}
	}
	var out []Cond
	for i := len(rev) - 1; i >= 0; i-- {
		out = append(out, rev[i]...)
	}
	for i := range out {
		if out[i].Kind == "bool" {
			out[i].Expr = fi.orient(out[i].Expr)
			// a negated comparison is the opposite comparison: !(a == b) is a != b, !(a < b) is a >= b
			if be, ok := ast.Unparen(out[i].Expr).(*ast.BinaryExpr); ok && out[i].Neg {
				if op, ok := map[token.Token]token.Token{token.EQL: token.NEQ, token.NEQ: token.EQL, token.LSS: token.GEQ, token.GEQ: token.LSS, token.GTR: token.LEQ, token.LEQ: token.GTR}[be.Op]; ok {
					out[i].Expr = &ast.BinaryExpr{X: be.X, OpPos: be.OpPos, Op: op, Y: be.Y}
					out[i].Neg = false
				}
			}
			// emptiness has one spelling: len(x) == 0 / len(x) > 0
			if be, ok := ast.Unparen(out[i].Expr).(*ast.BinaryExpr); ok && !out[i].Neg && fi.isBuiltin(be.X, "len") != nil {
				if lit, ok := be.Y.(*ast.BasicLit); ok && lit.Kind == token.INT {
					switch {
					case lit.Value == "0" && be.Op == token.LEQ, lit.Value == "1" && be.Op == token.LSS:
						out[i].Expr = &ast.BinaryExpr{X: be.X, OpPos: be.OpPos, Op: token.EQL, Y: &ast.BasicLit{ValuePos: lit.ValuePos, Kind: token.INT, Value: "0"}}
					case lit.Value == "0" && be.Op == token.NEQ, lit.Value == "1" && be.Op == token.GEQ:
						out[i].Expr = &ast.BinaryExpr{X: be.X, OpPos: be.OpPos, Op: token.GTR, Y: &ast.BasicLit{ValuePos: lit.ValuePos, Kind: token.INT, Value: "0"}}
					}
				}
			}
		}
	}
	return fi.withHelperSuccess(out)
}

// orient is orientEq with type information: an operand with a constant value
// (a named constant of any package) or nil goes to the right.
func (fi *FuncInfo) orient(e ast.Expr) ast.Expr {
	be, ok := ast.Unparen(e).(*ast.BinaryExpr)
	if !ok {
		return e
	}
	isC := func(x ast.Expr) bool {
		if tv, ok := fi.Info.Types[x]; ok && tv.Value != nil {
			return true
		}
		return fi.isNilIdent(x) || constLike(x)
	}
	if !isC(be.X) || isC(be.Y) {
		return e
	}
	op := be.Op
	switch be.Op {
	case token.EQL, token.NEQ:
	case token.LSS:
		op = token.GTR
	case token.GTR:
		op = token.LSS
	case token.LEQ:
		op = token.GEQ
	case token.GEQ:
		op = token.LEQ
	default:
		return e
	}
	return &ast.BinaryExpr{X: be.Y, OpPos: be.OpPos, Op: op, Y: be.X}
}

// withHelperSuccess adds, for every passed success test of a linked helper's
// last result (`ok` true / `err` nil), the conditions under which the helper
// reaches its one successful return.
func (fi *FuncInfo) withHelperSuccess(cs []Cond) []Cond {
	if fi.C == nil || len(fi.C.successRet)+len(fi.C.failureRet)+len(fi.C.searchRet) == 0 {
		return cs
	}
	out := cs
	for _, g := range cs {
		// `i >= 0` on the result of a linked search helper: the conditions under which it reports a find
		if v, found, ok := fi.searchTest(g); ok && found {
			if d := fi.singleDef(v); d != nil {
				if call, isCall := ast.Unparen(d.rhs).(*ast.CallExpr); isCall {
					if S, h := firstRet(fi.C.searchRet[call], fi.C.successRet[call]), fi.C.linked[call]; S != nil && h != nil {
						out = append(out, h.GuardsWithin(S, h.Decl)...)
					}
				}
			}
			continue
		}
		var v *types.Var
		failed := false
		if g.Kind == "bool" {
			if x, isNil, ok := fi.nilTest(g); ok && isErrorType(fi.Info.TypeOf(x)) {
				v = fi.varOf(x)
				failed = !isNil
			} else if !g.Neg {
				v = fi.varOf(g.Expr)
			}
		}
		if v == nil || g.At == nil {
			continue
		}
		// the definition of v that reaches the test: the latest one before it
		var best *defSite
		for i := range fi.defs[v] {
			d := &fi.defs[v][i]
			if d.node != nil && startOf(d.node) < endOf(g.At) && (best == nil || startOf(d.node) > startOf(best.node)) {
				best = d
			}
		}
		if best == nil {
			continue
		}
		call, ok := ast.Unparen(best.rhs).(*ast.CallExpr)
		if !ok {
			continue
		}
		S := fi.C.successRet[call]
		if failed {
			S = fi.C.failureRet[call]
		}
		h := fi.C.linked[call]
		if S == nil || h == nil || !(best.idx == len(S.Results)-1 || (best.idx < 0 && len(S.Results) == 1)) {
			continue
		}
		out = append(out, h.GuardsWithin(S, h.Decl)...)
	}
	return out
}

// siblingConds: for statements preceding child in list, an `if c { …exit }`
// contributes ¬c to everything after it.
func (fi *FuncInfo) siblingConds(list []ast.Stmt, child ast.Node) []Cond {
	var out []Cond
	for _, s := range list {
		if s == child {
			break
		}
		is, ok := s.(*ast.IfStmt)
		if !ok {
			if _, isClause := s.(*ast.CaseClause); isClause {
				continue // the clauses of a switch are alternatives, not a sequence
			}
			if _, isClause := s.(*ast.CommClause); isClause {
				continue
			}
			if l := fi.partialLeave(s); l != nil {
				out = append(out, Cond{Kind: "may-leave", Expr: &ast.Ident{NamePos: s.Pos(), Name: "_mayLeave"}, Neg: true, At: s})
			}
			continue
		}
		handled := false
		for is != nil {
			if terminates(is.Body) {
				out = append(out, flatten(is.Cond, true, is)...)
				handled = true
				switch e := is.Else.(type) {
				case *ast.IfStmt:
					is = e
					handled = false
					continue
				case *ast.BlockStmt:
					handled = fi.partialLeave(e) == nil
				}
			} else if is.Else != nil {
				if b, ok := is.Else.(*ast.BlockStmt); ok && terminates(b) {
					out = append(out, flatten(is.Cond, false, is)...)
					handled = fi.partialLeave(is.Body) == nil
				}
			}
			break
		}
		if !handled && is != nil {
			// a statement before this one that leaves on some of its paths only (a `continue` or a successful
			// return nested under further conditions): what follows runs under a condition the forms above do
			// not express — recorded as an opaque guard, so that "nothing else guards this" is not concluded
			if l := fi.partialLeave(is); l != nil {
				// (an opaque operand, not the if's own condition: a reader of guards that does not look at Kind must
				// not mistake "some paths under c leave" for "!c holds")
				out = append(out, Cond{Kind: "may-leave", Expr: &ast.Ident{NamePos: is.Pos(), Name: "_mayLeave"}, Neg: true, At: is})
			}
		}
	}
	return out
}

// partialLeave returns a statement inside s that leaves s other than by failing: a continue/break of a loop
// enclosing s, a goto, or a return that does not report an error.
func (fi *FuncInfo) partialLeave(s ast.Node) ast.Node {
	var found ast.Node
	own := map[string]bool{} // labels declared inside s: branches to them stay inside
	ast.Inspect(s, func(m ast.Node) bool {
		if ls, ok := m.(*ast.LabeledStmt); ok {
			own[ls.Label.Name] = true
		}
		return true
	})
	if ls, ok := fi.parent[s].(*ast.LabeledStmt); ok {
		own[ls.Label.Name] = true
	}
	var walk func(n ast.Node, inLoop, inSwitch bool)
	walk = func(n ast.Node, inLoop, inSwitch bool) {
		ast.Inspect(n, func(m ast.Node) bool {
			if m == nil || found != nil {
				return false
			}
			if m == n {
				return true
			}
			switch x := m.(type) {
			case *ast.FuncLit:
				return false
			case *ast.ForStmt:
				walk(x.Body, true, false)
				return false
			case *ast.RangeStmt:
				walk(x.Body, true, false)
				return false
			case *ast.SwitchStmt:
				walk(x.Body, inLoop, true)
				return false
			case *ast.TypeSwitchStmt:
				walk(x.Body, inLoop, true)
				return false
			case *ast.SelectStmt:
				walk(x.Body, inLoop, true)
				return false
			case *ast.ReturnStmt:
				if len(x.Results) > 0 {
					last := x.Results[len(x.Results)-1]
					if t := fi.Info.TypeOf(last); t != nil && !fi.isNilIdent(last) && (isErrorType(t) || isErrorSlice(t)) {
						return true // a failing exit
					}
				}
				found = x
			case *ast.BranchStmt:
				switch {
				case x.Label != nil && own[x.Label.Name]:
				case x.Label != nil, x.Tok == token.GOTO:
					found = x
				case x.Tok == token.FALLTHROUGH:
				case inLoop, x.Tok == token.BREAK && inSwitch:
				default:
					found = x
				}
			}
			return true
		})
	}
	switch x := s.(type) {
	case *ast.ForStmt:
		walk(x.Body, true, false)
	case *ast.RangeStmt:
		walk(x.Body, true, false)
	case *ast.SwitchStmt:
		walk(x.Body, false, true)
	case *ast.TypeSwitchStmt:
		walk(x.Body, false, true)
	case *ast.SelectStmt:
		walk(x.Body, false, true)
	default:
		walk(s, false, false)
	}
	return found
}

func (fi *FuncInfo) caseConds(cc *ast.CaseClause) []Cond {
	blk, _ := fi.parent[cc].(*ast.BlockStmt)
	if blk == nil {
		return nil
	}
	var out []Cond
	switch sw := fi.parent[blk].(type) {
	case *ast.SwitchStmt:
		if sw.Tag == nil {
			// earlier clauses false
			for _, s := range blk.List {
				o := s.(*ast.CaseClause)
				if o == cc {
					break
				}
				for _, e := range o.List {
					out = append(out, flatten(e, true, sw)...)
				}
			}
			if cc.List == nil {
				// default: every clause false (also later ones)
				out = nil
				for _, s := range blk.List {
					o := s.(*ast.CaseClause)
					for _, e := range o.List {
						out = append(out, flatten(e, true, sw)...)
					}
				}
			} else if len(cc.List) == 1 {
				out = append(out, flatten(cc.List[0], false, sw)...)
			} else {
				// disjunction: keep as a single opaque OR condition
				var or ast.Expr = cc.List[0]
				for _, e := range cc.List[1:] {
					or = &ast.BinaryExpr{X: or, Op: token.LOR, Y: e}
				}
				out = append(out, Cond{Kind: "bool", Expr: or, At: sw})
			}
		} else {
			if cc.List == nil {
				for _, s := range blk.List {
					o := s.(*ast.CaseClause)
					if o.List != nil {
						out = append(out, Cond{Kind: "case", Expr: sw.Tag, Vals: o.List, Neg: true, At: sw})
					}
				}
			} else {
				out = append(out, Cond{Kind: "case", Expr: sw.Tag, Vals: cc.List, At: sw})
			}
		}
	case *ast.TypeSwitchStmt:
		subj := typeSwitchSubject(sw)
		if cc.List == nil {
			for _, s := range blk.List {
				o := s.(*ast.CaseClause)
				if o.List != nil {
					out = append(out, Cond{Kind: "typecase", Expr: subj, Vals: o.List, Neg: true, At: sw})
				}
			}
		} else {
			out = append(out, Cond{Kind: "typecase", Expr: subj, Vals: cc.List, At: sw})
		}
	}
	return out
}

func typeSwitchSubject(sw *ast.TypeSwitchStmt) ast.Expr {
	switch a := sw.Assign.(type) {
	case *ast.AssignStmt:
		if len(a.Rhs) == 1 {
			if ta, ok := a.Rhs[0].(*ast.TypeAssertExpr); ok {
				return ta.X
			}
		}
	case *ast.ExprStmt:
		if ta, ok := a.X.(*ast.TypeAssertExpr); ok {
			return ta.X
		}
	}
	return nil
}

// flatten splits a condition known true (neg=false) or false (neg=true) into
// atomic conditions: a&&b true ⇒ a, b; a||b false ⇒ ¬a, ¬b; !a flips.
func flatten(e ast.Expr, neg bool, at ast.Node) []Cond {
	e = ast.Unparen(e)
	switch x := e.(type) {
	case *ast.UnaryExpr:
		if x.Op == token.NOT {
			return flatten(x.X, !neg, at)
		}
	case *ast.BinaryExpr:
		if (x.Op == token.LAND && !neg) || (x.Op == token.LOR && neg) {
			return append(flatten(x.X, neg, at), flatten(x.Y, neg, at)...)
		}
		if x.Op == token.LAND && neg {
			// De Morgan: !(!A && !B) is A || B — written either way in the wild
			if ops := negatedOperands(x); ops != nil {
				or := ops[0]
				for _, o := range ops[1:] {
					or = &ast.BinaryExpr{X: or, Op: token.LOR, OpPos: x.OpPos, Y: o}
				}
				return []Cond{{Kind: "bool", Expr: or, Neg: false, At: at}}
			}
		}
	}
	return []Cond{{Kind: "bool", Expr: orientEq(e), Neg: neg, At: at}}
}

// orientEq writes a comparison with its constant-like operand (literal, nil,
// true/false, a named constant) on the right, so that `"" == x` and `x == ""`
// are one condition for every rule that reads guards.
func orientEq(e ast.Expr) ast.Expr {
	be, ok := e.(*ast.BinaryExpr)
	if !ok {
		return e
	}
	var op token.Token
	switch be.Op {
	case token.EQL, token.NEQ:
		op = be.Op
	case token.LSS:
		op = token.GTR
	case token.GTR:
		op = token.LSS
	case token.LEQ:
		op = token.GEQ
	case token.GEQ:
		op = token.LEQ
	default:
		return e
	}
	if constLike(be.X) && !constLike(be.Y) {
		return &ast.BinaryExpr{X: be.Y, OpPos: be.OpPos, Op: op, Y: be.X}
	}
	return e
}

func constLike(e ast.Expr) bool {
	switch x := ast.Unparen(e).(type) {
	case *ast.BasicLit:
		return true
	case *ast.Ident:
		if x.Name == "nil" || x.Name == "true" || x.Name == "false" {
			return true
		}
		if x.Obj != nil && x.Obj.Kind == ast.Con {
			return true
		}
	case *ast.UnaryExpr:
		if x.Op == token.SUB {
			return constLike(x.X)
		}
	case *ast.SelectorExpr:
		// pkg.Const such as token.ARROW: upper-case selector on a lower-case package identifier
		if id, ok := x.X.(*ast.Ident); ok && id.Obj == nil && ast.IsExported(x.Sel.Name) && !ast.IsExported(id.Name) && strings.ToUpper(x.Sel.Name) == x.Sel.Name {
			return true
		}
	}
	return false
}

// terminates reports whether control cannot fall out of the end of block b.
func terminates(b *ast.BlockStmt) bool {
	if b == nil || len(b.List) == 0 {
		return false
	}
	return stmtTerminates(b.List[len(b.List)-1])
}

func stmtTerminates(s ast.Stmt) bool {
	switch s := s.(type) {
	case *ast.ReturnStmt:
		return true
	case *ast.BranchStmt:
		return s.Tok == token.CONTINUE || s.Tok == token.BREAK || s.Tok == token.GOTO
	case *ast.ExprStmt:
		if c, ok := s.X.(*ast.CallExpr); ok {
			switch f := ast.Unparen(c.Fun).(type) {
			case *ast.Ident:
				return f.Name == "panic"
			case *ast.SelectorExpr:
				if x, ok := f.X.(*ast.Ident); ok {
					return (x.Name == "os" && f.Sel.Name == "Exit") || (x.Name == "log" && (f.Sel.Name == "Fatal" || f.Sel.Name == "Fatalf" || f.Sel.Name == "Fatalln"))
				}
			}
		}
	case *ast.BlockStmt:
		return terminates(s)
	case *ast.IfStmt:
		if s.Else == nil {
			return false
		}
		switch e := s.Else.(type) {
		case *ast.BlockStmt:
			return terminates(s.Body) && terminates(e)
		case *ast.IfStmt:
			return terminates(s.Body) && stmtTerminates(e)
		}
	case *ast.LabeledStmt:
		return stmtTerminates(s.Stmt)
	}
	return false
}

// ---------------------------------------------------------------------------
// condition matchers

// nilTest matches `X == nil` / `X != nil` (either operand order) and reports
// the tested expression and whether the condition (with its polarity) asserts
// that X IS nil.
func (fi *FuncInfo) nilTest(c Cond) (x ast.Expr, isNil bool, ok bool) {
	if c.Kind != "bool" {
		return nil, false, false
	}
	be, ok2 := ast.Unparen(c.Expr).(*ast.BinaryExpr)
	if !ok2 || (be.Op != token.EQL && be.Op != token.NEQ) {
		return nil, false, false
	}
	var other ast.Expr
	if fi.isNilIdent(be.Y) {
		other = be.X
	} else if fi.isNilIdent(be.X) {
		other = be.Y
	} else {
		return nil, false, false
	}
	is := be.Op == token.EQL
	if c.Neg {
		is = !is
	}
	return other, is, true
}

func (fi *FuncInfo) isNilIdent(e ast.Expr) bool {
	id, ok := ast.Unparen(e).(*ast.Ident)
	if !ok {
		return false
	}
	_, isNil := fi.Info.ObjectOf(id).(*types.Nil)
	return isNil
}

// lenTest matches len(X) > 0 / len(X) != 0 / len(X) == 0 / len(X) >= 1 /
// 0 < len(X) and reports X and whether the condition asserts non-emptiness.
func (fi *FuncInfo) lenTest(c Cond) (x ast.Expr, nonEmpty bool, ok bool) {
	if c.Kind != "bool" {
		return nil, false, false
	}
	be, ok2 := ast.Unparen(c.Expr).(*ast.BinaryExpr)
	if !ok2 {
		return nil, false, false
	}
	l, r, op := be.X, be.Y, be.Op
	if fi.isBuiltin(r, "len") != nil && fi.isBuiltin(l, "len") == nil {
		l, r = r, l
		switch op {
		case token.LSS:
			op = token.GTR
		case token.GTR:
			op = token.LSS
		case token.LEQ:
			op = token.GEQ
		case token.GEQ:
			op = token.LEQ
		}
	}
	lc := fi.isBuiltin(l, "len")
	if lc == nil || len(lc.Args) != 1 {
		return nil, false, false
	}
	lit, ok2 := ast.Unparen(r).(*ast.BasicLit)
	if !ok2 || lit.Kind != token.INT {
		return nil, false, false
	}
	var ne bool
	switch {
	case lit.Value == "0" && (op == token.GTR || op == token.NEQ):
		ne = true
	case lit.Value == "0" && (op == token.EQL || op == token.LEQ):
		ne = false
	case lit.Value == "1" && op == token.GEQ:
		ne = true
	case lit.Value == "1" && op == token.LSS:
		ne = false
	default:
		return nil, false, false
	}
	if c.Neg {
		ne = !ne
	}
	return lc.Args[0], ne, true
}

// boolVarTest matches a bare boolean operand (identifier / selector / call)
// and returns it with its asserted truth value.
func (fi *FuncInfo) boolTest(c Cond) (x ast.Expr, val bool, ok bool) {
	if c.Kind != "bool" {
		return nil, false, false
	}
	switch ast.Unparen(c.Expr).(type) {
	case *ast.Ident, *ast.SelectorExpr, *ast.CallExpr:
		return ast.Unparen(c.Expr), !c.Neg, true
	}
	return nil, false, false
}

// negatedOperands returns A, B, … when e is !A && !B && …, else nil.
func negatedOperands(e ast.Expr) []ast.Expr {
	e = ast.Unparen(e)
	if b, ok := e.(*ast.BinaryExpr); ok && b.Op == token.LAND {
		l, r := negatedOperands(b.X), negatedOperands(b.Y)
		if l == nil || r == nil {
			return nil
		}
		return append(l, r...)
	}
	if u, ok := e.(*ast.UnaryExpr); ok && u.Op == token.NOT {
		return []ast.Expr{ast.Unparen(u.X)}
	}
	return nil
}

// searchTest recognises a comparison of a variable with the not-found value
// of a position search: found reports whether the condition (with its
// polarity) says that something was found (v >= 0, v != -1, v > -1).
func (fi *FuncInfo) searchTest(g Cond) (v *types.Var, found, ok bool) {
	if g.Kind != "bool" {
		return nil, false, false
	}
	// (index, found) form: the flag is the last result of a linked helper with one success return
	if fv := fi.varOf(g.Expr); fv != nil && fi.C != nil {
		if d := fi.singleDef(fv); d != nil && d.idx >= 1 {
			if call, isCall := ast.Unparen(d.rhs).(*ast.CallExpr); isCall && fi.C.successRet[call] != nil {
				if t := fi.Info.TypeOf(g.Expr); t != nil && isBoolType(t) {
					return fv, !g.Neg, true
				}
			}
		}
	}
	be, isB := ast.Unparen(g.Expr).(*ast.BinaryExpr)
	if !isB {
		return nil, false, false
	}
	v = fi.varOf(be.X)
	k, isC := fi.constInt(be.Y)
	if v == nil || !isC {
		return nil, false, false
	}
	switch {
	case be.Op == token.GEQ && k == 0, be.Op == token.NEQ && k == -1, be.Op == token.GTR && k == -1:
		found = true
	case be.Op == token.LSS && k == 0, be.Op == token.EQL && k == -1, be.Op == token.LEQ && k == -1:
		found = false
	default:
		return nil, false, false
	}
	if g.Neg {
		found = !found
	}
	return v, found, true
}

// evalCond evaluates a condition built from !, && and || over atoms that the
// caller names (atom returns the atom's name and whether the expression
// asserts it or its negation); ok is false when a leaf is not an atom.
func evalCond(e ast.Expr, env map[string]bool, atom func(ast.Expr) (string, bool)) (val, ok bool) {
	e = ast.Unparen(e)
	if u, isU := e.(*ast.UnaryExpr); isU && u.Op == token.NOT {
		v, ok := evalCond(u.X, env, atom)
		return !v, ok
	}
	if be, isB := e.(*ast.BinaryExpr); isB && (be.Op == token.LAND || be.Op == token.LOR) {
		x, ok1 := evalCond(be.X, env, atom)
		y, ok2 := evalCond(be.Y, env, atom)
		if !ok1 || !ok2 {
			return false, false
		}
		if be.Op == token.LAND {
			return x && y, true
		}
		return x || y, true
	}
	if n, pos := atom(e); n != "" {
		return env[n] == pos, true
	}
	return false, false
}

// evalGuards is the conjunction of a list of guards under env.
func evalGuards(gs []Cond, env map[string]bool, atom func(ast.Expr) (string, bool)) (val, ok bool) {
	val = true
	for _, g := range gs {
		if g.Kind != "bool" {
			return false, false
		}
		v, ok := evalCond(g.Expr, env, atom)
		if !ok {
			return false, false
		}
		if g.Neg {
			v = !v
		}
		val = val && v
	}
	return val, true
}

// evalBoolFunc evaluates a boolean function whose body is a sequence of
// definitions, `if c { return E }` guards (no else) and a final `return E`
// under an assignment of its atoms (conditions are expanded through
// single-assignment locals first). ok is false when the body has another shape
// or a leaf is not an atom.
func (fi *FuncInfo) evalBoolFunc(env map[string]bool, atom func(ast.Expr) (string, bool)) (val, ok bool) {
	return fi.evalBoolStmts(fi.Decl.Body.List, env, atom)
}

func (fi *FuncInfo) evalBoolStmts(list []ast.Stmt, env map[string]bool, atom func(ast.Expr) (string, bool)) (val, ok bool) {
	lit := func(e ast.Expr) (bool, bool) {
		if id, isId := ast.Unparen(e).(*ast.Ident); isId && (id.Name == "true" || id.Name == "false") {
			return id.Name == "true", true
		}
		return false, false
	}
	eval := func(e ast.Expr) (bool, bool) {
		if v, isLit := lit(e); isLit {
			return v, true
		}
		return evalCondLit(fi.expandLocals(e), env, atom)
	}
	for _, st := range list {
		switch s := st.(type) {
		case *ast.AssignStmt, *ast.DeclStmt, *ast.EmptyStmt:
			continue
		case *ast.ReturnStmt:
			if len(s.Results) != 1 {
				return false, false
			}
			return eval(s.Results[0])
		case *ast.IfStmt:
			c, okc := eval(s.Cond)
			if !okc {
				return false, false
			}
			if c {
				return fi.evalBoolStmts(s.Body.List, env, atom)
			}
			switch el := s.Else.(type) {
			case nil:
			case *ast.BlockStmt:
				if terminates(el) {
					return fi.evalBoolStmts(el.List, env, atom)
				}
				return false, false
			case *ast.IfStmt:
				return fi.evalBoolStmts([]ast.Stmt{el}, env, atom)
			}
		default:
			return false, false
		}
	}
	return false, false
}

// evalCondLit is evalCond that also knows the literals true and false.
func evalCondLit(e ast.Expr, env map[string]bool, atom func(ast.Expr) (string, bool)) (bool, bool) {
	return evalCond(e, env, func(x ast.Expr) (string, bool) {
		if id, ok := ast.Unparen(x).(*ast.Ident); ok && (id.Name == "true" || id.Name == "false") {
			env["\x00lit"] = true
			return "\x00lit", id.Name == "true"
		}
		return atom(x)
	})
}
